// Command instr is the AST instrumenter of the vsched engine.
//
//	go run ./instr -out work/instr/<name> -pkgs <comma separated patterns, relative to /repo or import paths>
//
// It loads the CURRENT working-tree files of the listed /repo packages with
// full type information, rewrites every synchronisation / channel / goroutine
// / map-range / process-fatal construct into calls to verif/vrt and
// verif/vsync (DESIGN.md §2.1), writes the rewritten copies below -out
// together with overlay.json for `go build -overlay`, and prints the inventory
// of primitives found per package (also written to inventory.json).
//
// A construct it does not understand is an error: exit status 2, nothing that
// could be mistaken for a usable build.
package main

import (
	"bytes"
	"encoding/json"
	"flag"
	"fmt"
	"go/ast"
	"go/constant"
	"go/printer"
	"go/token"
	"go/types"
	"os"
	"path/filepath"
	"sort"
	"strings"

	"golang.org/x/tools/go/ast/astutil"
	"golang.org/x/tools/go/packages"
)

const (
	vrtPath   = "verif/vrt"
	vrtName   = "vsched_rt"
	vsyncPath = "verif/vsync"
)

var importRewrite = map[string]string{
	"golang.org/x/sync/errgroup":  "verif/vx/errgroup",
	"golang.org/x/sync/semaphore": "verif/vx/semaphore",
}

var dropMapHints = true

var syncAllowed = map[string]bool{"Mutex": true, "RWMutex": true, "WaitGroup": true, "Once": true, "Pool": true, "Locker": true, "Map": true}

type pkgInv struct {
	Counts   map[string]int `json:"counts"`
	MapKeys  map[string]int `json:"map_range_key_types,omitempty"`
	Notes    []string       `json:"notes,omitempty"`
	Files    int            `json:"files"`
	Problems []string       `json:"problems,omitempty"`
}

type rewriter struct {
	fset     *token.FileSet
	pkg      *packages.Package
	info     *types.Info
	inv      *pkgInv
	instr    map[string]bool // import paths being instrumented
	modPath  string
	needVrt  bool
	tmp      int
	allowRec bool
	file     string
	made     map[*ast.CallExpr]string // vrt calls created by the rewrite
}

func (r *rewriter) pos(n ast.Node) string {
	p := r.fset.Position(n.Pos())
	return fmt.Sprintf("%s:%d", p.Filename, p.Line)
}

func (r *rewriter) problem(n ast.Node, format string, a ...any) {
	r.inv.Problems = append(r.inv.Problems, r.pos(n)+": "+fmt.Sprintf(format, a...))
}

func (r *rewriter) count(k string) { r.inv.Counts[k]++ }

func (r *rewriter) vrt(name string) ast.Expr {
	r.needVrt = true
	return &ast.SelectorExpr{X: ast.NewIdent(vrtName), Sel: ast.NewIdent(name)}
}

func (r *rewriter) call(name string, args ...ast.Expr) *ast.CallExpr {
	c := &ast.CallExpr{Fun: r.vrt(name), Args: args}
	if r.made == nil {
		r.made = map[*ast.CallExpr]string{}
	}
	r.made[c] = name
	return c
}

// madeCall recognises a call created by the rewrite.
func (r *rewriter) madeCall(e ast.Expr, name string) (*ast.CallExpr, bool) {
	c, ok := unparen(e).(*ast.CallExpr)
	if !ok || r.made[c] != name {
		return nil, false
	}
	return c, true
}

func (r *rewriter) fresh(prefix string) *ast.Ident {
	r.tmp++
	return ast.NewIdent(fmt.Sprintf("_vs_%s%d", prefix, r.tmp))
}

func unparen(e ast.Expr) ast.Expr {
	for {
		p, ok := e.(*ast.ParenExpr)
		if !ok {
			return e
		}
		e = p.X
	}
}

func isRecv(e ast.Expr) (*ast.UnaryExpr, bool) {
	u, ok := unparen(e).(*ast.UnaryExpr)
	if ok && u.Op == token.ARROW {
		return u, true
	}
	return nil, false
}

func (r *rewriter) isBuiltin(fun ast.Expr, name string) bool {
	id, ok := unparen(fun).(*ast.Ident)
	if !ok || id.Name != name {
		return false
	}
	_, ok = r.info.Uses[id].(*types.Builtin)
	return ok
}

func (r *rewriter) typeOf(e ast.Expr) types.Type {
	if tv, ok := r.info.Types[e]; ok {
		return tv.Type
	}
	if id, ok := e.(*ast.Ident); ok {
		if o := r.info.ObjectOf(id); o != nil {
			return o.Type()
		}
	}
	return nil
}

func isChan(t types.Type) bool {
	if t == nil {
		return false
	}
	_, ok := t.Underlying().(*types.Chan)
	return ok
}

// pkgOf returns the import path when e is a qualified identifier pkg.Name.
func (r *rewriter) pkgSel(e ast.Expr) (path, name string, ok bool) {
	s, isSel := unparen(e).(*ast.SelectorExpr)
	if !isSel {
		return
	}
	id, isId := s.X.(*ast.Ident)
	if !isId {
		return
	}
	pn, isPkg := r.info.Uses[id].(*types.PkgName)
	if !isPkg {
		return
	}
	return pn.Imported().Path(), s.Sel.Name, true
}

// rewriteFile rewrites one file in place.
func (r *rewriter) rewriteFile(f *ast.File) {
	r.needVrt = false
	// directives other than build constraints cannot survive the comment stripping
	for _, cg := range f.Comments {
		for _, c := range cg.List {
			if strings.HasPrefix(c.Text, "//go:") && !strings.HasPrefix(c.Text, "//go:build") && !strings.HasPrefix(c.Text, "//go:generate") {
				r.problem(c, "compiler directive %q is not supported by the instrumenter", c.Text)
			}
		}
	}
	for _, imp := range f.Imports {
		p := strings.Trim(imp.Path.Value, `"`)
		switch {
		case p == "sync":
			imp.Path.Value = fmt.Sprintf("%q", vsyncPath)
			if imp.Name == nil {
				imp.Name = ast.NewIdent("sync")
			}
			r.count("import sync -> vsync")
		case p == "sync/atomic":
			r.problem(imp, "sync/atomic is not modelled")
		case importRewrite[p] != "":
			imp.Path.Value = fmt.Sprintf("%q", importRewrite[p])
			r.count("import " + p + " -> " + importRewrite[p])
		case p == "C" || p == "unsafe":
			r.problem(imp, "import %q is not supported in instrumented packages", p)
		}
	}

	pre := func(c *astutil.Cursor) bool {
		switch n := c.Node().(type) {
		case *ast.AssignStmt:
			// v, ok := <-ch  /  v, ok = <-ch
			if len(n.Lhs) == 2 && len(n.Rhs) == 1 {
				if u, ok := isRecv(n.Rhs[0]); ok {
					r.count("recv (comma ok)")
					n.Rhs[0] = r.call("Recv2", u.X)
				}
			}
		case *ast.ValueSpec:
			if len(n.Names) == 2 && len(n.Values) == 1 {
				if u, ok := isRecv(n.Values[0]); ok {
					r.count("recv (comma ok)")
					n.Values[0] = r.call("Recv2", u.X)
				}
			}
		case *ast.RangeStmt:
			t := r.typeOf(n.X)
			if t == nil {
				r.problem(n, "range over an expression without type information")
				break
			}
			switch u := t.Underlying().(type) {
			case *types.Chan:
				r.count("range over channel")
				n.X = r.call("Range", n.X)
			case *types.Map:
				r.count("range over map")
				r.inv.MapKeys[types.TypeString(u.Key(), nil)]++
				if !orderable(u.Key()) {
					r.inv.Notes = append(r.inv.Notes, fmt.Sprintf("%s: map key type %s has no canonical order by itself (vrt.KeyOrder needed when such a map has > 1 entry)", r.pos(n), u.Key()))
				}
				n.X = r.call("MapRange", n.X)
			case *types.Signature:
				r.problem(n, "range over a function is not supported")
			}
		case *ast.SelectorExpr:
			r.checkSelector(n)
		}
		return true
	}

	post := func(c *astutil.Cursor) bool {
		switch n := c.Node().(type) {
		case *ast.UnaryExpr:
			if n.Op == token.ARROW {
				r.count("recv")
				c.Replace(r.call("Recv", n.X))
			}
		case *ast.SendStmt:
			r.count("send")
			c.Replace(&ast.ExprStmt{X: r.call("Send", n.Chan, n.Value)})
		case *ast.CallExpr:
			r.rewriteCall(c, n)
		case *ast.GoStmt:
			r.count("go statement")
			c.Replace(r.rewriteGo(n))
		case *ast.FuncDecl:
			if n.Body != nil {
				r.tick(n.Body)
			}
		case *ast.FuncLit:
			r.tick(n.Body)
		case *ast.ForStmt:
			r.tick(n.Body)
		case *ast.RangeStmt:
			r.tick(n.Body)
		case *ast.SelectStmt:
			// operands and bodies have been rewritten already
			c.Replace(r.rewriteSelect(n))
		}
		return true
	}
	astutil.Apply(f, pre, post)
	for _, p := range []string{"log", "runtime"} {
		if !astutil.UsesImport(f, p) {
			astutil.DeleteImport(r.fset, f, p)
		}
	}
	if r.needVrt {
		astutil.AddNamedImport(r.fset, f, vrtName, vrtPath)
	}
}

func (r *rewriter) tick(b *ast.BlockStmt) {
	if b == nil {
		return
	}
	r.count("tick sites")
	b.List = append([]ast.Stmt{&ast.ExprStmt{X: r.call("Tick")}}, b.List...)
}

func orderable(t types.Type) bool {
	switch u := t.Underlying().(type) {
	case *types.Basic:
		return true
	case *types.Struct:
		for i := 0; i < u.NumFields(); i++ {
			if !orderable(u.Field(i).Type()) {
				return false
			}
		}
		return true
	case *types.Array:
		return orderable(u.Elem())
	}
	return false
}

func (r *rewriter) checkSelector(n *ast.SelectorExpr) {
	path, name, ok := r.pkgSel(n)
	if !ok {
		// method on reflect.Value that performs channel operations
		if sel := r.info.Selections[n]; sel != nil {
			if named, ok := sel.Recv().(*types.Named); ok && named.Obj().Pkg() != nil && named.Obj().Pkg().Path() == "reflect" {
				switch n.Sel.Name {
				case "Send", "Recv", "TrySend", "TryRecv", "Close":
					r.problem(n, "reflect-based channel operation %s", n.Sel.Name)
				}
			}
		}
		return
	}
	switch path {
	case "sync":
		if !syncAllowed[name] {
			r.problem(n, "sync.%s is not modelled by vsync", name)
		} else {
			r.count("sync." + name)
		}
	case "reflect":
		switch name {
		case "Select", "MakeChan", "ChanOf":
			r.problem(n, "reflect.%s: reflect-based channel use", name)
		}
	case "time":
		switch name {
		case "After", "Tick", "NewTimer", "NewTicker", "AfterFunc", "Sleep":
			r.problem(n, "time.%s: timers are not modelled", name)
		}
	case "context":
		switch name {
		case "WithTimeout", "WithDeadline", "AfterFunc", "WithTimeoutCause", "WithDeadlineCause":
			r.problem(n, "context.%s: timers are not modelled", name)
		case "WithCancel", "WithCancelCause":
			r.problem(n, "context.%s inside an instrumented package: the cancel call must be preceded by vrt.ForeignEffect()", name)
		}
	case "os":
		if name == "Exit" {
			r.problem(n, "os.Exit")
		}
	case "runtime":
		switch name {
		case "GOMAXPROCS", "Gosched":
		default:
			r.problem(n, "runtime.%s is not modelled", name)
		}
	}
}

func (r *rewriter) rewriteCall(c *astutil.Cursor, n *ast.CallExpr) {
	switch {
	case r.isBuiltin(n.Fun, "close") && len(n.Args) == 1:
		r.count("close")
		c.Replace(r.call("Close", n.Args[0]))
		return
	case (r.isBuiltin(n.Fun, "len") || r.isBuiltin(n.Fun, "cap")) && len(n.Args) == 1:
		t := r.typeOf(n.Args[0])
		if t == nil {
			if _, isCall := n.Args[0].(*ast.CallExpr); isCall {
				r.problem(n, "len/cap of a rewritten expression: cannot decide whether it is a channel")
			}
			return
		}
		if isChan(t) {
			name := "Len"
			if r.isBuiltin(n.Fun, "cap") {
				name = "Cap"
			}
			r.count(strings.ToLower(name) + " of channel")
			c.Replace(r.call(name, n.Args[0]))
		}
		return
	case r.isBuiltin(n.Fun, "make") && len(n.Args) >= 1:
		t := r.typeOf(n.Args[0])
		if t != nil && dropMapHints && len(n.Args) == 2 {
			if _, isMap := t.Underlying().(*types.Map); isMap {
				// a capacity hint only sizes the allocation; fresh instances are built per
				// execution, so large hints (memory.initialAllocation = 10000 x 7 maps)
				// would dominate the cost of every schedule
				if tv, ok := r.info.Types[n.Args[1]]; ok && tv.Value != nil {
					r.count("make(map, constant hint) -> hint dropped")
					n.Args = n.Args[:1]
				}
				return
			}
		}
		if !isChan(t) {
			return
		}
		ct, ok := unparen(n.Args[0]).(*ast.ChanType)
		if !ok || ct.Dir != ast.SEND|ast.RECV {
			r.problem(n, "make of a named or directional channel type %s", types.TypeString(t, nil))
			return
		}
		r.count("make(chan)")
		fun := &ast.IndexExpr{X: r.vrt("MakeChan"), Index: ct.Value}
		c.Replace(&ast.CallExpr{Fun: fun, Args: n.Args[1:]})
		return
	case r.isBuiltin(n.Fun, "recover"):
		r.count("recover()")
		if !r.allowRec {
			r.problem(n, "recover() could swallow the runtime's unwinding (use -allow-recover after review)")
		}
		return
	}
	if path, name, ok := r.pkgSel(n.Fun); ok {
		switch {
		case path == "runtime" && name == "GOMAXPROCS":
			if len(n.Args) == 1 {
				if tv, ok := r.info.Types[n.Args[0]]; ok && tv.Value != nil && constant.Sign(tv.Value) == 0 {
					r.count("runtime.GOMAXPROCS(0)")
					c.Replace(r.call("Procs"))
					return
				}
			}
			r.problem(n, "runtime.GOMAXPROCS with a non-zero argument")
		case path == "runtime" && name == "Gosched":
			r.count("runtime.Gosched")
			c.Replace(r.call("Yield"))
		case path == "log" && (name == "Fatalf" || name == "Fatal" || name == "Fatalln"):
			r.count("log." + name)
			tgt := "Fatalf"
			if name != "Fatalf" {
				tgt = "Fatal"
			}
			c.Replace(&ast.CallExpr{Fun: r.vrt(tgt), Args: n.Args, Ellipsis: n.Ellipsis})
		case path == "log" && strings.HasPrefix(name, "Panic"):
			// a panic: observed by the runtime like any other
		}
	}
	// channels handed to code that is not instrumented
	r.checkChanEscape(n)
}

// checkChanEscape: a statically known callee outside the instrumented set that
// takes a channel would operate on it natively, invisible to the scheduler.
func (r *rewriter) checkChanEscape(n *ast.CallExpr) {
	var obj types.Object
	switch f := unparen(n.Fun).(type) {
	case *ast.Ident:
		obj = r.info.Uses[f]
	case *ast.SelectorExpr:
		obj = r.info.Uses[f.Sel]
	}
	fn, ok := obj.(*types.Func)
	if !ok || fn.Pkg() == nil {
		return
	}
	p := fn.Pkg().Path()
	if r.instr[p] || p == vrtPath || p == vsyncPath || strings.HasPrefix(p, "verif/vx/") {
		return
	}
	sig, _ := fn.Type().(*types.Signature)
	if sig == nil {
		return
	}
	// interface methods are dynamic: the implementations must be instrumented (README)
	if sig.Recv() != nil {
		if _, isIface := sig.Recv().Type().Underlying().(*types.Interface); isIface {
			for i := 0; i < sig.Params().Len(); i++ {
				if isChan(sig.Params().At(i).Type()) {
					r.count("channel passed through interface method " + fn.Name())
					return
				}
			}
			return
		}
	}
	for i := 0; i < sig.Params().Len(); i++ {
		if isChan(sig.Params().At(i).Type()) {
			r.problem(n, "channel passed to %s.%s, a package that is not instrumented", p, fn.Name())
			return
		}
	}
}

// go f(a, b)  ->  { _f := f; _a0 := a; _a1 := b; vrt.Go(func() { _f(_a0, _a1) }) }
func (r *rewriter) rewriteGo(n *ast.GoStmt) ast.Stmt {
	call := n.Call
	if id, ok := unparen(call.Fun).(*ast.Ident); ok {
		if _, isB := r.info.Uses[id].(*types.Builtin); isB {
			r.problem(n, "go statement on builtin %s", id.Name)
			return n
		}
	}
	if tv, ok := r.info.Types[call.Fun]; ok && tv.IsType() {
		r.problem(n, "go statement on a conversion")
		return n
	}
	var stmts []ast.Stmt
	var fun ast.Expr
	if fl, ok := unparen(call.Fun).(*ast.FuncLit); ok && len(call.Args) == 0 && fl.Type.Results == nil {
		// go func() { ... }()
		return &ast.ExprStmt{X: r.call("Go", fl)}
	}
	f := r.fresh("f")
	stmts = append(stmts, &ast.AssignStmt{Lhs: []ast.Expr{f}, Tok: token.DEFINE, Rhs: []ast.Expr{call.Fun}})
	fun = f
	var args []ast.Expr
	for _, a := range call.Args {
		inline := false
		if tv, ok := r.info.Types[a]; ok && (tv.Value != nil || tv.IsNil()) {
			inline = true
		}
		if inline {
			args = append(args, a)
			continue
		}
		t := r.fresh("a")
		stmts = append(stmts, &ast.AssignStmt{Lhs: []ast.Expr{t}, Tok: token.DEFINE, Rhs: []ast.Expr{a}})
		args = append(args, t)
	}
	inner := &ast.CallExpr{Fun: fun, Args: args}
	if call.Ellipsis.IsValid() {
		inner.Ellipsis = 1
	}
	lit := &ast.FuncLit{Type: &ast.FuncType{Params: &ast.FieldList{}}, Body: &ast.BlockStmt{List: []ast.Stmt{&ast.ExprStmt{X: inner}}}}
	stmts = append(stmts, &ast.ExprStmt{X: r.call("Go", lit)})
	return &ast.BlockStmt{List: stmts}
}

// select { case v, ok := <-a: A; case b <- x: B; default: D }
//
//	->  switch _c0, _c1 := vrt.RecvCase(a), vrt.SendCase(b, x); vrt.Select(true, _c0, _c1) {
//	    case 0: v, ok := _c0.Value(); A
//	    case 1: B
//	    default: D }
func (r *rewriter) rewriteSelect(n *ast.SelectStmt) ast.Stmt {
	r.count("select")
	var lhs, rhs []ast.Expr
	var clauses []ast.Stmt
	hasDefault := false
	idx := 0
	for _, st := range n.Body.List {
		cc := st.(*ast.CommClause)
		if cc.Comm == nil {
			hasDefault = true
			r.count("select default clause")
			clauses = append(clauses, &ast.CaseClause{List: nil, Body: cc.Body})
			continue
		}
		cv := r.fresh("c")
		var pre []ast.Stmt
		switch cm := cc.Comm.(type) {
		case *ast.ExprStmt:
			if sc, ok := r.madeCall(cm.X, "Send"); ok {
				r.count("select send clause")
				r.inv.Counts["send"]--
				lhs, rhs = append(lhs, cv), append(rhs, r.call("SendCase", sc.Args...))
				break
			}
			rc, ok := r.madeCall(cm.X, "Recv")
			if !ok {
				r.problem(cm, "select clause of unusual form")
				return n
			}
			r.count("select recv clause")
			r.inv.Counts["recv"]--
			lhs, rhs = append(lhs, cv), append(rhs, r.call("RecvCase", rc.Args...))
		case *ast.AssignStmt:
			if len(cm.Rhs) != 1 || len(cm.Lhs) < 1 || len(cm.Lhs) > 2 {
				r.problem(cm, "select clause of unusual form")
				return n
			}
			rc, ok := r.madeCall(cm.Rhs[0], "Recv")
			if ok {
				r.inv.Counts["recv"]--
			} else if rc, ok = r.madeCall(cm.Rhs[0], "Recv2"); ok {
				r.inv.Counts["recv (comma ok)"]--
			}
			if !ok {
				r.problem(cm, "select clause of unusual form")
				return n
			}
			r.count("select recv clause")
			lhs, rhs = append(lhs, cv), append(rhs, r.call("RecvCase", rc.Args...))
			tok := cm.Tok
			allBlank := true
			for _, l := range cm.Lhs {
				if id, ok := l.(*ast.Ident); !ok || id.Name != "_" {
					allBlank = false
				}
			}
			if allBlank {
				tok = token.ASSIGN
			}
			m := "Val"
			if len(cm.Lhs) == 2 {
				m = "Value"
			}
			pre = append(pre, &ast.AssignStmt{Lhs: cm.Lhs, Tok: tok, Rhs: []ast.Expr{
				&ast.CallExpr{Fun: &ast.SelectorExpr{X: cv, Sel: ast.NewIdent(m)}}}})
		default:
			r.problem(cc, "select clause of unusual form")
			return n
		}
		clauses = append(clauses, &ast.CaseClause{
			List: []ast.Expr{&ast.BasicLit{Kind: token.INT, Value: fmt.Sprint(idx)}},
			Body: append(pre, cc.Body...)})
		idx++
	}
	def := "false"
	if hasDefault {
		def = "true"
	}
	args := append([]ast.Expr{ast.NewIdent(def)}, lhs...)
	sw := &ast.SwitchStmt{Tag: r.call("Select", args...), Body: &ast.BlockStmt{List: clauses}}
	if len(lhs) > 0 {
		sw.Init = &ast.AssignStmt{Lhs: lhs, Tok: token.DEFINE, Rhs: rhs}
	}
	return sw
}

// ---- driver -------------------------------------------------------------------

func die(format string, a ...any) {
	fmt.Fprintf(os.Stderr, "instr: "+format+"\n", a...)
	os.Exit(2)
}

func main() {
	out := flag.String("out", "", "output directory (rewritten files, overlay.json, inventory.json)")
	pkgs := flag.String("pkgs", "", "comma separated package patterns, relative to -repo (./storage/...) or import paths")
	exclude := flag.String("exclude", "", "comma separated import paths to leave native")
	repo := flag.String("repo", "/repo", "repository root")
	overlayRoot := flag.String("overlay-root", "", "write overlay keys as if the files lived under this root instead of -repo (instrument a scratch worktree, build against /repo)")
	allowRecover := flag.Bool("allow-recover", false, "accept recover() calls")
	quiet := flag.Bool("q", false, "do not print the inventory")
	flag.BoolVar(&dropMapHints, "drop-map-hints", true, "drop constant capacity hints of make(map[K]V, n)")
	flag.Parse()
	if *out == "" || *pkgs == "" {
		die("usage: instr -out DIR -pkgs LIST")
	}
	absOut, _ := filepath.Abs(*out)
	os.RemoveAll(absOut)
	if err := os.MkdirAll(absOut, 0o755); err != nil {
		die("%v", err)
	}
	fset := token.NewFileSet()
	cfg := &packages.Config{
		Mode: packages.NeedName | packages.NeedFiles | packages.NeedCompiledGoFiles | packages.NeedSyntax |
			packages.NeedTypes | packages.NeedTypesInfo | packages.NeedImports | packages.NeedModule,
		Dir:  *repo,
		Fset: fset,
		Env:  append(os.Environ(), "GOFLAGS=-mod=mod", "GOPROXY=off"),
	}
	loaded, err := packages.Load(cfg, strings.Split(*pkgs, ",")...)
	if err != nil {
		die("load: %v", err)
	}
	ex := map[string]bool{}
	for _, e := range strings.Split(*exclude, ",") {
		if e != "" {
			ex[e] = true
		}
	}
	var list []*packages.Package
	instr := map[string]bool{}
	for _, p := range loaded {
		if len(p.Errors) > 0 {
			die("package %s does not type-check: %v", p.PkgPath, p.Errors)
		}
		if ex[p.PkgPath] {
			continue
		}
		list = append(list, p)
		instr[p.PkgPath] = true
	}
	sort.Slice(list, func(i, j int) bool { return list[i].PkgPath < list[j].PkgPath })
	if len(list) == 0 {
		die("no packages matched %q", *pkgs)
	}
	overlay := map[string]string{}
	inventory := map[string]*pkgInv{}
	failed := false
	for _, p := range list {
		inv := &pkgInv{Counts: map[string]int{}, MapKeys: map[string]int{}}
		inventory[p.PkgPath] = inv
		if len(p.CompiledGoFiles) != len(p.Syntax) {
			die("package %s: %d files but %d syntax trees", p.PkgPath, len(p.CompiledGoFiles), len(p.Syntax))
		}
		for i, f := range p.Syntax {
			orig := p.CompiledGoFiles[i]
			if !strings.HasSuffix(orig, ".go") {
				die("package %s: unsupported file %s", p.PkgPath, orig)
			}
			r := &rewriter{fset: fset, pkg: p, info: p.TypesInfo, inv: inv, instr: instr, allowRec: *allowRecover, file: orig}
			// keep build constraints, drop every other comment (replaced nodes have no positions)
			var head []string
			for _, cg := range f.Comments {
				if cg.Pos() < f.Package {
					for _, c := range cg.List {
						if strings.HasPrefix(c.Text, "//go:build") || strings.HasPrefix(c.Text, "// +build") {
							head = append(head, c.Text)
						}
					}
				}
			}
			r.rewriteFile(f)
			f.Comments = nil
			f.Doc = nil
			var buf bytes.Buffer
			fmt.Fprintf(&buf, "// Code generated by verif/instr from %s; DO NOT EDIT.\n", orig)
			for _, h := range head {
				buf.WriteString(h + "\n")
			}
			buf.WriteString("\n")
			if err := (&printer.Config{Mode: printer.UseSpaces | printer.TabIndent, Tabwidth: 8}).Fprint(&buf, fset, stripDocs(f)); err != nil {
				die("print %s: %v", orig, err)
			}
			rel, err := filepath.Rel(*repo, orig)
			if err != nil || strings.HasPrefix(rel, "..") {
				rel = filepath.Join("_ext", strings.ReplaceAll(p.PkgPath, "/", "_"), filepath.Base(orig))
			}
			dst := filepath.Join(absOut, rel)
			os.MkdirAll(filepath.Dir(dst), 0o755)
			if err := os.WriteFile(dst, buf.Bytes(), 0o644); err != nil {
				die("%v", err)
			}
			key := orig
			if *overlayRoot != "" && !strings.HasPrefix(rel, "_ext") {
				key = filepath.Join(*overlayRoot, rel)
			}
			overlay[key] = dst
			inv.Files++
		}
		if len(inv.Problems) > 0 {
			failed = true
		}
	}
	ob, _ := json.MarshalIndent(map[string]any{"Replace": overlay}, "", " ")
	os.WriteFile(filepath.Join(absOut, "overlay.json"), ob, 0o644)
	ib, _ := json.MarshalIndent(inventory, "", " ")
	os.WriteFile(filepath.Join(absOut, "inventory.json"), ib, 0o644)
	if !*quiet || failed {
		for _, p := range list {
			inv := inventory[p.PkgPath]
			var ks []string
			for k := range inv.Counts {
				ks = append(ks, k)
			}
			sort.Strings(ks)
			var parts []string
			for _, k := range ks {
				parts = append(parts, fmt.Sprintf("%s=%d", k, inv.Counts[k]))
			}
			fmt.Printf("instr %s (%d files): %s\n", p.PkgPath, inv.Files, strings.Join(parts, ", "))
			if len(inv.MapKeys) > 0 {
				fmt.Printf("  map-range key types: %v\n", inv.MapKeys)
			}
			for _, n := range inv.Notes {
				fmt.Printf("  note: %s\n", n)
			}
			for _, pr := range inv.Problems {
				fmt.Printf("  UNSUPPORTED: %s\n", pr)
			}
		}
	}
	if failed {
		os.Remove(filepath.Join(absOut, "overlay.json"))
		die("constructs that cannot be controlled were found; no overlay written")
	}
}

// stripDocs removes doc comments hanging off declarations (their positions
// would otherwise drag stale text into the output).
func stripDocs(f *ast.File) *ast.File {
	ast.Inspect(f, func(n ast.Node) bool {
		switch d := n.(type) {
		case *ast.FuncDecl:
			d.Doc = nil
		case *ast.GenDecl:
			d.Doc = nil
		case *ast.TypeSpec:
			d.Doc, d.Comment = nil, nil
		case *ast.ValueSpec:
			d.Doc, d.Comment = nil, nil
		case *ast.Field:
			d.Doc, d.Comment = nil, nil
		case *ast.ImportSpec:
			d.Doc, d.Comment = nil, nil
		}
		return true
	})
	return f
}
