// Package explore is the stateless model checker on top of verif/vrt: a
// depth-first search over choice sequences. An execution is identified by the
// option index taken at every step; the explorer re-executes a recorded prefix
// and continues with the default option (index 0) everywhere.
//
// Modes
//
//	Bounded    every execution with at most Bound deviations (a deviation is any
//	           step that does not take option 0; with FreeSwitch a switch away
//	           from a thread that cannot continue is free, i.e. classic
//	           preemption bounding). No partial-order reduction.
//	SleepSets  unbounded search with sleep sets: one execution per
//	           Mazurkiewicz trace (plus sleep-set-blocked partial runs that are
//	           cut as soon as they are recognised). Independence: different
//	           threads and no common runtime object (reader-side RWMutex
//	           operations on one lock commute).
//
// The two are never combined.
package explore

import (
	"fmt"
	"sort"
	"time"

	"verif/vrt"
)

type Mode string

const (
	Bounded   Mode = "bounded"
	SleepSets Mode = "sleepsets"
)

// Options of one exploration.
type Options struct {
	Mode       Mode       `json:"mode"`
	Bound      int        `json:"bound"`       // Bounded: maximal number of deviations
	OnlyLevel  bool       `json:"only_level"`  // Bounded: evaluate only executions with exactly Bound deviations (lower levels were done by an earlier iteration)
	FreeSwitch bool       `json:"free_switch"` // Bounded: non-preemptive context switches cost nothing
	Shard      int        `json:"shard"`
	Shards     int        `json:"shards"`   // 0/1 = no sharding
	SplitAt    int        `json:"split_at"` // SleepSets: number of branching steps that form the shared top of the tree
	Cfg        vrt.Config `json:"cfg"`
	DeadlineMs int64      `json:"deadline_ms"` // unix ms; 0 = none
	MaxExecs   int        `json:"max_execs"`   // 0 = unlimited
	KeepHB     int        `json:"keep_hb"`     // return at most this many HB fingerprints (for merging)
	Confirm    int        `json:"confirm"`     // re-executions of a failing schedule before it is reported (default 5)
}

// Verdict is one oracle failure on one execution.
type Verdict struct {
	Class  string `json:"class"`
	Shape  string `json:"shape"`
	Detail string `json:"detail"`
	// Info marks an informational observation (never a violation).
	Info bool `json:"info,omitempty"`
}

// Exec is one fresh instance of a scenario.
type Exec struct {
	Body func()
	// Check evaluates the oracles after the execution (natively). outcome is a
	// short canonical description of what was observed (for the distinct
	// outcomes count).
	Check func(out *vrt.Outcome) (verdicts []Verdict, outcome string)
}

// Failure is a failing execution, replayable through its Choices.
type Failure struct {
	Verdict
	Choices []int       `json:"choices"`
	Trace   string      `json:"trace"`
	Outcome vrt.Outcome `json:"outcome"`
	Count   int         `json:"count"`
}

// Result of an exploration.
type Result struct {
	Scenario     string         `json:"scenario"`
	Mode         Mode           `json:"mode"`
	Bound        int            `json:"bound"`
	Executions   int            `json:"executions"`   // complete executions evaluated (owned by this shard)
	Reexecutions int            `json:"reexecutions"` // executions run only to rediscover choice points (lower levels / shared top)
	Pruned       int            `json:"pruned"`       // runs cut by the sleep sets or because another shard owns the subtree
	MaxSteps     int            `json:"max_steps"`
	TotalSteps   int64          `json:"total_steps"`
	MaxThreads   int            `json:"max_threads"`
	DistinctHB   int            `json:"distinct_hb"`
	HBSet        []uint64       `json:"hb_set,omitempty"`
	HBTruncated  bool           `json:"hb_truncated,omitempty"`
	Outcomes     map[string]int `json:"outcomes"`
	Statuses     map[string]int `json:"statuses"`
	Complete     bool           `json:"complete"` // the search space of this shard was exhausted
	Failures     []Failure      `json:"failures,omitempty"`
	Infos        []Failure      `json:"infos,omitempty"`
	Nondet       string         `json:"nondeterminism,omitempty"`
	WallMs       int64          `json:"wall_ms"`
	SampleTrace  string         `json:"sample_trace,omitempty"` // op trace of the first evaluated execution
}

type frame struct {
	opts       []vrt.Opt
	sig        uint64
	chosen     int
	costBefore int
	free       bool      // all options cost 0 here (FreeSwitch and the running thread cannot continue)
	sleep      []vrt.Opt // SleepSets: sleep set on entry
	done       []vrt.Opt // SleepSets: options already explored from here
	branch     int       // number of branching frames before this one
	cands      int       // number of candidate options (not asleep)
}

func sigOf(opts []vrt.Opt) uint64 {
	h := uint64(len(opts)) * 0x9E3779B97F4A7C15
	for _, o := range opts {
		h = (h ^ o.Sig()) * 1099511628211
	}
	return h
}

// Independent reports whether two options commute.
func Independent(a, b vrt.Opt) bool {
	if a.Tid == b.Tid {
		return false
	}
	if a.Many || b.Many {
		return false
	}
	for _, x := range a.Objs {
		if x == 0 {
			continue
		}
		for _, y := range b.Objs {
			if x == y && !(a.Read && b.Read) {
				return false
			}
		}
	}
	return true
}

func sameOpt(a, b vrt.Opt) bool { return a.Tid == b.Tid && a.Alt == b.Alt && a.Kind == b.Kind }

func inSet(set []vrt.Opt, o vrt.Opt) bool {
	for _, z := range set {
		if sameOpt(z, o) {
			return true
		}
	}
	return false
}

type explorer struct {
	opt      Options
	stack    []frame
	depth    int
	diverged string
	notOwned bool
	blocked  bool
}

func (f *frame) cost(i int) int {
	if i == 0 || f.free {
		return 0
	}
	return 1
}

func (e *explorer) hashPrefix(n int) uint64 {
	h := uint64(1469598103934665603)
	for i := 0; i < n; i++ {
		if c := e.stack[i].chosen; c != 0 {
			h = (h ^ uint64(i)<<20 ^ uint64(c)) * 1099511628211
			h ^= h >> 31
		}
	}
	return h
}

func (e *explorer) owns(h uint64) bool {
	if e.opt.Shards <= 1 {
		return true
	}
	return int(h%uint64(e.opt.Shards)) == e.opt.Shard
}

// Pick implements vrt.Chooser.
func (e *explorer) Pick(p *vrt.Point) int {
	d := e.depth
	e.depth++
	sig := sigOf(p.Opts)
	if d < len(e.stack) {
		f := &e.stack[d]
		if f.sig != sig {
			e.diverged = fmt.Sprintf("step %d: recorded options %v, replay offers %v", d, f.opts, p.Opts)
			return -1
		}
		return f.chosen
	}
	f := frame{opts: append([]vrt.Opt(nil), p.Opts...), sig: sig}
	if d > 0 {
		pf := &e.stack[d-1]
		f.costBefore = pf.costBefore + pf.cost(pf.chosen)
		f.branch = pf.branch
		if pf.cands > 1 {
			f.branch++
		}
	}
	switch e.opt.Mode {
	case Bounded:
		f.free = e.opt.FreeSwitch && !p.CurEnabled
		f.cands = len(f.opts)
	case SleepSets:
		if d > 0 {
			pf := &e.stack[d-1]
			ch := pf.opts[pf.chosen]
			for _, z := range pf.sleep {
				if Independent(z, ch) {
					f.sleep = append(f.sleep, z)
				}
			}
			for _, z := range pf.done {
				if Independent(z, ch) && !inSet(f.sleep, z) {
					f.sleep = append(f.sleep, z)
				}
			}
		}
		// shared top of the tree: subtrees below SplitAt branching steps are owned by one shard
		if e.opt.Shards > 1 && f.branch == e.opt.SplitAt && (d == 0 || e.stack[d-1].branch < e.opt.SplitAt) {
			if !e.owns(e.hashPrefix(d)) {
				e.notOwned = true
				return -1
			}
		}
		first := -1
		for i, o := range f.opts {
			if !inSet(f.sleep, o) {
				f.cands++
				if first < 0 {
					first = i
				}
			}
		}
		if first < 0 {
			e.blocked = true
			return -1
		}
		f.chosen = first
	}
	e.stack = append(e.stack, f)
	return f.chosen
}

// next moves the stack to the next unexplored choice sequence; false = done.
func (e *explorer) next() bool {
	for len(e.stack) > 0 {
		f := &e.stack[len(e.stack)-1]
		switch e.opt.Mode {
		case Bounded:
			for i := f.chosen + 1; i < len(f.opts); i++ {
				c := f.costBefore + f.cost(i)
				if c > e.opt.Bound {
					continue
				}
				f.chosen = i
				// leaf level: executions with exactly Bound deviations have no
				// children inside the bound; run them only in the owning shard
				if c == e.opt.Bound && !f.free && !e.opt.FreeSwitch && !e.owns(e.hashPrefix(len(e.stack))) {
					continue
				}
				return true
			}
		case SleepSets:
			f.done = append(f.done, f.opts[f.chosen])
			for i := 0; i < len(f.opts); i++ {
				o := f.opts[i]
				if inSet(f.sleep, o) || inSet(f.done, o) {
					continue
				}
				f.chosen = i
				return true
			}
		}
		e.stack = e.stack[:len(e.stack)-1]
	}
	return false
}

func (e *explorer) choices() []int {
	c := make([]int, len(e.stack))
	for i := range e.stack {
		c[i] = e.stack[i].chosen
	}
	// trailing defaults are implied
	n := len(c)
	for n > 0 && c[n-1] == 0 {
		n--
	}
	return c[:n]
}

func (e *explorer) totalCost() int {
	if len(e.stack) == 0 {
		return 0
	}
	f := &e.stack[len(e.stack)-1]
	return f.costBefore + f.cost(f.chosen)
}

// ReplayChooser follows a recorded choice list, then defaults.
type ReplayChooser struct {
	Choices []int
	i       int
	Bad     string
}

func (r *ReplayChooser) Pick(p *vrt.Point) int {
	i := r.i
	r.i++
	if i < len(r.Choices) {
		if r.Choices[i] >= len(p.Opts) {
			r.Bad = fmt.Sprintf("step %d: recorded choice %d but only %d options %v", i, r.Choices[i], len(p.Opts), p.Opts)
			return -1
		}
		return r.Choices[i]
	}
	return 0
}

// Replay runs one recorded schedule.
func Replay(cfg vrt.Config, mk func() Exec, choices []int) (*vrt.Outcome, []Verdict, string, string) {
	ex := mk()
	rc := &ReplayChooser{Choices: choices}
	out := vrt.Run(cfg, rc, ex.Body)
	var vs []Verdict
	var oc string
	if ex.Check != nil {
		vs, oc = ex.Check(out)
	}
	return out, vs, oc, rc.Bad
}

func sameTrace(a, b []vrt.Event) bool {
	if len(a) != len(b) {
		return false
	}
	for i := range a {
		if a[i] != b[i] {
			return false
		}
	}
	return true
}

// SelfCheck runs the default schedule twice and compares the op traces.
func SelfCheck(cfg vrt.Config, mk func() Exec) string {
	a := vrt.Run(cfg, vrt.DefaultChooser{}, mk().Body)
	b := vrt.Run(cfg, vrt.DefaultChooser{}, mk().Body)
	if a.Status != b.Status || !sameTrace(a.Trace, b.Trace) {
		return fmt.Sprintf("default schedule is not reproducible: run 1 %s (%d events) %s | run 2 %s (%d events) %s",
			a.Status, len(a.Trace), clip(vrt.FormatTrace(a.Trace), 600), b.Status, len(b.Trace), clip(vrt.FormatTrace(b.Trace), 600))
	}
	return ""
}

func clip(s string, n int) string {
	if len(s) > n {
		return s[:n] + "…"
	}
	return s
}

// Explore runs the search. mk must build a fresh instance of the scenario
// (fresh system under test) for every execution.
func Explore(name string, opt Options, mk func() Exec) *Result {
	start := time.Now()
	if opt.Confirm == 0 {
		opt.Confirm = 5
	}
	if opt.Mode == SleepSets && opt.SplitAt == 0 {
		opt.SplitAt = 5
	}
	res := &Result{Scenario: name, Mode: opt.Mode, Bound: opt.Bound, Outcomes: map[string]int{}, Statuses: map[string]int{}}
	defer func() { res.WallMs = time.Since(start).Milliseconds() }()
	if nd := SelfCheck(opt.Cfg, mk); nd != "" {
		res.Nondet = nd
		return res
	}
	e := &explorer{opt: opt}
	hb := map[uint64]struct{}{}
	fails := map[string]*Failure{}
	infos := map[string]*Failure{}
	var forder, iorder []string
	first := true
	for {
		if !first && !e.next() {
			res.Complete = true
			break
		}
		first = false
		if opt.DeadlineMs > 0 && time.Now().UnixMilli() > opt.DeadlineMs {
			break
		}
		if opt.MaxExecs > 0 && res.Executions+res.Reexecutions >= opt.MaxExecs {
			break
		}
		e.depth, e.diverged, e.notOwned, e.blocked = 0, "", false, false
		ex := mk()
		out := vrt.Run(opt.Cfg, e, ex.Body)
		if e.diverged != "" {
			res.Nondet = "replayed prefix diverged: " + e.diverged
			return res
		}
		if out.Status == vrt.StDiverged {
			res.Nondet = "replayed prefix diverged: " + out.Detail
			return res
		}
		if out.Status == vrt.StPruned {
			res.Pruned++
			continue
		}
		// who evaluates this execution?
		cost := e.totalCost()
		evaluate := true
		switch opt.Mode {
		case Bounded:
			if opt.OnlyLevel && cost < opt.Bound {
				evaluate = false
			} else if !e.owns(e.hashPrefix(len(e.stack))) {
				evaluate = false
			}
		case SleepSets:
			if opt.Shards > 1 && len(e.stack) > 0 && e.stack[len(e.stack)-1].branch < opt.SplitAt {
				// finished inside the shared top: evaluated by one shard only
				evaluate = e.owns(e.hashPrefix(len(e.stack)))
			}
		}
		if !evaluate {
			res.Reexecutions++
			continue
		}
		res.Executions++
		if res.SampleTrace == "" {
			res.SampleTrace = clip(vrt.FormatTrace(out.Trace), 1500)
		}
		res.TotalSteps += int64(out.Steps)
		if out.Steps > res.MaxSteps {
			res.MaxSteps = out.Steps
		}
		if out.Threads > res.MaxThreads {
			res.MaxThreads = out.Threads
		}
		res.Statuses[string(out.Status)]++
		hb[out.HB] = struct{}{}
		var vs []Verdict
		oc := ""
		if ex.Check != nil {
			vs, oc = ex.Check(out)
		} else if v := GlobalVerdict("", out); v != nil {
			vs = append(vs, *v)
		}
		if oc != "" {
			res.Outcomes[oc]++
		}
		for _, v := range vs {
			m, order := fails, &forder
			if v.Info {
				m, order = infos, &iorder
			}
			k := v.Class + "|" + v.Shape
			if f, ok := m[k]; ok {
				f.Count++
				continue
			}
			ch := append([]int(nil), e.choices()...)
			// confirm: the schedule must reproduce the same verdict
			for i := 0; i < opt.Confirm; i++ {
				o2, vs2, _, bad := Replay(opt.Cfg, mk, ch)
				found := false
				for _, v2 := range vs2 {
					if v2.Class == v.Class && v2.Shape == v.Shape {
						found = true
					}
				}
				if bad != "" || !found || o2.Status != out.Status {
					res.Nondet = fmt.Sprintf("failing schedule does not reproduce (re-run %d): first %s %s/%s, then status %s verdicts %v %s", i+1, out.Status, v.Class, v.Shape, o2.Status, vs2, bad)
					return res
				}
			}
			// one more run with call sites for the report
			cfg := opt.Cfg
			cfg.Diag = true
			o3, _, _, _ := Replay(cfg, mk, ch)
			o3.Trace = nil
			f := &Failure{Verdict: v, Choices: ch, Trace: clip(vrt.FormatTrace(out.Trace), 4000), Outcome: *o3, Count: 1}
			f.Outcome.Stack = clip(f.Outcome.Stack, 3000)
			m[k] = f
			*order = append(*order, k)
		}
	}
	res.DistinctHB = len(hb)
	if opt.KeepHB > 0 {
		for h := range hb {
			if len(res.HBSet) >= opt.KeepHB {
				res.HBTruncated = true
				break
			}
			res.HBSet = append(res.HBSet, h)
		}
		sort.Slice(res.HBSet, func(i, j int) bool { return res.HBSet[i] < res.HBSet[j] })
	}
	for _, k := range forder {
		res.Failures = append(res.Failures, *fails[k])
	}
	for _, k := range iorder {
		res.Infos = append(res.Infos, *infos[k])
	}
	return res
}

// GlobalVerdict turns a non-ok status into the standard verdict of the global
// oracles (nil when the execution ended normally).
func GlobalVerdict(class string, out *vrt.Outcome) *Verdict {
	switch out.Status {
	case vrt.StOK:
		return nil
	case vrt.StPanic:
		site := out.PanicSite
		return &Verdict{Class: class, Shape: "panic@" + site, Detail: fmt.Sprintf("panic in thread %d: %s\n%s", out.PanicTid, out.Detail, clip(out.Stack, 2500))}
	case vrt.StDeadlock, vrt.StLeak:
		d := fmt.Sprintf("%s: %s", out.Status, out.Detail)
		var kinds []string
		for _, b := range out.Blocked {
			d += fmt.Sprintf("\n  thread %d %q blocked in %s %s", b.Tid, b.Name, b.Pending, b.Site)
			kinds = append(kinds, shapeOf(b))
		}
		sort.Strings(kinds)
		return &Verdict{Class: class, Shape: string(out.Status) + ":" + join(kinds), Detail: d}
	case vrt.StHorizon:
		return &Verdict{Class: class, Shape: "horizon", Detail: out.Detail}
	}
	return &Verdict{Class: class, Shape: string(out.Status), Detail: out.Detail}
}

func shapeOf(b vrt.ThreadInfo) string {
	// the kind of the pending operation without object ids
	p := b.Pending
	for i, c := range p {
		if c == ' ' || c == '#' || c == '{' {
			p = p[:i]
			break
		}
	}
	if b.Name != "" {
		return b.Name + "=" + p
	}
	return p
}

func join(xs []string) string {
	s := ""
	for i, x := range xs {
		if i > 0 {
			s += ","
		}
		s += x
	}
	return s
}
