package explore

import (
	"bytes"
	"encoding/json"
	"fmt"
	"os"
	"os/exec"
	"runtime"
	"sort"
	"sync"
)

// Job is one exploration handed to a worker process. Executions are strictly
// sequential inside a process (the runtime is a process-wide singleton), so the
// 16 cores are used by running one worker process per job.
type Job struct {
	Scenario string  `json:"scenario"`
	Opt      Options `json:"opt"`
}

const workerEnv = "VSCHED_WORKER"

// ServeWorker turns the process into a worker when it was started by RunJobs:
// it reads one Job from stdin, explores, writes the Result to stdout and exits.
// Call it first thing in main.
func ServeWorker(resolve func(name string) func() Exec) {
	if os.Getenv(workerEnv) == "" {
		return
	}
	var j Job
	if err := json.NewDecoder(os.Stdin).Decode(&j); err != nil {
		fmt.Fprintf(os.Stderr, "vsched worker: bad job: %v\n", err)
		os.Exit(2)
	}
	mk := resolve(j.Scenario)
	if mk == nil {
		fmt.Fprintf(os.Stderr, "vsched worker: unknown scenario %q\n", j.Scenario)
		os.Exit(2)
	}
	res := Explore(j.Scenario, j.Opt, mk)
	b, _ := json.Marshal(res)
	os.Stdout.Write(b)
	os.Exit(0)
}

// RunJobs runs every job in its own worker process, at most par at a time
// (0 = number of CPUs), and returns the results in job order.
func RunJobs(jobs []Job, par int) ([]*Result, error) {
	if par <= 0 {
		par = runtime.NumCPU()
	}
	exe, err := os.Executable()
	if err != nil {
		return nil, err
	}
	res := make([]*Result, len(jobs))
	errs := make([]error, len(jobs))
	sem := make(chan struct{}, par)
	var wg sync.WaitGroup
	for i := range jobs {
		wg.Add(1)
		go func(i int) {
			defer wg.Done()
			sem <- struct{}{}
			defer func() { <-sem }()
			in, _ := json.Marshal(jobs[i])
			cmd := exec.Command(exe)
			cmd.Env = append(os.Environ(), workerEnv+"=1", "GOMAXPROCS=2")
			cmd.Stdin = bytes.NewReader(in)
			var out, eb bytes.Buffer
			cmd.Stdout, cmd.Stderr = &out, &eb
			if err := cmd.Run(); err != nil {
				errs[i] = fmt.Errorf("worker for %s shard %d: %v\n%s", jobs[i].Scenario, jobs[i].Opt.Shard, err, clip(eb.String(), 4000))
				return
			}
			var r Result
			if err := json.Unmarshal(out.Bytes(), &r); err != nil {
				errs[i] = fmt.Errorf("worker for %s: unreadable result: %v\n%s", jobs[i].Scenario, err, clip(out.String(), 500))
				return
			}
			res[i] = &r
		}(i)
	}
	wg.Wait()
	for _, e := range errs {
		if e != nil {
			return res, e
		}
	}
	return res, nil
}

// Merge combines the results of the shards of one exploration.
func Merge(rs []*Result) *Result {
	m := &Result{Outcomes: map[string]int{}, Statuses: map[string]int{}, Complete: true}
	hb := map[uint64]struct{}{}
	fails := map[string]*Failure{}
	infos := map[string]*Failure{}
	var forder, iorder []string
	for _, r := range rs {
		if r == nil {
			m.Complete = false
			continue
		}
		m.Scenario, m.Mode, m.Bound = r.Scenario, r.Mode, r.Bound
		m.Executions += r.Executions
		if m.SampleTrace == "" {
			m.SampleTrace = r.SampleTrace
		}
		m.Reexecutions += r.Reexecutions
		m.Pruned += r.Pruned
		m.TotalSteps += r.TotalSteps
		if r.MaxSteps > m.MaxSteps {
			m.MaxSteps = r.MaxSteps
		}
		if r.MaxThreads > m.MaxThreads {
			m.MaxThreads = r.MaxThreads
		}
		if r.WallMs > m.WallMs {
			m.WallMs = r.WallMs
		}
		if !r.Complete {
			m.Complete = false
		}
		if r.Nondet != "" && m.Nondet == "" {
			m.Nondet = r.Nondet
		}
		if r.HBTruncated {
			m.HBTruncated = true
		}
		for _, h := range r.HBSet {
			hb[h] = struct{}{}
		}
		if len(r.HBSet) == 0 {
			m.DistinctHB += r.DistinctHB // no set to merge: upper bound
		}
		for k, v := range r.Outcomes {
			m.Outcomes[k] += v
		}
		for k, v := range r.Statuses {
			m.Statuses[k] += v
		}
		add := func(dst map[string]*Failure, order *[]string, fs []Failure) {
			for i := range fs {
				f := fs[i]
				k := f.Class + "|" + f.Shape
				if g, ok := dst[k]; ok {
					g.Count += f.Count
					if len(f.Choices) < len(g.Choices) {
						c := g.Count
						*g = f
						g.Count = c
					}
					continue
				}
				dst[k] = &f
				*order = append(*order, k)
			}
		}
		add(fails, &forder, r.Failures)
		add(infos, &iorder, r.Infos)
	}
	m.DistinctHB += len(hb)
	sort.Strings(forder)
	sort.Strings(iorder)
	for _, k := range forder {
		m.Failures = append(m.Failures, *fails[k])
	}
	for _, k := range iorder {
		m.Infos = append(m.Infos, *infos[k])
	}
	return m
}
