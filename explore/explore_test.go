package explore

import (
	"context"
	"fmt"
	"sort"
	"strings"
	"testing"

	"verif/vrt"
	"verif/vsync"
)

// helper: run a scenario whose oracle is a function of a result string
func scen(body func(set func(string)), bad func(res string, out *vrt.Outcome) string) func() Exec {
	return func() Exec {
		res := ""
		return Exec{
			Body: func() { body(func(s string) { res = s }) },
			Check: func(out *vrt.Outcome) ([]Verdict, string) {
				var vs []Verdict
				if v := GlobalVerdict("g", out); v != nil {
					vs = append(vs, *v)
				}
				if bad != nil {
					if m := bad(res, out); m != "" {
						vs = append(vs, Verdict{Class: "t", Shape: m, Detail: m})
					}
				}
				return vs, string(out.Status) + ":" + res
			},
		}
	}
}

func must(t *testing.T, r *Result) {
	t.Helper()
	if r.Nondet != "" {
		t.Fatalf("nondeterminism: %s", r.Nondet)
	}
}

func shapes(r *Result) string {
	var s []string
	for _, f := range r.Failures {
		s = append(s, f.Shape)
	}
	sort.Strings(s)
	return strings.Join(s, " ")
}

func binom(n, k int) int {
	r := 1
	for i := 0; i < k; i++ {
		r = r * (n - i) / (i + 1)
	}
	return r
}

// Two threads, k conflicting accesses each: C(2k,k) Mazurkiewicz traces; without
// reduction the thread starts are transitions too: C(2k+2,k+1) interleavings.
func TestInterleavingCounts(t *testing.T) {
	for k := 1; k <= 3; k++ {
		mk := scen(func(set func(string)) {
			for i := 0; i < 2; i++ {
				vrt.Go(func() {
					for j := 0; j < k; j++ {
						vrt.Access("x")
					}
				})
			}
		}, nil)
		r := Explore("count", Options{Mode: SleepSets}, mk)
		must(t, r)
		if !r.Complete || r.Executions != binom(2*k, k) {
			t.Errorf("k=%d sleep sets: %d executions (pruned %d), want %d", k, r.Executions, r.Pruned, binom(2*k, k))
		}
		if r.DistinctHB != r.Executions {
			t.Errorf("k=%d sleep sets: %d distinct partial orders for %d executions", k, r.DistinctHB, r.Executions)
		}
		r = Explore("count", Options{Mode: Bounded, Bound: 1000}, mk)
		must(t, r)
		if !r.Complete || r.Executions != binom(2*k+2, k+1) {
			t.Errorf("k=%d unreduced: %d executions, want %d", k, r.Executions, binom(2*k+2, k+1))
		}
		if r.DistinctHB != binom(2*k, k) {
			t.Errorf("k=%d unreduced: %d distinct partial orders, want %d", k, r.DistinctHB, binom(2*k, k))
		}
		// independent accesses: one trace
		mk2 := scen(func(set func(string)) {
			for i := 0; i < 2; i++ {
				vrt.Go(func() {
					for j := 0; j < k; j++ {
						vrt.Access(i)
					}
				})
			}
		}, nil)
		r = Explore("indep", Options{Mode: SleepSets}, mk2)
		must(t, r)
		if !r.Complete || r.Executions != 1 {
			t.Errorf("k=%d independent: %d executions, want 1", k, r.Executions)
		}
	}
}

// Mutex-protected increments through a channel hand-off: 3 threads, all orders of the critical sections.
func TestMutexOrders(t *testing.T) {
	mk := scen(func(set func(string)) {
		var mu vsync.Mutex
		var wg vsync.WaitGroup
		order := ""
		wg.Add(3)
		for i := 0; i < 3; i++ {
			vrt.Go(func() {
				mu.Lock()
				order += fmt.Sprint(i)
				mu.Unlock()
				wg.Done()
			})
		}
		wg.Wait()
		set(order)
	}, nil)
	r := Explore("mutex", Options{Mode: SleepSets}, mk)
	must(t, r)
	if len(r.Outcomes) != 6 {
		t.Errorf("critical section orders: %v, want 6 distinct", r.Outcomes)
	}
	if len(r.Failures) != 0 {
		t.Errorf("unexpected failures %v", shapes(r))
	}
}

func lostUpdate() func() Exec {
	return scen(func(set func(string)) {
		c := 0
		var wg vsync.WaitGroup
		wg.Add(2)
		for i := 0; i < 2; i++ {
			vrt.Go(func() {
				vrt.Access("c")
				tmp := c
				vrt.Access("c")
				c = tmp + 1
				wg.Done()
			})
		}
		wg.Wait()
		set(fmt.Sprint(c))
	}, func(res string, out *vrt.Outcome) string {
		if out.Status == vrt.StOK && res != "2" {
			return "lost-update"
		}
		return ""
	})
}

func TestLostUpdateNeedsOnePreemption(t *testing.T) {
	r0 := Explore("lu", Options{Mode: Bounded, Bound: 0}, lostUpdate())
	must(t, r0)
	if r0.Executions != 1 || len(r0.Failures) != 0 {
		t.Errorf("bound 0: %d executions, failures %q; want 1 and none", r0.Executions, shapes(r0))
	}
	r1 := Explore("lu", Options{Mode: Bounded, Bound: 1}, lostUpdate())
	must(t, r1)
	if shapes(r1) != "lost-update" {
		t.Errorf("bound 1: failures %q, want lost-update", shapes(r1))
	}
	// with free non-preemptive switches bound 0 still cannot lose the update
	r0f := Explore("lu", Options{Mode: Bounded, Bound: 0, FreeSwitch: true}, lostUpdate())
	must(t, r0f)
	if len(r0f.Failures) != 0 {
		t.Errorf("preemption bound 0: failures %q", shapes(r0f))
	}
	rs := Explore("lu", Options{Mode: SleepSets}, lostUpdate())
	must(t, rs)
	if shapes(rs) != "lost-update" {
		t.Errorf("sleep sets: failures %q, want lost-update", shapes(rs))
	}
	// the failing schedule replays
	out, vs, _, bad := Replay(vrt.Config{}, lostUpdate(), r1.Failures[0].Choices)
	if bad != "" || out.Status != vrt.StOK || len(vs) != 1 {
		t.Errorf("replay of failing schedule: %v %v %s", out.Status, vs, bad)
	}
}

func TestLockOrderDeadlock(t *testing.T) {
	mk := scen(func(set func(string)) {
		var a, b vsync.Mutex
		var wg vsync.WaitGroup
		wg.Add(2)
		vrt.GoNamed("ab", func() { a.Lock(); b.Lock(); b.Unlock(); a.Unlock(); wg.Done() })
		vrt.GoNamed("ba", func() { b.Lock(); a.Lock(); a.Unlock(); b.Unlock(); wg.Done() })
		wg.Wait()
	}, nil)
	r := Explore("dl", Options{Mode: Bounded, Bound: 0}, mk)
	must(t, r)
	if len(r.Failures) != 0 {
		t.Errorf("bound 0 found %q", shapes(r))
	}
	r = Explore("dl", Options{Mode: Bounded, Bound: 1}, mk)
	must(t, r)
	if shapes(r) != "deadlock:ab=Lock,ba=Lock,root=Wg.Wait" {
		t.Errorf("bound 1: %q", shapes(r))
	}
	if len(r.Failures) == 1 && !strings.Contains(r.Failures[0].Outcome.Blocked[1].Site, "explore_test.go") {
		t.Errorf("no call site in deadlock report: %+v", r.Failures[0].Outcome.Blocked)
	}
	r = Explore("dl", Options{Mode: SleepSets}, mk)
	must(t, r)
	if shapes(r) != "deadlock:ab=Lock,ba=Lock,root=Wg.Wait" {
		t.Errorf("sleep sets: %q", shapes(r))
	}
}

// Reader holds RLock and sends on an unbuffered channel; the consumer takes a
// read lock before each receive; a writer is pending: deadlock only because of
// Go's writer preference.
func rwScenario(withWriter bool) func() Exec {
	return scen(func(set func(string)) {
		var rw vsync.RWMutex
		var wg vsync.WaitGroup
		ch := vrt.MakeChan[int]()
		wg.Add(2)
		vrt.GoNamed("reader", func() {
			rw.RLock()
			vrt.Send(ch, 1)
			rw.RUnlock()
			wg.Done()
		})
		vrt.GoNamed("consumer", func() {
			rw.RLock()
			rw.RUnlock()
			vrt.Recv(ch)
			wg.Done()
		})
		if withWriter {
			wg.Add(1)
			vrt.GoNamed("writer", func() {
				rw.Lock()
				rw.Unlock()
				wg.Done()
			})
		}
		wg.Wait()
	}, nil)
}

func TestRWMutexWriterPreference(t *testing.T) {
	r := Explore("rw", Options{Mode: SleepSets}, rwScenario(false))
	must(t, r)
	if len(r.Failures) != 0 {
		t.Errorf("without writer: %q", shapes(r))
	}
	r = Explore("rw", Options{Mode: SleepSets}, rwScenario(true))
	must(t, r)
	if shapes(r) != "deadlock:consumer=RLock,reader=send,root=Wg.Wait,writer=W.LockWait" {
		t.Errorf("with writer: %q", shapes(r))
	}
	r2 := Explore("rw", Options{Mode: Bounded, Bound: 2}, rwScenario(true))
	must(t, r2)
	if shapes(r2) != shapes(r) {
		t.Errorf("bounded 2: %q", shapes(r2))
	}
}

func TestChannels(t *testing.T) {
	// unbuffered: a send without receiver blocks forever -> leak once the root returned
	r := Explore("unbuf", Options{Mode: SleepSets}, scen(func(set func(string)) {
		ch := vrt.MakeChan[int]()
		vrt.GoNamed("sender", func() { vrt.Send(ch, 1) })
	}, nil))
	must(t, r)
	if shapes(r) != "leak:sender=send" {
		t.Errorf("unbuffered: %q", shapes(r))
	}
	// buffered(1): the same program terminates
	r = Explore("buf", Options{Mode: SleepSets}, scen(func(set func(string)) {
		ch := vrt.MakeChan[int](1)
		vrt.GoNamed("sender", func() { vrt.Send(ch, 1) })
	}, nil))
	must(t, r)
	if len(r.Failures) != 0 {
		t.Errorf("buffered: %q", shapes(r))
	}
	// FIFO and rendezvous: producer/consumer over cap 0,1,2; the consumer
	// observes 1,2,3,closed; with cap c the producer may be at most c+1 ahead.
	for c := 0; c <= 2; c++ {
		r = Explore("fifo", Options{Mode: Bounded, Bound: 1000}, scen(func(set func(string)) {
			ch := vrt.MakeChan[int](c)
			sent, maxAhead, got := 0, 0, ""
			var wg vsync.WaitGroup
			wg.Add(2)
			vrt.Go(func() {
				for i := 1; i <= 3; i++ {
					vrt.Send(ch, i)
					sent++
				}
				vrt.Close(ch)
				wg.Done()
			})
			vrt.Go(func() {
				n := 0
				for v := range vrt.Range(ch) {
					n++
					if sent-n > maxAhead {
						maxAhead = sent - n
					}
					got += fmt.Sprint(v)
				}
				_, ok := vrt.Recv2(ch)
				got += fmt.Sprint(ok)
				wg.Done()
			})
			wg.Wait()
			set(fmt.Sprintf("%s ahead<=%v", got, maxAhead <= c))
		}, func(res string, out *vrt.Outcome) string {
			if res != "123false ahead<=true" {
				return "bad:" + res
			}
			return ""
		}))
		must(t, r)
		if len(r.Failures) != 0 || !r.Complete {
			t.Errorf("fifo cap %d: %q", c, shapes(r))
		}
	}
	// nil channel blocks forever
	r = Explore("nil", Options{Mode: SleepSets}, scen(func(set func(string)) {
		var ch chan int
		vrt.Recv(ch)
	}, nil))
	must(t, r)
	if shapes(r) != "deadlock:root=recv" {
		t.Errorf("nil channel: %q", shapes(r))
	}
}

func TestSelect(t *testing.T) {
	mk := scen(func(set func(string)) {
		a, b := vrt.MakeChan[int](1), vrt.MakeChan[string](1)
		c := vrt.MakeChan[int](1)
		vrt.Send(a, 7)
		vrt.Send(b, "x")
		ca, cb, cc := vrt.RecvCase(a), vrt.RecvCase(b), vrt.RecvCase(c)
		res := ""
		switch vrt.Select(true, ca, cb, cc) {
		case 0:
			res = fmt.Sprint("a", ca.Val())
		case 1:
			v, ok := cb.Value()
			res = fmt.Sprint("b", v, ok)
		case 2:
			res = "c"
		default:
			res = "default"
		}
		// second select: nothing ready -> default; send case ready -> taken
		d := vrt.MakeChan[int](1)
		switch vrt.Select(true, vrt.RecvCase(c)) {
		case -1:
			res += "+default"
		}
		switch vrt.Select(true, vrt.RecvCase(c), vrt.SendCase(d, 5)) {
		case 1:
			res += fmt.Sprint("+sent", vrt.Recv(d))
		}
		set(res)
	}, nil)
	r := Explore("select", Options{Mode: SleepSets}, mk)
	must(t, r)
	want := map[string]int{"ok:a7+default+sent5": 1, "ok:bxtrue+default+sent5": 1}
	if fmt.Sprint(r.Outcomes) != fmt.Sprint(want) {
		t.Errorf("select outcomes %v, want %v", r.Outcomes, want)
	}
	r = Explore("select", Options{Mode: Bounded, Bound: 0}, mk)
	must(t, r)
	if fmt.Sprint(r.Outcomes) != fmt.Sprint(map[string]int{"ok:a7+default+sent5": 1}) {
		t.Errorf("select bound 0 outcomes %v", r.Outcomes)
	}
	// select with default must not take default while a sender is parked on an unbuffered channel
	mk2 := scen(func(set func(string)) {
		ch := vrt.MakeChan[int]()
		var wg vsync.WaitGroup
		parked := false
		wg.Add(1)
		vrt.Go(func() { parked = true; vrt.Send(ch, 1); wg.Done() })
		rc := vrt.RecvCase(ch)
		for {
			wasParked := parked
			if vrt.Select(true, rc) == 0 {
				break
			}
			if wasParked {
				set("default-while-sender-parked")
			}
			vrt.Yield()
		}
		wg.Wait()
	}, func(res string, out *vrt.Outcome) string { return res })
	r = Explore("poll", Options{Mode: Bounded, Bound: 3, Cfg: vrt.Config{MaxSteps: 60}}, mk2)
	must(t, r)
	for _, f := range r.Failures {
		if f.Shape != "horizon" {
			t.Errorf("polling select: %q", shapes(r))
		}
	}
}

func TestWaitGroupOncePanics(t *testing.T) {
	r := Explore("wg", Options{Mode: SleepSets}, scen(func(set func(string)) {
		var wg vsync.WaitGroup
		var once vsync.Once
		n, inits := 0, 0
		wg.Add(2)
		for i := 0; i < 2; i++ {
			vrt.Go(func() {
				once.Do(func() { vrt.Yield(); inits++ })
				if inits != 1 {
					n = -100
				}
				n++
				wg.Done()
			})
		}
		wg.Wait()
		set(fmt.Sprint(n, inits))
	}, func(res string, out *vrt.Outcome) string {
		if res != "2 1" {
			return "bad:" + res
		}
		return ""
	}))
	must(t, r)
	if len(r.Failures) != 0 || r.Executions < 2 {
		t.Errorf("waitgroup/once: %q (%d executions)", shapes(r), r.Executions)
	}
	r = Explore("wgneg", Options{Mode: SleepSets}, scen(func(set func(string)) {
		var wg vsync.WaitGroup
		wg.Done()
	}, nil))
	must(t, r)
	if !strings.HasPrefix(shapes(r), "panic@") || !strings.Contains(r.Failures[0].Detail, "negative WaitGroup counter") {
		t.Errorf("negative counter: %q", shapes(r))
	}
	r = Explore("close2", Options{Mode: SleepSets}, scen(func(set func(string)) {
		ch := vrt.MakeChan[int]()
		var wg vsync.WaitGroup
		wg.Add(2)
		for i := 0; i < 2; i++ {
			vrt.Go(func() { defer wg.Done(); vrt.Close(ch) })
		}
		wg.Wait()
	}, nil))
	must(t, r)
	if len(r.Failures) != 1 || !strings.Contains(r.Failures[0].Detail, "close of closed channel") || r.Failures[0].Count != r.Executions {
		t.Errorf("close twice: %q %+v", shapes(r), r.Statuses)
	}
	r = Explore("sendclosed", Options{Mode: SleepSets}, scen(func(set func(string)) {
		ch := vrt.MakeChan[int](1)
		vrt.Go(func() { vrt.Close(ch) })
		vrt.Go(func() { vrt.Send(ch, 1) })
	}, nil))
	must(t, r)
	if r.Statuses["panic"] != 1 || r.Statuses["ok"] != 1 {
		t.Errorf("send vs close: statuses %v", r.Statuses)
	}
	// a panic inside a spawned thread is an outcome with its site
	r = Explore("panic", Options{Mode: Bounded, Bound: 0}, scen(func(set func(string)) {
		var m map[string]int
		vrt.Go(func() { m["a"] = 1 })
	}, nil))
	must(t, r)
	if !strings.HasPrefix(shapes(r), "panic@explore.TestWaitGroupOncePanics") {
		t.Errorf("panic site: %q", shapes(r))
	}
}

func TestLeakHorizon(t *testing.T) {
	r := Explore("leak", Options{Mode: SleepSets}, scen(func(set func(string)) {
		ch := vrt.MakeChan[int]()
		done := vrt.MakeChan[bool]()
		vrt.GoNamed("worker", func() { vrt.Send(done, true); vrt.Recv(ch) })
		vrt.Recv(done)
		vrt.MarkReturned()
	}, nil))
	must(t, r)
	if shapes(r) != "leak:worker=recv" {
		t.Errorf("leak: %q", shapes(r))
	}
	r = Explore("spin", Options{Mode: Bounded, Bound: 0, Cfg: vrt.Config{MaxTicks: 1000}}, scen(func(set func(string)) {
		for {
			vrt.Tick()
		}
	}, nil))
	must(t, r)
	if shapes(r) != "horizon" {
		t.Errorf("horizon: %q", shapes(r))
	}
	// deferred hooks while a blocked thread is unwound must not run or block
	r = Explore("unwind", Options{Mode: SleepSets}, scen(func(set func(string)) {
		var mu vsync.Mutex
		ch := vrt.MakeChan[int]()
		vrt.GoNamed("w", func() {
			mu.Lock()
			defer mu.Unlock()
			defer vrt.Close(ch)
			vrt.Send(ch, 1)
		})
	}, nil))
	must(t, r)
	if shapes(r) != "leak:w=send" {
		t.Errorf("unwind: %q", shapes(r))
	}
}

var leakyGlobal int

func TestNondeterminismIsDetected(t *testing.T) {
	r := Explore("nd", Options{Mode: SleepSets}, scen(func(set func(string)) {
		leakyGlobal++
		if leakyGlobal%2 == 0 {
			vrt.Yield()
		}
	}, nil))
	if r.Nondet == "" {
		t.Errorf("history-dependent scenario not flagged")
	}
	leakyGlobal = 0
	r = Explore("nd2", Options{Mode: Bounded, Bound: 2}, scen(func(set func(string)) {
		leakyGlobal++
		for i := 0; i < 2; i++ {
			vrt.Go(func() {
				vrt.Access("x")
				if leakyGlobal%3 == 0 {
					vrt.Access("y")
				}
				vrt.Access("x")
			})
		}
	}, nil))
	if r.Nondet == "" {
		t.Errorf("diverging replay not flagged")
	}
}

func TestForeignChannelAndChoose(t *testing.T) {
	mk := scen(func(set func(string)) {
		ctx, cancel := context.WithCancel(context.Background())
		ch := vrt.MakeChan[int]()
		var wg vsync.WaitGroup
		res := ""
		wg.Add(2)
		vrt.Go(func() {
			defer wg.Done()
			rc := vrt.RecvCase(ch)
			switch vrt.Select(false, vrt.RecvCase(ctx.Done()), rc) {
			case 0:
				res = "cancelled"
			case 1:
				res = fmt.Sprint("value", rc.Val())
			}
		})
		vrt.Go(func() {
			defer wg.Done()
			sc := vrt.SendCase(ch, 3)
			vrt.Select(false, vrt.RecvCase(ctx.Done()), sc)
		})
		fault := ""
		if vrt.Choose(2) == 1 {
			fault = "fault+"
		}
		vrt.ForeignEffect()
		cancel()
		wg.Wait()
		set(fault + res)
	}, nil)
	r := Explore("foreign", Options{Mode: SleepSets}, mk)
	must(t, r)
	want := []string{"ok:cancelled", "ok:fault+cancelled", "ok:fault+value3", "ok:value3"}
	var got []string
	for k := range r.Outcomes {
		got = append(got, k)
	}
	sort.Strings(got)
	// the fault choice overwrites res before the threads run or after: all four combinations or prefixes
	if len(r.Failures) != 0 || fmt.Sprint(got) != fmt.Sprint(want) {
		t.Errorf("foreign/choose outcomes %v (want at least %v and a fault variant), failures %q", got, want, shapes(r))
	}
	r0 := Explore("foreign", Options{Mode: Bounded, Bound: 0}, mk)
	must(t, r0)
	if r0.Executions != 1 {
		t.Errorf("bound 0: %d executions", r0.Executions)
	}
}

func TestMapRangeOrder(t *testing.T) {
	mk := scen(func(set func(string)) {
		m := map[string]int{"b": 2, "a": 1, "c": 3}
		s := ""
		for k, v := range vrt.MapRange(m) {
			if k == "a" || k == "c" {
				delete(m, "b")
			}
			s += fmt.Sprint(k, v)
		}
		set(s)
	}, nil)
	r := Explore("map", Options{Mode: Bounded, Bound: 1}, mk)
	must(t, r)
	if fmt.Sprint(r.Outcomes) != "map[ok:a1c3:1]" {
		t.Errorf("map order: %v", r.Outcomes)
	}
	r = Explore("map", Options{Mode: Bounded, Bound: 1, Cfg: vrt.Config{MapOrderChoice: true}}, mk)
	must(t, r)
	if fmt.Sprint(r.Outcomes) != "map[ok:a1c3:1 ok:c3a1:1]" {
		t.Errorf("map order with choice: %v", r.Outcomes)
	}
}

// The union of the shards is the unsharded exploration.
func TestSharding(t *testing.T) {
	mk := scen(func(set func(string)) {
		var mu vsync.Mutex
		ch := vrt.MakeChan[int](1)
		var wg vsync.WaitGroup
		wg.Add(3)
		order := ""
		for i := 0; i < 3; i++ {
			vrt.Go(func() {
				defer wg.Done()
				mu.Lock()
				order += fmt.Sprint(i)
				mu.Unlock()
				if i == 0 {
					vrt.Send(ch, 1)
				} else if i == 1 {
					vrt.Recv(ch)
				}
			})
		}
		wg.Wait()
		set(order)
	}, nil)
	for _, o := range []Options{{Mode: SleepSets, SplitAt: 3}, {Mode: Bounded, Bound: 2}, {Mode: Bounded, Bound: 2, OnlyLevel: true}} {
		whole := Explore("shard", o, mk)
		must(t, whole)
		sum, hb := 0, map[uint64]bool{}
		outs := map[string]int{}
		for s := 0; s < 4; s++ {
			o2 := o
			o2.Shard, o2.Shards, o2.KeepHB = s, 4, 1<<20
			r := Explore("shard", o2, mk)
			must(t, r)
			if !r.Complete {
				t.Errorf("%+v shard %d incomplete", o, s)
			}
			sum += r.Executions
			for _, h := range r.HBSet {
				hb[h] = true
			}
			for k, v := range r.Outcomes {
				outs[k] += v
			}
		}
		if sum != whole.Executions || len(hb) != whole.DistinctHB || fmt.Sprint(outs) != fmt.Sprint(whole.Outcomes) {
			t.Errorf("%+v: shards %d executions / %d partial orders / %v, whole %d / %d / %v", o, sum, len(hb), outs, whole.Executions, whole.DistinctHB, whole.Outcomes)
		}
		t.Logf("%s bound %d onlylevel %v: %d executions, %d partial orders, %d outcomes", o.Mode, o.Bound, o.OnlyLevel, whole.Executions, whole.DistinctHB, len(whole.Outcomes))
	}
}
