package common

import (
	"runtime"
	"sync"
	"sync/atomic"
)

// ParallelFor runs f(i) for i in [0,n) on all cores. The set of indices is the
// same whatever the scheduling; only the visiting order differs.
func ParallelFor(n int, f func(i int)) {
	w := runtime.NumCPU()
	if w > n {
		w = n
	}
	var next int64 = -1
	var wg sync.WaitGroup
	for k := 0; k < w; k++ {
		wg.Add(1)
		go func() {
			defer wg.Done()
			for {
				i := int(atomic.AddInt64(&next, 1))
				if i >= n {
					return
				}
				f(i)
			}
		}()
	}
	wg.Wait()
}

// Guard runs f and turns a panic into a value.
func Guard(f func()) (p interface{}) {
	defer func() {
		if r := recover(); r != nil {
			p = r
		}
	}()
	f()
	return nil
}
