package common
