package common

import (
	"sync"
	"time"
)

// StallWatch reports calls that do not return. Checks whose oracle is "the call returns a value or an error" run the
// call through Do: a watchdog goroutine looks at the registered calls once a second and, when one has been running
// for longer than the limit (calls of these checks take microseconds; the limits are a minute or more), records the
// failure that the caller described, marks the run as capped and ends it there, because the stuck goroutine cannot
// be stopped.
type StallWatch struct {
	r     *Run
	limit time.Duration
	free  chan int
	slots []stallSlot
}

type stallSlot struct {
	mu    sync.Mutex
	info  func() Failure
	since time.Time
}

func NewStallWatch(r *Run, limit time.Duration) *StallWatch {
	s := &StallWatch{r: r, limit: limit, free: make(chan int, 256), slots: make([]stallSlot, 256)}
	for i := 0; i < 256; i++ {
		s.free <- i
	}
	go func() {
		for {
			time.Sleep(time.Second)
			for i := range s.slots {
				sl := &s.slots[i]
				sl.mu.Lock()
				info, since := sl.info, sl.since
				sl.mu.Unlock()
				if info != nil && time.Since(since) > s.limit {
					f := info()
					if f.Shape == "" {
						f.Shape = "does-not-return"
					}
					r.Fail(f)
					r.SetCapped()
					r.Finish()
				}
			}
		}
	}()
	return s
}

// Do runs f; info describes the call for the report (it is only evaluated when the call stalls).
func (s *StallWatch) Do(info func() Failure, f func()) {
	i := <-s.free
	sl := &s.slots[i]
	sl.mu.Lock()
	sl.info, sl.since = info, time.Now()
	sl.mu.Unlock()
	defer func() {
		sl.mu.Lock()
		sl.info = nil
		sl.mu.Unlock()
		s.free <- i
	}()
	f()
}
