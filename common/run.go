// Package common is the shared reporting layer of every check: tiers, known
// findings, replay artefacts, evidence files, exit codes.
//
// Exit codes: 0 = property held on everything explored (known findings are
// printed as KNOWN-FINDING lines and do not fail); 1 = at least one violation
// that known_findings.json does not list (one VIOLATION line per distinct
// class/shape); 2 = machinery error (model invalid, nondeterminism, build).
package common

import (
	"crypto/sha1"
	"encoding/hex"
	"encoding/json"
	"fmt"
	"os"
	"path/filepath"
	"sort"
	"strconv"
	"strings"
	"sync"
	"time"
)

// Root is the /verif directory (overridable for snapshots run by `vp run`).
func Root() string {
	if r := os.Getenv("VERIF_ROOT"); r != "" {
		return r
	}
	return "/verif"
}

// Finding is one entry of known_findings.json.
type Finding struct {
	Property string `json:"property"`
	ID       string `json:"id"`
	// Class is the input classifier: a predicate over the case alone.
	Class string `json:"class"`
	// Shape is the failure shape: which oracle clause failed and how.
	Shape string `json:"shape"`
	What  string `json:"what"`
}

type findingsFile struct {
	Findings []Finding `json:"findings"`
	Fixed    []string  `json:"fixed"`
}

// Failure is what a check reports for one failing case.
type Failure struct {
	Check  string      `json:"check"`  // sub-check name (selects the replayer)
	Class  string      `json:"class"`  // input classifier computed from the case alone
	Shape  string      `json:"shape"`  // failure shape computed from the oracle verdict
	Case   interface{} `json:"case"`   // the input / operation list / schedule, replayable
	Detail string      `json:"detail"` // expected vs observed, human readable
}

type bucket struct {
	first Failure
	n     int
}

// Run is one execution of one property's check.
type Run struct {
	Prop  string
	Tier  string
	Seed  int
	Level string

	mu          sync.Mutex
	start       time.Time
	cov         map[string]interface{}
	assumptions []string
	samples     []interface{}
	known       []Finding
	buckets     map[string]*bucket // class|shape -> failures
	order       []string
	replayers   map[string]func(json.RawMessage) (bool, string)
	ReplayPath  string
	deadline    time.Time
	capped      bool
}

// Start parses the command line: `<bin> quick|thorough` or `<bin> --replay <path>`.
func Start(prop, level string) *Run {
	r := &Run{Prop: prop, Level: level, Tier: "quick", start: time.Now(),
		cov: map[string]interface{}{}, buckets: map[string]*bucket{},
		replayers: map[string]func(json.RawMessage) (bool, string){}}
	if t := os.Getenv("VERIF_TIER"); t == "quick" || t == "thorough" {
		r.Tier = t
	}
	args := os.Args[1:]
	for i := 0; i < len(args); i++ {
		switch args[i] {
		case "quick", "thorough":
			r.Tier = args[i]
		case "--replay":
			if i+1 < len(args) {
				r.ReplayPath = args[i+1]
				i++
			}
		}
	}
	if s := os.Getenv("VERIF_SEED"); s != "" {
		if v, err := strconv.Atoi(s); err == nil {
			r.Seed = v
		}
	}
	// Internal deadline: a run that hits it stops exploring, reports
	// exhaustive:false and exits 0 (never a verdict by timeout).
	budget := 6 * time.Minute
	if r.Tier == "thorough" {
		budget = 45 * time.Minute
	}
	if s := os.Getenv("VERIF_BUDGET_S"); s != "" {
		if v, err := strconv.Atoi(s); err == nil {
			budget = time.Duration(v) * time.Second
		}
	}
	r.deadline = r.start.Add(budget)
	r.loadKnown()
	return r
}

func (r *Run) loadKnown() {
	b, err := os.ReadFile(filepath.Join(Root(), "known_findings.json"))
	if err != nil {
		return
	}
	var ff findingsFile
	if err := json.Unmarshal(b, &ff); err != nil {
		fmt.Fprintf(os.Stderr, "MACHINERY: known_findings.json does not parse: %v\n", err)
		os.Exit(2)
	}
	for _, f := range ff.Findings {
		if f.Property == r.Prop {
			r.known = append(r.known, f)
		}
	}
}

// Thorough reports whether this is the thorough tier.
func (r *Run) Thorough() bool { return r.Tier == "thorough" }

// Pick returns q on the quick tier and t on the thorough tier.
func (r *Run) Pick(q, t int) int {
	if r.Thorough() {
		return t
	}
	return q
}

// OutOfTime reports whether the internal deadline has passed; the caller stops
// exploring and the run is marked as capped (exhaustive:false).
func (r *Run) OutOfTime() bool {
	if time.Now().After(r.deadline) {
		r.mu.Lock()
		r.capped = true
		r.mu.Unlock()
		return true
	}
	return false
}

// Capped reports whether some part of the run was cut by the deadline.
func (r *Run) Capped() bool { r.mu.Lock(); defer r.mu.Unlock(); return r.capped }

// SetCapped marks the run as incomplete for a reason other than the deadline.
func (r *Run) SetCapped() { r.mu.Lock(); r.capped = true; r.mu.Unlock() }

// Set stores a coverage key.
func (r *Run) Set(k string, v interface{}) { r.mu.Lock(); r.cov[k] = v; r.mu.Unlock() }

// Add adds n to an integer coverage key.
func (r *Run) Add(k string, n int) {
	r.mu.Lock()
	c, _ := r.cov[k].(int)
	r.cov[k] = c + n
	r.mu.Unlock()
}

// Get returns an integer coverage key.
func (r *Run) Get(k string) int { r.mu.Lock(); defer r.mu.Unlock(); c, _ := r.cov[k].(int); return c }

// Sample records one explored case (at most max per run are kept).
func (r *Run) Sample(v interface{}) {
	r.mu.Lock()
	if len(r.samples) < 12 {
		r.samples = append(r.samples, v)
	}
	r.mu.Unlock()
}

// Assume records an assumption of the check.
func (r *Run) Assume(s string) { r.mu.Lock(); r.assumptions = append(r.assumptions, s); r.mu.Unlock() }

// Replayer registers the function that re-executes one case of a sub-check
// without the explorer; it returns (held, message).
func (r *Run) Replayer(check string, f func(json.RawMessage) (bool, string)) { r.replayers[check] = f }

// Fail records a failing case.
func (r *Run) Fail(f Failure) {
	r.mu.Lock()
	defer r.mu.Unlock()
	k := f.Class + "|" + f.Shape
	b, ok := r.buckets[k]
	if !ok {
		b = &bucket{first: f}
		r.buckets[k] = b
		r.order = append(r.order, k)
	}
	b.n++
}

// Failures returns the number of failing cases recorded so far.
func (r *Run) Failures() int {
	r.mu.Lock()
	defer r.mu.Unlock()
	n := 0
	for _, b := range r.buckets {
		n += b.n
	}
	return n
}

func (r *Run) matchKnown(f Failure) *Finding {
	for i := range r.known {
		k := &r.known[i]
		if k.Shape != f.Shape {
			continue
		}
		if k.Class == f.Class {
			return k
		}
		// "has:<feature>": the failure's class is a comma separated feature
		// list computed from the case alone and must contain that feature.
		if strings.HasPrefix(k.Class, "has:") {
			for _, feat := range strings.Split(f.Class, ",") {
				if feat == k.Class[4:] {
					return k
				}
			}
		}
	}
	return nil
}

// Machinery aborts with exit code 2: the check itself is broken (model invalid,
// nondeterminism, instrumenter failure). Never a verdict about the property.
func Machinery(format string, a ...interface{}) {
	fmt.Printf("MACHINERY-ERROR: "+format+"\n", a...)
	os.Exit(2)
}

// MaybeReplay handles `--replay <path>`: re-executes the recorded case and exits.
func (r *Run) MaybeReplay() {
	if r.ReplayPath == "" {
		return
	}
	b, err := os.ReadFile(r.ReplayPath)
	if err != nil {
		Machinery("cannot read replay file: %v", err)
	}
	var rec struct {
		Check string          `json:"check"`
		Case  json.RawMessage `json:"case"`
	}
	if err := json.Unmarshal(b, &rec); err != nil {
		Machinery("replay file does not parse: %v", err)
	}
	f, ok := r.replayers[rec.Check]
	if !ok {
		Machinery("no replayer for sub-check %q", rec.Check)
	}
	held, msg := f(rec.Case)
	if held {
		fmt.Printf("REPLAY property=%s check=%s: held (%s)\n", r.Prop, rec.Check, msg)
		os.Exit(0)
	}
	fmt.Printf("REPLAY property=%s check=%s: FAILS: %s\n", r.Prop, rec.Check, msg)
	fmt.Printf("VIOLATION property=%s replay=%s\n", r.Prop, r.ReplayPath)
	os.Exit(1)
}

func (r *Run) writeReplay(f Failure) string {
	dir := filepath.Join(Root(), "replays")
	if os.Getenv("VERIF_EVIDENCE_SUFFIX") != "" {
		dir = filepath.Join(Root(), "work", "replays"+os.Getenv("VERIF_EVIDENCE_SUFFIX")) // trial runs
	}
	os.MkdirAll(dir, 0o755)
	b, _ := json.MarshalIndent(map[string]interface{}{
		"property": r.Prop, "check": f.Check, "class": f.Class, "shape": f.Shape,
		"case": f.Case, "detail": f.Detail, "tier": r.Tier,
	}, "", " ")
	h := sha1.Sum([]byte(f.Check + "|" + f.Class + "|" + f.Shape))
	p := filepath.Join(dir, fmt.Sprintf("%s-%s.json", r.Prop, hex.EncodeToString(h[:5])))
	os.WriteFile(p, b, 0o644)
	return p
}

// Finish writes the evidence file, prints KNOWN-FINDING / VIOLATION lines and exits.
func (r *Run) Finish() {
	r.mu.Lock()
	defer r.mu.Unlock()
	violations := 0
	knownHit := map[string]int{}
	knownFirst := map[string]Failure{}
	var lines []string
	for _, k := range r.order {
		b := r.buckets[k]
		if kf := r.matchKnown(b.first); kf != nil {
			knownHit[kf.ID] += b.n
			if _, ok := knownFirst[kf.ID]; !ok {
				knownFirst[kf.ID] = b.first
			}
			continue
		}
		violations += b.n
		p := r.writeReplay(b.first)
		fmt.Printf("  violation class=%q shape=%q count=%d\n    first: %s\n", b.first.Class, b.first.Shape, b.n, trunc(b.first.Detail, 1500))
		lines = append(lines, fmt.Sprintf("VIOLATION property=%s replay=%s", r.Prop, p))
	}
	kfOut := []map[string]interface{}{}
	var ids []string
	for id := range knownHit {
		ids = append(ids, id)
	}
	sort.Strings(ids)
	for _, id := range ids {
		var what string
		for _, k := range r.known {
			if k.ID == id {
				what = k.What
			}
		}
		cs, _ := json.Marshal(knownFirst[id].Case)
		fmt.Printf("KNOWN-FINDING: property=%s %s [%s] (reproduced %d times; first: %s)\n", r.Prop, what, id, knownHit[id], trunc(string(cs), 300))
		kfOut = append(kfOut, map[string]interface{}{"id": id, "count": knownHit[id], "first_case": knownFirst[id].Case})
	}
	var stale []string
	for _, k := range r.known {
		if knownHit[k.ID] == 0 {
			stale = append(stale, k.ID)
		}
	}
	if len(stale) > 0 {
		// A listed finding that no longer reproduces is not an error (it may be
		// outside this tier's bound); it is reported so the list can be pruned.
		fmt.Printf("note: listed findings not reproduced by this run: %s\n", strings.Join(stale, ", "))
	}
	cov := r.cov
	if len(r.samples) > 0 {
		cov["samples"] = r.samples
	}
	if _, ok := cov["exhaustive"]; !ok {
		cov["exhaustive"] = !r.capped
	} else if r.capped {
		cov["exhaustive"] = false
	}
	cov["known_findings_reproduced"] = kfOut
	cov["known_findings_not_reproduced"] = stale
	ev := map[string]interface{}{
		"property_id": r.Prop, "tier": r.Tier, "seed": r.Seed, "level": r.Level,
		"coverage": cov, "assumptions": r.assumptions,
		"wall_s": time.Since(r.start).Seconds(), "violations": violations,
	}
	b, _ := json.MarshalIndent(ev, "", " ")
	os.MkdirAll(filepath.Join(Root(), "evidence"), 0o755)
	// VERIF_EVIDENCE_SUFFIX keeps trial runs (deliberately broken builds) from overwriting the evidence.
	if err := os.WriteFile(filepath.Join(Root(), "evidence", r.Prop+os.Getenv("VERIF_EVIDENCE_SUFFIX")+".json"), b, 0o644); err != nil {
		Machinery("cannot write evidence: %v", err)
	}
	summary := map[string]interface{}{}
	for k, v := range cov {
		switch v.(type) {
		case int, bool, float64, string:
			summary[k] = v
		}
	}
	sb, _ := json.Marshal(summary)
	fmt.Printf("%s %s: %s wall=%.1fs violations=%d known=%d\n", r.Prop, r.Tier, sb, time.Since(r.start).Seconds(), violations, len(ids))
	for _, l := range lines {
		fmt.Println(l)
	}
	if violations > 0 {
		os.Exit(1)
	}
	os.Exit(0)
}

func trunc(s string, n int) string {
	if len(s) > n {
		return s[:n] + "…"
	}
	return s
}
