#!/usr/bin/env python3
"""Prints the markdown table of seeded changes from /verif/seeded/*/meta.json."""
import json, glob, os
print("| seeded change | breaks | what it needs to manifest | repo tests | our checks (quick tier) |")
print("|---|---|---|---|---|")
for f in sorted(glob.glob("/verif/seeded/*/meta.json")):
    m = json.load(open(f)); v = m.get("verif", {})
    cs = "; ".join(f"{c}: {'**caught**' if r['caught'] else 'missed'}" for c, r in v.get("checks", {}).items())
    need = (m.get("needs_to_manifest") or "")[:230].replace("|", "/").replace("\n", " ")
    summ = (m.get("summary") or "")[:160].replace("|", "/").replace("\n", " ")
    print(f"| `seeded/{os.path.basename(os.path.dirname(f))}` {summ} | {m.get('property')} | {need} | {'pass' if v.get('repo_tests_pass_with_change') else '?'} | {cs} |")
