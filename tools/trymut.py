#!/usr/bin/env python3
"""trymut.py <Cnn> <repo-relative-file> <old> <new> [tier]
Builds check Cnn against /repo with ONE file replaced through go build -overlay
(old -> new, exactly one occurrence) and runs it; /repo is not touched.
Prints the verdict lines and the exit code."""
import sys, os, subprocess, json, tempfile, shutil
cid, rel, old, new = sys.argv[1:5]
tier = sys.argv[5] if len(sys.argv) > 5 else "quick"
src = open(os.path.join("/repo", rel)).read()
if src.count(old) != 1:
    print("pattern occurs %d times" % src.count(old)); sys.exit(3)
d = "/verif/work/mut-%s-%d" % (cid, os.getpid())
os.makedirs(d, exist_ok=True)
mf = os.path.join(d, os.path.basename(rel))
open(mf, "w").write(src.replace(old, new))
ov = os.path.join(d, "ov.json")
json.dump({"Replace": {os.path.join("/repo", rel): mf}}, open(ov, "w"))
lc = cid.lower()
env = dict(os.environ, VERIF_ROOT="/verif", VERIF_EVIDENCE_SUFFIX=".mut")
cmd = ". /verif/env.sh; cd /verif && go build -overlay %s -o %s/bin ./cmd/%s && %s/bin %s" % (ov, d, lc, d, tier)
p = subprocess.run(["bash", "-c", cmd], env=env, capture_output=True, text=True)
out = p.stdout + p.stderr
for l in out.splitlines():
    if l.startswith(("VIOLATION", "KNOWN-FINDING", "MACHINERY", "  violation", cid)):
        print(l[:400])
print("exit", p.returncode)
shutil.rmtree(d, ignore_errors=True)
