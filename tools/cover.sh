#!/bin/bash
# tools/cover.sh <id>...: runs the quick tier of the given native (non-vsched) checks built with coverage
# instrumentation of google/badwolf and prints, per function of the packages under test, the union coverage.
# Development aid (which code do the checks never execute?); not part of any registered command.
cd "$(dirname "$0")/.." && . ./env.sh
out=work/cover; mkdir -p $out/bin
pk=all   # a pattern naming only the replaced module instruments nothing with this toolchain
for id in "$@"; do
  lc=$(echo $id | tr A-Z a-z)
  d=$out/data-$lc; rm -rf $d; mkdir -p $d
  [ -x cmd/$lc/build.sh ] && echo "$id: built through its build.sh (instrumented copies): the native part only" 
  go build -cover -coverpkg=$pk -o $out/bin/$lc ./cmd/$lc || exit 2
  GOCOVERDIR=$PWD/$d VERIF_BUDGET_S=${COVER_BUDGET_S:-90} VERIF_ROOT=$PWD VERIF_EVIDENCE_SUFFIX=.cov $out/bin/$lc quick > $out/$lc.log 2>&1
  echo "$id rc=$?"
done
dirs=$(ls -d $out/data-* | paste -sd,)
go tool covdata textfmt -i=$dirs -o $out/all.txt
grep -e "^mode:" -e "^github.com/google/badwolf/" $out/all.txt > $out/bw.txt
go tool cover -func=$out/bw.txt | grep -v "_test.go\|/tools/\|/examples/\|100.0%" | sort -k3 -n > $out/func.txt
wc -l $out/func.txt
