#!/usr/bin/env python3
"""seedcheck.py <Cnn> <worktree> <check> [<check> ...]

Confirms an independently produced property-breaking change and runs our checks
against it WITHOUT touching /repo (other work builds against /repo at the same
time): the worktree gets the patch applied, the changed files are mapped over
/repo through `go build -overlay` (xstate checks) or instrumented through
VSCHED_REPO (vsched checks, which have a build.sh).

Steps: (1) copy <worktree>/seed_out to /verif/seeded/<Cnn>/; (2) in the worktree:
apply patch.diff, run the repository's full test suite (must pass), run the
demonstration (must fail), revert, run the demonstration (must pass);
(3) re-apply, build and run each named check's quick tier (exit 1 + VIOLATION
expected), revert; (4) write the outcome into seeded/<Cnn>/meta.json.
"""
import sys, os, subprocess, json, shutil, time

pid, src = sys.argv[1], sys.argv[2].rstrip("/")
checks = sys.argv[3:]
dst = f"/verif/seeded/{pid}"
# the change is confirmed and checked on a FRESH worktree of the current /repo HEAD
# (the worktree the change was written in may be behind HEAD)
wt = f"/tmp/seedrun-{pid}"
subprocess.run(["bash", "-c", f"git -C /repo worktree remove --force {wt} 2>/dev/null; git -C /repo worktree prune; git -C /repo worktree add -q {wt} HEAD"], check=True)
if os.path.isdir(f"{src}/seed_out"):
    shutil.copytree(f"{src}/seed_out", f"{wt}/seed_out", dirs_exist_ok=True)
    if os.path.isdir(f"{src}/seed_demo"):
        shutil.copytree(f"{src}/seed_demo", f"{wt}/seed_demo", dirs_exist_ok=True)
else:  # re-run from the stored copy
    shutil.copytree(dst, f"{wt}/seed_out", dirs_exist_ok=True)
    shutil.copytree(f"{dst}/demo", f"{wt}/seed_demo", dirs_exist_ok=True)
env = dict(os.environ, GOFLAGS="-mod=mod", GOPROXY="off")

def sh(cmd, cwd=None, extra=None, timeout=3600):
    e = dict(env)
    if extra: e.update(extra)
    p = subprocess.run(["bash", "-c", cmd], cwd=cwd, env=e, capture_output=True, text=True, timeout=timeout)
    return p.returncode, p.stdout + p.stderr

os.makedirs(dst, exist_ok=True)
for name in os.listdir(f"{wt}/seed_out"):
    s, d = f"{wt}/seed_out/{name}", f"{dst}/{name}"
    if os.path.isdir(s):
        shutil.rmtree(d, ignore_errors=True); shutil.copytree(s, d)
    else:
        shutil.copy(s, d)
meta = json.load(open(f"{dst}/meta.json"))
patch = f"{dst}/patch.diff"
run_sh = open(f"{dst}/demo/run.sh").read().strip().splitlines()[-1]
res = {"confirmed_at": time.strftime("%Y-%m-%dT%H:%M:%SZ", time.gmtime())}

sh("git checkout -q -- . ; git stash list >/dev/null", cwd=wt)
rc, out = sh(f"git apply {patch} || git apply -3 {patch}", cwd=wt)
if rc != 0:
    print("patch does not apply:", out); sys.exit(2)
rc, out = sh("go build ./... && go test -vet=off -count=1 $(go list ./... | grep -v 'seed_demo\|seed_out')", cwd=wt)
res["repo_tests_pass_with_change"] = rc == 0
if rc != 0: print(out[-1500:])
rc, out = sh(run_sh, cwd=wt)
res["demo_fails_with_change"] = rc != 0
changed = [l for l in subprocess.run(["git", "diff", "--name-only"], cwd=wt, capture_output=True, text=True).stdout.split() if l]
res["changed_files"] = changed
# overlay for xstate checks
ovdir = f"/verif/work/seed-{pid}"
os.makedirs(ovdir, exist_ok=True)
ov = {"Replace": {}}
for f in changed:
    cp = f"{ovdir}/{f.replace('/', '__')}"
    shutil.copy(f"{wt}/{f}", cp)
    ov["Replace"][f"/repo/{f}"] = cp
json.dump(ov, open(f"{ovdir}/ov.json", "w"))
res["checks"] = {}
for c in checks:
    lc = c.lower()
    t0 = time.time()
    extra = {"VERIF_ROOT": "/verif", "VERIF_EVIDENCE_SUFFIX": ".seed"}
    if os.path.exists(f"/verif/cmd/{lc}/build.sh"):
        extra["VSCHED_REPO"] = wt
        extra["VERIF_LEXER_SRC"] = f"{wt}/bql/lexer/lexer.go"  # C16's build.sh instruments this file
        extra["SEED_OVERLAY"] = f"{ovdir}/ov.json"
        cmd = f"cd /verif && . ./env.sh && cmd/{lc}/build.sh {ovdir}/{lc} && {ovdir}/{lc} quick"
    else:
        cmd = f"cd /verif && . ./env.sh && go build -overlay {ovdir}/ov.json -o {ovdir}/{lc} ./cmd/{lc} && {ovdir}/{lc} quick"
    rc, out = sh(cmd, extra=extra)
    viol = [l for l in out.splitlines() if l.startswith("VIOLATION")]
    detail = [l.strip()[:300] for l in out.splitlines() if l.startswith("  violation")][:3]
    res["checks"][c] = {"exit": rc, "violation_lines": len(viol), "caught": rc == 1 and len(viol) > 0, "first_violations": detail, "wall_s": round(time.time() - t0, 1)}
    print(c, "exit", rc, "violations", len(viol), detail[:1])
sh("git checkout -q -- .", cwd=wt)
rc, out = sh(run_sh, cwd=wt)
res["demo_passes_without_change"] = rc == 0
shutil.rmtree(ovdir, ignore_errors=True)
subprocess.run(["bash", "-c", f"git -C /repo worktree remove --force {wt}; git -C /repo worktree prune"])
res["repo_head"] = subprocess.run(["git", "-C", "/repo", "rev-parse", "--short", "HEAD"], capture_output=True, text=True).stdout.strip()
meta["verif"] = res
json.dump(meta, open(f"{dst}/meta.json", "w"), indent=1)
print(json.dumps({k: v for k, v in res.items() if k != "checks"}))
