#!/usr/bin/env python3
"""seedprep.py <round> [ids...] — prepares scratch worktrees /tmp/seed<round>-Cxx of /repo HEAD with a SEED_TASK.txt
(property text + template + summaries of the earlier seeded changes of that property) for independent agents."""
import json, os, subprocess, sys, glob
rnd = sys.argv[1]
ids = sys.argv[2:] or [f"C{i:02d}" for i in range(1, 21)]
tmpl = open('/verif/work/seedprompts/TEMPLATE.txt').read()
for pid in ids:
    prop = open(f'/verif/work/seedprompts/{pid}.txt').read().strip()
    prev = []
    for d in sorted(glob.glob(f'/verif/seeded/{pid}*')):
        m = json.load(open(f'{d}/meta.json'))
        prev.append(m['summary'].strip())
    wt = f"/tmp/seed{rnd}-{pid}"
    subprocess.run(["bash", "-c", f"git -C /repo worktree remove --force {wt} 2>/dev/null; git -C /repo worktree prune; git -C /repo worktree add -q {wt} HEAD"], check=True)
    t = tmpl.replace("WORKTREE", wt).replace("PROPERTY_TEXT", prop).replace("PROPERTY_ID", pid)
    t += f"\n\nIMPORTANT — {len(prev)} other engineers already produced changes for this property; yours must be of a DIFFERENT kind: another function or package, another clause of the property statement, another trigger. Do not vary theirs.\n"
    for i, p in enumerate(prev):
        t += f"Earlier change {i+1}: {p}\n"
    open(f"{wt}/SEED_TASK.txt", "w").write(t)
print("prepared", len(ids))
