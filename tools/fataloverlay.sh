#!/bin/bash
# tools/fataloverlay.sh <dir>: writes <dir>/table.go (a copy of /repo's bql/table/table.go in
# which log.Fatalf panics with a marker) and <dir>/overlay.json for go build -overlay.
set -e
d="$1"; mkdir -p "$d"
src="${FATAL_SRC:-/repo/bql/table/table.go}"
python3 - "$src" "$d/table.go" <<'PY'
import sys,re
s=open(sys.argv[1]).read()
n=s.count('log.Fatalf(')
s=s.replace('log.Fatalf(','panic("log.Fatalf: " + fmt.Sprintf(')
# close the extra parenthesis: every replaced call ends with ")" on the same line
out=[]
for line in s.split('\n'):
    if 'panic("log.Fatalf: " + fmt.Sprintf(' in line:
        line=line.rstrip()
        assert line.endswith(')'), line
        line=line+')'
    out.append(line)
s='\n'.join(out)
import re as _re
if n and not _re.search(r'(?<![A-Za-z0-9_./])log\.[A-Z]', s.replace('log.Fatalf: ','')):
    s=s.replace('\t"log"\n','',1)
open(sys.argv[2],'w').write(s)
PY
d_abs="$(cd "$d" && pwd)"
echo "{\"Replace\":{\"/repo/bql/table/table.go\":\"$d_abs/table.go\"}}" > "$d/overlay.json"
