#!/bin/bash
# tools/runall.sh [tier] [ids...] : runs the checks one after the other, prints one line per check.
cd "$(dirname "$0")/.."; tier="${1:-quick}"; shift
ids="$@"; [ -z "$ids" ] && ids=$(ls cmd | grep '^c[0-9][0-9]$' | tr a-z A-Z)
mkdir -p work/runall
for id in $ids; do
  s=$(date +%s); ./vcheck $id $tier > work/runall/$id.out 2>&1; rc=$?; e=$(date +%s)
  echo "$id rc=$rc wall=$((e-s))s known=$(grep -c '^KNOWN-FINDING' work/runall/$id.out) viol=$(grep -c '^VIOLATION' work/runall/$id.out) $(grep '^note: listed findings not reproduced' work/runall/$id.out | cut -c1-300)"
done
