// Package semaphore is golang.org/x/sync/semaphore v0.14.0 with the rewrite
// rules of verif/instr applied (sync -> vsync, make(chan) -> vrt.MakeChan,
// close -> vrt.Close, <-ch -> vrt.Recv, select -> vrt.Select). The control flow
// is the original's, statement for statement.
package semaphore

import (
	"container/list"
	"context"

	"verif/vrt"
	sync "verif/vsync"
)

type waiter struct {
	n     int64
	ready chan<- struct{} // Closed when semaphore acquired.
}

// NewWeighted creates a new weighted semaphore with the given maximum combined
// weight for concurrent access.
func NewWeighted(n int64) *Weighted {
	w := &Weighted{size: n}
	return w
}

// Weighted provides a way to bound concurrent access to a resource.
type Weighted struct {
	size    int64
	cur     int64
	mu      sync.Mutex
	waiters list.List
}

// Acquire acquires the semaphore with a weight of n, blocking until resources
// are available or ctx is done.
func (s *Weighted) Acquire(ctx context.Context, n int64) error {
	done := ctx.Done()

	s.mu.Lock()
	switch vrt.Select(true, vrt.RecvCase(done)) {
	case 0:
		s.mu.Unlock()
		return ctx.Err()
	default:
	}
	if s.size-s.cur >= n && s.waiters.Len() == 0 {
		s.cur += n
		s.mu.Unlock()
		return nil
	}

	if n > s.size {
		s.mu.Unlock()
		vrt.Recv(done)
		return ctx.Err()
	}

	ready := vrt.MakeChan[struct{}]()
	w := waiter{n: n, ready: ready}
	elem := s.waiters.PushBack(w)
	s.mu.Unlock()

	switch vrt.Select(false, vrt.RecvCase(done), vrt.RecvCase((<-chan struct{})(ready))) {
	case 0:
		s.mu.Lock()
		switch vrt.Select(true, vrt.RecvCase((<-chan struct{})(ready))) {
		case 0:
			s.cur -= n
			s.notifyWaiters()
		default:
			isFront := s.waiters.Front() == elem
			s.waiters.Remove(elem)
			if isFront && s.size > s.cur {
				s.notifyWaiters()
			}
		}
		s.mu.Unlock()
		return ctx.Err()

	case 1:
		switch vrt.Select(true, vrt.RecvCase(done)) {
		case 0:
			s.Release(n)
			return ctx.Err()
		default:
		}
		return nil
	}
	panic("unreachable")
}

// TryAcquire acquires the semaphore with a weight of n without blocking.
func (s *Weighted) TryAcquire(n int64) bool {
	s.mu.Lock()
	success := s.size-s.cur >= n && s.waiters.Len() == 0
	if success {
		s.cur += n
	}
	s.mu.Unlock()
	return success
}

// Release releases the semaphore with a weight of n.
func (s *Weighted) Release(n int64) {
	s.mu.Lock()
	s.cur -= n
	if s.cur < 0 {
		s.mu.Unlock()
		panic("semaphore: released more than held")
	}
	s.notifyWaiters()
	s.mu.Unlock()
}

func (s *Weighted) notifyWaiters() {
	for {
		next := s.waiters.Front()
		if next == nil {
			break // No more waiters blocked.
		}

		w := next.Value.(waiter)
		if s.size-s.cur < w.n {
			break
		}

		s.cur += w.n
		s.waiters.Remove(next)
		vrt.Close(w.ready)
	}
}
