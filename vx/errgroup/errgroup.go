// Package errgroup is the vsched stand-in for golang.org/x/sync/errgroup
// (v0.14.0): the same API (WithContext, Go, TryGo, Wait, SetLimit) written over
// the vrt runtime so that the fan-out of the code under test is explored, not
// stubbed. Hand-written rather than generated because the original recovers
// panics of its workers (recover() would swallow the runtime's unwinding and
// hide the panic site): here a panicking worker is simply a panicking thread,
// which the runtime reports with its site. Part of the trusted base.
package errgroup

import (
	"context"
	"fmt"

	"verif/vrt"
	"verif/vsync"
)

type token struct{}

// Group is a collection of threads working on subtasks of one task.
type Group struct {
	cancel  func(error)
	wg      vsync.WaitGroup
	sem     chan token
	errOnce vsync.Once
	err     error
}

func (g *Group) done() {
	if g.sem != nil {
		vrt.Recv(g.sem)
	}
	g.wg.Done()
}

// WithContext returns a new Group and an associated Context derived from ctx.
func WithContext(ctx context.Context) (*Group, context.Context) {
	ctx, cancel := context.WithCancelCause(ctx)
	return &Group{cancel: cancel}, ctx
}

// Wait blocks until all function calls from the Go method have returned, then
// returns the first non-nil error (if any) from them.
func (g *Group) Wait() error {
	g.wg.Wait()
	if g.cancel != nil {
		vrt.ForeignEffect()
		g.cancel(g.err)
	}
	return g.err
}

// Go calls the given function in a new thread.
func (g *Group) Go(f func() error) {
	if g.sem != nil {
		vrt.Send(g.sem, token{})
	}
	g.add(f)
}

func (g *Group) add(f func() error) {
	g.wg.Add(1)
	vrt.Go(func() {
		defer g.done()
		if err := f(); err != nil {
			g.errOnce.Do(func() {
				g.err = err
				if g.cancel != nil {
					vrt.ForeignEffect()
					g.cancel(g.err)
				}
			})
		}
	})
}

// TryGo calls the given function in a new thread only if the number of active
// threads in the group is currently below the configured limit.
func (g *Group) TryGo(f func() error) bool {
	if g.sem != nil {
		if vrt.Select(true, vrt.SendCase(g.sem, token{})) < 0 {
			return false
		}
	}
	g.add(f)
	return true
}

// SetLimit limits the number of active threads in this group to at most n.
func (g *Group) SetLimit(n int) {
	if n < 0 {
		g.sem = nil
		return
	}
	if vrt.Len(g.sem) != 0 {
		panic(fmt.Errorf("errgroup: modify limit while %v goroutines in the group are still active", vrt.Len(g.sem)))
	}
	g.sem = vrt.MakeChan[token](n)
}
