#!/bin/bash
# Builds the framework offline from files on disk and warms the Go build cache.
cd "$(dirname "$0")" && . ./env.sh
mkdir -p work/bin evidence replays
rc=0
for d in cmd/*/; do
  n=$(basename "$d")
  if [ -x "$d/build.sh" ]; then "$d/build.sh" "work/bin/$n" || rc=2
  else go build -o "work/bin/$n" "./$d" || rc=2; fi
done
exit $rc
