#!/usr/bin/env python3
"""Generates MANIFEST.json from the table below (single source of truth)."""
import json, os
ALL = ["C%02d" % i for i in range(1, 21)]
# id -> (category, technique, level text, level note, design ref)
CHECKS = {
 "C01": ("model_checking", "explicit-state BFS over a reference set model, every transition replayed on a fresh real store",
         "All reachable states of a 10 (quick) / 14 (thorough) triple universe x every add/remove batch of size 0-2, plus the store-level state space (2 names, stale handles) to fixpoint; after every transition Exist for every universe triple, the full listing, graph names and error flags are compared with the set model.",
         "Bounded universe and batch size; identity judged structurally via exported accessors; one goroutine.", "3/C01"),
 "C02": ("model_checking", "explicit-state BFS over all subsets of a triple universe; in every state all ten lookup methods over an argument grid compared with a scan of the set model",
         "Every reachable content of a 7-8 triple universe (singleton and 2-batch add/remove transitions replayed on a fresh graph), and in every state all ten lookup methods over stored and non-stored subjects, predicates (same id immutable / @T1 / @T2 / absent anchor / absent id) and objects, default options; results as multisets, channel closed, no error. Plus every unordered pair of a shared near-collision value universe (178k pairs) in every position of a triple through add x / add y / remove x with the listing and all ten lookups asked with either value after each step.",
         "Bounded universe; reference lookup = filter by structural component equality (verif/lookup); default lookup options only (C09 owns options).", "3/C02"),
 "C03": ("model_checking", "bounded-exhaustive enumeration of query shapes x graph contents against a nested-loop reference evaluator",
         "All one-clause shapes (3 subjects x 10 predicate terms x 8 object terms, every sharing pattern of binding names, every single extraction modifier, 6 global time bounds; pairs of modifiers in thorough) x every subset of <= 3 triples (thorough: all 256 subsets) of an 8-triple universe, one and two FROM graphs (disjoint and overlapping); all two-clause shapes (146k) x 10 designed graphs. Row multisets compared with bqlm.Solve (one row per distinct assignment).",
         "Reference evaluator bqlm (600 lines, own reading of docs/bql.md and of the property); anchors in UTC; <= 2 clauses; multiplicities open only for overlapping graphs.", "3/C03"),
 "C04": ("model_checking", "explicit-state BFS over statement sequences against the StoreModel (reified blank-node groups up to renaming); every (state, statement, bulkSize) replayed on a fresh store through parse -> plan -> execute",
         "26 statements (CREATE / DROP single, multiple, existing, missing; INSERT / DELETE of 1-3 triples into 1-2 graphs incl. duplicates; CONSTRUCT / DECONSTRUCT with constants, bindings, anchor bindings, two INTO / FROM graphs, ';' reification with constant and bound extra facts; 6 statements that must be rejected before execution) x every reachable store content to depth 4 (5) from 3 start stores, bulkSize 1 and 1000; after each step every graph's listing equals the model, non-target graphs unchanged, reified groups on fresh blank nodes.",
         "Latitude: CREATE / DROP / INSERT / DELETE failing midway may leave partial effects on the graphs they name; row multiplicities are open when FROM graphs share a triple; patterns over graphs already holding blank-node groups and non-instantiable templates are skipped; _:b templates not generated (property silent).", "3/C04"),
 "C05": ("model_checking", "bounded-exhaustive enumeration of a value universe; print -> parse -> structural equality -> print; graph write/read over all small subsets",
         "Every node / predicate / literal / object / triple of a finite universe (ids of length <= 3-4 over a delimiter alphabet, anchors in 3 zones x 4 precisions, int64 and float64 boundary sets, texts, blobs) is printed, parsed back, compared structurally and printed again; every subset of size <= 4 (5) of a 14 (18) triple universe is written with WriteGraph and read into an empty graph.",
         "Domain taken from docs/temporal_graph_modeling.md; NaN excluded; longer ids and other zones not covered.", "3/C05"),
 "C06": ("model_checking", "all ordered pairs of a near-collision value universe; definedness on boundary sets; every schedule (deviation-bounded) of two or three threads computing UUIDs / Equal of different values on the instrumented value packages with sync.Pool modelled; table recomputed concurrently and in a second process",
         "UUID(x)=UUID(y) iff same kind and structurally equal, and Triple.Equal likewise, for all ordered pairs within each value family of a 1.6k (8.9k) value universe built from near-collisions; UUID defined on all int64/float64 boundary values; 10 concurrent scenarios x every schedule with <= 3 (6) deviations, each result equal to the sequential one; table also recomputed by 8 free-running goroutines and by a re-executed process.",
         "Schedule part: triple/node is not instrumented (its pool is the real one); second process = same binary on this machine.", "3/C06"),
 "C07": ("model_checking", "stateless model checking of the real (AST-instrumented) storage/memory, planner and table code under a cooperative scheduler: unbounded exploration with sleep sets per scenario plus deviation-bounded exploration without reduction; histories checked with porcupine against the set model",
         "18 scenario families x result-channel capacity 0/1 (2-25 threads; S6 = BQL INSERT || 2-clause SELECT, S6b CONSTRUCT || DROP, S6c SHOW || CREATE || DROP, S8 with sync.Pool modelled, S9 removal of triples never stored; per-lookup error-path and option scenarios). S1, S2, S3a, S4, S5a, S5b, S7: every Mazurkiewicz trace of the synchronisation operations and every schedule with <= 2 (quick) / <= 3 (thorough) deviations unreduced; S3 (shared LookupOptions) <= 3/4 deviations; S6 <= 1/2. On every execution: no panic / deadlock / leak / horizon, close exactly once also on error paths, batch atomicity, linearizability (porcupine), options unchanged before / during / after the call.",
         "Interleaving granularity is synchronisation operations; data-race freedom is validated, not decided, by a free-running -race companion. The explored program is the instrumented copy (map capacity hints dropped, map order ascending). RWMutex, WaitGroup and channel semantics are a transcription of Go's.", "3/C07"),
 "C08": ("model_checking", "stateless model checking of the real, AST-instrumented run.BQL pipeline: one controlled execution per (statement text, fresh store, chanSize, bulkSize) on the default schedule with global oracles (panic in any thread incl. log.Fatalf, deadlock, leak after return, tick/step horizon), every schedule with <= 1 deviation on every K-th execution; input spaces enumerated exhaustively",
         "S1 every token sequence <= 3 over the 55 kinds and every viable grammar prefix <= 6 (9) extended by each kind, with and without ';'; S2 every grammar sentence <= 14 (15) tokens, every single-token mutant (delete / duplicate / truncate / replace by each kind) and every lexeme-level edit; S3 every byte string <= 3 (4) over 18 punctuation bytes; S4 a 66-statement corpus x chanSize {0,1,3} x bulkSize {0,1,1000}; S5 every mutant of the corpus; against empty, named-empty and populated stores. 0.41 M (3.9 M) executions.",
         "One schedule per case outside the 1-3 % subset (no explored case changes outcome under any one-deviation schedule); negative chanSize / bulkSize are configuration, out of scope; memory driver only.", "3/C08"),
 "C09": ("model_checking", "explicit-state BFS over graph contents; in every state the full lookup-option grid x all ten methods compared with the reference Lookup model; paging checked against the implementation's own unpaged sequence",
         "All 64 contents of a 6-triple temporal universe; in each the grid lower/upper in {nil,T0,T1,T2} (incl. lower>upper, bounds equal to anchors) x filter {none, latest, isImmutable, isTemporal} x field {predicate, object} + LatestAnchor x (MaxElements, Offset) in {0..3}^2 x ten methods x an argument grid.",
         "Bounded universe; latitude: Field=subject and LatestAnchor+FilterOptions may error; MaxElements<=0 means unpaged.", "3/C09"),
 "C10": ("model_checking", "bounded-exhaustive enumeration of (base clause, OPTIONAL clause[s], binding sharing pattern, graph) against the reference evaluator (left outer join)",
         "Every one-clause base shape x every one-clause shape as OPTIONAL clause under every sharing pattern of names (128k shapes) x 5-8 designed graphs; every single extraction modifier on the optional clause (70k shapes); two OPTIONAL clauses in sequence over a reduced vocabulary (320k shapes); fully specified OPTIONAL clauses with one and with two join keys (26k shapes); a time bound taken from a binding followed by an OPTIONAL clause over a temporal predicate (96 shapes).",
         "Latitude: inside OPTIONAL an inapplicable extraction may mean 'no match' or 'match with NULL' (docs/bql.md vs C03), both accepted; joining on a binding an earlier OPTIONAL may have left NULL is not generated.", "3/C10"),
 "C11": ("model_checking", "bounded-exhaustive enumeration of aggregate queries x graph subsets against the reference evaluator (grouping by structural value identity)",
         "7 patterns whose columns mix value kinds x every choice of 1-2 grouping bindings (with/without alias) x every combination of count / count distinct / sum on the other bindings (786 queries) x 340 (thorough: 16k) subsets of a 10 (14) triple universe incl. empty results and singleton groups.",
         "sum over a column that is not uniformly int64 or float64 is unspecified and skipped; no OPTIONAL; <= 2 clauses.", "3/C11"),
 "C12": ("model_checking", "bounded-exhaustive enumeration of (query, ORDER BY key list, LIMIT) with a permutation + adjacent-order + valid-top-n oracle",
         "12 base queries (columns of int64 with negatives, float64 with fractions and 1e21, anchors in 3 zones and 4 precisions, text, node, predicate, extracted ids, aliases, aggregate outputs, a join, row-dropping extractions) x every key list of length <= 2 with ASC/DESC plus repeated keys x every LIMIT 0..N+1 and no LIMIT; 8 invalid limits with and without ORDER BY.",
         "Comparator: numbers numerically, anchors chronologically, everything else by printed form; ties free; Go map-iteration order inside badwolf is not controlled in this native build.", "3/C12"),
 "C13": ("model_checking", "bounded-exhaustive enumeration of HAVING expression trees in the shapes the grammar derives, evaluated truth-functionally over the rows of the same query without HAVING",
         "10 result tables (int64 with negatives, float64 with fractions and 1e21, text with characters below the quote, anchors in other zones, nodes, predicates, extracted ids/types, two-binding joins, aggregate outputs) x all trees A | NOT E | (E) | (E) AND E | (E) OR E to depth 2 over all atoms and to depth 3 over 6 atoms per table (140k expressions; thorough: depth 3 over all atoms); atoms compare with constants of the same and of other kinds and with other bindings.",
         "Latitude: a comparison between different kinds never holds or the query is rejected at execution; expressions the builder rejects at parse time are counted (documented forms must be accepted); < and > against node / predicate constants not generated.", "3/C13"),
 "C14": ("model_checking", "metamorphic closure enumerated exhaustively over a query corpus (differential, no reference model) + stateless model checking of planner scenarios under the vsched engine (schedules, select choices and map-iteration order, deviation bound 2/3)",
         "10.5k queries (all one-clause shapes with every modifier, two-clause shapes over a reduced vocabulary; thorough adds three-clause chains) x 4 graphs: all 24 injective renamings from a pool of 4 names, chanSize 0/1/3, GOMAXPROCS 1/2/4, repetition, all 3^n assignments of the triples to 3 FROM graphs, all clause permutations, all one-triple supersets (6 extra triples), total ORDER BY sequences; plus 10 planner scenarios (joins with 2-3 intermediate rows under 1/2/4 processors, total and repeated-key ORDER BY) where every schedule with <= 2 (3) deviations must return the specified rows.",
         "Go map-iteration order is owned only in the vsched part (MapOrderChoice); ORDER BY over columns mixing kinds does not determine a total order and is not judged.", "3/C14"),
 "C15": ("model_checking", "exhaustive enumeration of all strings up to a length bound over delimiter alphabets plus all single mutations of printed forms into all parser entry points; all short line sequences into the graph reader",
         "All strings of <= 4 (5) letters over a 25-letter alphabet whose letters include the delimiter tokens, focused alphabets to length 5-8, every prefix / suffix / deletion / duplication / injection of 45 (200) printed forms, into node, predicate, literal (default and bounded), object and triple parsers; reader: all sequences of <= 3 (4) lines over 9-10 line kinds.",
         "Random strings are replaced by exhaustive short strings and mutations; termination observed as return.", "3/C15"),
 "C16": ("model_checking", "bounded-exhaustive enumeration of short strings over a delimiter alphabet judged by a structural token-stream spec plus metamorphic relations; termination and channel closure decided by a step counter and exit hook in an instrumented copy of lexer.go",
         "Every string of <= 4 (5) letters over 29 letters at channel capacities 0,1,2,7: one terminal EOF/ERROR, token texts at increasing non-overlapping offsets, channel closed, bounded steps, identical streams at all capacities; whitespace and letter-case metamorphic relations; a keyword directly followed by a token that does not start with a letter lexes as with a blank; printed forms of values (also text spanning lines) lex to one token.",
         "Bounded alphabet and length; no token prediction; lexer || consumer schedule exploration not part of this check.", "3/C16"),
 "C17": ("model_checking", "complete graph search over the finite grammar tables; per alternative a witness statement replayed on the real parser with recording hooks",
         "BQL() and SemanticBQL() (73 rules, 178 alternatives each): disjoint first tokens, at most one empty alternative and last, every symbol defined / reachable / productive, no left recursion, same shape in both tables; 432 witnesses (1.3k-12k parser traces) accepted with the recorded alternative sequence equal to the table derivation.",
         "Finite table checked completely; one canonical lexeme per token kind.", "3/C17"),
 "C18": ("model_checking", "BFS over parser configurations (viable token prefixes) against an independent table-driven recogniser; sentence enumeration with all single-token mutations; exhaustive (A then B) histories on one parser compared with a fresh parser",
         "Every viable prefix of length < 12 (14) extended by each of the 55 token kinds (1.2M / 10M sequences); every statement of <= 14 tokens accepted, all single-token deletions / insertions / substitutions classified; 48-statement corpus x 561 first statements (every token prefix of every corpus statement) parsed in sequence on one SemanticBQL parser, canonical Statement dump (including the verdicts of the HAVING evaluator on probe rows) compared; the same with a collection in between and the second statement allocated at the address of the first.",
         "One canonical lexeme per kind, confirmed by re-lexing; recogniser validated against the repository's accept/reject tables.", "3/C18"),
 "C20": ("fault_enumeration", "fault enumeration by stateless model checking: the instrumented planner / table / semantic / memoization / memory code runs under the cooperative scheduler behind a fault-injecting storage.Store/Graph wrapper; every driver call of each statement's fault-free run fails in every mode; each plan explored with deviation-bounded scheduling without reduction",
         "45 statements (SELECT 1-3 clauses over every driver-call kind with OPTIONAL / GROUP BY / ORDER BY / HAVING / LIMIT, 1/2/4 processors, through the memoizing store; INSERT / DELETE into 1-2 graphs; CONSTRUCT / DECONSTRUCT with bulkSize 1 and 1000, ';' reification, 2 output graphs; SHOW, CREATE, DROP): 191 driver calls of 14 methods, 315 fault points (error before any element, after j elements, on write, from Graph / GraphNames / NewGraph / DeleteGraph), 1292 fault pairs. Quick: every fault point on the default schedule and on every schedule with exactly 1 deviation, every pair on the default schedule; thorough: pairs x 1 deviation and points x 2 deviations as far as the budget allows. Oracle: non-nil error, no panic / deadlock / leak / horizon, memoized repeat returns the fault-free rows.",
         "Fault points are the calls of the fault-free run; the faulty driver honours the contract (closes, yields, returns); one statement per execution; granularity = synchronisation operations.", "3/C20"),
 "C19": ("model_checking", "explicit-state BFS over (content, per-handle cache entries) with every transition replayed on a fresh memoized store, every read through every handle compared with the wrapped store; concurrent part (cmd/c19c): stateless model checking of the instrumented memoization + memory code, sleep sets (exhaustive) plus deviation-bounded runs",
         "Handles h1=NewGraph, h2,h3=Graph of the same graph through the memoization wrapper; add/remove of 3 triples through any handle; all lookups, Exist, Triples x 6 option values (paging offsets, window, latest) through any handle; BFS to depth 4-5 (6-7 thorough) with canonical-state deduplication; lookups given up after their first result (context cancelled) as an operation; every sequence <= 5 (6) of store-level operations (new, delete, get, add, remove, sweeps, names) against a plain memory store; every pair of a shared near-collision value universe through a second handle.",
         "Concurrent part: 16 scenarios (writer, 1-2 readers, optional second writer on one memoizer; miss path, hit path, handles obtained during a write, reads placed inside the forwarded write): every Mazurkiewicz trace for the 2-operation scenarios plus every schedule with <= 2-3 (3-4) deviations; oracle = the three clauses of the property against a recording layer around the wrapped store. One graph, 3 triples, <= 4 operations.", "3/C19"),
}
NOT_YET = "check not built yet in this round (work in progress; see DESIGN.md section 3)"
def main():
    checks = []
    for pid in ALL:
        if pid not in CHECKS: continue
        cat, tech, text, note, ref = CHECKS[pid]
        checks.append({
            "property_id": pid,
            "quick_cmd": "./vcheck %s quick" % pid,
            "thorough_cmd": "./vcheck %s thorough" % pid,
            "evidence_file": "/verif/evidence/%s.json" % pid,
            "replay_cmd_template": "./vcheck %s --replay {path}" % pid,
            "engine": "vsched" if pid in ("C07","C08","C20") else ("xstate+vsched" if pid in ("C14","C19","C06") else "xstate"),
            "level_claimed": {"category": cat, "text": text, "design_ref": "DESIGN.md section " + ref},
            "level_note": note,
            "technique": tech,
        })
    m = {
        "version": 1,
        "setup_cmd": "./setup.sh",
        "hooks": {
            "guard": "verif",
            "enable": "no source hooks are committed to /repo: instrumented copies of the working tree are generated per run and applied with go build -overlay (tag verif only marks generated files)",
            "baseline_off_cmd": "/verif/baseline.sh",
            "source_commits": [],
            "add_only": True,
        },
        "engines": [
            {"name": "vsched", "path": "/verif/instr /verif/vrt /verif/vsync /verif/vx /verif/explore", "serves_properties": [p for p in ("C07","C08","C20") if p in CHECKS],
             "kind_free_text": "stateless model checker for the real Go code: AST instrumenter (sync, channels, go, select, map range) + cooperative runtime + preemption-bounded / sleep-set DFS explorer, applied per run through go build -overlay"},
            {"name": "xstate", "path": "/verif/common /verif/model /verif/cmd", "serves_properties": [p for p in ALL if p in CHECKS],
             "kind_free_text": "explicit-state BFS / bounded-exhaustive enumeration against Go reference models; every model transition replayed on a fresh instance of the real implementation"},
        ],
        "checks": checks,
        "not_applicable": [{"property_id": p, "reason": NOT_YET} for p in ALL if p not in CHECKS],
        "notes": "Exit 0 held / 1 VIOLATION / 2 machinery error. Known findings: /verif/known_findings.json. Fix commits in /repo: see known_findings.json 'fixed'.",
    }
    json.dump(m, open(os.path.join(os.path.dirname(os.path.abspath(__file__)), "MANIFEST.json"), "w"), indent=1)
main()
