#!/usr/bin/env python3
"""Generates MANIFEST.json from the table below (single source of truth)."""
import json, os
ALL = ["C%02d" % i for i in range(1, 21)]
# id -> (category, technique, level text, level note, design ref)
CHECKS = {
 "C01": ("model_checking", "explicit-state BFS over a reference set model, every transition replayed on a fresh real store",
         "All reachable states of a 10 (quick) / 14 (thorough) triple universe x every add/remove batch of size 0-2, plus the store-level state space (2 names, stale handles) to fixpoint; after every transition Exist for every universe triple, the full listing, graph names and error flags are compared with the set model.",
         "Bounded universe and batch size; identity judged structurally via exported accessors; one goroutine.", "3/C01"),
}
NOT_YET = "check not built yet in this round (work in progress; see DESIGN.md section 3)"
def main():
    checks = []
    for pid in ALL:
        if pid not in CHECKS: continue
        cat, tech, text, note, ref = CHECKS[pid]
        checks.append({
            "property_id": pid,
            "quick_cmd": "./vcheck %s quick" % pid,
            "thorough_cmd": "./vcheck %s thorough" % pid,
            "evidence_file": "/verif/evidence/%s.json" % pid,
            "replay_cmd_template": "./vcheck %s --replay {path}" % pid,
            "engine": "vsched" if pid in ("C07","C08","C20") else "xstate",
            "level_claimed": {"category": cat, "text": text, "design_ref": "DESIGN.md section " + ref},
            "level_note": note,
            "technique": tech,
        })
    m = {
        "version": 1,
        "setup_cmd": "./setup.sh",
        "hooks": {
            "guard": "verif",
            "enable": "no source hooks are committed to /repo: instrumented copies of the working tree are generated per run and applied with go build -overlay (tag verif only marks generated files)",
            "baseline_off_cmd": "/verif/baseline.sh",
            "source_commits": [],
            "add_only": True,
        },
        "engines": [
            {"name": "xstate", "path": "/verif/common /verif/model /verif/cmd", "serves_properties": [p for p in ALL if p in CHECKS],
             "kind_free_text": "explicit-state BFS / bounded-exhaustive enumeration against Go reference models; every model transition replayed on a fresh instance of the real implementation"},
        ],
        "checks": checks,
        "not_applicable": [{"property_id": p, "reason": NOT_YET} for p in ALL if p not in CHECKS],
        "notes": "Exit 0 held / 1 VIOLATION / 2 machinery error. Known findings: /verif/known_findings.json. Fix commits in /repo: see known_findings.json 'fixed'.",
    }
    json.dump(m, open(os.path.join(os.path.dirname(os.path.abspath(__file__)), "MANIFEST.json"), "w"), indent=1)
main()
