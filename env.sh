# Environment for every build in /verif (sourced by vcheck and setup.sh).
# NOT GOTOOLCHAIN=local / GOSUMDB=off: /repo/go.mod says go 1.24 and the default
# go (1.23.5) switches offline to the cached go1.24.0 toolchain only like this.
export GOFLAGS=-mod=mod
export GOPROXY=off
export GONOSUMDB='github.com/*,golang.org/x/*'
export GONOSUMCHECK=1
export CGO_ENABLED=0
