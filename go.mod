module verif

go 1.24

replace github.com/google/badwolf => /repo

require github.com/google/badwolf v0.0.0-00010101000000-000000000000

require golang.org/x/mod v0.22.0 // indirect

require (
	github.com/anishathalye/porcupine v1.3.0
	github.com/google/uuid v1.6.0 // indirect
	github.com/pborman/uuid v1.2.1 // indirect
	golang.org/x/sync v0.14.0
	golang.org/x/tools v0.29.0
)
