#!/bin/bash
# Runs the repository's pinned test suite (guard off: no build tag, no overlay)
# and compares the set of passing tests with /root/.vp/BASELINE.json stable_pass.
cd /repo || exit 2
export GOFLAGS=-mod=mod GOPROXY=off
out=$(mktemp)
go test -mod=mod -json -vet=off -count=1 -timeout 25m ./... > "$out" 2>&1
python3 - "$out" <<'PY'
import json,sys
passed=set(); failed=set()
for l in open(sys.argv[1]):
    try: e=json.loads(l)
    except Exception: continue
    if e.get('Test'):
        k=e['Package']+'::'+e['Test']
        if e['Action']=='pass': passed.add(k)
        if e['Action']=='fail': failed.add(k)
base=set(json.load(open('/root/.vp/BASELINE.json'))['stable_pass'])
missing=sorted(base-passed)
print(f"baseline: {len(base)} pinned, {len(base&passed)} pass, {len(missing)} missing, {len(failed)} failed")
for m in missing[:20]: print("  MISSING", m)
for m in sorted(failed)[:20]: print("  FAILED", m)
sys.exit(1 if missing or failed else 0)
PY
rc=$?
rm -f "$out"
exit $rc
