package vals

// Near-collision universes shared by the checks that quantify over "all pairs of values" (C06: UUID and
// Equal; C01: the store keeps two values apart): values whose byte encodings, printed forms or hashed
// inputs coincide or nearly coincide across kinds, types, zones, lengths and spellings.

import (
	"encoding/binary"
	"encoding/json"
	"fmt"
	"strings"
	"time"

	"github.com/google/badwolf/triple/node"

	"verif/model"
)

// UUIDOf returns the UUID bytes of whatever the value holds.
func UUIDOf(v *Value) []byte {
	switch {
	case v.N != nil:
		return v.N.UUID()
	case v.P != nil:
		return v.P.UUID()
	case v.L != nil:
		return v.L.UUID()
	case v.O != nil:
		return v.O.UUID()
	}
	return v.T.UUID()
}

// instants: the same instant in three zones, neighbours, and instants outside
// the range in which time.Time.UnixNano is defined (1678..2262).
func NearInstants(thorough bool) []time.Time {
	z1, z8 := time.FixedZone("", 3600), time.FixedZone("", -8*3600)
	t0 := model.T0
	old := time.Date(1500, 1, 1, 0, 0, 0, 0, time.UTC)
	wrap := old
	for i := 0; i < 4; i++ { // + 2^64 ns in four steps of 2^62 ns
		wrap = wrap.Add(time.Duration(1 << 62))
	}
	out := []time.Time{
		t0, t0.In(z1), t0.In(z8), // one instant, three zones
		t0.Add(time.Nanosecond), t0.Add(-time.Nanosecond), model.T1,
		time.Unix(0, 1).UTC(), time.Unix(0, 0).UTC(),
		old, wrap, // 2^64 ns apart: one outside, one inside the UnixNano range
		time.Date(1, 1, 1, 0, 0, 0, 0, time.UTC), time.Date(9999, 12, 31, 23, 59, 59, 999999999, time.UTC),
	}
	if thorough {
		y1 := time.Date(1, 1, 1, 0, 0, 0, 0, time.UTC)
		w1 := y1
		for i := 0; i < 4; i++ {
			w1 = w1.Add(time.Duration(1 << 62))
		}
		out = append(out, w1, w1.In(z1), model.T2, model.T3, t0.Add(time.Second), t0.Add(1<<32),
			time.Date(1677, 9, 21, 0, 12, 43, 145224191, time.UTC), time.Date(1677, 9, 21, 0, 12, 43, 145224192, time.UTC),
			time.Date(2262, 4, 11, 23, 47, 16, 854775807, time.UTC), time.Date(2262, 4, 11, 23, 47, 16, 854775808, time.UTC),
			old.In(z8), time.Date(9999, 12, 31, 23, 59, 59, 999999999, z8))
	}
	return out
}

// varint16 is the byte string a 16-byte zero-padded signed varint occupies; it
// is used only to *construct* ids whose bytes coincide with those of another
// kind of value (the expected verdict never depends on it).
var LongX = strings.Repeat("k", 300)

func Varint16(v int64) string {
	b := make([]byte, 16)
	binary.PutVarint(b, v)
	return string(b)
}

func NearNodes(thorough bool) []*Spec {
	types := []string{"/a", "/a/b", "/ab", "/a/b/c", "/t", "/_"}
	ids := []string{"a", "b", "c", "bc", "/b", "/bc", "/b/c", "b/c", "immutable", "é", "A", Varint16(1), Varint16(2),
		LongX + "a", LongX + "b"} // longer than any fixed-size buffer, equal on the first 300 bytes
	if thorough {
		types = append(types, "/A", "/t/u", "/é")
		ids = append(ids, "ab", "a/b", "/", "//b", "c ", " c", "immutabl", "immutablee", "text\x00abc", Varint16(0), "\x00", "aimmutable")
	}
	var out []*Spec
	for _, t := range types {
		if _, err := node.NewType(t); err != nil {
			continue
		}
		for _, id := range ids {
			out = append(out, NodeSpec(t, id))
		}
	}
	// closure under the function being checked: ids that are the printed UUID of another value of the
	// universe (a node, a predicate, a literal), in every spelling a UUID parser accepts, on a blank and
	// on a typed node. NewBlankNode produces exactly such ids, and a UUID that is derived from an id
	// that is itself a UUID must still separate all of them.
	seeds := []*Spec{NodeSpec("/a", "a"), NodeSpec("/_", "a"), ImmSpec("a"), TextSpec("abc")}
	if thorough {
		seeds = append(seeds, NodeSpec("/t", "b"), TempSpec("p", model.T0), BoolSpec(true), IntSpec(1))
	}
	for _, sd := range seeds {
		u := fmt.Sprintf("%x", UUIDOf(MustBuild(sd)))
		if len(u) != 32 {
			continue
		}
		canon := u[0:8] + "-" + u[8:12] + "-" + u[12:16] + "-" + u[16:20] + "-" + u[20:]
		for _, id := range []string{canon, strings.ToUpper(canon), "urn:uuid:" + canon, "{" + canon + "}", u} {
			for _, t := range []string{"/_", "/t"} {
				out = append(out, NodeSpec(t, id))
			}
		}
	}
	return out
}

func NearPreds(thorough bool) []*Spec {
	ids := []string{LongX + "a", LongX + "b", "a", "/a", "/t", "/aa", "/ab", "/a/bc", "p", "ab", "A", "é", "text\x00abc", "blob\x00abc", "text\x00", "bool\x00true", "aimmutable", "a" + Varint16(model.T0.UnixNano())}
	if thorough {
		ids = append(ids, "/a/b", "/", "immutable", "b", "a\x00", "float64\x00"+strings.Repeat("\x00", 8), "int64\x00"+strings.Repeat("\x00", 10), "a ", "predicate\x00a")
	}
	ts := NearInstants(thorough)
	var out []*Spec
	for _, id := range ids {
		out = append(out, ImmSpec(id))
		for _, t := range ts {
			out = append(out, TempSpec(id, t))
		}
	}
	// boundary shift between id and anchor: whatever bytes a hash is fed for "id, then anchor", a variable-length
	// anchor encoding that follows a variable-length id without a separator lets the id swallow the first bytes of the
	// encoding. For two plausible encodings (seconds and nanoseconds as two varints; nanoseconds since the epoch as one
	// varint) and every split point, the partner predicate whose id ends with the swallowed bytes and whose anchor is
	// what the remaining bytes decode to.
	for _, t := range []time.Time{model.T0, model.T1} {
		out = append(out, TempSpec("a", t))
		b1 := make([]byte, 2*binary.MaxVarintLen64)
		n := binary.PutVarint(b1, t.Unix())
		n += binary.PutVarint(b1[n:], int64(t.Nanosecond()))
		b1 = b1[:n]
		for k := 1; k < len(b1)-1; k++ {
			sec, n1 := binary.Varint(b1[k:])
			if n1 <= 0 {
				continue
			}
			nsec, n2 := binary.Varint(b1[k+n1:])
			if n2 <= 0 || k+n1+n2 != len(b1) || nsec < 0 || nsec > 999999999 {
				continue
			}
			out = append(out, TempSpec("a"+string(b1[:k]), time.Unix(sec, nsec).UTC()))
		}
		b2 := make([]byte, binary.MaxVarintLen64)
		b2 = b2[:binary.PutVarint(b2, t.UnixNano())]
		for k := 1; k < len(b2); k++ {
			v, n1 := binary.Varint(b2[k:])
			if n1 <= 0 || k+n1 != len(b2) {
				continue
			}
			out = append(out, TempSpec("a"+string(b2[:k]), time.Unix(0, v).UTC()))
		}
	}
	return Dedup(out)
}

func NearLits(thorough bool) []*Spec {
	out := []*Spec{BoolSpec(true), BoolSpec(false)}
	texts := []string{LongX + "a", LongX + "b", "", "true", "false", "abc", "0", "1", "abcimmutable", "immutable", "trueimmutable", "\x00", strings.Repeat("\x00", 8), strings.Repeat("\x00", 10), "[]", "a"}
	for _, t := range texts {
		out = append(out, TextSpec(t), BlobSpec([]byte(t)))
	}
	ints, floats := Int64Boundaries(), Float64Boundaries()
	if !thorough {
		// quick: every third boundary value (all of them are in the definedness pass)
		ints, floats = Every(ints, 3), EveryF(floats, 3)
	}
	for _, v := range ints {
		out = append(out, IntSpec(v))
	}
	for _, v := range floats {
		out = append(out, FloatSpec(v))
	}
	// payloads that print alike across types
	out = append(out, IntSpec(0), FloatSpec(0), IntSpec(1), FloatSpec(1), TextSpec("1"),
		// floats that a fixed number of decimals cannot tell apart
		FloatSpec(5e-324), FloatSpec(1e-7), FloatSpec(2e-7), FloatSpec(0.1234561), FloatSpec(0.1234564))
	return Dedup(out)
}

func Every(v []int64, k int) []int64 {
	var out []int64
	for i := 0; i < len(v); i += k {
		out = append(out, v[i])
	}
	return out
}
func EveryF(v []float64, k int) []float64 {
	var out []float64
	for i := 0; i < len(v); i += k {
		out = append(out, v[i])
	}
	return out
}

func SpecID(s *Spec) string { b, _ := json.Marshal(s); return string(b) }

func Dedup(in []*Spec) []*Spec {
	seen := map[string]bool{}
	var out []*Spec
	for _, s := range in {
		k := SpecID(s)
		if !seen[k] {
			seen[k] = true
			out = append(out, s)
		}
	}
	return out
}
