// Package vals is the shared value layer of the checks C05, C06 and C15:
// JSON-serialisable value specifications (so every explored case can be
// replayed), offset-aware structural keys, boundary sets, exhaustive string
// enumeration and a panic guard that names the panic site.
//
// Nothing here uses badwolf's UUID() or String(); identity is structural,
// through exported accessors only (see verif/model).
package vals

import (
	"encoding/hex"
	"encoding/json"
	"fmt"
	"math"
	"regexp"
	"runtime/debug"
	"strconv"
	"strings"
	"sync/atomic"
	"time"
	"unicode/utf8"

	"github.com/google/badwolf/triple"
	"github.com/google/badwolf/triple/literal"
	"github.com/google/badwolf/triple/node"
	"github.com/google/badwolf/triple/predicate"

	"verif/common"
	"verif/model"
)

// Str is a Go string that survives JSON even when it is not valid UTF-8 or
// contains control bytes: such strings are written as {"hex":"…"}.
type Str string

func (s Str) MarshalJSON() ([]byte, error) {
	plain := utf8.ValidString(string(s))
	for i := 0; plain && i < len(s); i++ {
		if s[i] < 0x20 && s[i] != '\t' && s[i] != '\n' && s[i] != '\r' {
			plain = false
		}
	}
	if plain {
		return json.Marshal(string(s))
	}
	return json.Marshal(map[string]string{"hex": hex.EncodeToString([]byte(s))})
}

func (s *Str) UnmarshalJSON(b []byte) error {
	var plain string
	if err := json.Unmarshal(b, &plain); err == nil {
		*s = Str(plain)
		return nil
	}
	var m map[string]string
	if err := json.Unmarshal(b, &m); err != nil {
		return err
	}
	raw, err := hex.DecodeString(m["hex"])
	if err != nil {
		return err
	}
	*s = Str(raw)
	return nil
}

// Anchor is an instant plus a zone offset (seconds east of UTC).
type Anchor struct {
	Sec  int64 `json:"sec"`
	Nsec int   `json:"nsec"`
	Off  int   `json:"off"`
}

// Time builds the time.Time (offset 0 is time.UTC).
func (a Anchor) Time() time.Time {
	loc := time.UTC
	if a.Off != 0 {
		loc = time.FixedZone("", a.Off)
	}
	return time.Unix(a.Sec, int64(a.Nsec)).In(loc)
}

// AnchorOf records t.
func AnchorOf(t time.Time) *Anchor {
	_, off := t.Zone()
	return &Anchor{Sec: t.Unix(), Nsec: t.Nanosecond(), Off: off}
}

func (a Anchor) String() string {
	return fmt.Sprintf("%d.%09d%+d", a.Sec, a.Nsec, a.Off)
}

// Spec is a serialisable description of one value.
//
//	node:   K="node",  T=type, ID=id
//	pred:   K="pred",  ID=id, A=nil (immutable) | anchor
//	lit:    K="lit",   T=bool|int64|float64|text|blob, V=value
//	        (bool "true"/"false"; int64 decimal; float64 IEEE bits as 16 hex
//	        digits; text raw; blob raw bytes)
//	obj:    K="obj",   O=boxed node/pred/lit spec
//	triple: K="triple",S,P,O (O is an obj spec)
type Spec struct {
	K  string  `json:"k"`
	T  string  `json:"t,omitempty"`
	ID Str     `json:"id,omitempty"`
	A  *Anchor `json:"a,omitempty"`
	V  Str     `json:"v,omitempty"`
	S  *Spec   `json:"s,omitempty"`
	P  *Spec   `json:"p,omitempty"`
	O  *Spec   `json:"o,omitempty"`
}

func NodeSpec(t, id string) *Spec { return &Spec{K: "node", T: t, ID: Str(id)} }
func ImmSpec(id string) *Spec     { return &Spec{K: "pred", ID: Str(id)} }
func TempSpec(id string, t time.Time) *Spec {
	return &Spec{K: "pred", ID: Str(id), A: AnchorOf(t)}
}
func BoolSpec(v bool) *Spec   { return &Spec{K: "lit", T: "bool", V: Str(strconv.FormatBool(v))} }
func IntSpec(v int64) *Spec   { return &Spec{K: "lit", T: "int64", V: Str(strconv.FormatInt(v, 10))} }
func TextSpec(v string) *Spec { return &Spec{K: "lit", T: "text", V: Str(v)} }
func BlobSpec(v []byte) *Spec { return &Spec{K: "lit", T: "blob", V: Str(v)} }
func FloatSpec(v float64) *Spec {
	return &Spec{K: "lit", T: "float64", V: Str(fmt.Sprintf("%016x", math.Float64bits(v)))}
}
func ObjSpec(inner *Spec) *Spec      { return &Spec{K: "obj", O: inner} }
func TripleSpec(s, p, o *Spec) *Spec { return &Spec{K: "triple", S: s, P: p, O: o} }

// Short is a compact human-readable rendering of the spec (not badwolf's).
func (s *Spec) Short() string {
	switch s.K {
	case "node":
		return fmt.Sprintf("node(%q,%q)", s.T, string(s.ID))
	case "pred":
		if s.A == nil {
			return fmt.Sprintf("pred(%q,immutable)", string(s.ID))
		}
		return fmt.Sprintf("pred(%q,@%s=%s)", string(s.ID), s.A, s.A.Time().Format(time.RFC3339Nano))
	case "lit":
		switch s.T {
		case "float64":
			u, _ := strconv.ParseUint(string(s.V), 16, 64)
			return fmt.Sprintf("lit(float64,%v=0x%s)", math.Float64frombits(u), string(s.V))
		case "blob":
			return fmt.Sprintf("lit(blob,%x)", string(s.V))
		}
		return fmt.Sprintf("lit(%s,%q)", s.T, string(s.V))
	case "obj":
		return "obj(" + s.O.Short() + ")"
	case "triple":
		return "triple(" + s.S.Short() + " " + s.P.Short() + " " + s.O.Short() + ")"
	}
	return "?"
}

// Value is a built value: exactly one field is set.
type Value struct {
	Spec *Spec
	N    *node.Node
	P    *predicate.Predicate
	L    *literal.Literal
	O    *triple.Object
	T    *triple.Triple
}

// Build constructs the real value through badwolf's constructors.
func Build(s *Spec) (*Value, error) {
	v := &Value{Spec: s}
	switch s.K {
	case "node":
		n, err := node.NewNodeFromStrings(s.T, string(s.ID))
		if err != nil {
			return nil, err
		}
		v.N = n
	case "pred":
		var p *predicate.Predicate
		var err error
		if s.A == nil {
			p, err = predicate.NewImmutable(string(s.ID))
		} else {
			p, err = predicate.NewTemporal(string(s.ID), s.A.Time())
		}
		if err != nil {
			return nil, err
		}
		v.P = p
	case "lit":
		var l *literal.Literal
		var err error
		b := literal.DefaultBuilder()
		switch s.T {
		case "bool":
			l, err = b.Build(literal.Bool, string(s.V) == "true")
		case "int64":
			var i int64
			i, err = strconv.ParseInt(string(s.V), 10, 64)
			if err == nil {
				l, err = b.Build(literal.Int64, i)
			}
		case "float64":
			var u uint64
			u, err = strconv.ParseUint(string(s.V), 16, 64)
			if err == nil {
				l, err = b.Build(literal.Float64, math.Float64frombits(u))
			}
		case "text":
			l, err = b.Build(literal.Text, string(s.V))
		case "blob":
			l, err = b.Build(literal.Blob, []byte(s.V))
		default:
			err = fmt.Errorf("unknown literal type %q", s.T)
		}
		if err != nil {
			return nil, err
		}
		v.L = l
	case "obj":
		in, err := Build(s.O)
		if err != nil {
			return nil, err
		}
		switch {
		case in.N != nil:
			v.O = triple.NewNodeObject(in.N)
		case in.P != nil:
			v.O = triple.NewPredicateObject(in.P)
		case in.L != nil:
			v.O = triple.NewLiteralObject(in.L)
		default:
			return nil, fmt.Errorf("object spec boxes %q", s.O.K)
		}
	case "triple":
		sv, err := Build(s.S)
		if err != nil {
			return nil, err
		}
		pv, err := Build(s.P)
		if err != nil {
			return nil, err
		}
		ov, err := Build(s.O)
		if err != nil {
			return nil, err
		}
		if sv.N == nil || pv.P == nil || ov.O == nil {
			return nil, fmt.Errorf("malformed triple spec")
		}
		t, err := triple.New(sv.N, pv.P, ov.O)
		if err != nil {
			return nil, err
		}
		v.T = t
	default:
		return nil, fmt.Errorf("unknown spec kind %q", s.K)
	}
	return v, nil
}

// MustBuild aborts the check (machinery error) when the vocabulary is malformed.
func MustBuild(s *Spec) *Value {
	v, err := Build(s)
	if err != nil {
		common.Machinery("value universe: cannot build %s: %v", s.Short(), err)
	}
	return v
}

// ---- structural keys (offset-aware where the property asks for it) -----------

func offsetOf(t *time.Time) int { _, off := t.Zone(); return off }

// PredKey is the structural identity of a predicate; withOffset adds the zone
// offset of the anchor (C05: "equal as instants with the same offset").
func PredKey(p *predicate.Predicate, withOffset bool) string {
	k := model.PredKey(p)
	if withOffset && p.Type() == predicate.Temporal {
		ta, _ := p.TimeAnchor()
		k += fmt.Sprintf("%+d", offsetOf(ta))
	}
	return k
}

// ObjKind returns node / literal / predicate / invalid.
func ObjKind(o *triple.Object) string {
	if o == nil {
		return "nil"
	}
	if n, err := o.Node(); err == nil && n != nil {
		return "node"
	}
	if l, err := o.Literal(); err == nil && l != nil {
		return "literal"
	}
	if p, err := o.Predicate(); err == nil && p != nil {
		return "predicate"
	}
	return "invalid"
}

func ObjKey(o *triple.Object, withOffset bool) string {
	if p, err := o.Predicate(); err == nil && p != nil {
		return "O" + PredKey(p, withOffset)
	}
	return model.ObjKey(o)
}

func TripleKey(t *triple.Triple, withOffset bool) string {
	return model.NodeKey(t.Subject()) + " " + PredKey(t.Predicate(), withOffset) + " " + ObjKey(t.Object(), withOffset)
}

// Key of a built value.
func (v *Value) Key(withOffset bool) string {
	switch {
	case v.N != nil:
		return model.NodeKey(v.N)
	case v.P != nil:
		return PredKey(v.P, withOffset)
	case v.L != nil:
		return model.LitKey(v.L)
	case v.O != nil:
		return ObjKey(v.O, withOffset)
	case v.T != nil:
		return TripleKey(v.T, withOffset)
	}
	return "?"
}

// ---- boundary sets -------------------------------------------------------------

// Int64Boundaries: 0, ±1, every varint length boundary of the zig-zag
// encoding (±2^(7k-1) and neighbours), powers of two near the int64 limits,
// decimal length boundaries, min and max.
func Int64Boundaries() []int64 {
	seen := map[int64]bool{}
	var out []int64
	add := func(v int64) {
		if !seen[v] {
			seen[v] = true
			out = append(out, v)
		}
	}
	add(0)
	add(1)
	add(-1)
	for k := 1; k <= 9; k++ {
		p := int64(1) << uint(7*k-1)
		for _, d := range []int64{-2, -1, 0, 1, 2} {
			add(p + d)
			add(-p + d)
		}
	}
	for _, sh := range []uint{31, 32, 53, 62} {
		p := int64(1) << sh
		for _, d := range []int64{-1, 0, 1} {
			add(p + d)
			add(-p + d)
		}
	}
	d := int64(1)
	for i := 0; i < 18; i++ {
		d *= 10
		add(d)
		add(d - 1)
		add(-d)
		add(-d + 1)
	}
	add(math.MaxInt64)
	add(math.MaxInt64 - 1)
	add(math.MinInt64)
	add(math.MinInt64 + 1)
	return out
}

// Float64Boundaries: signed zeros, infinities, subnormal/normal limits, the
// %v format switch points (1e21, 1e-4), integers around 2^53, classic
// hard-to-round decimals. NaN is not included (it is not equal to itself).
func Float64Boundaries() []float64 {
	base := []float64{
		0, 1, 2, 0.5, 0.1, 0.2, 0.3, 1.0 / 3.0, math.Pi, math.E,
		math.SmallestNonzeroFloat64,              // smallest subnormal
		math.Float64frombits(0x000fffffffffffff), // largest subnormal
		math.Float64frombits(0x0010000000000000), // smallest normal
		math.Float64frombits(0x0010000000000001), //
		math.MaxFloat64,                          //
		math.Float64frombits(0x7feffffffffffffe), // just below max
		math.MaxFloat32, math.SmallestNonzeroFloat32,
		1e20, 1e21, 1e22, 1e23, 9.999999999999999e20, 1e-4, 1e-5, 9.999e-5, 1e-7,
		1 << 53, 1<<53 + 2, 1<<53 - 1, 1 << 63, 1 << 64,
		123456789.125, 1.5, 1e100, 1e-100, 2.2250738585072011e-308, 5e-324, 1.7976931348623157e308,
		4.35, 0.000001, 1e6, 1e15, 1e16, 1e17, 100, 255, 256,
		math.Nextafter(1, 2), math.Nextafter(1, 0),
	}
	seen := map[uint64]bool{}
	var out []float64
	add := func(f float64) {
		b := math.Float64bits(f)
		if !seen[b] {
			seen[b] = true
			out = append(out, f)
		}
	}
	for _, f := range base {
		add(f)
		add(-f)
	}
	add(math.Inf(1))
	add(math.Inf(-1))
	return out
}

// ---- exhaustive string enumeration ----------------------------------------------

// CountStrings = number of strings of length min..max over k letters.
func CountStrings(k, min, max int) int {
	n, p := 0, 1
	for l := 0; l <= max; l++ {
		if l >= min {
			n += p
		}
		p *= k
	}
	return n
}

// AllStrings calls f for every concatenation of min..max letters of alpha
// (letters may be multi-character tokens), shortest first per worker; the set
// of strings is the same on every run, only the visiting order across workers
// differs. f runs concurrently. stop (may be nil) is polled between shards.
func AllStrings(alpha []string, min, max int, stop func() bool, f func(s string)) (complete bool) {
	var incomplete int32
	k := len(alpha)
	for l := min; l <= max; l++ {
		pre := 2
		if l < pre {
			pre = l
		}
		shards := 1
		for i := 0; i < pre; i++ {
			shards *= k
		}
		ll := l
		common.ParallelFor(shards, func(sh int) {
			if stop != nil && stop() {
				atomic.StoreInt32(&incomplete, 1)
				return
			}
			idx := make([]int, ll)
			x := sh
			for i := pre - 1; i >= 0; i-- {
				idx[i] = x % k
				x /= k
			}
			buf := make([]byte, 0, 64)
			for {
				buf = buf[:0]
				for _, j := range idx {
					buf = append(buf, alpha[j]...)
				}
				f(string(buf))
				// increment positions pre..ll-1
				i := ll - 1
				for ; i >= pre; i-- {
					idx[i]++
					if idx[i] < k {
						break
					}
					idx[i] = 0
				}
				if i < pre {
					return
				}
			}
		})
	}
	return atomic.LoadInt32(&incomplete) == 0
}

// StringsUpTo returns all strings of length min..max over alpha, shortest first.
func StringsUpTo(alpha []string, min, max int) []string {
	var out []string
	level := []string{""}
	for l := 0; l <= max; l++ {
		if l >= min {
			out = append(out, level...)
		}
		if l == max {
			break
		}
		next := make([]string, 0, len(level)*len(alpha))
		for _, s := range level {
			for _, a := range alpha {
				next = append(next, s+a)
			}
		}
		level = next
	}
	return out
}

// ---- panic guard ---------------------------------------------------------------

// Panic describes a recovered panic.
type Panic struct {
	Msg  string // the panic value
	Kind string // normalised: index-out-of-range, slice-bounds-out-of-range, nil-pointer-dereference, …
	Site string // innermost badwolf function on the stack, e.g. triple/node.Parse
}

func (p *Panic) Shape() string { return "panic:" + p.Kind + "@" + p.Site }

var digits = regexp.MustCompile(`[0-9]+`)

// Guard runs f; a panic is returned with its site.
func Guard(f func()) (p *Panic) {
	defer func() {
		if r := recover(); r != nil {
			p = &Panic{Msg: fmt.Sprint(r)}
			switch {
			case strings.Contains(p.Msg, "index out of range"):
				p.Kind = "index-out-of-range"
			case strings.Contains(p.Msg, "slice bounds out of range"):
				p.Kind = "slice-bounds-out-of-range"
			case strings.Contains(p.Msg, "nil pointer dereference"):
				p.Kind = "nil-pointer-dereference"
			default:
				k := digits.ReplaceAllString(p.Msg, "N")
				if len(k) > 48 {
					k = k[:48]
				}
				p.Kind = strings.ReplaceAll(k, " ", "-")
			}
			p.Site = "unknown"
			const pre = "github.com/google/badwolf/"
			for _, line := range strings.Split(string(debug.Stack()), "\n") {
				if strings.HasPrefix(line, pre) {
					fn := line[len(pre):]
					if i := strings.LastIndex(fn, "("); i > 0 {
						fn = fn[:i]
					}
					p.Site = fn
					break
				}
			}
		}
	}()
	f()
	return nil
}
