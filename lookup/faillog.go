package lookup

import "verif/common"

// Shard collects the failures of one unit of parallel work (one BFS state), so
// that they can be handed to the run in a fixed order afterwards: the example
// kept per (class, shape) and the replay file are then the same on every run,
// and the BFS order makes them the shortest ones.
type Shard struct {
	order []string
	first map[string]common.Failure
	count map[string]int
}

// Fail records one failing case in the shard.
func (s *Shard) Fail(f common.Failure) {
	if s.first == nil {
		s.first, s.count = map[string]common.Failure{}, map[string]int{}
	}
	k := f.Class + "|" + f.Shape
	if _, ok := s.first[k]; !ok {
		s.first[k] = f
		s.order = append(s.order, k)
	}
	s.count[k]++
}

// FailLazy is Fail for hot paths: mk is only called for the first failure of a
// (class, shape) in this shard.
func (s *Shard) FailLazy(class, shape string, mk func() common.Failure) {
	if s.first == nil {
		s.first, s.count = map[string]common.Failure{}, map[string]int{}
	}
	k := class + "|" + shape
	if _, ok := s.first[k]; !ok {
		f := mk()
		f.Class, f.Shape = class, shape
		s.first[k] = f
		s.order = append(s.order, k)
	}
	s.count[k]++
}

// Flush reports the shards' failures to r in shard order (counts preserved).
func Flush(r *common.Run, shards []Shard) {
	for i := range shards {
		s := &shards[i]
		for _, k := range s.order {
			for n := 0; n < s.count[k]; n++ {
				r.Fail(s.first[k])
			}
		}
	}
}
