package lookup

import (
	"context"
	"fmt"
	"os"
	"runtime/pprof"
	"sync/atomic"
	"time"

	"github.com/google/badwolf/storage"
	"github.com/google/badwolf/triple"
	"github.com/google/badwolf/triple/node"
	"github.com/google/badwolf/triple/predicate"

	"verif/common"
	"verif/model"
)

// ChanCap is the capacity of the channel handed to a lookup. The universes of
// the checks hold < 16 triples, so a correct lookup never fills it; the call can
// therefore run on the caller's goroutine, and "was the channel closed when the
// method returned" is an exact, schedule-free observation. A lookup emitting
// more than ChanCap elements is cut off (Result.Overflow) instead of blocking.
const ChanCap = 64

// Result is everything observable of one lookup call.
type Result struct {
	// Keys are the structural keys of the emitted components, in emission order.
	Keys []string
	// Err is the error text ("" = nil error).
	Err string
	// Closed reports that the channel was closed when the method returned.
	Closed bool
	// Overflow: more than ChanCap elements were emitted (the call was abandoned).
	Overflow bool
	// Panic is the recovered panic value, printed ("" = none).
	Panic string
	// Stalled (CallCancelled only): the call had not returned within the limit after its context was cancelled.
	Stalled bool
}

// OK reports a call that returned no error, closed its channel and did not panic.
func (r Result) OK() bool { return r.Err == "" && r.Closed && !r.Overflow && r.Panic == "" }

// Problem names what is wrong with a call that is not OK ("" if OK).
func (r Result) Problem() string {
	switch {
	case r.Panic != "":
		return "panic"
	case r.Overflow:
		return "more-than-" + fmt.Sprint(ChanCap) + "-elements"
	case r.Err != "" && !r.Closed:
		return "error-and-channel-left-open"
	case r.Err != "":
		return "error"
	case !r.Closed:
		return "channel-left-open"
	}
	return ""
}

func (r Result) String() string {
	s := fmt.Sprintf("%d elements %v", len(r.Keys), r.Keys)
	if p := r.Problem(); p != "" {
		s += " [" + p + ": " + r.Err + r.Panic + "]"
	}
	return s
}

// drain empties a buffered channel after the producer returned: it reports the
// elements and whether a close was seen. Never blocks.
func drain[T any](ch chan T, key func(T) string, r *Result) {
	for {
		select {
		case v, ok := <-ch:
			if !ok {
				r.Closed = true
				return
			}
			r.Keys = append(r.Keys, key(v))
		default:
			return
		}
	}
}

// run executes call on the caller's goroutine with a buffer of ChanCap and then
// drains without blocking. A producer that wanted to emit more than ChanCap
// elements would block; that is not a verdict but a stuck check, which the
// watchdog (StartWatchdog) turns into a machinery error naming the call.
func run[T any](call func(chan<- T) error, key func(T) string) Result {
	var r Result
	ch := make(chan T, ChanCap)
	var err error
	inFlight.Add(1)
	defer func() { inFlight.Add(-1); calls.Add(1) }()
	if p := common.Guard(func() { err = call(ch) }); p != nil {
		r.Panic = fmt.Sprint(p)
	}
	if err != nil {
		r.Err = err.Error()
	}
	drain(ch, key, &r)
	if len(r.Keys) >= ChanCap {
		r.Overflow = true
	}
	return r
}

// Call performs q on g with options lo and drains the channel.
func Call(g storage.Graph, q Query, lo *storage.LookupOptions) Result {
	ctx := model.Ctx
	switch q.M {
	case Objects:
		return run(func(c chan<- *triple.Object) error { return g.Objects(ctx, q.S, q.P, lo, c) }, ObjKey)
	case Subjects:
		return run(func(c chan<- *node.Node) error { return g.Subjects(ctx, q.P, q.O, lo, c) }, NodeKey)
	case PredicatesForSubject:
		return run(func(c chan<- *predicate.Predicate) error { return g.PredicatesForSubject(ctx, q.S, lo, c) }, PredKey)
	case PredicatesForObject:
		return run(func(c chan<- *predicate.Predicate) error { return g.PredicatesForObject(ctx, q.O, lo, c) }, PredKey)
	case PredicatesForSubjectAndObject:
		return run(func(c chan<- *predicate.Predicate) error {
			return g.PredicatesForSubjectAndObject(ctx, q.S, q.O, lo, c)
		}, PredKey)
	case TriplesForSubject:
		return run(func(c chan<- *triple.Triple) error { return g.TriplesForSubject(ctx, q.S, lo, c) }, TripleKey)
	case TriplesForPredicate:
		return run(func(c chan<- *triple.Triple) error { return g.TriplesForPredicate(ctx, q.P, lo, c) }, TripleKey)
	case TriplesForObject:
		return run(func(c chan<- *triple.Triple) error { return g.TriplesForObject(ctx, q.O, lo, c) }, TripleKey)
	case TriplesForSubjectAndPredicate:
		return run(func(c chan<- *triple.Triple) error {
			return g.TriplesForSubjectAndPredicate(ctx, q.S, q.P, lo, c)
		}, TripleKey)
	case TriplesForPredicateAndObject:
		return run(func(c chan<- *triple.Triple) error {
			return g.TriplesForPredicateAndObject(ctx, q.P, q.O, lo, c)
		}, TripleKey)
	case Triples:
		return run(func(c chan<- *triple.Triple) error { return g.Triples(ctx, lo, c) }, TripleKey)
	}
	return Result{Panic: fmt.Sprintf("lookup.Call: unknown method %d", q.M)}
}

// CallOpts is Call with a fresh storage.LookupOptions built from o.
func CallOpts(g storage.Graph, q Query, o Opts) Result { return Call(g, q, o.Storage()) }

var (
	calls    atomic.Int64
	inFlight atomic.Int64
)

// Calls returns the number of real lookup calls made so far.
func Calls() int64 { return calls.Load() }

// StartWatchdog aborts the process with exit code 2 (machinery error) when
// lookups are in flight and none has completed for the given time: a lookup
// that blocks (it filled the buffer, or never returns) must not look like a
// verdict, and must not hang the tier either.
func StartWatchdog(stall time.Duration) {
	go func() {
		last, since := calls.Load(), time.Now()
		for {
			time.Sleep(2 * time.Second)
			if c := calls.Load(); c != last || inFlight.Load() == 0 {
				last, since = c, time.Now()
				continue
			}
			if time.Since(since) > stall {
				fmt.Printf("MACHINERY-ERROR: %d lookup call(s) blocked for %v (more than %d elements emitted, or the method never returns)\n", inFlight.Load(), stall, ChanCap)
				os.Exit(2)
			}
		}
	}()
}

// MaybeProfile writes a CPU profile to $VERIF_PPROF when set (development aid).
func MaybeProfile() (stop func()) {
	p := os.Getenv("VERIF_PPROF")
	if p == "" {
		return func() {}
	}
	f, err := os.Create(p)
	if err != nil {
		return func() {}
	}
	pprof.StartCPUProfile(f)
	return func() { pprof.StopCPUProfile(); f.Close() }
}

// runCancel executes call on its own goroutine with an UNBUFFERED channel; the consumer (the caller's goroutine) takes
// up to `take` elements, then cancels the context and receives nothing more. It waits up to limit for the call to
// return: a producer that cannot return unless somebody keeps receiving is reported (Stalled), not waited for.
func runCancel[T any](call func(context.Context, chan<- T) error, key func(T) string, take int, limit time.Duration) Result {
	var r Result
	ctx, cancel := context.WithCancel(context.Background())
	defer cancel()
	ch := make(chan T)
	done := make(chan struct{})
	var err error
	var pnc interface{}
	go func() {
		defer close(done)
		pnc = common.Guard(func() { err = call(ctx, ch) })
	}()
	timer := time.NewTimer(limit)
	defer timer.Stop()
recv:
	for len(r.Keys) < take {
		select {
		case v, ok := <-ch:
			if !ok {
				r.Closed = true
				break recv
			}
			r.Keys = append(r.Keys, key(v))
		case <-done:
			break recv
		case <-timer.C:
			r.Stalled = true
			return r
		}
	}
	cancel()
	select {
	case <-done:
	case <-timer.C:
		r.Stalled = true
		return r
	}
	if pnc != nil {
		r.Panic = fmt.Sprint(pnc)
	}
	if err != nil {
		r.Err = err.Error()
	}
	calls.Add(1)
	return r
}

// CallCancelled performs q on g, takes at most `take` results, cancels the context and stops receiving.
func CallCancelled(g storage.Graph, q Query, lo *storage.LookupOptions, take int, limit time.Duration) Result {
	type cx = context.Context
	switch q.M {
	case Objects:
		return runCancel(func(ctx cx, c chan<- *triple.Object) error { return g.Objects(ctx, q.S, q.P, lo, c) }, ObjKey, take, limit)
	case Subjects:
		return runCancel(func(ctx cx, c chan<- *node.Node) error { return g.Subjects(ctx, q.P, q.O, lo, c) }, NodeKey, take, limit)
	case PredicatesForSubject:
		return runCancel(func(ctx cx, c chan<- *predicate.Predicate) error { return g.PredicatesForSubject(ctx, q.S, lo, c) }, PredKey, take, limit)
	case PredicatesForObject:
		return runCancel(func(ctx cx, c chan<- *predicate.Predicate) error { return g.PredicatesForObject(ctx, q.O, lo, c) }, PredKey, take, limit)
	case PredicatesForSubjectAndObject:
		return runCancel(func(ctx cx, c chan<- *predicate.Predicate) error {
			return g.PredicatesForSubjectAndObject(ctx, q.S, q.O, lo, c)
		}, PredKey, take, limit)
	case TriplesForSubject:
		return runCancel(func(ctx cx, c chan<- *triple.Triple) error { return g.TriplesForSubject(ctx, q.S, lo, c) }, TripleKey, take, limit)
	case TriplesForPredicate:
		return runCancel(func(ctx cx, c chan<- *triple.Triple) error { return g.TriplesForPredicate(ctx, q.P, lo, c) }, TripleKey, take, limit)
	case TriplesForObject:
		return runCancel(func(ctx cx, c chan<- *triple.Triple) error { return g.TriplesForObject(ctx, q.O, lo, c) }, TripleKey, take, limit)
	case TriplesForSubjectAndPredicate:
		return runCancel(func(ctx cx, c chan<- *triple.Triple) error {
			return g.TriplesForSubjectAndPredicate(ctx, q.S, q.P, lo, c)
		}, TripleKey, take, limit)
	case TriplesForPredicateAndObject:
		return runCancel(func(ctx cx, c chan<- *triple.Triple) error {
			return g.TriplesForPredicateAndObject(ctx, q.P, q.O, lo, c)
		}, TripleKey, take, limit)
	case Triples:
		return runCancel(func(ctx cx, c chan<- *triple.Triple) error { return g.Triples(ctx, lo, c) }, TripleKey, take, limit)
	}
	return Result{Panic: fmt.Sprintf("lookup.CallCancelled: unknown method %d", q.M)}
}
