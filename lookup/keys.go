package lookup

import (
	"sync"
	"sync/atomic"

	"github.com/google/badwolf/triple"
	"github.com/google/badwolf/triple/node"
	"github.com/google/badwolf/triple/predicate"

	"verif/model"
)

// The structural keys of verif/model are pure functions of immutable values
// (badwolf nodes, predicates, objects and triples have no mutators), so they
// are memoised per pointer: the checks compute tens of millions of them over a
// few dozen distinct values. The memo holds at most keyMemoMax entries; beyond
// that keys are simply recomputed.
const keyMemoMax = 1 << 16

var (
	keyMemo     sync.Map
	keyMemoSize atomic.Int64
)

func memo(ptr interface{}, f func() string) string {
	if v, ok := keyMemo.Load(ptr); ok {
		return v.(string)
	}
	k := f()
	if keyMemoSize.Load() < keyMemoMax {
		if _, loaded := keyMemo.LoadOrStore(ptr, k); !loaded {
			keyMemoSize.Add(1)
		}
	}
	return k
}

// NodeKey, PredKey, ObjKey, TripleKey equal the functions of the same name in
// verif/model.
func NodeKey(n *node.Node) string { return memo(n, func() string { return model.NodeKey(n) }) }
func PredKey(p *predicate.Predicate) string {
	return memo(p, func() string { return model.PredKey(p) })
}
func ObjKey(o *triple.Object) string { return memo(o, func() string { return model.ObjKey(o) }) }
func TripleKey(t *triple.Triple) string {
	return memo(t, func() string { return NodeKey(t.Subject()) + " " + PredKey(t.Predicate()) + " " + ObjKey(t.Object()) })
}

// KeysOf maps triples to their sorted structural keys (a multiset).
func KeysOf(ts []*triple.Triple) []string {
	ks := make([]string, 0, len(ts))
	for _, t := range ts {
		ks = append(ks, TripleKey(t))
	}
	return Sorted(ks)
}
