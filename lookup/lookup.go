// Package lookup is the reference model of the driver lookups used by C02, C09
// and C19, plus helpers that call the real methods and drain their channels.
//
// The model is deliberately boring: a lookup is a filter of a set of triples by
// *structural* equality of the fixed components (a predicate equals another one
// when identifier, kind and - when temporal - instant are equal), then the time
// window, then the filter function, then a deterministic order, then the page;
// exactly the order the property texts of C02/C09 and
// docs/support_new_filter_function.md give. Nothing of badwolf is used beyond
// constructors and accessors: no UUIDs, no String() forms, no indexes.
// (The only exception is Hyp.FilterComparesPredicateText, which exists to
// *classify* an already failing case, never to accept one.)
package lookup

import (
	"fmt"
	"sort"
	"time"

	"github.com/google/badwolf/bql/planner/filter"
	"github.com/google/badwolf/storage"
	"github.com/google/badwolf/triple"
	"github.com/google/badwolf/triple/node"
	"github.com/google/badwolf/triple/predicate"
)

// Component names what a method projects out of every matching triple.
type Component int

const (
	CompS Component = iota // the subject
	CompP                  // the predicate
	CompO                  // the object
	CompT                  // the whole triple
)

// Method is one of the ten lookups of storage.Graph, or the full listing.
type Method int

const (
	Objects Method = iota
	Subjects
	PredicatesForSubject
	PredicatesForObject
	PredicatesForSubjectAndObject
	TriplesForSubject
	TriplesForPredicate
	TriplesForObject
	TriplesForSubjectAndPredicate
	TriplesForPredicateAndObject
	Triples // the listing: fixes nothing (not one of "the ten", but it takes the same options)
	NumMethods
)

type methodInfo struct {
	name    string
	s, p, o bool // which components the method fixes
	proj    Component
}

var infos = [NumMethods]methodInfo{
	Objects:                       {"Objects", true, true, false, CompO},
	Subjects:                      {"Subjects", false, true, true, CompS},
	PredicatesForSubject:          {"PredicatesForSubject", true, false, false, CompP},
	PredicatesForObject:           {"PredicatesForObject", false, false, true, CompP},
	PredicatesForSubjectAndObject: {"PredicatesForSubjectAndObject", true, false, true, CompP},
	TriplesForSubject:             {"TriplesForSubject", true, false, false, CompT},
	TriplesForPredicate:           {"TriplesForPredicate", false, true, false, CompT},
	TriplesForObject:              {"TriplesForObject", false, false, true, CompT},
	TriplesForSubjectAndPredicate: {"TriplesForSubjectAndPredicate", true, true, false, CompT},
	TriplesForPredicateAndObject:  {"TriplesForPredicateAndObject", false, true, true, CompT},
	Triples:                       {"Triples", false, false, false, CompT},
}

// Ten lists the ten indexed lookup methods (without the listing).
var Ten = []Method{Objects, Subjects, PredicatesForSubject, PredicatesForObject,
	PredicatesForSubjectAndObject, TriplesForSubject, TriplesForPredicate, TriplesForObject,
	TriplesForSubjectAndPredicate, TriplesForPredicateAndObject}

func (m Method) String() string { return infos[m].name }

// Fixes reports which components the method takes as arguments.
func (m Method) Fixes() (s, p, o bool) { return infos[m].s, infos[m].p, infos[m].o }

// Projects reports which component of a matching triple the method emits.
func (m Method) Projects() Component { return infos[m].proj }

// MethodByName is the inverse of String (for replay files).
func MethodByName(n string) (Method, bool) {
	for m := Method(0); m < NumMethods; m++ {
		if infos[m].name == n {
			return m, true
		}
	}
	return 0, false
}

// Query is one lookup call: the method and the components it fixes (the others
// are ignored and may be nil).
type Query struct {
	M Method
	S *node.Node
	P *predicate.Predicate
	O *triple.Object
}

func (q Query) String() string {
	s, p, o := q.M.Fixes()
	out := q.M.String() + "("
	sep := ""
	if s {
		out += sep + "s=" + q.S.String()
		sep = ", "
	}
	if p {
		out += sep + "p=" + q.P.String()
		sep = ", "
	}
	if o {
		out += sep + "o=" + q.O.String()
	}
	return out + ")"
}

// Opts is a value of storage.LookupOptions in a form that can be enumerated,
// printed and stored in a replay file. FilterOp == 0 means "no FilterOptions".
type Opts struct {
	Lower        *time.Time       `json:"lower,omitempty"`
	Upper        *time.Time       `json:"upper,omitempty"`
	FilterOp     filter.Operation `json:"filter_op,omitempty"`
	FilterField  filter.Field     `json:"filter_field,omitempty"`
	LatestAnchor bool             `json:"latest_anchor,omitempty"`
	MaxElements  int              `json:"max_elements,omitempty"`
	Offset       int              `json:"offset,omitempty"`
}

// Storage builds a fresh storage.LookupOptions (the drivers write into the
// struct they are given, so it is never shared between calls).
func (o Opts) Storage() *storage.LookupOptions {
	lo := &storage.LookupOptions{MaxElements: o.MaxElements, Offset: o.Offset, LatestAnchor: o.LatestAnchor}
	if o.Lower != nil {
		t := *o.Lower
		lo.LowerAnchor = &t
	}
	if o.Upper != nil {
		t := *o.Upper
		lo.UpperAnchor = &t
	}
	if o.FilterOp != 0 {
		lo.FilterOptions = &filter.StorageOptions{Operation: o.FilterOp, Field: o.FilterField}
	}
	return lo
}

// Unpaged is o without a page.
func (o Opts) Unpaged() Opts { o.MaxElements, o.Offset = 0, 0; return o }

func (o Opts) String() string {
	f := func(t *time.Time) string {
		if t == nil {
			return "nil"
		}
		return t.Format(time.RFC3339)
	}
	s := fmt.Sprintf("window=[%s,%s]", f(o.Lower), f(o.Upper))
	if o.FilterOp != 0 {
		s += fmt.Sprintf(" filter=%s/%s", o.FilterOp, o.FilterField)
	}
	if o.LatestAnchor {
		s += " LatestAnchor"
	}
	return s + fmt.Sprintf(" MaxElements=%d Offset=%d", o.MaxElements, o.Offset)
}

// FilterActive reports whether a filter function runs (FilterOptions or LatestAnchor).
func (o Opts) FilterActive() bool { return o.FilterOp != 0 || o.LatestAnchor }

// Defined reports whether the property text defines the result for o. It does
// not for a filter on the subject field, for an unknown operation, or for
// LatestAnchor combined with FilterOptions: there a driver may return an error.
func (o Opts) Defined() bool {
	if o.FilterOp != 0 {
		if o.LatestAnchor {
			return false
		}
		if o.FilterField != filter.PredicateField && o.FilterField != filter.ObjectField {
			return false
		}
		if o.FilterOp != filter.Latest && o.FilterOp != filter.IsImmutable && o.FilterOp != filter.IsTemporal {
			return false
		}
	}
	return true
}

// Hyp switches the model to a *known-defect* reading. It is used only to give a
// failing case its shape ("the implementation behaves exactly as if ...").
type Hyp struct {
	// KindBlindPredicate: a query predicate matches stored predicates of the same
	// identifier when either of the two is immutable or both carry the same
	// instant (the kind is not compared).
	KindBlindPredicate bool
	// FilterComparesPredicateText: when a filter function runs in a lookup that
	// fixes the predicate, candidates whose predicate prints differently from
	// the query predicate (same instant, other zone) are dropped.
	FilterComparesPredicateText bool
}

// ---- component equality -----------------------------------------------------

func SameNode(a, b *node.Node) bool                { return NodeKey(a) == NodeKey(b) }
func SamePredicate(a, b *predicate.Predicate) bool { return PredKey(a) == PredKey(b) }
func SameObject(a, b *triple.Object) bool          { return ObjKey(a) == ObjKey(b) }

func kindBlindSame(q, stored *predicate.Predicate) bool {
	if q.ID() != stored.ID() {
		return false
	}
	if q.Type() == predicate.Immutable || stored.Type() == predicate.Immutable {
		return true
	}
	return SamePredicate(q, stored)
}

// ---- the model, stage by stage ----------------------------------------------

// Candidates returns the triples of set whose fixed components equal q's.
func Candidates(set []*triple.Triple, q Query, h Hyp) []*triple.Triple {
	fs, fp, fo := q.M.Fixes()
	var out []*triple.Triple
	for _, t := range set {
		if fs && !SameNode(q.S, t.Subject()) {
			continue
		}
		if fp {
			if h.KindBlindPredicate {
				if !kindBlindSame(q.P, t.Predicate()) {
					continue
				}
			} else if !SamePredicate(q.P, t.Predicate()) {
				continue
			}
		}
		if fo && !SameObject(q.O, t.Object()) {
			continue
		}
		out = append(out, t)
	}
	return out
}

// Window keeps every immutable triple and the temporal triples whose anchor
// lies in the closed interval [lower, upper]; a nil side is unbounded.
func Window(ts []*triple.Triple, lower, upper *time.Time) []*triple.Triple {
	var out []*triple.Triple
	for _, t := range ts {
		p := t.Predicate()
		if p.Type() == predicate.Temporal {
			a, _ := p.TimeAnchor()
			if lower != nil && a.Before(*lower) {
				continue
			}
			if upper != nil && a.After(*upper) {
				continue
			}
		}
		out = append(out, t)
	}
	return out
}

// fieldPredicate returns the predicate the filter looks at: the triple's
// predicate, or its object when that is a predicate (nil otherwise).
func fieldPredicate(t *triple.Triple, f filter.Field) *predicate.Predicate {
	switch f {
	case filter.PredicateField:
		return t.Predicate()
	case filter.ObjectField:
		if p, err := t.Object().Predicate(); err == nil {
			return p
		}
	}
	return nil
}

// ApplyFilter applies one filter function to the window's survivors.
//
//	isImmutable / isTemporal: the triples whose field predicate is of that kind;
//	latest: per predicate identifier of the field, the temporal triples whose
//	        anchor is the greatest among ts.
func ApplyFilter(ts []*triple.Triple, op filter.Operation, f filter.Field) []*triple.Triple {
	var out []*triple.Triple
	switch op {
	case filter.IsImmutable, filter.IsTemporal:
		want := predicate.Immutable
		if op == filter.IsTemporal {
			want = predicate.Temporal
		}
		for _, t := range ts {
			if p := fieldPredicate(t, f); p != nil && p.Type() == want {
				out = append(out, t)
			}
		}
	case filter.Latest:
		greatest := map[predicate.ID]time.Time{}
		for _, t := range ts {
			if p := fieldPredicate(t, f); p != nil && p.Type() == predicate.Temporal {
				a, _ := p.TimeAnchor()
				if g, ok := greatest[p.ID()]; !ok || a.After(g) {
					greatest[p.ID()] = *a
				}
			}
		}
		for _, t := range ts {
			if p := fieldPredicate(t, f); p != nil && p.Type() == predicate.Temporal {
				a, _ := p.TimeAnchor()
				if a.Equal(greatest[p.ID()]) {
					out = append(out, t)
				}
			}
		}
	}
	return out
}

// Select is the unpaged result of q with options o over set, as triples in the
// model's deterministic order (sorted by structural key). o must be Defined.
func Select(set []*triple.Triple, q Query, o Opts, h Hyp) []*triple.Triple {
	ts := Candidates(set, q, h)
	ts = Window(ts, o.Lower, o.Upper)
	if o.FilterActive() {
		_, fp, _ := q.M.Fixes()
		if fp && (h.KindBlindPredicate || h.FilterComparesPredicateText) {
			var kept []*triple.Triple
			for _, t := range ts {
				if h.FilterComparesPredicateText {
					if q.P.String() != t.Predicate().String() {
						continue
					}
				} else if !SamePredicate(q.P, t.Predicate()) {
					continue
				}
				kept = append(kept, t)
			}
			ts = kept
		}
		op, f := o.FilterOp, o.FilterField
		if o.LatestAnchor {
			op, f = filter.Latest, filter.PredicateField
		}
		ts = ApplyFilter(ts, op, f)
	}
	sort.SliceStable(ts, func(i, j int) bool { return TripleKey(ts[i]) < TripleKey(ts[j]) })
	return ts
}

// ProjectKey is the structural key of the component m emits for t.
func ProjectKey(m Method, t *triple.Triple) string {
	switch m.Projects() {
	case CompS:
		return NodeKey(t.Subject())
	case CompP:
		return PredKey(t.Predicate())
	case CompO:
		return ObjKey(t.Object())
	}
	return TripleKey(t)
}

// Project maps triples to the keys of the component m emits, in the same order.
func Project(m Method, ts []*triple.Triple) []string {
	out := make([]string, 0, len(ts))
	for _, t := range ts {
		out = append(out, ProjectKey(m, t))
	}
	return out
}

// Expect is the model's answer as a sorted multiset of projected keys (unpaged).
func Expect(set []*triple.Triple, q Query, o Opts, h Hyp) []string {
	ks := Project(q.M, Select(set, q, o.Unpaged(), h))
	sort.Strings(ks)
	return ks
}

// Page returns block k (from zero) of n elements of seq; n <= 0 means all of it.
func Page(seq []string, n, k int) []string {
	if n <= 0 {
		return seq
	}
	if k < 0 {
		k = 0
	}
	lo := n * k
	if lo >= len(seq) {
		return nil
	}
	hi := lo + n
	if hi > len(seq) {
		hi = len(seq)
	}
	return seq[lo:hi]
}

// Sorted returns a sorted copy.
func Sorted(a []string) []string {
	b := append([]string(nil), a...)
	sort.Strings(b)
	return b
}

// SameSeq compares two sequences element by element (nil equals empty).
func SameSeq(a, b []string) bool {
	if len(a) != len(b) {
		return false
	}
	for i := range a {
		if a[i] != b[i] {
			return false
		}
	}
	return true
}

// DiffMultiset returns what want has and got lacks, and the converse (both sorted inputs or not).
func DiffMultiset(want, got []string) (missing, extra []string) {
	c := map[string]int{}
	for _, w := range want {
		c[w]++
	}
	for _, g := range got {
		if c[g] > 0 {
			c[g]--
		} else {
			extra = append(extra, g)
		}
	}
	for _, w := range want {
		if c[w] > 0 {
			c[w]--
			missing = append(missing, w)
		}
	}
	return
}
