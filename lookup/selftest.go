package lookup

import (
	"fmt"
	"sort"
	"time"

	"github.com/google/badwolf/bql/planner/filter"
	"github.com/google/badwolf/triple"

	"verif/model"
)

// SelfTest validates the reference model against answers worked out by hand
// from the property texts of C02 and C09 (not from the implementation). A
// check calls it first and aborts with a machinery error (exit 2) when it
// fails: a wrong oracle must never be reported as a violation.
func SelfTest() error {
	a, b, c := model.N("/u", "a"), model.N("/u", "b"), model.N("/u", "c")
	zone := time.FixedZone("plus2", 2*3600)
	set := []*triple.Triple{
		model.T(a, model.PI("p"), model.ON(b)),                                 // 0 A
		model.T(a, model.PT("p", model.T0), model.ON(b)),                       // 1 B
		model.T(a, model.PT("p", model.T1), model.ON(b)),                       // 2 C
		model.T(a, model.PT("p", model.T1), model.ON(c)),                       // 3 D
		model.T(a, model.PT("q", model.T2), model.OP(model.PT("p", model.T1))), // 4 E
		model.T(a, model.PI("q"), model.ON(b)),                                 // 5 F
	}
	t0, t1, t2 := model.T0, model.T1, model.T2
	type tc struct {
		name string
		q    Query
		o    Opts
		want []int // indexes of the triples the answer derives from
	}
	cases := []tc{
		{"objects temporal", Query{M: Objects, S: a, P: model.PT("p", t1)}, Opts{}, []int{2, 3}},
		{"objects immutable: kind is compared", Query{M: Objects, S: a, P: model.PI("p")}, Opts{}, []int{0}},
		{"objects temporal, other zone, same instant", Query{M: Objects, S: a, P: model.PT("p", t1.In(zone))}, Opts{}, []int{2, 3}},
		{"objects absent anchor", Query{M: Objects, S: a, P: model.PT("p", t2)}, Opts{}, nil},
		{"subjects by predicate-valued object", Query{M: Subjects, P: model.PT("q", t2), O: model.OP(model.PT("p", t1))}, Opts{}, []int{4}},
		{"subjects: object predicate of other kind", Query{M: Subjects, P: model.PT("q", t2), O: model.OP(model.PI("p"))}, Opts{}, nil},
		{"window closed at both ends keeps immutables", Query{M: TriplesForSubject, S: a}, Opts{Lower: &t1, Upper: &t1}, []int{0, 2, 3, 5}},
		{"window lower>upper keeps only immutables", Query{M: TriplesForSubject, S: a}, Opts{Lower: &t2, Upper: &t0}, []int{0, 5}},
		{"window upper only", Query{M: TriplesForSubject, S: a}, Opts{Upper: &t0}, []int{0, 1, 5}},
		{"window lower only", Query{M: Triples}, Opts{Lower: &t2}, []int{0, 4, 5}},
		{"latest per predicate id, ties kept", Query{M: TriplesForSubject, S: a}, Opts{FilterOp: filter.Latest, FilterField: filter.PredicateField}, []int{2, 3, 4}},
		{"latest after window", Query{M: TriplesForSubject, S: a}, Opts{Upper: &t0, FilterOp: filter.Latest, FilterField: filter.PredicateField}, []int{1}},
		{"LatestAnchor is latest on the predicate", Query{M: PredicatesForSubject, S: a}, Opts{LatestAnchor: true, Upper: &t1}, []int{2, 3}},
		{"isImmutable predicate", Query{M: TriplesForSubject, S: a}, Opts{FilterOp: filter.IsImmutable, FilterField: filter.PredicateField}, []int{0, 5}},
		{"isTemporal predicate", Query{M: TriplesForObject, O: model.ON(b)}, Opts{FilterOp: filter.IsTemporal, FilterField: filter.PredicateField}, []int{1, 2}},
		{"isTemporal object", Query{M: Triples}, Opts{FilterOp: filter.IsTemporal, FilterField: filter.ObjectField}, []int{4}},
		{"isImmutable object: node objects are not immutable predicates", Query{M: Triples}, Opts{FilterOp: filter.IsImmutable, FilterField: filter.ObjectField}, nil},
		{"latest object", Query{M: Triples}, Opts{FilterOp: filter.Latest, FilterField: filter.ObjectField}, []int{4}},
		{"latest object outside the window", Query{M: Triples}, Opts{Upper: &t1, FilterOp: filter.Latest, FilterField: filter.ObjectField}, nil},
		{"latest on one anchor", Query{M: TriplesForPredicate, P: model.PT("p", t0)}, Opts{LatestAnchor: true}, []int{1}},
		{"S+O", Query{M: PredicatesForSubjectAndObject, S: a, O: model.ON(b)}, Opts{}, []int{0, 1, 2, 5}},
		{"P+O", Query{M: TriplesForPredicateAndObject, P: model.PI("q"), O: model.ON(b)}, Opts{}, []int{5}},
	}
	for _, k := range cases {
		if !k.o.Defined() {
			return fmt.Errorf("self-test %q: options reported undefined", k.name)
		}
		var want []string
		for _, i := range k.want {
			want = append(want, ProjectKey(k.q.M, set[i]))
		}
		sort.Strings(want)
		got := Expect(set, k.q, k.o, Hyp{})
		if !SameSeq(want, got) {
			return fmt.Errorf("self-test %q: model says %v, hand-computed %v", k.name, got, want)
		}
	}
	seq := []string{"0", "1", "2", "3", "4"}
	pages := []struct {
		n, k int
		want []string
	}{{2, 0, seq[0:2]}, {2, 1, seq[2:4]}, {2, 2, seq[4:5]}, {2, 3, nil}, {0, 3, seq}, {-1, 0, seq}, {5, 0, seq}, {5, 1, nil}, {1, 4, seq[4:5]}}
	for _, p := range pages {
		if got := Page(seq, p.n, p.k); !SameSeq(got, p.want) {
			return fmt.Errorf("self-test page(n=%d,k=%d) = %v, want %v", p.n, p.k, got, p.want)
		}
	}
	if (Opts{FilterOp: filter.Latest, FilterField: filter.SubjectField}).Defined() ||
		(Opts{FilterOp: filter.Latest, FilterField: filter.PredicateField, LatestAnchor: true}).Defined() {
		return fmt.Errorf("self-test: options outside the property text reported as defined")
	}
	// Brute-force cross-check, written separately: the default-options model must
	// equal a per-triple predicate evaluated with explicit component comparisons.
	for _, m := range Ten {
		for _, t := range set {
			q := Query{M: m, S: t.Subject(), P: t.Predicate(), O: t.Object()}
			fs, fp, fo := m.Fixes()
			var want []string
			for _, u := range set {
				same := true
				if fs && (u.Subject().Type().String() != t.Subject().Type().String() || u.Subject().ID().String() != t.Subject().ID().String()) {
					same = false
				}
				if fp {
					up, tp := u.Predicate(), t.Predicate()
					if up.ID() != tp.ID() || up.Type() != tp.Type() {
						same = false
					} else if ua, err := up.TimeAnchor(); err == nil {
						ta, _ := tp.TimeAnchor()
						if !ua.Equal(*ta) {
							same = false
						}
					}
				}
				if fo && model.ObjKey(u.Object()) != model.ObjKey(t.Object()) {
					same = false
				}
				if same {
					want = append(want, ProjectKey(m, u))
				}
			}
			sort.Strings(want)
			if got := Expect(set, q, Opts{}, Hyp{}); !SameSeq(got, want) {
				return fmt.Errorf("self-test brute force %v: model %v, scan %v", q, got, want)
			}
		}
	}
	return nil
}
