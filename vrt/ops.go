package vrt

import (
	"fmt"
	"unsafe"
)

// ---- object states (the vsync package wraps these) ---------------------------

// MutexState is the runtime state of a vsync.Mutex.
type MutexState struct {
	hdr    objHdr
	locked bool
}

// RWState is the runtime state of a vsync.RWMutex. Go's writer preference is
// modelled: a writer first takes the writer slot and announces itself
// (wpending), which blocks new readers; it holds once the active readers left.
type RWState struct {
	hdr      objHdr
	readers  int
	wslot    bool // some writer owns the inner writer mutex (announced or holding)
	wpending bool // announced: new RLock calls block
	writer   bool // holding
}

// WGState is the runtime state of a vsync.WaitGroup.
type WGState struct {
	hdr objHdr
	n   int
}

// OnceState is the runtime state of a vsync.Once.
type OnceState struct {
	hdr     objHdr
	done    bool
	running bool
}

func (s *sched) fresh(h *objHdr) bool {
	if h.epoch != s.epoch {
		s.oid(h)
		return true
	}
	return false
}

// Lock etc. return false in native mode (the caller then uses the real primitive).

func (m *MutexState) Lock() bool {
	s := enter()
	if s == nil {
		return false
	}
	if s.fresh(&m.hdr) {
		m.locked = false
	}
	s.do(&op{kind: OpLock, obj: &m.hdr, key: m})
	return true
}

func (m *MutexState) TryLock() (handled, ok bool) {
	s := enter()
	if s == nil {
		return false, false
	}
	if s.fresh(&m.hdr) {
		m.locked = false
	}
	// a scheduling point that touches the mutex, then a non-blocking attempt
	s.do(&op{kind: OpAccess, obj: &m.hdr})
	if m.locked {
		return true, false
	}
	m.locked = true
	return true, true
}

func (m *MutexState) Unlock() bool {
	s := enter()
	if s == nil {
		return false
	}
	if s.fresh(&m.hdr) {
		m.locked = false
	}
	s.do(&op{kind: OpUnlock, obj: &m.hdr, key: m})
	return true
}

func (r *RWState) reset(s *sched) {
	if s.fresh(&r.hdr) {
		r.readers, r.wslot, r.wpending, r.writer = 0, false, false, false
	}
}

func (r *RWState) RLock() bool {
	s := enter()
	if s == nil {
		return false
	}
	r.reset(s)
	s.do(&op{kind: OpRLock, obj: &r.hdr, key: r})
	return true
}

func (r *RWState) RUnlock() bool {
	s := enter()
	if s == nil {
		return false
	}
	r.reset(s)
	s.do(&op{kind: OpRUnlock, obj: &r.hdr, key: r})
	return true
}

func (r *RWState) Lock() bool {
	s := enter()
	if s == nil {
		return false
	}
	r.reset(s)
	s.do(&op{kind: OpWLock, obj: &r.hdr, key: r})
	if !r.writer {
		s.do(&op{kind: OpWLockWait, obj: &r.hdr, key: r})
	}
	return true
}

func (r *RWState) Unlock() bool {
	s := enter()
	if s == nil {
		return false
	}
	r.reset(s)
	s.do(&op{kind: OpWUnlock, obj: &r.hdr, key: r})
	return true
}

func (r *RWState) TryRLock() (handled, ok bool) {
	s := enter()
	if s == nil {
		return false, false
	}
	r.reset(s)
	s.do(&op{kind: OpAccess, obj: &r.hdr})
	if r.wpending {
		return true, false
	}
	r.readers++
	return true, true
}

func (r *RWState) TryLock() (handled, ok bool) {
	s := enter()
	if s == nil {
		return false, false
	}
	r.reset(s)
	s.do(&op{kind: OpAccess, obj: &r.hdr})
	if r.wslot || r.readers > 0 {
		return true, false
	}
	r.wslot, r.wpending, r.writer = true, true, true
	return true, true
}

func (w *WGState) Add(n int) bool {
	s := enter()
	if s == nil {
		return false
	}
	if s.fresh(&w.hdr) {
		w.n = 0
	}
	s.do(&op{kind: OpWgAdd, obj: &w.hdr, n: n, key: w})
	return true
}

func (w *WGState) Wait() bool {
	s := enter()
	if s == nil {
		return false
	}
	if s.fresh(&w.hdr) {
		w.n = 0
	}
	s.do(&op{kind: OpWgWait, obj: &w.hdr, key: w})
	return true
}

// Do returns false in native mode.
func (o *OnceState) Do(f func()) bool {
	s := enter()
	if s == nil {
		return false
	}
	if s.fresh(&o.hdr) {
		o.done, o.running = false, false
	}
	op1 := &op{kind: OpOnceEnter, obj: &o.hdr, key: o}
	s.do(op1)
	if op1.ok { // we are the one to run f
		defer func() {
			// like sync.Once: done even if f panics
			if s2 := active.Load(); s2 == s && !s.aborting && !s.ended {
				s.do(&op{kind: OpOnceExit, obj: &o.hdr, key: o})
			} else {
				o.done, o.running = true, false
			}
		}()
		f()
	}
	return true
}

// ---- channels -----------------------------------------------------------------

type chanState struct {
	hdr    objHdr
	cap    int
	buf    []any
	closed bool
}

func chanPtr[T any](ch chan T) unsafe.Pointer { return *(*unsafe.Pointer)(unsafe.Pointer(&ch)) }

func (s *sched) lookup(p unsafe.Pointer) *chanState {
	if p == nil {
		return nil
	}
	return s.chans[p]
}

func (s *sched) register(p unsafe.Pointer, capacity int) *chanState {
	c := &chanState{cap: capacity}
	s.oid(&c.hdr)
	s.chans[p] = c
	return c
}

type selCase struct {
	send  bool
	ch    *chanState
	isNil bool
	val   any
	ok    bool
	probe func() (any, bool, bool)
	prdy  bool
}

// receiversOf lists the threads (other than self) parked in a receive on c:
// either a plain recv or a select with a recv case on c.
func (s *sched) receiversOf(c *chanState, self *thread, f func(t *thread, caseIdx int)) {
	for _, t := range s.threads {
		if t == self || t.finished || t.pending == nil {
			continue
		}
		o := t.pending
		switch o.kind {
		case OpRecv:
			if o.ch == c {
				f(t, -1)
			}
		case OpSelect:
			for i, sc := range o.cases {
				if !sc.send && sc.ch == c && !sc.isNil {
					f(t, i)
					break
				}
			}
		}
	}
}

// senderParked: is some other thread parked in a send on c?
func (s *sched) senderParked(c *chanState, self *thread) bool {
	for _, t := range s.threads {
		if t == self || t.finished || t.pending == nil {
			continue
		}
		o := t.pending
		switch o.kind {
		case OpSend:
			if o.ch == c {
				return true
			}
		case OpSelect:
			for _, sc := range o.cases {
				if sc.send && sc.ch == c && !sc.isNil {
					return true
				}
			}
		}
	}
	return false
}

// alternative encoding for sends that hand the value to a parked receiver:
// alt = altRecvBase + receiver tid (select: case*altCaseMul + that).
const (
	altRecvBase = 1000
	altCaseMul  = 1000000
)

// sendAlts: the ways a send on c can fire (none = blocked).
func (s *sched) sendAlts(c *chanState, self *thread, f func(alt int)) {
	if c == nil {
		return
	}
	if c.closed {
		f(0) // fires and panics
		return
	}
	n := 0
	if len(c.buf) == 0 {
		s.receiversOf(c, self, func(t *thread, _ int) { f(altRecvBase + t.id); n++ })
	}
	if n == 0 && len(c.buf) < c.cap {
		f(0)
	}
}

func (s *sched) recvReady(c *chanState, o *op) bool {
	if c == nil {
		if o != nil && o.probe != nil {
			if !o.pready {
				v, ok, rdy := o.probe()
				if rdy {
					o.pready, o.val, o.ok = true, v, ok
				}
			}
			return o.pready
		}
		return false
	}
	return len(c.buf) > 0 || c.closed
}

// enabled appends the enabled alternatives of t's pending operation.
func (s *sched) enabled(t *thread) {
	o := t.pending
	switch o.kind {
	case OpStart, OpResume:
		s.addOpt(t, 0)
	case OpUnlock, OpRUnlock, OpWUnlock, OpWgAdd, OpOnceExit, OpAccess:
		s.addOpt(t, 0, o.obj)
	case OpLock:
		if !o.key.(*MutexState).locked {
			s.addOpt(t, 0, o.obj)
		}
	case OpRLock:
		if !o.key.(*RWState).wpending {
			s.addOpt(t, 0, o.obj)
		}
	case OpWLock:
		if !o.key.(*RWState).wslot {
			s.addOpt(t, 0, o.obj)
		}
	case OpWLockWait:
		if o.key.(*RWState).readers == 0 {
			s.addOpt(t, 0, o.obj)
		}
	case OpWgWait:
		if o.key.(*WGState).n == 0 {
			s.addOpt(t, 0, o.obj)
		}
	case OpOnceEnter:
		if !o.key.(*OnceState).running {
			s.addOpt(t, 0, o.obj)
		}
	case OpChoose:
		for i := 0; i < o.n; i++ {
			s.addOpt(t, i)
		}
	case OpClose:
		if o.ch != nil {
			s.addOpt(t, 0, &o.ch.hdr)
		} else {
			s.addOpt(t, 0)
		}
	case OpSend:
		s.sendAlts(o.ch, t, func(alt int) { s.addOpt(t, alt, &o.ch.hdr) })
	case OpRecv:
		if s.recvReady(o.ch, o) {
			if o.ch != nil {
				s.addOpt(t, 0, &o.ch.hdr)
			} else {
				s.addOpt(t, 0, &s.foreign)
			}
		}
	case OpSelect:
		var hs []*objHdr
		for _, sc := range o.cases {
			if sc.ch != nil {
				hs = append(hs, &sc.ch.hdr)
			} else if sc.probe != nil {
				hs = append(hs, &s.foreign)
			}
		}
		n := 0
		pairing := false // a rendezvous owned by a parked sender exists
		for i, sc := range o.cases {
			if sc.isNil {
				continue
			}
			if sc.send {
				s.sendAlts(sc.ch, t, func(alt int) { s.addOpt(t, i*altCaseMul+alt, hs...); n++ })
				continue
			}
			rdy := false
			if sc.ch == nil {
				if sc.probe != nil {
					if !sc.prdy {
						v, ok, r := sc.probe()
						if r {
							sc.prdy, sc.val, sc.ok = true, v, ok
						}
					}
					rdy = sc.prdy
				}
			} else {
				rdy = len(sc.ch.buf) > 0 || sc.ch.closed
				if !rdy && s.senderParked(sc.ch, t) {
					pairing = true
				}
			}
			if rdy {
				s.addOpt(t, i*altCaseMul, hs...)
				n++
			}
		}
		if n == 0 && o.hasDef && !pairing {
			s.addOpt(t, -1, hs...)
		}
	default:
		panic(fmt.Sprintf("vrt: enabled: unexpected op %v", o.kind))
	}
}

// deliver completes the receive of thread r (plain recv or select case) with
// value v; r continues with a Resume transition.
func (s *sched) deliver(r *thread, v any) {
	o := r.pending
	switch o.kind {
	case OpRecv:
		o.val, o.ok = v, true
	case OpSelect:
		for i, sc := range o.cases {
			if !sc.send && !sc.isNil && sc.ch != nil && sc.ch == s.curDeliver {
				sc.val, sc.ok = v, true
				o.chosen = i
				break
			}
		}
	}
	o.done = true
	r.resume = op{kind: OpResume}
	r.pending = &r.resume
}

func (s *sched) fireSend(t *thread, c *chanState, v any, alt int, o *op) {
	if c.closed {
		o.panicMsg = "send on closed channel"
		return
	}
	if alt >= altRecvBase {
		r := s.threads[alt-altRecvBase]
		s.curDeliver = c
		s.deliver(r, v)
		s.curDeliver = nil
		return
	}
	c.buf = append(c.buf, v)
}

// fire performs t's pending operation with the given alternative.
func (s *sched) fire(t *thread, alt int) {
	o := t.pending
	t.pending = nil
	o.done = true
	switch o.kind {
	case OpStart, OpResume:
		s.event(t, o.kind, nil, 0)
	case OpAccess:
		s.event(t, o.kind, o.obj, 0)
	case OpLock:
		o.key.(*MutexState).locked = true
		s.event(t, o.kind, o.obj, 0)
	case OpUnlock:
		m := o.key.(*MutexState)
		if !m.locked {
			o.panicMsg = "sync: unlock of unlocked mutex"
		}
		m.locked = false
		s.event(t, o.kind, o.obj, 0)
	case OpRLock:
		o.key.(*RWState).readers++
		s.event(t, o.kind, o.obj, 0)
	case OpRUnlock:
		r := o.key.(*RWState)
		if r.readers <= 0 {
			o.panicMsg = "sync: RUnlock of unlocked RWMutex"
		} else {
			r.readers--
		}
		s.event(t, o.kind, o.obj, 0)
	case OpWLock:
		r := o.key.(*RWState)
		r.wslot, r.wpending = true, true
		if r.readers == 0 {
			r.writer = true
		}
		s.event(t, o.kind, o.obj, 0)
	case OpWLockWait:
		o.key.(*RWState).writer = true
		s.event(t, o.kind, o.obj, 0)
	case OpWUnlock:
		r := o.key.(*RWState)
		if !r.writer {
			o.panicMsg = "sync: Unlock of unlocked RWMutex"
		}
		r.writer, r.wpending, r.wslot = false, false, false
		s.event(t, o.kind, o.obj, 0)
	case OpWgAdd:
		w := o.key.(*WGState)
		w.n += o.n
		if w.n < 0 {
			o.panicMsg = "sync: negative WaitGroup counter"
			w.n = 0
		}
		s.event(t, o.kind, o.obj, o.n)
	case OpWgWait:
		s.event(t, o.kind, o.obj, 0)
	case OpOnceEnter:
		on := o.key.(*OnceState)
		if !on.done {
			on.running = true
			o.ok = true
		}
		s.event(t, o.kind, o.obj, 0)
	case OpOnceExit:
		on := o.key.(*OnceState)
		on.done, on.running = true, false
		s.event(t, o.kind, o.obj, 0)
	case OpChoose:
		o.chosen = alt
		s.event(t, o.kind, nil, alt)
	case OpClose:
		switch {
		case o.ch == nil:
			o.panicMsg = "close of nil channel"
			s.event(t, o.kind, nil, 0)
		case o.ch.closed:
			o.panicMsg = "close of closed channel"
			s.event(t, o.kind, &o.ch.hdr, 1)
		default:
			o.ch.closed = true
			s.event(t, o.kind, &o.ch.hdr, 0)
		}
	case OpSend:
		s.fireSend(t, o.ch, o.val, alt, o)
		s.event(t, o.kind, &o.ch.hdr, alt)
	case OpRecv:
		s.fireRecv(o.ch, &o.val, &o.ok)
		if o.ch != nil {
			s.event(t, o.kind, &o.ch.hdr, 0)
		} else {
			s.event(t, o.kind, &s.foreign, 0)
		}
	case OpSelect:
		if alt < 0 {
			o.chosen = -1
			s.event(t, o.kind, nil, -1)
			return
		}
		i := alt / altCaseMul
		sc := o.cases[i]
		o.chosen = i
		if sc.send {
			s.fireSend(t, sc.ch, sc.val, alt%altCaseMul, o)
			s.event(t, o.kind, &sc.ch.hdr, alt)
			return
		}
		if sc.ch != nil {
			s.fireRecv(sc.ch, &sc.val, &sc.ok)
			s.event(t, o.kind, &sc.ch.hdr, alt)
		} else {
			s.event(t, o.kind, &s.foreign, alt) // foreign: value already taken by the probe
		}
	default:
		panic(fmt.Sprintf("vrt: fire: unexpected op %v", o.kind))
	}
}

func (s *sched) fireRecv(c *chanState, val *any, ok *bool) {
	if c == nil {
		return // foreign: filled by the probe
	}
	if len(c.buf) > 0 {
		*val, *ok = c.buf[0], true
		c.buf[0] = nil
		c.buf = c.buf[1:]
		return
	}
	*val, *ok = nil, false // closed
}
