// Package vrt is the cooperative runtime of the vsched engine: it executes the
// real (instrumented) Go code of the system under test with exactly one logical
// thread running at a time and lets a Chooser decide, at every hooked
// synchronisation operation, which thread performs its pending operation next.
//
// When no execution is active (Active() == false) every hook falls back to the
// native Go behaviour, so an instrumented binary runs sequential phases (package
// init, model building, free-running -race companions) unchanged.
//
// See README.md for the API used by harnesses and DESIGN.md §2.1 for the
// semantics that are modelled.
package vrt

import (
	"fmt"
	"runtime"
	"runtime/debug"
	"sort"
	"strings"
	"sync"
	"sync/atomic"
	"unsafe"
)

// OpKind is the kind of a hooked operation.
type OpKind uint8

const (
	OpNone OpKind = iota
	OpStart
	OpResume
	OpExit // only an event, never a pending op
	OpLock
	OpUnlock
	OpRLock
	OpRUnlock
	OpWLock     // RWMutex.Lock phase 1: take the writer slot + announce (+ acquire when no reader holds)
	OpWLockWait // RWMutex.Lock phase 2: wait for the active readers to leave
	OpWUnlock
	OpWgAdd
	OpWgWait
	OpOnceEnter
	OpOnceExit
	OpSend
	OpRecv
	OpClose
	OpSelect
	OpChoose
	OpAccess
	OpSpawn // only an event
)

var opNames = [...]string{"none", "start", "resume", "exit", "Lock", "Unlock", "RLock", "RUnlock", "W.Lock", "W.LockWait", "W.Unlock",
	"Wg.Add", "Wg.Wait", "Once.Enter", "Once.Exit", "send", "recv", "close", "select", "choose", "access", "spawn"}

func (k OpKind) String() string { return opNames[k] }

// Status of a finished execution.
type Status string

const (
	StOK       Status = "ok"
	StPanic    Status = "panic"
	StDeadlock Status = "deadlock"
	StLeak     Status = "leak"
	StHorizon  Status = "horizon"
	StPruned   Status = "pruned" // stopped by the chooser (sleep-set blocked / shard not owned)
	StDiverged Status = "diverged"
)

// Event is one executed transition (or spawn/exit marker) of the op trace.
type Event struct {
	Tid  int16
	Kind OpKind
	Obj  int32 // runtime object id (0 = none)
	Alt  int32
}

func (e Event) String() string {
	return fmt.Sprintf("t%d:%s#%d/%d", e.Tid, e.Kind, e.Obj, e.Alt)
}

// Opt is one option of a decision point: thread Tid performs its pending
// operation with alternative Alt.
type Opt struct {
	Tid  int
	Alt  int
	Kind OpKind
	Objs [3]int32 // objects touched (0 = unused slot); selects with >3 channels set Many
	Many bool     // touches more objects than fit: dependent with everything
	Read bool     // reader-side RWMutex operation (commutes with other reader-side ops)
}

// Sig is a compact signature of the option, used by the determinism checks.
func (o Opt) Sig() uint64 {
	h := uint64(o.Tid)<<48 ^ uint64(uint32(o.Alt))<<16 ^ uint64(o.Kind)
	for _, x := range o.Objs {
		h = h*1099511628211 ^ uint64(uint32(x))
	}
	return h
}

func (o Opt) String() string {
	return fmt.Sprintf("t%d:%s%v/%d", o.Tid, o.Kind, o.Objs, o.Alt)
}

// Point is a decision point handed to the Chooser. Opts[0] is the default
// choice: the current thread continues if it can, else the lowest thread id;
// first ready select case; Choose value 0.
type Point struct {
	Step int
	Cur  int // thread that was running (-1 if it has finished)
	// CurEnabled tells whether Opts[0] belongs to the thread that was running.
	CurEnabled bool
	Opts       []Opt
}

// Chooser drives one execution. Pick returns the index of the option to fire,
// or -1 to stop the execution (Status pruned).
type Chooser interface {
	Pick(p *Point) int
}

// DefaultChooser always takes option 0.
type DefaultChooser struct{}

func (DefaultChooser) Pick(*Point) int { return 0 }

// ThreadInfo describes an unfinished thread at the end of an execution.
type ThreadInfo struct {
	Tid     int    `json:"tid"`
	Name    string `json:"name,omitempty"`
	Pending string `json:"pending"`
	Site    string `json:"site,omitempty"`
}

// Outcome is the result of one execution.
type Outcome struct {
	Status    Status       `json:"status"`
	Detail    string       `json:"detail,omitempty"`     // panic value, horizon, ...
	PanicSite string       `json:"panic_site,omitempty"` // innermost non-runtime frame of the panic
	Stack     string       `json:"stack,omitempty"`
	PanicTid  int          `json:"panic_tid,omitempty"`
	Blocked   []ThreadInfo `json:"blocked,omitempty"`
	Steps     int          `json:"steps"`
	Ticks     int          `json:"ticks"`
	Threads   int          `json:"threads"`
	Trace     []Event      `json:"-"`
	HB        uint64       `json:"-"` // fingerprint of the happens-before partial order of the op trace
}

// Config of one execution.
type Config struct {
	MaxTicks int  // horizon: budget of Tick() calls (default 2e6)
	MaxSteps int  // horizon: budget of scheduled operations (default 100000)
	Procs    int  // answer of Procs() (runtime.GOMAXPROCS(0) in the code under test); default 4
	Diag     bool // record call sites of pending operations (slower)
	// MapOrderChoice makes every range over a map with >= 2 keys a choice point
	// (ascending = default, descending = deviation). Off: always ascending.
	MapOrderChoice bool
}

type abortSentinel struct{}

// fatalMarker is the panic value produced by Fatalf.
type fatalMarker struct{ msg string }

func (f fatalMarker) Error() string { return "log.Fatalf: " + f.msg }

type thread struct {
	id       int
	name     string
	wake     chan struct{}
	exited   chan struct{}
	pending  *op
	finished bool
	resume   op
	lastEv   uint64 // hash of this thread's last event (HB fingerprint)
	nEv      int
}

type op struct {
	kind OpKind
	obj  *objHdr
	ch   *chanState
	// channel operations
	val      any
	ok       bool
	probe    func() (any, bool, bool) // foreign channel: non-blocking native receive
	pready   bool                     // probe already succeeded (value consumed / closed seen)
	cases    []*selCase
	hasDef   bool
	chosen   int
	n        int // choose arity / wg delta
	done     bool
	panicMsg string
	site     string
	key      any
}

// objHdr is embedded in every vsync primitive; it gives the object an identity
// that is stable within one execution and reset between executions.
type objHdr struct {
	epoch uint64
	oid   int32
	last  uint64 // hash of the last event on the object (HB fingerprint)
}

type sched struct {
	cfg        Config
	chooser    Chooser
	epoch      uint64
	threads    []*thread
	cur        *thread
	steps      int
	ticks      int
	nextOid    int32
	aborting   bool
	ended      bool
	returned   bool
	out        Outcome
	chans      map[unsafe.Pointer]*chanState
	keys       map[any]*objHdr
	trace      []Event
	hb         uint64
	done       chan struct{}
	opts       []Opt
	optT       []*thread
	wg         sync.WaitGroup
	results    map[string]any
	curDeliver *chanState
	foreign    objHdr
}

var (
	active   atomic.Pointer[sched]
	epochCtr uint64
	runMu    sync.Mutex
)

// Active reports whether a controlled execution is running.
func Active() bool { return active.Load() != nil }

func cur() *sched { return active.Load() }

// Run performs one controlled execution of body (the root thread, id 0) under
// the chooser and returns its outcome. Executions are strictly sequential
// within a process.
func Run(cfg Config, ch Chooser, body func()) *Outcome {
	runMu.Lock()
	defer runMu.Unlock()
	if cfg.MaxTicks == 0 {
		cfg.MaxTicks = 2000000
	}
	if cfg.MaxSteps == 0 {
		cfg.MaxSteps = 100000
	}
	if cfg.Procs == 0 {
		cfg.Procs = 4
	}
	epochCtr++
	s := &sched{cfg: cfg, chooser: ch, epoch: epochCtr, chans: map[unsafe.Pointer]*chanState{},
		keys: map[any]*objHdr{}, done: make(chan struct{}, 1), nextOid: 1}
	s.out.Status = StOK
	active.Store(s)
	root := s.newThread(body, "root")
	// fire the root's start directly
	s.cur = root
	root.pending = nil
	s.event(root, OpStart, nil, 0)
	root.wake <- struct{}{}
	<-s.done
	// tear down: unwind every thread that is still parked
	s.aborting = true
	for _, t := range s.threads {
		select {
		case <-t.exited:
			continue
		default:
		}
		t.wake <- struct{}{}
		<-t.exited
	}
	s.wg.Wait()
	active.Store(nil)
	s.out.Steps = s.steps
	s.out.Ticks = s.ticks
	s.out.Threads = len(s.threads)
	s.out.Trace = s.trace
	s.out.HB = s.hb
	return &s.out
}

func (s *sched) newThread(f func(), name string) *thread {
	t := &thread{id: len(s.threads), name: name, wake: make(chan struct{}, 1), exited: make(chan struct{})}
	t.pending = &op{kind: OpStart}
	s.threads = append(s.threads, t)
	s.wg.Add(1)
	go s.threadMain(t, f)
	return t
}

func (s *sched) threadMain(t *thread, f func()) {
	defer s.wg.Done()
	defer close(t.exited)
	<-t.wake
	if s.aborting {
		return
	}
	defer func() {
		r := recover()
		if _, ok := r.(abortSentinel); ok {
			return
		}
		if s.aborting {
			// a panic raised while unwinding after the end of the execution
			return
		}
		if r != nil {
			st := string(debug.Stack())
			s.endWith(StPanic, fmt.Sprintf("%v", r), func(o *Outcome) {
				o.Stack = st
				o.PanicSite = panicSite(st)
				o.PanicTid = t.id
			})
			return
		}
		s.exit(t)
	}()
	f()
}

// panicSite extracts the innermost frame that is neither the Go runtime nor
// this package from a debug.Stack() dump taken in a deferred function.
func panicSite(st string) string {
	lines := strings.Split(st, "\n")
	seenPanic := false
	for i := 0; i+1 < len(lines); i++ {
		l := lines[i]
		if strings.HasPrefix(l, "panic(") {
			seenPanic = true
			continue
		}
		if !seenPanic || strings.HasPrefix(l, "\t") || strings.HasPrefix(l, "goroutine ") {
			continue
		}
		if strings.HasPrefix(l, "runtime.") || strings.HasPrefix(l, "verif/vrt.") || strings.HasPrefix(l, "verif/vsync.") {
			continue
		}
		fn := l
		if k := strings.LastIndex(fn, "("); k > 0 {
			fn = fn[:k]
		}
		if k := strings.LastIndex(fn, "/"); k >= 0 {
			fn = fn[k+1:]
		}
		return fn
	}
	return ""
}

// endWith records the final status (first one wins) and tells the driver.
func (s *sched) endWith(st Status, detail string, fill func(*Outcome)) {
	if s.ended {
		return
	}
	s.ended = true
	s.out.Status = st
	s.out.Detail = detail
	if fill != nil {
		fill(&s.out)
	}
	s.done <- struct{}{}
}

// stopHere ends the execution from inside a running thread: the driver is
// told, the thread parks and is unwound by the driver.
func (s *sched) stopHere(t *thread, st Status, detail string, fill func(*Outcome)) {
	s.endWith(st, detail, fill)
	<-t.wake
	panic(abortSentinel{})
}

func (s *sched) blockedInfo() []ThreadInfo {
	var bi []ThreadInfo
	for _, t := range s.threads {
		if t.finished || t.pending == nil {
			continue
		}
		bi = append(bi, ThreadInfo{Tid: t.id, Name: t.name, Pending: s.describe(t.pending), Site: t.pending.site})
	}
	return bi
}

func (s *sched) describe(o *op) string {
	switch o.kind {
	case OpSelect:
		var cs []string
		for _, c := range o.cases {
			d := "recv"
			if c.send {
				d = "send"
			}
			cs = append(cs, fmt.Sprintf("%s %s", d, chanName(c.ch, c.isNil, c.probe != nil)))
		}
		return "select{" + strings.Join(cs, "; ") + "}"
	case OpSend, OpRecv, OpClose:
		return fmt.Sprintf("%s %s", o.kind, chanName(o.ch, o.ch == nil && o.probe == nil, o.probe != nil))
	}
	if o.obj != nil {
		return fmt.Sprintf("%s #%d", o.kind, o.obj.oid)
	}
	return o.kind.String()
}

func chanName(c *chanState, isNil, foreign bool) string {
	if foreign {
		return "foreign-chan"
	}
	if c == nil || isNil {
		return "nil-chan"
	}
	return fmt.Sprintf("chan#%d(cap %d, len %d, closed %v)", c.hdr.oid, c.cap, len(c.buf), c.closed)
}

// quiescent: nothing is enabled.
func (s *sched) quiescent(self *thread) {
	unfinished := 0
	for _, t := range s.threads {
		if !t.finished {
			unfinished++
		}
	}
	if unfinished == 0 {
		s.endWith(StOK, "", nil)
		return
	}
	st := StDeadlock
	if s.returned {
		st = StLeak
	}
	bi := s.blockedInfo()
	s.endWith(st, fmt.Sprintf("%d thread(s) blocked forever", len(bi)), func(o *Outcome) { o.Blocked = bi })
}

// oid returns the execution-local id of an object header.
func (s *sched) oid(h *objHdr) int32 {
	if h.epoch != s.epoch {
		h.epoch = s.epoch
		h.oid = s.nextOid
		h.last = 0
		s.nextOid++
	}
	return h.oid
}

func mix(a, b uint64) uint64 {
	x := a*0x9E3779B97F4A7C15 ^ b
	x ^= x >> 29
	x *= 0xBF58476D1CE4E5B9
	x ^= x >> 32
	return x
}

// event appends to the op trace and updates the happens-before fingerprint:
// h(e) = H(thread, index in thread, kind, alt, object, h(previous event of the
// thread), h(previous event on the object)); the fingerprint is the sum of all
// h(e), hence equal for interleavings that order dependent events alike.
func (s *sched) event(t *thread, k OpKind, h *objHdr, alt int) {
	var oid int32
	var prevObj uint64
	if h != nil {
		oid = s.oid(h)
		prevObj = h.last
	}
	s.trace = append(s.trace, Event{Tid: int16(t.id), Kind: k, Obj: oid, Alt: int32(alt)})
	e := mix(mix(mix(mix(uint64(t.id)<<32|uint64(t.nEv), uint64(k)<<40|uint64(uint32(alt))), uint64(oid)), t.lastEv), prevObj)
	t.nEv++
	t.lastEv = e
	if h != nil {
		h.last = e
	}
	s.hb += e
}

// ---- decision ---------------------------------------------------------------

// options lists every enabled (thread, alternative), default first.
func (s *sched) options(self *thread) {
	s.opts = s.opts[:0]
	s.optT = s.optT[:0]
	add := func(t *thread) {
		if t.finished || t.pending == nil {
			return
		}
		s.enabled(t)
	}
	if self != nil && !self.finished {
		add(self)
	}
	for _, t := range s.threads {
		if t != self {
			add(t)
		}
	}
}

func (s *sched) addOpt(t *thread, alt int, objs ...*objHdr) {
	o := Opt{Tid: t.id, Alt: alt, Kind: t.pending.kind}
	n := 0
	for _, h := range objs {
		if h == nil {
			continue
		}
		if n == len(o.Objs) {
			o.Many = true
			break
		}
		o.Objs[n] = s.oid(h)
		n++
	}
	if o.Kind == OpRLock || o.Kind == OpRUnlock {
		o.Read = true
	}
	s.opts = append(s.opts, o)
	s.optT = append(s.optT, t)
}

// dispatch is called by the thread holding the baton after it published its
// pending operation (self.pending) or finished (self.finished). It returns when
// self's operation has been performed and self holds the baton again.
func (s *sched) dispatch(self *thread) {
	for {
		if s.steps >= s.cfg.MaxSteps {
			s.horizon(self, fmt.Sprintf("step budget %d exceeded", s.cfg.MaxSteps))
			return
		}
		s.options(self)
		if len(s.opts) == 0 {
			s.quiescent(self)
			if self.finished {
				return
			}
			<-self.wake
			panic(abortSentinel{})
		}
		p := Point{Step: s.steps, Cur: self.id, Opts: s.opts, CurEnabled: s.optT[0] == self}
		if self.finished {
			p.Cur = -1
		}
		idx := s.chooser.Pick(&p)
		if idx < 0 || idx >= len(s.opts) {
			detail := "stopped by chooser"
			st := StPruned
			if idx >= len(s.opts) {
				st, detail = StDiverged, fmt.Sprintf("chooser picked option %d of %d", idx, len(s.opts))
			}
			if self.finished {
				s.endWith(st, detail, nil)
				return
			}
			s.stopHere(self, st, detail, nil)
		}
		next, alt := s.optT[idx], s.opts[idx].Alt
		s.steps++
		s.fire(next, alt)
		if next == self {
			return
		}
		s.cur = next
		next.wake <- struct{}{}
		if self.finished {
			return
		}
		<-self.wake
		if s.aborting {
			panic(abortSentinel{})
		}
		return
	}
}

func (s *sched) horizon(self *thread, msg string) {
	bi := s.blockedInfo()
	fill := func(o *Outcome) { o.Blocked = bi }
	if self.finished {
		s.endWith(StHorizon, msg, fill)
		return
	}
	s.stopHere(self, StHorizon, msg, fill)
}

// do publishes o as the pending operation of the running thread and returns
// once it has been performed.
func (s *sched) do(o *op) {
	t := s.cur
	if s.cfg.Diag {
		o.site = callSite()
	}
	t.pending = o
	s.dispatch(t)
	if o.panicMsg != "" {
		panic(runtimeError(o.panicMsg))
	}
}

type runtimeError string

func (e runtimeError) Error() string { return string(e) }
func (e runtimeError) RuntimeError() {}

func callSite() string {
	var pcs [16]uintptr
	n := runtime.Callers(3, pcs[:])
	fr := runtime.CallersFrames(pcs[:n])
	for {
		f, more := fr.Next()
		if !strings.HasPrefix(f.Function, "verif/vrt.") && !strings.HasPrefix(f.Function, "verif/vsync.") && !strings.HasPrefix(f.Function, "verif/vx/") {
			fn := f.Function
			if k := strings.LastIndex(fn, "/"); k >= 0 {
				fn = fn[k+1:]
			}
			file := f.File
			if k := strings.LastIndex(file, "/"); k >= 0 {
				file = file[k+1:]
			}
			return fmt.Sprintf("%s (%s:%d)", fn, file, f.Line)
		}
		if !more {
			return ""
		}
	}
}

func (s *sched) exit(t *thread) {
	t.finished = true
	t.pending = nil
	s.event(t, OpExit, nil, 0)
	if t.id == 0 {
		s.returned = true
	}
	s.dispatch(t)
}

// enter is the common prologue of every hook: nil means "native mode".
func enter() *sched {
	s := active.Load()
	if s == nil {
		return nil
	}
	if s.aborting || s.ended {
		panic(abortSentinel{})
	}
	return s
}

// ---- public, non-channel API --------------------------------------------------

// Go starts f as a new logical thread (a plain goroutine in native mode).
func Go(f func()) { GoNamed("", f) }

// GoNamed is Go with a name that shows up in deadlock / leak reports.
func GoNamed(name string, f func()) {
	s := enter()
	if s == nil {
		go f()
		return
	}
	t := s.newThread(f, name)
	s.trace = append(s.trace, Event{Tid: int16(s.cur.id), Kind: OpSpawn, Alt: int32(t.id)})
}

// Tick is the step budget hook placed at function entries and loop bodies.
func Tick() {
	s := active.Load()
	if s == nil {
		return
	}
	if s.aborting || s.ended {
		panic(abortSentinel{})
	}
	s.ticks++
	if s.ticks > s.cfg.MaxTicks {
		s.horizon(s.cur, fmt.Sprintf("tick budget %d exceeded", s.cfg.MaxTicks))
	}
}

// Procs replaces runtime.GOMAXPROCS(0) in the code under test.
func Procs() int {
	s := active.Load()
	if s == nil {
		return runtime.GOMAXPROCS(0)
	}
	return s.cfg.Procs
}

// Fatalf replaces log.Fatalf: it panics with a marker instead of killing the process.
func Fatalf(format string, a ...any) {
	panic(fatalMarker{fmt.Sprintf(format, a...)})
}

// Fatal replaces log.Fatal.
func Fatal(a ...any) { panic(fatalMarker{fmt.Sprint(a...)}) }

// MarkReturned tells the leak oracle that the call under test has returned:
// from now on a quiescent state with parked threads is a leak, not a deadlock.
// (The return of the root thread has the same effect.)
func MarkReturned() {
	if s := enter(); s != nil {
		s.returned = true
	}
}

// Choose is a custom choice point of the running thread with n alternatives
// (default 0). It is not a scheduling point. Native mode: 0.
func Choose(n int) int {
	s := enter()
	if s == nil || n <= 1 {
		return 0
	}
	o := &op{kind: OpChoose, n: n}
	s.do(o)
	return o.chosen
}

// Epoch identifies the controlled execution the caller runs in (0: native mode). State that instrumented code keeps
// in package-level variables and that a model wants to reset between executions compares it with the one it saw last.
func Epoch() uint64 {
	if s := enter(); s != nil {
		return s.epoch
	}
	return 0
}

// Yield is a scheduling point that conflicts with every other Yield/Access(nil).
func Yield() { Access(nil) }

// Access is a scheduling point standing for an unsynchronised access to the
// shared location identified by key (any comparable value): two Access
// operations with the same key are dependent.
func Access(key any) {
	s := enter()
	if s == nil {
		return
	}
	h := s.keys[key]
	if h == nil {
		h = &objHdr{}
		s.keys[key] = h
	}
	s.do(&op{kind: OpAccess, obj: h})
}

// ForeignEffect must be called immediately before code that can change the
// state of a foreign channel (context cancellation): the transition that
// contains the change then conflicts with every operation on foreign channels.
func ForeignEffect() {
	s := enter()
	if s == nil {
		return
	}
	s.do(&op{kind: OpAccess, obj: &s.foreign})
}

// SetResult stores a value the harness wants to read after the execution
// (convenience; harness closures work as well).
func SetResult(k string, v any) {
	if s := active.Load(); s != nil {
		if s.results == nil {
			s.results = map[string]any{}
		}
		s.results[k] = v
	}
}

// Self returns the id of the running logical thread (-1 in native mode).
func Self() int {
	if s := active.Load(); s != nil && s.cur != nil {
		return s.cur.id
	}
	return -1
}

// Step returns the number of operations scheduled so far (0 in native mode); a
// logical clock for call/return histories.
func Step() int {
	if s := active.Load(); s != nil {
		return s.steps
	}
	return 0
}

// FormatTrace renders an op trace.
func FormatTrace(tr []Event) string {
	var b strings.Builder
	for i, e := range tr {
		if i > 0 {
			b.WriteByte(' ')
		}
		b.WriteString(e.String())
	}
	return b.String()
}

// sortedKeys orders canonical key strings.
func sortedIdx(keys []string) []int {
	idx := make([]int, len(keys))
	for i := range idx {
		idx[i] = i
	}
	sort.SliceStable(idx, func(a, b int) bool { return keys[idx[a]] < keys[idx[b]] })
	return idx
}
