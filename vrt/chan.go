package vrt

import (
	"fmt"
	"iter"
	"reflect"
	"sort"
	"unsafe"
)

func cast[T any](v any) T {
	if v == nil {
		var z T
		return z
	}
	return v.(T)
}

func sptr[T any](ch chan<- T) unsafe.Pointer { return *(*unsafe.Pointer)(unsafe.Pointer(&ch)) }
func rptr[T any](ch <-chan T) unsafe.Pointer { return *(*unsafe.Pointer)(unsafe.Pointer(&ch)) }

// MakeChan replaces make(chan T, n): the channel is owned by the runtime.
func MakeChan[T any](n ...int) chan T {
	c := 0
	if len(n) > 0 {
		c = n[0]
	}
	ch := make(chan T, c) // panics like make for a negative size
	if s := enter(); s != nil {
		s.register(chanPtr(ch), c)
	}
	return ch
}

func (s *sched) owned(p unsafe.Pointer, what string) *chanState {
	if p == nil {
		return nil
	}
	c := s.chans[p]
	if c == nil {
		// A channel the runtime has never seen: it was created by code that is
		// not instrumented. Sending on / closing it cannot be modelled.
		panic(fmt.Sprintf("vrt: %s on a channel that was not created through vrt.MakeChan (foreign channel)", what))
	}
	return c
}

// Send replaces `ch <- v`.
func Send[T any](ch chan<- T, v T) {
	s := enter()
	if s == nil {
		ch <- v
		return
	}
	c := s.owned(sptr(ch), "send")
	s.do(&op{kind: OpSend, ch: c, val: v})
}

// Recv replaces `<-ch`.
func Recv[T any](ch <-chan T) T {
	v, _ := Recv2(ch)
	return v
}

// Recv2 replaces `v, ok := <-ch`.
func Recv2[T any](ch <-chan T) (T, bool) {
	s := enter()
	if s == nil {
		v, ok := <-ch
		return v, ok
	}
	o := &op{kind: OpRecv}
	if p := rptr(ch); p != nil {
		o.ch = s.chans[p]
		if o.ch == nil {
			o.probe = func() (any, bool, bool) {
				select {
				case v, ok := <-ch:
					return v, ok, true
				default:
					return nil, false, false
				}
			}
		}
	}
	s.do(o)
	return cast[T](o.val), o.ok
}

// Close replaces close(ch).
func Close[T any](ch chan<- T) {
	s := enter()
	if s == nil {
		close(ch)
		return
	}
	p := sptr(ch)
	var c *chanState
	if p != nil {
		c = s.owned(p, "close")
	}
	s.do(&op{kind: OpClose, ch: c})
}

// Len replaces len(ch) for a channel of any direction.
func Len(ch any) int {
	v := reflect.ValueOf(ch)
	s := enter()
	if s == nil || v.IsNil() {
		return v.Len()
	}
	if c := s.lookup(v.UnsafePointer()); c != nil {
		return len(c.buf)
	}
	return v.Len()
}

// Cap replaces cap(ch).
func Cap(ch any) int { return reflect.ValueOf(ch).Cap() }

// Range replaces `for x := range ch`.
func Range[T any](ch <-chan T) iter.Seq[T] {
	return func(yield func(T) bool) {
		for {
			v, ok := Recv2(ch)
			if !ok || !yield(v) {
				return
			}
		}
	}
}

// ---- select -------------------------------------------------------------------

// Case is one communication clause of a select.
type Case interface {
	rt() *selCase
	native() reflect.SelectCase
	setNative(v reflect.Value, ok bool)
}

// RCase is a receive clause.
type RCase[T any] struct {
	sc  selCase
	ch  <-chan T
	val T
	ok  bool
}

// SCase is a send clause.
type SCase[T any] struct {
	sc selCase
	ch chan<- T
	v  T
}

// RecvCase builds `case v, ok := <-ch`.
func RecvCase[T any](ch <-chan T) *RCase[T] { return &RCase[T]{ch: ch} }

// SendCase builds `case ch <- v`.
func SendCase[T any](ch chan<- T, v T) *SCase[T] { return &SCase[T]{ch: ch, v: v} }

func (c *RCase[T]) rt() *selCase { return &c.sc }
func (c *SCase[T]) rt() *selCase { return &c.sc }
func (c *RCase[T]) native() reflect.SelectCase {
	return reflect.SelectCase{Dir: reflect.SelectRecv, Chan: reflect.ValueOf(c.ch)}
}
func (c *SCase[T]) native() reflect.SelectCase {
	return reflect.SelectCase{Dir: reflect.SelectSend, Chan: reflect.ValueOf(c.ch), Send: reflect.ValueOf(&c.v).Elem()}
}
func (c *RCase[T]) setNative(v reflect.Value, ok bool) {
	c.ok = ok
	if v.IsValid() {
		c.val, _ = v.Interface().(T)
	}
}
func (c *SCase[T]) setNative(reflect.Value, bool) {}

// Value returns the received value and the ok flag of the chosen receive clause.
func (c *RCase[T]) Value() (T, bool) { return c.val, c.ok }

// Val returns the received value of the chosen receive clause.
func (c *RCase[T]) Val() T { return c.val }

func (c *RCase[T]) prepare(s *sched) {
	c.sc = selCase{}
	p := rptr(c.ch)
	if p == nil {
		c.sc.isNil = true
		return
	}
	c.sc.ch = s.chans[p]
	if c.sc.ch == nil {
		ch := c.ch
		c.sc.probe = func() (any, bool, bool) {
			select {
			case v, ok := <-ch:
				return v, ok, true
			default:
				return nil, false, false
			}
		}
	}
}

func (c *SCase[T]) prepare(s *sched) {
	c.sc = selCase{send: true, val: c.v}
	p := sptr(c.ch)
	if p == nil {
		c.sc.isNil = true
		return
	}
	c.sc.ch = s.owned(p, "select-send")
}

type preparer interface{ prepare(s *sched) }

// Select replaces a select statement: it returns the index of the chosen clause
// or -1 for the default clause. A select without ready clause and without
// default blocks.
func Select(hasDefault bool, cases ...Case) int {
	s := enter()
	if s == nil {
		rc := make([]reflect.SelectCase, 0, len(cases)+1)
		for _, c := range cases {
			rc = append(rc, c.native())
		}
		if hasDefault {
			rc = append(rc, reflect.SelectCase{Dir: reflect.SelectDefault})
		}
		i, v, ok := reflect.Select(rc)
		if i == len(cases) {
			return -1
		}
		cases[i].setNative(v, ok)
		return i
	}
	o := &op{kind: OpSelect, hasDef: hasDefault}
	for _, c := range cases {
		c.(preparer).prepare(s)
		o.cases = append(o.cases, c.rt())
	}
	s.do(o)
	if o.chosen >= 0 {
		if f, ok := cases[o.chosen].(interface{ finish() }); ok {
			f.finish()
		}
	}
	return o.chosen
}

func (c *RCase[T]) finish() { c.val, c.ok = cast[T](c.sc.val), c.sc.ok }

// ---- map range ------------------------------------------------------------------

func canonKey(v reflect.Value) (string, bool) {
	switch v.Kind() {
	case reflect.String:
		return v.String(), true
	case reflect.Int, reflect.Int8, reflect.Int16, reflect.Int32, reflect.Int64:
		return fmt.Sprintf("%020d", uint64(v.Int())^(1<<63)), true
	case reflect.Uint, reflect.Uint8, reflect.Uint16, reflect.Uint32, reflect.Uint64, reflect.Uintptr:
		return fmt.Sprintf("%020d", v.Uint()), true
	case reflect.Bool:
		if v.Bool() {
			return "1", true
		}
		return "0", true
	case reflect.Float32, reflect.Float64:
		return fmt.Sprintf("%v", v.Float()), true
	case reflect.Struct, reflect.Array:
		return fmt.Sprintf("%#v", v.Interface()), true
	case reflect.Interface:
		if v.IsNil() {
			return "", true
		}
		k, ok := canonKey(v.Elem())
		return v.Elem().Type().String() + ":" + k, ok
	}
	return "", false
}

// KeyOrder may be installed by a harness to order map keys of kinds that have
// no canonical order by themselves (pointers): it returns a deterministic
// sort key for the value, or ok=false.
var KeyOrder func(k any) (string, bool)

// MapRange replaces `for k, v := range m`: keys are visited in a deterministic
// order owned by the runtime (ascending canonical key; descending when the
// map-order choice point says so), each key is re-checked for presence before
// it is produced (Go: entries removed during the iteration are not produced).
func MapRange[M ~map[K]V, K comparable, V any](m M) iter.Seq2[K, V] {
	return func(yield func(K, V) bool) {
		s := active.Load()
		if s == nil {
			for k, v := range m {
				if !yield(k, v) {
					return
				}
			}
			return
		}
		if len(m) == 0 {
			return
		}
		keys := make([]K, 0, len(m))
		for k := range m {
			keys = append(keys, k)
		}
		if len(keys) > 1 {
			sortKeys(keys)
			if s.cfg.MapOrderChoice && !s.aborting && !s.ended {
				if Choose(2) == 1 {
					for i, j := 0, len(keys)-1; i < j; i, j = i+1, j-1 {
						keys[i], keys[j] = keys[j], keys[i]
					}
				}
			}
		}
		for _, k := range keys {
			v, ok := m[k]
			if !ok {
				continue
			}
			if !yield(k, v) {
				return
			}
		}
	}
}

func sortKeys[K comparable](keys []K) {
	switch ks := any(keys).(type) {
	case []string:
		sort.Strings(ks)
		return
	case []int:
		sort.Ints(ks)
		return
	}
	cs := make([]string, len(keys))
	for i, k := range keys {
		c, ok := canonKey(reflect.ValueOf(k))
		if !ok && KeyOrder != nil {
			c, ok = KeyOrder(any(k))
		}
		if !ok {
			panic(fmt.Sprintf("vrt.MapRange: no canonical order for map key type %T (install vrt.KeyOrder)", k))
		}
		cs[i] = c
	}
	idx := sortedIdx(cs)
	out := make([]K, len(keys))
	for i, j := range idx {
		out[i] = keys[j]
	}
	copy(keys, out)
}
