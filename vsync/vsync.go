// Package vsync is the drop-in replacement for package sync in instrumented
// code: the same type names, backed by the vrt runtime while a controlled
// execution is active and by the real primitives otherwise.
package vsync

import (
	"sync"

	"verif/vrt"
)

// Locker is sync.Locker.
type Locker = sync.Locker

// Pool is passed through: which buffer a Pool hands out is not observable.
type Pool = sync.Pool

// Mutex replaces sync.Mutex.
type Mutex struct {
	st vrt.MutexState
	n  sync.Mutex
}

func (m *Mutex) Lock() {
	if !m.st.Lock() {
		m.n.Lock()
	}
}

func (m *Mutex) Unlock() {
	if !m.st.Unlock() {
		m.n.Unlock()
	}
}

func (m *Mutex) TryLock() bool {
	if h, ok := m.st.TryLock(); h {
		return ok
	}
	return m.n.TryLock()
}

// RWMutex replaces sync.RWMutex (writer preference modelled as in Go).
type RWMutex struct {
	st vrt.RWState
	n  sync.RWMutex
}

func (m *RWMutex) Lock() {
	if !m.st.Lock() {
		m.n.Lock()
	}
}

func (m *RWMutex) Unlock() {
	if !m.st.Unlock() {
		m.n.Unlock()
	}
}

func (m *RWMutex) RLock() {
	if !m.st.RLock() {
		m.n.RLock()
	}
}

func (m *RWMutex) RUnlock() {
	if !m.st.RUnlock() {
		m.n.RUnlock()
	}
}

func (m *RWMutex) TryLock() bool {
	if h, ok := m.st.TryLock(); h {
		return ok
	}
	return m.n.TryLock()
}

func (m *RWMutex) TryRLock() bool {
	if h, ok := m.st.TryRLock(); h {
		return ok
	}
	return m.n.TryRLock()
}

type rlocker RWMutex

func (r *rlocker) Lock()   { (*RWMutex)(r).RLock() }
func (r *rlocker) Unlock() { (*RWMutex)(r).RUnlock() }

// RLocker as in sync.
func (m *RWMutex) RLocker() Locker { return (*rlocker)(m) }

// WaitGroup replaces sync.WaitGroup.
type WaitGroup struct {
	st vrt.WGState
	n  sync.WaitGroup
}

func (w *WaitGroup) Add(d int) {
	if !w.st.Add(d) {
		w.n.Add(d)
	}
}

func (w *WaitGroup) Done() { w.Add(-1) }

func (w *WaitGroup) Wait() {
	if !w.st.Wait() {
		w.n.Wait()
	}
}

// Go as in sync (Go 1.25); provided for completeness.
func (w *WaitGroup) Go(f func()) {
	w.Add(1)
	vrt.Go(func() {
		defer w.Done()
		f()
	})
}

// Once replaces sync.Once.
type Once struct {
	st vrt.OnceState
	n  sync.Once
}

func (o *Once) Do(f func()) {
	if !o.st.Do(f) {
		o.n.Do(f)
	}
}
