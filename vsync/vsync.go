// Package vsync is the drop-in replacement for package sync in instrumented
// code: the same type names, backed by the vrt runtime while a controlled
// execution is active and by the real primitives otherwise.
package vsync

import (
	"sync"

	"verif/vrt"
)

// Locker is sync.Locker.
type Locker = sync.Locker

// ModelPools switches Pool from pass-through to the modelled pool below. A harness sets it before its executions
// start (never during one). Pass-through is the default: in code that uses a pooled item only between its Get and its
// Put, which item a Pool hands out is not observable, and every Get/Put as a scheduling point would multiply the
// schedules of the scenarios that are not about pools.
var ModelPools bool

// Pool replaces sync.Pool. Modelled: a LIFO list (Get hands out the item put back last: the worst case for a caller
// that still uses an item it has put back, and what the per-P cache of the real Pool does on one P) with a scheduling
// point in front of Get and Put AND one after Put — whatever the caller does after Put is a step of its own, so
// another thread can take the item and write to it in between. The list is emptied between executions.
type Pool struct {
	New func() any

	n     sync.Pool
	mu    sync.Mutex
	epoch uint64
	items []any
}

func (p *Pool) modelled() bool { return ModelPools && vrt.Epoch() != 0 }

func (p *Pool) Get() any {
	if !p.modelled() {
		if x := p.n.Get(); x != nil {
			return x
		}
		if p.New != nil {
			return p.New()
		}
		return nil
	}
	vrt.Access(p)
	p.mu.Lock()
	if e := vrt.Epoch(); e != p.epoch {
		p.epoch, p.items = e, nil
	}
	var x any
	if n := len(p.items); n > 0 {
		x, p.items = p.items[n-1], p.items[:n-1]
	}
	p.mu.Unlock()
	if x == nil && p.New != nil {
		x = p.New()
	}
	return x
}

func (p *Pool) Put(x any) {
	if !p.modelled() {
		p.n.Put(x)
		return
	}
	vrt.Access(p)
	p.mu.Lock()
	if e := vrt.Epoch(); e != p.epoch {
		p.epoch, p.items = e, nil
	}
	p.items = append(p.items, x)
	p.mu.Unlock()
	vrt.Access(p)
}

// Mutex replaces sync.Mutex.
type Mutex struct {
	st vrt.MutexState
	n  sync.Mutex
}

func (m *Mutex) Lock() {
	if !m.st.Lock() {
		m.n.Lock()
	}
}

func (m *Mutex) Unlock() {
	if !m.st.Unlock() {
		m.n.Unlock()
	}
}

func (m *Mutex) TryLock() bool {
	if h, ok := m.st.TryLock(); h {
		return ok
	}
	return m.n.TryLock()
}

// RWMutex replaces sync.RWMutex (writer preference modelled as in Go).
type RWMutex struct {
	st vrt.RWState
	n  sync.RWMutex
}

func (m *RWMutex) Lock() {
	if !m.st.Lock() {
		m.n.Lock()
	}
}

func (m *RWMutex) Unlock() {
	if !m.st.Unlock() {
		m.n.Unlock()
	}
}

func (m *RWMutex) RLock() {
	if !m.st.RLock() {
		m.n.RLock()
	}
}

func (m *RWMutex) RUnlock() {
	if !m.st.RUnlock() {
		m.n.RUnlock()
	}
}

func (m *RWMutex) TryLock() bool {
	if h, ok := m.st.TryLock(); h {
		return ok
	}
	return m.n.TryLock()
}

func (m *RWMutex) TryRLock() bool {
	if h, ok := m.st.TryRLock(); h {
		return ok
	}
	return m.n.TryRLock()
}

type rlocker RWMutex

func (r *rlocker) Lock()   { (*RWMutex)(r).RLock() }
func (r *rlocker) Unlock() { (*RWMutex)(r).RUnlock() }

// RLocker as in sync.
func (m *RWMutex) RLocker() Locker { return (*rlocker)(m) }

// WaitGroup replaces sync.WaitGroup.
type WaitGroup struct {
	st vrt.WGState
	n  sync.WaitGroup
}

func (w *WaitGroup) Add(d int) {
	if !w.st.Add(d) {
		w.n.Add(d)
	}
}

func (w *WaitGroup) Done() { w.Add(-1) }

func (w *WaitGroup) Wait() {
	if !w.st.Wait() {
		w.n.Wait()
	}
}

// Go as in sync (Go 1.25); provided for completeness.
func (w *WaitGroup) Go(f func()) {
	w.Add(1)
	vrt.Go(func() {
		defer w.Done()
		f()
	})
}

// Once replaces sync.Once.
type Once struct {
	st vrt.OnceState
	n  sync.Once
}

func (o *Once) Do(f func()) {
	if !o.st.Do(f) {
		o.n.Do(f)
	}
}

// Map replaces sync.Map: a plain map under the modelled Mutex, so that every method is one atomic step with a
// scheduling point in front of it (the linearizable behaviour sync.Map documents; its lock-free internals are not
// modelled). Range iterates over a snapshot in insertion order of the keys' printed forms, which keeps executions
// reproducible.
type Map struct {
	mu   Mutex
	m    map[any]any
	keys []any
}

func (m *Map) Load(key any) (value any, ok bool) {
	m.mu.Lock()
	defer m.mu.Unlock()
	value, ok = m.m[key]
	return
}

func (m *Map) Store(key, value any) {
	m.mu.Lock()
	defer m.mu.Unlock()
	m.store(key, value)
}

func (m *Map) store(key, value any) {
	if m.m == nil {
		m.m = map[any]any{}
	}
	if _, ok := m.m[key]; !ok {
		m.keys = append(m.keys, key)
	}
	m.m[key] = value
}

func (m *Map) LoadOrStore(key, value any) (actual any, loaded bool) {
	m.mu.Lock()
	defer m.mu.Unlock()
	if v, ok := m.m[key]; ok {
		return v, true
	}
	m.store(key, value)
	return value, false
}

func (m *Map) LoadAndDelete(key any) (value any, loaded bool) {
	m.mu.Lock()
	defer m.mu.Unlock()
	value, loaded = m.m[key]
	m.del(key)
	return
}

func (m *Map) Delete(key any) {
	m.mu.Lock()
	defer m.mu.Unlock()
	m.del(key)
}

func (m *Map) del(key any) {
	if _, ok := m.m[key]; !ok {
		return
	}
	delete(m.m, key)
	for i, k := range m.keys {
		if k == key {
			m.keys = append(m.keys[:i:i], m.keys[i+1:]...)
			break
		}
	}
}

func (m *Map) Swap(key, value any) (previous any, loaded bool) {
	m.mu.Lock()
	defer m.mu.Unlock()
	previous, loaded = m.m[key]
	m.store(key, value)
	return
}

func (m *Map) CompareAndSwap(key, old, new any) bool {
	m.mu.Lock()
	defer m.mu.Unlock()
	if v, ok := m.m[key]; ok && v == old {
		m.m[key] = new
		return true
	}
	return false
}

func (m *Map) CompareAndDelete(key, old any) bool {
	m.mu.Lock()
	defer m.mu.Unlock()
	if v, ok := m.m[key]; ok && v == old {
		m.del(key)
		return true
	}
	return false
}

func (m *Map) Range(f func(key, value any) bool) {
	m.mu.Lock()
	ks := append([]any{}, m.keys...)
	m.mu.Unlock()
	for _, k := range ks {
		v, ok := m.Load(k)
		if !ok {
			continue
		}
		if !f(k, v) {
			return
		}
	}
}

func (m *Map) Clear() {
	m.mu.Lock()
	defer m.mu.Unlock()
	m.m, m.keys = nil, nil
}
