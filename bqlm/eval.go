package bqlm

import (
	"fmt"
	"sort"
	"strings"
	"time"

	"github.com/google/badwolf/triple"
	"github.com/google/badwolf/triple/literal"
	"github.com/google/badwolf/triple/node"
	"github.com/google/badwolf/triple/predicate"

	"verif/model"
)

// Val is a value a binding can take: node, predicate, literal, time, string
// (ID / TYPE extractions), or NULL (only produced by OPTIONAL).
type Val struct {
	Kind byte // 'N' 'P' 'L' 'T' 'S' or 0 for NULL
	N    *node.Node
	P    *predicate.Predicate
	L    *literal.Literal
	T    time.Time
	S    string
}

// Key is the structural identity of a value (kind + value; time = instant).
func (v Val) Key() string {
	switch v.Kind {
	case 'N':
		return model.NodeKey(v.N)
	case 'P':
		return model.PredKey(v.P)
	case 'L':
		return model.LitKey(v.L)
	case 'T':
		return "T(" + model.InstantKey(v.T) + ")"
	case 'S':
		return fmt.Sprintf("S(%q)", v.S)
	}
	return "NULL"
}

func nodeVal(n *node.Node) Val           { return Val{Kind: 'N', N: n} }
func predVal(p *predicate.Predicate) Val { return Val{Kind: 'P', P: p} }
func timeVal(t time.Time) Val            { return Val{Kind: 'T', T: t} }
func strVal(s string) Val                { return Val{Kind: 'S', S: s} }

func objVal(o *triple.Object) Val {
	if n, err := o.Node(); err == nil {
		return nodeVal(n)
	}
	if p, err := o.Predicate(); err == nil {
		return predVal(p)
	}
	l, _ := o.Literal()
	return Val{Kind: 'L', L: l}
}

// Assign is one assignment of bindings to values.
type Assign map[string]Val

func (a Assign) clone() Assign {
	c := make(Assign, len(a)+4)
	for k, v := range a {
		c[k] = v
	}
	return c
}

// Key canonicalises an assignment over the given bindings.
func (a Assign) Key(bs []string) string {
	var sb strings.Builder
	for _, b := range bs {
		v, ok := a[b]
		if !ok {
			sb.WriteString(b + "=NULL;")
			continue
		}
		sb.WriteString(b + "=" + v.Key() + ";")
	}
	return sb.String()
}

// bind sets b to v in a, or checks equality when already set. Values of
// different kinds never join. A NULL left by an earlier OPTIONAL joins nothing.
func bind(a Assign, b string, v Val) bool {
	if b == "" {
		return true
	}
	if cur, ok := a[b]; ok {
		return cur.Kind != 0 && cur.Key() == v.Key()
	}
	a[b] = v
	return true
}

func within(t time.Time, lo, hi *time.Time) bool {
	if lo != nil && t.Before(*lo) {
		return false
	}
	if hi != nil && t.After(*hi) {
		return false
	}
	return true
}

// matchPredTerm matches predicate p (of a triple, or a predicate-valued object)
// against a P-shaped term. ok=false means "does not match".
func matchPredTerm(t Term, p *predicate.Predicate, a Assign, null func(string) bool) bool {
	switch t.Kind {
	case Const:
		if model.PredKey(t.P) != model.PredKey(p) {
			return false
		}
	case Bind:
		if !bind(a, t.Name, predVal(p)) {
			return false
		}
	case AnchorBind:
		if string(p.ID()) != t.ID {
			return false
		}
		if p.Type() != predicate.Temporal {
			if !null(t.Name) {
				return false
			}
		} else {
			ta, _ := p.TimeAnchor()
			if !bind(a, t.Name, timeVal(*ta)) {
				return false
			}
		}
	case Bound:
		if string(p.ID()) != t.ID || p.Type() != predicate.Temporal {
			return false
		}
		lo, hi := t.Lo, t.Hi
		if t.LoName != "" {
			v, ok := a[t.LoName]
			if !ok || v.Kind != 'T' {
				return false
			}
			lo = &v.T
		}
		if t.HiName != "" {
			v, ok := a[t.HiName]
			if !ok || v.Kind != 'T' {
				return false
			}
			hi = &v.T
		}
		ta, _ := p.TimeAnchor()
		if !within(*ta, lo, hi) {
			return false
		}
	}
	if !bind(a, t.As, predVal(p)) {
		return false
	}
	if t.IDAlias != "" && !bind(a, t.IDAlias, strVal(string(p.ID()))) {
		return false
	}
	if t.AtAlias != "" {
		if p.Type() != predicate.Temporal {
			if !null(t.AtAlias) {
				return false // the extraction cannot apply: the clause does not match
			}
		} else {
			ta, _ := p.TimeAnchor()
			if !bind(a, t.AtAlias, timeVal(*ta)) {
				return false
			}
		}
	}
	return true
}

// Match extends a with the bindings of clause c against triple tr, or reports
// that tr does not match under a. glo/ghi are the global time bounds.
func Match(c Clause, tr *triple.Triple, a Assign, glo, ghi *time.Time) (Assign, bool) {
	return match(c, tr, a, glo, ghi, false)
}

// match with lenient=true reads an OPTIONAL clause the way docs/bql.md does: a
// triple to which an extraction (TYPE, ID, AT, anchor binding) cannot apply
// still matches, with that extraction NULL.
func match(c Clause, tr *triple.Triple, a Assign, glo, ghi *time.Time, lenient bool) (Assign, bool) {
	null := func(b string) bool {
		if !lenient || !c.Optional {
			return false
		}
		if b != "" {
			if cur, ok := a[b]; ok {
				return cur.Kind == 0 // NULL disagrees with a value the binding already has
			}
			a[b] = Val{}
		}
		return true
	}
	a = a.clone()
	s, p, o := tr.Subject(), tr.Predicate(), tr.Object()
	// global bounds: temporal triples must lie inside, immutable ones always pass
	if p.Type() == predicate.Temporal {
		ta, _ := p.TimeAnchor()
		if !within(*ta, glo, ghi) {
			return nil, false
		}
	}
	// subject
	switch c.S.Kind {
	case Const:
		if model.NodeKey(c.S.N) != model.NodeKey(s) {
			return nil, false
		}
	case Bind:
		if !bind(a, c.S.Name, nodeVal(s)) {
			return nil, false
		}
	}
	if !bind(a, c.S.As, nodeVal(s)) || !bind(a, c.S.TypeAlias, strVal(s.Type().String())) || !bind(a, c.S.IDAlias, strVal(s.ID().String())) {
		return nil, false
	}
	// predicate
	if !matchPredTerm(c.P, p, a, null) {
		return nil, false
	}
	// object
	switch c.O.Kind {
	case Const:
		var want string
		switch {
		case c.O.N != nil:
			want = "O" + model.NodeKey(c.O.N)
		case c.O.P != nil:
			want = "O" + model.PredKey(c.O.P)
		default:
			want = model.ObjKey(c.O.O)
		}
		if want != model.ObjKey(o) {
			return nil, false
		}
	case Bind:
		if !bind(a, c.O.Name, objVal(o)) {
			return nil, false
		}
	case AnchorBind, Bound:
		op, err := o.Predicate()
		if err != nil {
			if c.O.Kind != AnchorBind || !null(c.O.Name) {
				return nil, false
			}
		} else {
			t := c.O
			t.As, t.IDAlias, t.AtAlias, t.TypeAlias = "", "", "", ""
			if !matchPredTerm(t, op, a, null) {
				return nil, false
			}
		}
	}
	if !bind(a, c.O.As, objVal(o)) {
		return nil, false
	}
	if c.O.TypeAlias != "" {
		n, err := o.Node()
		if err != nil {
			if !null(c.O.TypeAlias) {
				return nil, false
			}
		} else if !bind(a, c.O.TypeAlias, strVal(n.Type().String())) {
			return nil, false
		}
	}
	if c.O.IDAlias != "" {
		if n, err := o.Node(); err == nil {
			if !bind(a, c.O.IDAlias, strVal(n.ID().String())) {
				return nil, false
			}
		} else if op, err := o.Predicate(); err == nil {
			if !bind(a, c.O.IDAlias, strVal(string(op.ID()))) {
				return nil, false
			}
		} else if !null(c.O.IDAlias) {
			return nil, false
		}
	}
	if c.O.AtAlias != "" {
		op, err := o.Predicate()
		if err != nil || op.Type() != predicate.Temporal {
			if !null(c.O.AtAlias) {
				return nil, false
			}
		} else {
			ta, _ := op.TimeAnchor()
			if !bind(a, c.O.AtAlias, timeVal(*ta)) {
				return nil, false
			}
		}
	}
	return a, true
}

// Sol is one distinct assignment with the number of its derivations (ways of
// picking one matching triple per clause that produce it).
type Sol struct {
	A Assign
	N int
}

// Solve evaluates the pattern over the data (a set of triples): the set of
// distinct assignments of ALL pattern bindings, each with its number of
// derivations. OPTIONAL clauses are left outer joins in textual order: bindings
// new in an optional clause without a match are NULL.
func Solve(cs []Clause, data []*triple.Triple, glo, ghi *time.Time) []Sol {
	return SolveMode(cs, data, glo, ghi, false)
}

// SolveMode is Solve with the choice of reading for inapplicable extractions
// inside OPTIONAL clauses (see match).
func SolveMode(cs []Clause, data []*triple.Triple, glo, ghi *time.Time, lenient bool) []Sol {
	all := AllBindings(cs)
	sols := []Sol{{A: Assign{}, N: 1}}
	for _, c := range cs {
		var next []Sol
		for _, s := range sols {
			matched := false
			for _, tr := range data {
				if na, ok := match(c, tr, s.A.clone(), glo, ghi, lenient); ok {
					next = append(next, Sol{na, s.N})
					matched = true
					if len(c.Bindings()) == 0 {
						break // a clause that binds nothing only asks for existence: one derivation
					}
				}
			}
			if !matched && c.Optional {
				na := s.A.clone()
				for _, b := range c.Bindings() {
					if _, ok := na[b]; !ok {
						na[b] = Val{}
					}
				}
				next = append(next, Sol{na, s.N})
			}
		}
		// set semantics: one solution per distinct assignment
		idx := map[string]int{}
		sols = sols[:0]
		for _, s := range next {
			k := s.A.Key(all)
			if i, ok := idx[k]; ok {
				sols[i].N += s.N
			} else {
				idx[k] = len(sols)
				sols = append(sols, s)
			}
		}
	}
	return sols
}

// Solutions returns the distinct assignments (the specified semantics).
func Solutions(cs []Clause, data []*triple.Triple, glo, ghi *time.Time) []Assign {
	var out []Assign
	for _, s := range Solve(cs, data, glo, ghi) {
		out = append(out, s.A)
	}
	return out
}

// BagSolutions repeats every assignment once per derivation (what an engine
// that returns one row per matching combination of triples would produce).
func BagSolutions(cs []Clause, data []*triple.Triple, glo, ghi *time.Time) []Assign {
	var out []Assign
	for _, s := range Solve(cs, data, glo, ghi) {
		for i := 0; i < s.N; i++ {
			out = append(out, s.A)
		}
	}
	return out
}

// Project maps assignments to canonical row strings over the projections
// (no aggregation): one row per assignment.
func Project(sols []Assign, ps []Proj) []string {
	rows := make([]string, 0, len(sols))
	for _, a := range sols {
		var sb strings.Builder
		for _, p := range ps {
			v := a[p.Binding]
			sb.WriteString(p.Out() + "=" + v.Key() + ";")
		}
		rows = append(rows, sb.String())
	}
	sort.Strings(rows)
	return rows
}

// Dedup removes duplicate triples (by structural identity), keeping order.
func Dedup(ts []*triple.Triple) []*triple.Triple {
	seen := map[string]bool{}
	var out []*triple.Triple
	for _, t := range ts {
		k := model.TripleKey(t)
		if !seen[k] {
			seen[k] = true
			out = append(out, t)
		}
	}
	return out
}
