package bqlm

import (
	"fmt"
	"sort"
	"strings"

	"github.com/google/badwolf/storage"
	"github.com/google/badwolf/triple"

	"verif/model"
)

func union(data map[string][]*triple.Triple, from []string) (all []*triple.Triple, overlap bool) {
	seen := map[string]int{}
	for _, g := range from {
		for _, t := range data[g] {
			k := model.TripleKey(t)
			seen[k]++
			if seen[k] > 1 {
				overlap = true
			} else {
				all = append(all, t)
			}
		}
	}
	return
}

// Verdict is the outcome of comparing one query on one store with the reference evaluator.
type Verdict struct {
	Ok         bool
	Class      string
	Shape      string
	Detail     string
	Accepted   bool
	Nontrivial bool
	Outcome    string
}

func support(rows []string) map[string]int {
	m := map[string]int{}
	for _, r := range rows {
		m[r]++
	}
	return m
}

// compare runs q on st and compares with the reference evaluator.
// Compare runs q on st and compares with the reference evaluator.
func Compare(q *Query, st storage.Store, data map[string][]*triple.Triple, chanSize int) Verdict {
	text := q.Render()
	all, overlap := union(data, q.From)
	sols := Solutions(q.Where, all, q.GLo, q.GHi)
	want := Project(sols, q.Proj)
	var cols []string
	for _, p := range q.Proj {
		cols = append(cols, p.Out())
	}
	res := Exec(st, text, chanSize, 0, cols)
	v := Verdict{Class: Classify(q, all)}
	v.Nontrivial = len(want) > 0 && len(want) < len(all)*max(1, len(all))
	switch res.Stage {
	case "parse":
		v.Ok, v.Outcome = true, "rejected-at-parse"
		return v
	case "plan":
		v.Ok, v.Outcome = true, "rejected-at-plan"
		return v
	case "execute":
		v.Accepted = true
		v.Shape = "execute-error:" + normErr(res.Err)
		v.Detail = fmt.Sprintf("%s\n data=%v\n want %d rows %v\n got error: %s", text, FmtData(data, q.From), len(want), want, res.Err)
		v.Outcome = "execute-error"
		return v
	case "panic", "hang":
		v.Accepted = true
		v.Shape = res.Stage + ":" + normErr(res.Err)
		v.Detail = fmt.Sprintf("%s\n data=%v\n %s: %s", text, FmtData(data, q.From), res.Stage, res.Err)
		v.Outcome = res.Stage
		return v
	}
	v.Accepted = true
	if res.NilBoth {
		v.Shape = "nil-table-nil-error"
		v.Detail = text
		return v
	}
	got := res.Sorted()
	v.Outcome = fmt.Sprintf("rows=%d", len(got))
	if overlap {
		// multiplicities are left open: equal support, count between max and sum
		ws, gs := support(want), support(got)
		ok := len(ws) == len(gs)
		for k := range ws {
			if gs[k] < 1 {
				ok = false
			}
		}
		if ok {
			v.Ok = true
			return v
		}
	} else if model.SameStrings(want, got) {
		v.Ok = true
		return v
	}
	// Latitude: inside OPTIONAL a triple to which an extraction cannot apply may
	// count as "no match" (property C03's reading) or as a match with that
	// extraction NULL (docs/bql.md, OPTIONAL section). Both are accepted.
	hasOpt := false
	for _, c := range q.Where {
		hasOpt = hasOpt || c.Optional
	}
	if hasOpt && !overlap {
		// Under the docs' reading every matching triple contributes a row, and
		// triples that differ only in the part shown as NULL give equal rows, so
		// both the set and the per-triple bag of that reading are accepted.
		var la, lb []Assign
		for _, s := range SolveMode(q.Where, all, q.GLo, q.GHi, true) {
			la = append(la, s.A)
			for i := 0; i < s.N; i++ {
				lb = append(lb, s.A)
			}
		}
		if model.SameStrings(Project(la, q.Proj), got) || model.SameStrings(Project(lb, q.Proj), got) {
			v.Ok = true
			v.Outcome += " (lenient-optional)"
			return v
		}
	}
	// Precise shapes for the recorded findings: the result is exactly what a
	// named deviation predicts. Anything else falls through to the generic shapes.
	if !overlap {
		if model.SameStrings(Project(BagSolutions(q.Where, all, q.GLo, q.GHi), q.Proj), got) {
			v.Shape = "one-row-per-matching-triple-combination-instead-of-per-assignment"
			v.Detail = fmt.Sprintf("%s\n data=%v\n want %d rows %v\n got  %d rows %v", text, FmtData(data, q.From), len(want), want, len(got), got)
			return v
		}
		var kept []Clause
		for _, c := range q.Where {
			if len(c.Bindings()) > 0 {
				kept = append(kept, c)
			}
		}
		if len(kept) < len(q.Where) {
			if len(got) == 0 {
				v.Shape = "clause-without-bindings-empties-the-result"
			} else if model.SameStrings(Project(BagSolutions(kept, all, q.GLo, q.GHi), q.Proj), got) {
				v.Shape = "clause-without-bindings-is-ignored"
			}
			if v.Shape != "" {
				v.Detail = fmt.Sprintf("%s\n data=%v\n want %d rows %v\n got  %d rows %v", text, FmtData(data, q.From), len(want), want, len(got), got)
				return v
			}
		}
	}
	ws, gs := support(want), support(got)
	missing, extra := 0, 0
	for k, n := range ws {
		if gs[k] < n {
			missing += n - gs[k]
		}
	}
	for k, n := range gs {
		if ws[k] < n {
			extra += n - ws[k]
		}
	}
	switch {
	case missing > 0 && extra > 0:
		v.Shape = "rows-missing-and-extra"
	case missing > 0:
		v.Shape = "rows-missing"
	default:
		v.Shape = "rows-extra"
	}
	v.Detail = fmt.Sprintf("%s\n data=%v\n want %d rows %v\n got  %d rows %v", text, FmtData(data, q.From), len(want), want, len(got), got)
	return v
}

// FmtData renders the graphs of a case.
func FmtData(data map[string][]*triple.Triple, from []string) string {
	var sb strings.Builder
	for _, g := range from {
		sb.WriteString(g + ":{")
		for i, t := range data[g] {
			if i > 0 {
				sb.WriteString(" | ")
			}
			sb.WriteString(strings.ReplaceAll(t.String(), "\t", " "))
		}
		sb.WriteString("} ")
	}
	return sb.String()
}

func normErr(e string) string {
	// keep the stable head of the message, drop values
	for _, cut := range []string{"AppendTable can only append", "runtime error: index out of range", "invalid memory address", "does not box a predicate", "does not box", "DotProduct operations requires disjoint", "cannot project against unknown binding"} {
		if strings.Contains(e, cut) {
			return cut
		}
	}
	if len(e) > 60 {
		e = e[:60]
	}
	return e
}

// classify computes the input classifier from the case alone.
// Classify computes the input classifier (a comma separated feature list) from the case alone.
func Classify(q *Query, data []*triple.Triple) string {
	var fs []string
	add := func(s string) {
		for _, f := range fs {
			if f == s {
				return
			}
		}
		fs = append(fs, s)
	}
	hasLitObj, hasPredObj := false, false
	for _, t := range data {
		if _, err := t.Object().Literal(); err == nil {
			hasLitObj = true
		}
		if _, err := t.Object().Predicate(); err == nil {
			hasPredObj = true
		}
	}
	_ = hasPredObj
	spec := func(c Clause) int {
		n := 0
		if c.S.Kind == Const {
			n++
		}
		if c.P.Kind == Const {
			n++
		}
		if c.O.Kind == Const {
			n++
		}
		return n
	}
	// where each binding is used
	use := map[string]map[string]bool{}
	note := func(b, pos string) {
		if b == "" {
			return
		}
		if use[b] == nil {
			use[b] = map[string]bool{}
		}
		use[b][pos] = true
	}
	for i, c := range q.Where {
		if spec(c) == 3 && i > 0 {
			add("fully-specified-clause-not-first")
		}
		if c.O.IDAlias != "" {
			for _, n := range []string{c.S.Name, c.S.As, c.S.IDAlias, c.S.TypeAlias, c.P.Name, c.P.As, c.P.IDAlias, c.P.AtAlias, c.O.Name, c.O.As, c.O.TypeAlias, c.O.AtAlias} {
				if n == c.O.IDAlias {
					add("object-ID-alias-name-reused-inside-its-clause")
				}
			}
		}
		if spec(c) < 3 && len(c.Bindings()) == 0 {
			add("clause-without-bindings")
		}
		if (c.P.Kind == Bound && c.P.As == "") || (c.O.Kind == Bound && c.O.As == "") {
			add("time-range-term-without-alias")
		}
		if c.O.IDAlias != "" && c.O.Kind == Bind && hasLitObj {
			add("object-binding-ID-alias-over-literal-objects")
		}
		if c.S.Kind == Bind {
			note(c.S.Name, "S")
		}
		if c.P.Kind == Bind {
			note(c.P.Name, "P")
		}
		if c.P.Kind == AnchorBind {
			note(c.P.Name, "pa")
		}
		if c.O.Kind == Bind {
			note(c.O.Name, "O")
		}
		if c.O.Kind == AnchorBind {
			note(c.O.Name, "oa")
		}
		for _, t := range []Term{c.S, c.P, c.O} {
			note(t.As, "as")
			note(t.IDAlias, "id")
			note(t.TypeAlias, "type")
			note(t.AtAlias, "at")
		}
	}
	var bs []string
	for b := range use {
		bs = append(bs, b)
	}
	sort.Strings(bs)
	for _, b := range bs {
		var ps []string
		for p := range use[b] {
			ps = append(ps, p)
		}
		if len(ps) > 1 {
			sort.Strings(ps)
			add("binding-shared:" + strings.Join(ps, "+"))
		}
	}
	if len(fs) == 0 {
		return "plain"
	}
	sort.Strings(fs)
	return strings.Join(fs, ",")
}

func max(a, b int) int {
	if a > b {
		return a
	}
	return b
}
