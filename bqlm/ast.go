// Package bqlm is the reference model of BQL used by the checks for C03, C04,
// C10-C14: a tiny AST for the conjunctive fragment, a renderer to statement
// text, a nested-loop evaluator over a set of triples, and a driver that runs
// the rendered text through badwolf's real pipeline (parse -> plan -> execute)
// and canonicalises the resulting table.
//
// The evaluator reuses nothing of badwolf beyond value constructors/accessors.
package bqlm

import (
	"fmt"
	"strings"
	"time"

	"github.com/google/badwolf/triple"
	"github.com/google/badwolf/triple/node"
	"github.com/google/badwolf/triple/predicate"
)

// TermKind says what stands in one position of a clause.
type TermKind int

const (
	Const      TermKind = iota // a constant node / predicate / object
	Bind                       // ?x
	AnchorBind                 // "id"@[?t]      (P and O positions)
	Bound                      // "id"@[lo,hi]   (P and O positions; either side may be absent)
)

// Term is one position (S, P or O) of a clause with its extraction modifiers.
type Term struct {
	Kind TermKind
	N    *node.Node           // Const in S; Const node in O
	P    *predicate.Predicate // Const in P; Const predicate in O
	O    *triple.Object       // Const literal (or any) object in O
	Name string               // Bind: binding name; AnchorBind: the anchor binding
	ID   string               // AnchorBind / Bound: predicate id
	Lo   *time.Time           // Bound
	Hi   *time.Time
	// Bound: a side may instead be taken from a time-valued binding that an
	// EARLIER clause binds ("p"@[?lo,?hi])
	LoName, HiName string

	As, IDAlias, TypeAlias, AtAlias string // AS ?a / ID ?a / TYPE ?a / AT ?a
}

// Clause is one triple pattern.
type Clause struct {
	S, P, O  Term
	Optional bool
	Tag      string // free for the checks (not rendered)
}

// Proj is one projection of the SELECT list.
type Proj struct {
	Binding  string
	Alias    string
	Op       string // "", "count", "sum"
	Distinct bool
}

// Out is the name of the output column.
func (p Proj) Out() string {
	if p.Alias != "" {
		return p.Alias
	}
	return p.Binding
}

// Key is one ORDER BY key.
type Key struct {
	Binding  string
	Desc     bool
	Explicit bool // render ASC explicitly
}

// Query is a SELECT statement of the fragment.
type Query struct {
	Proj    []Proj
	From    []string
	Where   []Clause
	GroupBy []string
	OrderBy []Key
	Having  string // already rendered expression text ("" = none)
	// Global time bound.
	GlobalKind string // "", "before", "after", "between"
	GLo, GHi   *time.Time
	Limit      string // already rendered literal ("" = none), e.g. "\"2\"^^type:int64"
}

// FmtTime renders an instant the way BQL expects it.
func FmtTime(t time.Time) string { return t.Format(time.RFC3339Nano) }

func renderS(t Term) string {
	var b strings.Builder
	if t.Kind == Const {
		b.WriteString(t.N.String())
	} else {
		b.WriteString(t.Name)
	}
	if t.As != "" {
		b.WriteString(" AS " + t.As)
	}
	if t.TypeAlias != "" {
		b.WriteString(" TYPE " + t.TypeAlias)
	}
	if t.IDAlias != "" {
		b.WriteString(" ID " + t.IDAlias)
	}
	return b.String()
}

func renderBound(t Term) string {
	l, h := t.LoName, t.HiName
	if t.Lo != nil {
		l = FmtTime(*t.Lo)
	}
	if t.Hi != nil {
		h = FmtTime(*t.Hi)
	}
	return fmt.Sprintf("%q@[%s,%s]", t.ID, l, h)
}

func renderP(t Term) string {
	var b strings.Builder
	switch t.Kind {
	case Const:
		b.WriteString(t.P.String())
	case Bind:
		b.WriteString(t.Name)
	case AnchorBind:
		fmt.Fprintf(&b, "%q@[%s]", t.ID, t.Name)
	case Bound:
		b.WriteString(renderBound(t))
	}
	if t.As != "" {
		b.WriteString(" AS " + t.As)
	}
	if t.IDAlias != "" {
		b.WriteString(" ID " + t.IDAlias)
	}
	if t.AtAlias != "" {
		b.WriteString(" AT " + t.AtAlias)
	}
	return b.String()
}

func renderO(t Term) string {
	var b strings.Builder
	switch t.Kind {
	case Const:
		switch {
		case t.N != nil:
			b.WriteString(t.N.String())
		case t.P != nil:
			b.WriteString(t.P.String())
		default:
			b.WriteString(t.O.String())
		}
	case Bind:
		b.WriteString(t.Name)
	case AnchorBind:
		fmt.Fprintf(&b, "%q@[%s]", t.ID, t.Name)
	case Bound:
		b.WriteString(renderBound(t))
	}
	if t.As != "" {
		b.WriteString(" AS " + t.As)
	}
	if t.TypeAlias != "" {
		b.WriteString(" TYPE " + t.TypeAlias)
	}
	if t.IDAlias != "" {
		b.WriteString(" ID " + t.IDAlias)
	}
	if t.AtAlias != "" {
		b.WriteString(" AT " + t.AtAlias)
	}
	return b.String()
}

// RenderClause renders one clause (without OPTIONAL wrapper).
func RenderClause(c Clause) string {
	return renderS(c.S) + " " + renderP(c.P) + " " + renderO(c.O)
}

// RenderWhere renders the body of WHERE { ... }.
func RenderWhere(cs []Clause) string {
	var parts []string
	for _, c := range cs {
		if c.Optional {
			parts = append(parts, "OPTIONAL { "+RenderClause(c)+" }")
		} else {
			parts = append(parts, RenderClause(c))
		}
	}
	return strings.Join(parts, " .\n    ")
}

// Render renders the SELECT statement.
func (q *Query) Render() string {
	var b strings.Builder
	b.WriteString("SELECT ")
	for i, p := range q.Proj {
		if i > 0 {
			b.WriteString(", ")
		}
		switch p.Op {
		case "":
			b.WriteString(p.Binding)
		case "count":
			if p.Distinct {
				b.WriteString("count(distinct " + p.Binding + ")")
			} else {
				b.WriteString("count(" + p.Binding + ")")
			}
		case "sum":
			b.WriteString("sum(" + p.Binding + ")")
		}
		if p.Alias != "" {
			b.WriteString(" AS " + p.Alias)
		}
	}
	b.WriteString("\n  FROM " + strings.Join(q.From, ", "))
	b.WriteString("\n  WHERE {\n    " + RenderWhere(q.Where) + "\n  }")
	if len(q.GroupBy) > 0 {
		b.WriteString("\n  GROUP BY " + strings.Join(q.GroupBy, ", "))
	}
	if len(q.OrderBy) > 0 {
		var ks []string
		for _, k := range q.OrderBy {
			s := k.Binding
			if k.Desc {
				s += " DESC"
			} else if k.Explicit {
				s += " ASC"
			}
			ks = append(ks, s)
		}
		b.WriteString("\n  ORDER BY " + strings.Join(ks, ", "))
	}
	if q.Having != "" {
		b.WriteString("\n  HAVING " + q.Having)
	}
	switch q.GlobalKind {
	case "before":
		b.WriteString("\n  BEFORE " + FmtTime(*q.GHi))
	case "after":
		b.WriteString("\n  AFTER " + FmtTime(*q.GLo))
	case "between":
		b.WriteString("\n  BETWEEN " + FmtTime(*q.GLo) + ", " + FmtTime(*q.GHi))
	}
	if q.Limit != "" {
		b.WriteString("\n  LIMIT " + q.Limit)
	}
	b.WriteString(";")
	return b.String()
}

// Bindings returns every binding name a clause introduces, in a fixed order.
func (c Clause) Bindings() []string {
	var out []string
	add := func(s string) {
		if s == "" {
			return
		}
		for _, o := range out {
			if o == s {
				return
			}
		}
		out = append(out, s)
	}
	for _, t := range []Term{c.S, c.P, c.O} {
		if t.Kind == Bind || t.Kind == AnchorBind {
			add(t.Name)
		}
		add(t.As)
		add(t.IDAlias)
		add(t.TypeAlias)
		add(t.AtAlias)
	}
	return out
}

// AllBindings returns every binding of the pattern in first-occurrence order.
func AllBindings(cs []Clause) []string {
	var out []string
	seen := map[string]bool{}
	for _, c := range cs {
		for _, b := range c.Bindings() {
			if !seen[b] {
				seen[b] = true
				out = append(out, b)
			}
		}
	}
	return out
}
