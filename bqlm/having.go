package bqlm

import (
	"fmt"
	"strings"
)

// Expr is a HAVING expression in the shapes the grammar derives.
type Expr struct {
	Kind string // "cmp" "not" "paren" "and" "or"
	// cmp
	Left  string // binding
	Op    string // = < >
	Right Operand
	Swap  bool // written with the operands exchanged (constant first): Right Op Left
	Bare  bool // and / or: the left operand is written WITHOUT parentheses (A AND B; the grammar nests to the right)
	// not / paren: A; and / or: (A) op B   (the left operand is always parenthesised)
	A, B *Expr
}

// Operand is the right hand side of a comparison.
type Operand struct {
	Binding string // when a binding
	Text    string // rendered constant otherwise
	V       Val    // its value
}

// Render renders e as BQL text.
func (e *Expr) Render() string {
	switch e.Kind {
	case "cmp":
		r := e.Right.Text
		if e.Right.Binding != "" {
			r = e.Right.Binding
		}
		if e.Op == "" {
			return e.Left // a bare binding (derivable; the expression builder has to refuse it)
		}
		if r == "" {
			return e.Left + " " + e.Op
		}
		if e.Swap {
			return r + " " + e.Op + " " + e.Left
		}
		return e.Left + " " + e.Op + " " + r
	case "not":
		return "NOT " + e.A.Render()
	case "paren":
		return "(" + e.A.Render() + ")"
	case "and":
		if e.Bare {
			return e.A.Render() + " AND " + e.B.Render()
		}
		return "(" + e.A.Render() + ") AND " + e.B.Render()
	case "or":
		if e.Bare {
			return e.A.Render() + " OR " + e.B.Render()
		}
		return "(" + e.A.Render() + ") OR " + e.B.Render()
	}
	return "?"
}

// ErrCrossKind is returned by Eval when a comparison relates values of
// different kinds under an operator for which the property allows the query
// to be rejected instead of the row being dropped.
var ErrCrossKind = fmt.Errorf("comparison between different kinds")

// compareKinds maps a value to the kind HAVING compares it as: extracted ids
// and types ('S') compare with text literals lexicographically.
func havingKind(v Val) string {
	k := SortKind(v)
	if k == "string" {
		return "text"
	}
	return k
}

func textOf(v Val) string {
	if v.Kind == 'S' {
		return v.S
	}
	s, _ := v.L.Text()
	return s
}

// Eval evaluates e on a row (output column name -> value). crossKind reports
// whether some comparison that was evaluated related different kinds (then
// the query may also be rejected).
func (e *Expr) Eval(row map[string]Val) (result bool, crossKind bool) {
	switch e.Kind {
	case "cmp":
		l := row[e.Left]
		r := e.Right.V
		if e.Right.Binding != "" {
			r = row[e.Right.Binding]
		}
		if havingKind(l) != havingKind(r) {
			return false, true
		}
		var c int
		switch havingKind(l) {
		case "text":
			c = strings.Compare(textOf(l), textOf(r))
		case "node", "predicate", "bool", "blob":
			// only identity is defined; order comparisons are generated for = only
			if l.Key() == r.Key() {
				c = 0
			} else {
				c = strings.Compare(Printed(l), Printed(r))
			}
		default:
			c = CompareVals(l, r)
		}
		if e.Swap {
			c = -c // written Right Op Left
		}
		switch e.Op {
		case "=":
			return c == 0, false
		case "<":
			return c < 0, false
		default:
			return c > 0, false
		}
	case "not":
		v, ck := e.A.Eval(row)
		return !v, ck
	case "paren":
		return e.A.Eval(row)
	case "and":
		a, ck := e.A.Eval(row)
		if !a {
			return false, ck
		}
		b, ck2 := e.B.Eval(row)
		return b, ck || ck2
	case "or":
		a, ck := e.A.Eval(row)
		if a {
			return true, ck
		}
		b, ck2 := e.B.Eval(row)
		return b, ck || ck2
	}
	return false, false
}

// Trees enumerates all expressions over the atoms up to the given depth in the
// shapes the grammar derives: A | NOT E | (E) | (E) AND E | (E) OR E.
func Trees(atoms []*Expr, depth int) []*Expr {
	level := append([]*Expr{}, atoms...)
	all := append([]*Expr{}, atoms...)
	for d := 1; d < depth; d++ {
		var next []*Expr
		for _, a := range level {
			next = append(next, &Expr{Kind: "not", A: a}, &Expr{Kind: "paren", A: a})
		}
		// binary: left from the previous level, right from everything built so far (and vice versa)
		for _, a := range level {
			for _, b := range all {
				next = append(next, &Expr{Kind: "and", A: a, B: b}, &Expr{Kind: "or", A: a, B: b})
			}
		}
		for _, a := range all[:len(all)-len(level)] {
			for _, b := range level {
				next = append(next, &Expr{Kind: "and", A: a, B: b}, &Expr{Kind: "or", A: a, B: b})
			}
		}
		all = append(all, next...)
		level = next
	}
	if depth > 1 {
		// the left operand written without parentheses (derivable; the expression builder may refuse it, but if it
		// accepts it the whole expression counts), alone and under NOT, which applies to everything that follows
		for _, a := range atoms {
			for _, b := range atoms {
				for _, k := range []string{"and", "or"} {
					e := &Expr{Kind: k, A: a, B: b, Bare: true}
					all = append(all, e, &Expr{Kind: "not", A: e})
				}
			}
		}
	}
	return all
}
