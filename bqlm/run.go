package bqlm

import (
	"context"
	"fmt"
	"runtime/debug"
	"sort"
	"strings"
	"time"
	"verif/model"

	"github.com/google/badwolf/bql/grammar"
	"github.com/google/badwolf/bql/planner"
	"github.com/google/badwolf/bql/semantic"
	"github.com/google/badwolf/bql/table"
	"github.com/google/badwolf/storage"
	"github.com/google/badwolf/storage/memory"
	"github.com/google/badwolf/triple"
)

// Result is the canonicalised outcome of running one statement.
type Result struct {
	Stage   string   // "" ok | "parse" | "plan" | "execute" | "panic" | "hang"
	Err     string   // error text for a failing stage
	Cols    []string // table bindings as returned
	Rows    []string // canonical rows in RETURNED order (col=key; over Cols sorted by name)
	Cells   [][]Val  // cells in returned order, columns in Cols order
	NilBoth bool     // (nil table, nil error)
	Printed []string // the rows as the table prints them (cell texts: anchors with the zone they carry), returned order
	Stack   string   // for panics: the badwolf frames of the panicking goroutine
}

// Sorted returns the canonical rows as a sorted multiset.
func (r *Result) Sorted() []string {
	s := append([]string{}, r.Rows...)
	sort.Strings(s)
	return s
}

// CellVal converts a table cell to a model value.
func CellVal(c *table.Cell) Val {
	switch {
	case c == nil:
		return Val{}
	case c.S != nil:
		return strVal(*c.S)
	case c.N != nil:
		return nodeVal(c.N)
	case c.P != nil:
		return predVal(c.P)
	case c.L != nil:
		return Val{Kind: 'L', L: c.L}
	case c.T != nil:
		return timeVal(*c.T)
	}
	return Val{}
}

// Canon canonicalises a table over the given output columns.
func Canon(t *table.Table, cols []string) ([]string, [][]Val) {
	var rows []string
	var cells [][]Val
	for _, r := range t.Rows() {
		var sb strings.Builder
		var vs []Val
		for _, c := range cols {
			v := CellVal(r[c])
			vs = append(vs, v)
			sb.WriteString(c + "=" + v.Key() + ";")
		}
		rows = append(rows, sb.String())
		cells = append(cells, vs)
	}
	return rows, cells
}

// panicSite returns the badwolf function frames of the current (panicking) stack.
func panicSite() string {
	var out []string
	for _, l := range strings.Split(string(debug.Stack()), "\n") {
		if strings.HasPrefix(l, "github.com/google/badwolf/") {
			if i := strings.LastIndex(l, "("); i > 0 {
				l = l[:i]
			}
			out = append(out, strings.TrimPrefix(l, "github.com/google/badwolf/"))
		}
	}
	if len(out) > 4 {
		out = out[:4]
	}
	return strings.Join(out, " < ")
}

// HangTimeout bounds one statement; a statement normally takes microseconds.
var HangTimeout = 60 * time.Second

// Exec runs statement text through the real pipeline on the given store.
// cols, when non-nil, selects the columns to canonicalise (default: the table's own).
func Exec(st storage.Store, text string, chanSize, bulkSize int, cols []string) *Result {
	return ExecCtx(context.Background(), st, text, chanSize, bulkSize, cols)
}

// ExecCtx is Exec under the given context (planning and execution).
func ExecCtx(ctx context.Context, st storage.Store, text string, chanSize, bulkSize int, cols []string) *Result {
	done := make(chan *Result, 1)
	go func() {
		res := &Result{}
		defer func() {
			if p := recover(); p != nil {
				res = &Result{Stage: "panic", Err: fmt.Sprint(p), Stack: panicSite()}
			}
			done <- res
		}()
		p, err := grammar.NewParser(grammar.SemanticBQL())
		if err != nil {
			res.Stage, res.Err = "parse", err.Error()
			return
		}
		stm := &semantic.Statement{}
		if err := p.Parse(grammar.NewLLk(text, 1), stm); err != nil {
			res.Stage, res.Err = "parse", err.Error()
			return
		}
		pln, err := planner.New(ctx, st, stm, chanSize, bulkSize, nil)
		if err != nil {
			res.Stage, res.Err = "plan", err.Error()
			return
		}
		tbl, err := pln.Execute(ctx)
		if err != nil {
			res.Stage, res.Err = "execute", err.Error()
			return
		}
		if tbl == nil {
			res.NilBoth = true
			return
		}
		res.Cols = append([]string{}, tbl.Bindings()...)
		cs := cols
		if cs == nil {
			cs = append([]string{}, res.Cols...)
			sort.Strings(cs)
		}
		res.Rows, res.Cells = Canon(tbl, cs)
		for _, r := range tbl.Rows() {
			var sb strings.Builder
			for _, c := range cs {
				if cell := r[c]; cell != nil {
					sb.WriteString(c + "=" + cell.String() + ";")
				} else {
					sb.WriteString(c + "=<nil>;")
				}
			}
			res.Printed = append(res.Printed, sb.String())
		}
	}()
	select {
	case r := <-done:
		return r
	case <-time.After(HangTimeout):
		return &Result{Stage: "hang", Err: "no return after " + HangTimeout.String()}
	}
}

// NewStore builds a fresh memory store with the given graphs.
// NewStore builds a memory store holding exactly the given graphs. The content is not reached by inserts alone
// (the property speaks of any contents of the queried graphs, however they came about): every graph first gets,
// next to its triples, a sibling of each triple (another object; the other kind or another instant of its
// predicate), then the siblings are removed again, then the triples themselves are added a second time, and
// last triples that were never stored (further siblings) are removed. What the graph holds afterwards is the given
// set; what its indexes hold is what the driver's add and remove paths left there.
func NewStore(graphs map[string][]*triple.Triple) storage.Store {
	ctx := context.Background()
	st := memory.NewStore()
	for name, ts := range graphs {
		g, err := st.NewGraph(ctx, name)
		if err != nil {
			panic(err)
		}
		if len(ts) == 0 {
			continue
		}
		stored := map[string]bool{}
		for _, t := range ts {
			stored[model.TripleKey(t)] = true
		}
		var noise, absent []*triple.Triple
		add := func(dst *[]*triple.Triple, t *triple.Triple) {
			if !stored[model.TripleKey(t)] {
				*dst = append(*dst, t)
			}
		}
		for _, t := range ts {
			s, p, o := t.Subject(), t.Predicate(), t.Object()
			add(&noise, model.T(s, p, model.ON(model.N("/churn", "x"))))
			add(&absent, model.T(s, p, model.ON(model.N("/churn", "y"))))
			add(&absent, model.T(model.N("/churn", "s"), p, o))
			if ta, err := p.TimeAnchor(); err == nil {
				add(&noise, model.T(s, model.PI(string(p.ID())), o))
				add(&absent, model.T(s, model.PT(string(p.ID()), ta.Add(time.Hour)), o))
			} else {
				add(&noise, model.T(s, model.PT(string(p.ID()), model.T3), o))
				add(&absent, model.T(s, model.PT(string(p.ID()), model.T3.Add(time.Hour)), o))
			}
		}
		must := func(err error) {
			if err != nil {
				panic(err)
			}
		}
		must(g.AddTriples(ctx, append(append([]*triple.Triple{}, ts...), noise...)))
		must(g.RemoveTriples(ctx, noise))
		must(g.AddTriples(ctx, ts))
		must(g.RemoveTriples(ctx, absent)) // last: nothing after it repairs what a removal of absent triples damaged
	}
	return st
}
