package bqlm

import (
	"sort"
	"time"

	"github.com/google/badwolf/triple"
	"github.com/google/badwolf/triple/literal"

	"verif/model"
)

// Vocabulary shared by the query-shape enumerations.
var (
	NA = model.N("/u", "a")
	NB = model.N("/u", "b")
	NC = model.N("/t", "c")

	PImm = model.PI("p")
	PT1  = model.PT("p", model.T1)
	PT2  = model.PT("p", model.T2)
	// PT1Z is PT1 with its anchor written in another zone: the same predicate (joins on the anchor are joins on instants)
	PT1Z = model.PT("p", model.T1.In(time.FixedZone("", 3*3600)))
	QImm = model.PI("q")
	QT2  = model.PT("q", model.T2)
	PT3  = model.PT("p", model.T3)

	LInt  = model.L(literal.Int64, int64(1))
	LText = model.L(literal.Text, "x")
)

// Slot names a binding position inside a shape before names are assigned.
type slot struct {
	clause int
	pos    byte // 'S' 'P' 'O' 'p' (anchor of P) 'o' (anchor of O)
}

// STerms are the subject alternatives (binding name filled in later).
func STerms() []Term {
	return []Term{
		{Kind: Const, N: NA},
		{Kind: Const, N: NC},
		{Kind: Bind},
	}
}

func tp(t time.Time) *time.Time { return &t }

// PTerms are the predicate alternatives.
func PTerms() []Term {
	return []Term{
		{Kind: Const, P: PImm},
		{Kind: Const, P: PT1},
		{Kind: Const, P: QImm},
		{Kind: AnchorBind, ID: "p"},
		{Kind: Bound, ID: "p"},
		{Kind: Bound, ID: "p", Lo: tp(model.T1)},
		{Kind: Bound, ID: "p", Hi: tp(model.T1)},
		{Kind: Bound, ID: "p", Lo: tp(model.T1), Hi: tp(model.T2)},
		{Kind: Bound, ID: "p", Lo: tp(model.T2)},
		{Kind: Bind},
	}
}

// OTerms are the object alternatives.
func OTerms() []Term {
	return []Term{
		{Kind: Const, N: NB},
		{Kind: Const, O: model.OL(LInt)},
		{Kind: Const, P: PT1},
		{Kind: Const, P: PImm},
		{Kind: AnchorBind, ID: "p"},
		{Kind: Bound, ID: "p"},
		{Kind: Bound, ID: "p", Lo: tp(model.T1), Hi: tp(model.T2)},
		{Kind: Bind},
	}
}

// BaseClauses enumerates all clauses S x P x O without names or modifiers.
func BaseClauses() []Clause {
	var out []Clause
	for _, s := range STerms() {
		for _, p := range PTerms() {
			for _, o := range OTerms() {
				out = append(out, Clause{S: s, P: p, O: o})
			}
		}
	}
	return out
}

func slotsOf(cs []Clause) []slot {
	var ss []slot
	for i, c := range cs {
		if c.S.Kind == Bind {
			ss = append(ss, slot{i, 'S'})
		}
		if c.P.Kind == Bind {
			ss = append(ss, slot{i, 'P'})
		}
		if c.P.Kind == AnchorBind {
			ss = append(ss, slot{i, 'p'})
		}
		if c.O.Kind == Bind {
			ss = append(ss, slot{i, 'O'})
		}
		if c.O.Kind == AnchorBind {
			ss = append(ss, slot{i, 'o'})
		}
	}
	return ss
}

// rgs enumerates restricted-growth strings of length n: every way of sharing
// names between n slots, once up to renaming.
func rgs(n int) [][]int {
	var out [][]int
	var rec func(cur []int, max int)
	rec = func(cur []int, max int) {
		if len(cur) == n {
			out = append(out, append([]int{}, cur...))
			return
		}
		for v := 0; v <= max+1; v++ {
			m := max
			if v > m {
				m = v
			}
			rec(append(cur, v), m)
		}
	}
	rec(nil, -1)
	return out
}

var bindNames = []string{"?x0", "?x1", "?x2", "?x3", "?x4", "?x5", "?x6", "?x7", "?x8", "?x9"}

// Namings returns every sharing pattern of binding names over the slots of cs.
func Namings(cs []Clause) [][]Clause {
	ss := slotsOf(cs)
	if len(ss) == 0 {
		return [][]Clause{cloneClauses(cs)}
	}
	var out [][]Clause
	for _, r := range rgs(len(ss)) {
		n := cloneClauses(cs)
		for i, s := range ss {
			name := bindNames[r[i]]
			switch s.pos {
			case 'S':
				n[s.clause].S.Name = name
			case 'P', 'p':
				n[s.clause].P.Name = name
			case 'O', 'o':
				n[s.clause].O.Name = name
			}
		}
		out = append(out, n)
	}
	return out
}

func cloneClauses(cs []Clause) []Clause { return append([]Clause{}, cs...) }

// Modifier identifies one extraction modifier position.
type Modifier struct {
	Pos  byte   // 'S' 'P' 'O'
	Kind string // AS ID TYPE AT
}

// Modifiers valid for a term in a position, per the grammar.
func ModifiersFor(c Clause) []Modifier {
	ms := []Modifier{{'S', "AS"}, {'S', "TYPE"}, {'S', "ID"}, {'P', "AS"}, {'P', "ID"}}
	if c.P.Kind != Bound {
		ms = append(ms, Modifier{'P', "AT"})
	}
	o := c.O
	switch {
	case o.Kind == Bind:
		ms = append(ms, Modifier{'O', "AS"}, Modifier{'O', "TYPE"}, Modifier{'O', "ID"}, Modifier{'O', "AT"})
	case o.Kind == Const && o.N != nil:
		ms = append(ms, Modifier{'O', "AS"}, Modifier{'O', "TYPE"}, Modifier{'O', "ID"})
	case o.Kind == Const && o.P == nil: // literal
		ms = append(ms, Modifier{'O', "AS"})
	case o.Kind == Bound:
		ms = append(ms, Modifier{'O', "AS"}, Modifier{'O', "ID"})
	default: // predicate constant / anchor binding
		ms = append(ms, Modifier{'O', "AS"}, Modifier{'O', "ID"}, Modifier{'O', "AT"})
	}
	return ms
}

// WithModifier returns c with modifier m bound to alias name.
func WithModifier(c Clause, m Modifier, name string) Clause {
	t := &c.S
	if m.Pos == 'P' {
		t = &c.P
	} else if m.Pos == 'O' {
		t = &c.O
	}
	switch m.Kind {
	case "AS":
		t.As = name
	case "ID":
		t.IDAlias = name
	case "TYPE":
		t.TypeAlias = name
	case "AT":
		t.AtAlias = name
	}
	return c
}

// SelectAll projects every binding of the pattern, sorted by name.
func SelectAll(cs []Clause) []Proj {
	bs := AllBindings(cs)
	sort.Strings(bs)
	var ps []Proj
	for _, b := range bs {
		ps = append(ps, Proj{Binding: b})
	}
	return ps
}

// Universe8 is the data universe for one-clause shapes: every predicate id in
// both kinds, three anchors, every object kind, a self loop.
func Universe8() []*triple.Triple {
	return []*triple.Triple{
		model.T(NA, PImm, model.ON(NB)),
		model.T(NA, PT1, model.ON(NB)),
		model.T(NA, PT2, model.OL(LInt)),
		model.T(NC, PImm, model.ON(NC)),
		model.T(NA, QImm, model.OP(PT1)),
		model.T(NC, PT1, model.OP(PImm)),
		model.T(NA, QT2, model.ON(NB)),
		model.T(NA, PT3, model.OP(PT2)),
	}
}

// Masks returns the subsets explored: all of them (thorough) or every subset
// of at most 3 triples plus the full universe (quick).
func Masks(n int, all bool) []int {
	var out []int
	for m := 0; m < 1<<uint(n); m++ {
		bits := 0
		for x := m; x != 0; x &= x - 1 {
			bits++
		}
		if all || bits <= 3 || m == 1<<uint(n)-1 {
			out = append(out, m)
		}
	}
	return out
}

// Subset picks the triples of u whose bit is set in mask.
func Subset(u []*triple.Triple, mask int) []*triple.Triple {
	var out []*triple.Triple
	for i, t := range u {
		if mask&(1<<uint(i)) != 0 {
			out = append(out, t)
		}
	}
	return out
}

// BoundAliasShapes: two-clause patterns whose second clause takes a time bound from a
// binding of the first ("p"@[?t,], "p"@[,?t], ...).
func BoundAliasShapes() [][]Clause {
	firsts := []Clause{
		{S: Term{Kind: Bind, Name: "?s"}, P: Term{Kind: AnchorBind, ID: "p", Name: "?t"}, O: Term{Kind: Bind, Name: "?o"}},
		{S: Term{Kind: Bind, Name: "?s"}, P: Term{Kind: Bind, Name: "?q", AtAlias: "?t"}, O: Term{Kind: Const, N: NB}},
		{S: Term{Kind: Const, N: NA}, P: Term{Kind: AnchorBind, ID: "q", Name: "?t"}, O: Term{Kind: Bind, Name: "?o"}},
	}
	t1 := model.T1
	ps := []Term{
		{Kind: Bound, ID: "p", LoName: "?t"},
		{Kind: Bound, ID: "p", HiName: "?t"},
		{Kind: Bound, ID: "p", LoName: "?t", HiName: "?t"},
		{Kind: Bound, ID: "p", Lo: &t1, HiName: "?t"},
		{Kind: Bound, ID: "q", LoName: "?t"},
	}
	ss := []Term{{Kind: Bind, Name: "?s"}, {Kind: Bind, Name: "?r"}, {Kind: Const, N: NA}}
	os := []Term{{Kind: Bind, Name: "?e"}, {Kind: Const, N: NB}}
	var out [][]Clause
	for _, f := range firsts {
		for _, p := range ps {
			for _, s2 := range ss {
				for _, o2 := range os {
					if f.S.Kind == Const && s2.Kind == Bind && s2.Name == "?s" {
						continue
					}
					out = append(out, []Clause{f, {S: s2, P: p, O: o2}})
				}
			}
		}
	}
	return out
}

// BoundAliasGraphs: anchors of the first clause's rows not in ascending order.
func BoundAliasGraphs() []map[string][]*triple.Triple {
	T := model.T
	a, b, c := NA, NB, NC
	p0, p1, p2, p3 := model.PT("p", model.T0), PT1, PT2, PT3
	q1, q2 := model.PT("q", model.T1), QT2
	gs := [][]*triple.Triple{
		// anchors of the first clause's rows NOT in ascending order of the subjects; later triples before earlier ones
		{T(a, p2, model.ON(b)), T(c, p1, model.ON(b)), T(b, p3, model.ON(b)), T(a, p1, model.ON(c)), T(c, p0, model.ON(b)), T(a, p3, model.ON(b)), T(c, p3, model.ON(c))},
		{T(a, p1, model.ON(b)), T(a, p2, model.ON(b)), T(a, q2, model.ON(b)), T(a, q1, model.ON(c)), T(b, p2, model.ON(b)), T(b, p0, model.ON(a))},
		{T(a, PImm, model.ON(b)), T(a, p1, model.ON(b))},
		{},
	}
	var out []map[string][]*triple.Triple
	for _, g := range gs {
		out = append(out, map[string][]*triple.Triple{"?g": g})
	}
	return out
}
