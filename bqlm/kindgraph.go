package bqlm

import (
	"fmt"
	"time"

	"github.com/google/badwolf/triple"
	"github.com/google/badwolf/triple/literal"
	"github.com/google/badwolf/triple/node"

	"verif/model"
)

func Subj(i int) *node.Node { return model.N("/u", fmt.Sprintf("n%d", i)) }

func zone(name string, h int) *time.Location { return time.FixedZone(name, h*3600) }

// anchors: instants whose RFC3339 text order differs from their chronological order.
// Anchors are instants whose RFC3339 text order differs from their chronological order.
func Anchors() []time.Time {
	base := time.Date(2016, 1, 1, 0, 0, 0, 0, time.UTC)
	return []time.Time{
		base,
		base.Add(500 * time.Millisecond).In(zone("", 1)),
		base.Add(1).In(zone("", -8)),
		base.Add(-time.Hour).In(zone("", 5)),
		base.Add(time.Hour + 120*time.Microsecond),
	}
}

// KindGraph holds, per subject, one value of every kind under its own predicate id
// (ki int64, kf float64, kt text, kn node, kp predicate object, "t"@[anchor]).
func KindGraph() []*triple.Triple {
	var ts []*triple.Triple
	T := model.T
	// the outer two are more than 2^63 apart (a comparison by subtraction wraps around) and cancel in sums
	ints := []int64{-6000000000000000000, -3, 0, 2, 6000000000000000000}
	floats := []float64{-1.5, -0.25, 0, 0.1, 1e21}
	texts := []string{"a", "a!", "b", "B", "ab"}
	nodes := []*node.Node{model.N("/u", "z"), model.N("/t", "a"), model.N("/u", "a"), model.N("/u", "a0"), model.N("/u", "B")}
	for i := 0; i < 5; i++ {
		s := Subj(i)
		ts = append(ts,
			T(s, model.PI("ki"), model.OL(model.L(literal.Int64, ints[i]))),
			T(s, model.PI("kf"), model.OL(model.L(literal.Float64, floats[i]))),
			T(s, model.PI("kt"), model.OL(model.L(literal.Text, texts[i]))),
			T(s, model.PI("kn"), model.ON(nodes[i])),
			T(s, model.PI("kp"), model.OP(model.PT("p"+fmt.Sprint(4-i), model.T1))),
			T(s, model.PT("t", Anchors()[i]), model.ON(NB)),
		)
	}
	// ties: a sixth subject repeating values of subject 1
	s := Subj(5)
	ts = append(ts,
		T(s, model.PI("ki"), model.OL(model.L(literal.Int64, ints[1]))),
		T(s, model.PI("kf"), model.OL(model.L(literal.Float64, floats[1]))),
		T(s, model.PI("kt"), model.OL(model.L(literal.Text, texts[1]))),
		T(s, model.PI("kn"), model.ON(nodes[1])),
		// the same INSTANT as subject 1's anchor, written in another zone: a tie on the
		// anchor whose RFC3339 texts differ, so only later keys may decide
		T(s, model.PT("t", Anchors()[1].In(time.UTC)), model.ON(NB)),
	)
	return ts
}
