package bqlm

import (
	"context"
	"encoding/json"
	"fmt"
	"os"
	"path/filepath"
	"sort"
	"strings"

	"github.com/google/badwolf/bql/grammar"
	"github.com/google/badwolf/bql/lexer"
	"github.com/google/badwolf/bql/semantic"
	"github.com/google/badwolf/triple"
	"github.com/google/badwolf/triple/literal"
)

// The repository's compliance stories (examples/compliance/*.json) are ~40
// maintainer-written statements with the tables they must return: an
// independent statement of intended BQL semantics. ValidateAgainstStories runs
// the REFERENCE EVALUATOR (not badwolf) on every story statement it can express
// and compares with the expected table. It validates the oracle, it does not
// test badwolf. Statements are read with badwolf's parser only to obtain the
// clause structure (exported fields of semantic.GraphClause).

type story struct {
	Name    string
	Sources []struct {
		ID    string
		Facts []string
	}
	Assertions []struct {
		Requires   string
		Statement  string
		WillFail   bool
		MustReturn []map[string]string
	}
}

func termsFromClause(c *semantic.GraphClause) (Clause, bool) {
	var out Clause
	out.Optional = c.Optional
	// bound aliases (?lo, ?hi inside the brackets) are not modelled
	if c.PLowerBoundAlias+c.PUpperBoundAlias+c.OLowerBoundAlias+c.OUpperBoundAlias != "" {
		return out, false
	}
	if c.S != nil {
		out.S = Term{Kind: Const, N: c.S}
	} else {
		out.S = Term{Kind: Bind, Name: c.SBinding}
	}
	out.S.As, out.S.TypeAlias, out.S.IDAlias = c.SAlias, c.STypeAlias, c.SIDAlias
	switch {
	case c.P != nil:
		out.P = Term{Kind: Const, P: c.P}
	case c.PBinding != "":
		out.P = Term{Kind: Bind, Name: c.PBinding}
	case c.PAnchorBinding != "":
		out.P = Term{Kind: AnchorBind, ID: c.PID, Name: c.PAnchorBinding}
	case c.PID != "":
		out.P = Term{Kind: Bound, ID: c.PID, Lo: c.PLowerBound, Hi: c.PUpperBound}
	default:
		return out, false
	}
	out.P.As, out.P.IDAlias, out.P.AtAlias = c.PAlias, c.PIDAlias, c.PAnchorAlias
	switch {
	case c.O != nil:
		if n, err := c.O.Node(); err == nil {
			out.O = Term{Kind: Const, N: n}
		} else if p, err := c.O.Predicate(); err == nil {
			out.O = Term{Kind: Const, P: p}
		} else {
			out.O = Term{Kind: Const, O: c.O}
		}
	case c.OBinding != "":
		out.O = Term{Kind: Bind, Name: c.OBinding}
	case c.OAnchorBinding != "":
		out.O = Term{Kind: AnchorBind, ID: c.OID, Name: c.OAnchorBinding}
	case c.OID != "":
		out.O = Term{Kind: Bound, ID: c.OID, Lo: c.OLowerBound, Hi: c.OUpperBound}
	default:
		return out, false
	}
	out.O.As, out.O.TypeAlias, out.O.IDAlias, out.O.AtAlias = c.OAlias, c.OTypeAlias, c.OIDAlias, c.OAnchorAlias
	// One story names an extraction like the binding it extracts from
	// ("?gc ID ?gc"): the name then stands for two values. The properties say a
	// binding has one value per row; the model does not express this form.
	for _, t := range []Term{out.S, out.P, out.O} {
		if t.Kind == Bind && (t.Name == t.IDAlias || t.Name == t.TypeAlias || t.Name == t.AtAlias) {
			return out, false
		}
	}
	return out, true
}

// FromStatement translates a parsed SELECT into the model AST; ok=false when it
// uses features the model does not express (FILTER, HAVING, LIMIT, bound aliases).
func FromStatement(stm *semantic.Statement) (*Query, bool) {
	if stm.Type() != semantic.Query || len(stm.FilterClauses()) > 0 || stm.HasHavingClause() || stm.IsLimitSet() {
		return nil, false
	}
	q := &Query{From: stm.InputGraphNames()}
	for _, c := range stm.GraphPatternClauses() {
		mc, ok := termsFromClause(c)
		if !ok {
			return nil, false
		}
		q.Where = append(q.Where, mc)
	}
	for _, p := range stm.Projections() {
		mp := Proj{Binding: p.Binding, Alias: p.Alias}
		switch p.OP {
		case lexer.ItemCount:
			mp.Op = "count"
			mp.Distinct = p.Modifier == lexer.ItemDistinct
		case lexer.ItemSum:
			mp.Op = "sum"
		}
		q.Proj = append(q.Proj, mp)
	}
	q.GroupBy = stm.GroupByBindings()
	lo := stm.GlobalLookupOptions()
	q.GLo, q.GHi = lo.LowerAnchor, lo.UpperAnchor
	return q, true
}

func printedRow(r ORow, cols []string) string {
	var parts []string
	for i, c := range cols {
		parts = append(parts, c+"="+Printed(r[i]))
	}
	sort.Strings(parts)
	return strings.Join(parts, "\x1f")
}

// ValidateAgainstStories returns how many assertions were checked and skipped,
// and the first disagreement between the reference evaluator and a story.
func ValidateAgainstStories(dir string) (checked, skipped int, err error) {
	files, _ := filepath.Glob(filepath.Join(dir, "*.json"))
	if len(files) == 0 {
		return 0, 0, fmt.Errorf("no stories found in %s", dir)
	}
	for _, f := range files {
		raw, rerr := os.ReadFile(f)
		if rerr != nil {
			return checked, skipped, rerr
		}
		var st story
		if uerr := json.Unmarshal([]byte(strings.NewReplacer("\n", " ", "\t", " ").Replace(string(raw))), &st); uerr != nil {
			return checked, skipped, fmt.Errorf("%s: %v", f, uerr)
		}
		graphs := map[string][]*triple.Triple{}
		for _, s := range st.Sources {
			for _, fact := range s.Facts {
				t, perr := triple.Parse(fact, literal.DefaultBuilder())
				if perr != nil {
					return checked, skipped, fmt.Errorf("%s: fact %q: %v", f, fact, perr)
				}
				graphs[s.ID] = append(graphs[s.ID], t)
			}
		}
		for _, a := range st.Assertions {
			if a.WillFail {
				skipped++
				continue
			}
			p, _ := grammar.NewParser(grammar.SemanticBQL())
			stm := &semantic.Statement{}
			if perr := p.Parse(grammar.NewLLk(a.Statement, 1), stm); perr != nil {
				skipped++
				continue
			}
			_ = context.Background()
			q, ok := FromStatement(stm)
			if !ok {
				skipped++
				continue
			}
			var data []*triple.Triple
			for _, g := range q.From {
				data = append(data, graphs[g]...)
			}
			rows, eerr := EvalRows(q, Dedup(data))
			if eerr != nil {
				skipped++
				continue
			}
			cols := q.OutCols()
			var got, want []string
			for _, r := range rows {
				got = append(got, printedRow(r, cols))
			}
			for _, m := range a.MustReturn {
				var parts []string
				for k, v := range m {
					parts = append(parts, k+"="+strings.TrimSpace(v))
				}
				sort.Strings(parts)
				want = append(want, strings.Join(parts, "\x1f"))
			}
			sort.Strings(got)
			sort.Strings(want)
			if strings.Join(got, "\n") != strings.Join(want, "\n") {
				return checked, skipped, fmt.Errorf("%s, assertion %q:\n%s\n story expects %q\n reference evaluator gives %q", filepath.Base(f), a.Requires, strings.Join(strings.Fields(a.Statement), " "), want, got)
			}
			checked++
		}
	}
	return checked, skipped, nil
}
