package bqlm

import (
	"fmt"
	"math"
	"sort"
	"strings"
	"time"

	"github.com/google/badwolf/triple"
	"github.com/google/badwolf/triple/literal"

	"verif/model"
)

// ORow is one output row: values in projection order.
type ORow []Val

// Key canonicalises an output row over the output column names.
func (r ORow) Key(cols []string) string {
	var sb strings.Builder
	for i, c := range cols {
		sb.WriteString(c + "=" + r[i].Key() + ";")
	}
	return sb.String()
}

// OutCols returns the output column names of q.
func (q *Query) OutCols() []string {
	var cols []string
	for _, p := range q.Proj {
		cols = append(cols, p.Out())
	}
	return cols
}

// ErrUnspecified marks queries whose result the properties leave open (sum over
// a column that is not uniformly int64 or float64).
var ErrUnspecified = fmt.Errorf("result left unspecified by the property")

func intLit(v int64) Val     { return Val{Kind: 'L', L: model.L(literal.Int64, v)} }
func floatLit(v float64) Val { return Val{Kind: 'L', L: model.L(literal.Float64, v)} }

// EvalRows evaluates pattern, projection and GROUP BY of q over data (no
// HAVING / ORDER BY / LIMIT): the specified rows as a multiset.
func EvalRows(q *Query, data []*triple.Triple) ([]ORow, error) {
	sols := Solutions(q.Where, data, q.GLo, q.GHi)
	if len(q.GroupBy) == 0 {
		rows := make([]ORow, 0, len(sols))
		for _, a := range sols {
			var r ORow
			for _, p := range q.Proj {
				r = append(r, a[p.Binding])
			}
			rows = append(rows, r)
		}
		return rows, nil
	}
	// group keys are output names; map them to projections
	isKey := map[int]bool{}
	for _, g := range q.GroupBy {
		for i, p := range q.Proj {
			if p.Op == "" && p.Out() == g {
				isKey[i] = true
			}
		}
	}
	type group struct {
		first Assign
		sols  []Assign
	}
	idx := map[string]*group{}
	var order []string
	for _, a := range sols {
		var sb strings.Builder
		for i, p := range q.Proj {
			if isKey[i] {
				sb.WriteString(a[p.Binding].Key() + ";")
			}
		}
		k := sb.String()
		g, ok := idx[k]
		if !ok {
			g = &group{first: a}
			idx[k] = g
			order = append(order, k)
		}
		g.sols = append(g.sols, a)
	}
	var rows []ORow
	for _, k := range order {
		g := idx[k]
		var r ORow
		for i, p := range q.Proj {
			switch {
			case isKey[i]:
				r = append(r, g.first[p.Binding])
			case p.Op == "count" && !p.Distinct:
				r = append(r, intLit(int64(len(g.sols))))
			case p.Op == "count":
				seen := map[string]bool{}
				for _, a := range g.sols {
					seen[a[p.Binding].Key()] = true
				}
				r = append(r, intLit(int64(len(seen))))
			case p.Op == "sum":
				var si int64
				var sf float64
				kind := literal.Type(255)
				for _, a := range g.sols {
					v := a[p.Binding]
					if v.Kind != 'L' || (v.L.Type() != literal.Int64 && v.L.Type() != literal.Float64) {
						return nil, ErrUnspecified
					}
					if kind == 255 {
						kind = v.L.Type()
					} else if kind != v.L.Type() {
						return nil, ErrUnspecified
					}
					if kind == literal.Int64 {
						x, _ := v.L.Int64()
						si += x
					} else {
						x, _ := v.L.Float64()
						sf += x
					}
				}
				if kind == literal.Int64 {
					r = append(r, intLit(si))
				} else {
					r = append(r, floatLit(sf))
				}
			default:
				return nil, fmt.Errorf("projection %v is neither a group key nor an aggregate", p)
			}
		}
		rows = append(rows, r)
	}
	return rows, nil
}

// SumColumnsUniform reports whether every sum() column of q is uniformly int64
// or uniformly float64 over ALL solutions (the implementation picks the
// accumulator from the first row, so mixed columns are unspecified).
func SumColumnsUniform(q *Query, data []*triple.Triple) bool {
	sols := Solutions(q.Where, data, q.GLo, q.GHi)
	for _, p := range q.Proj {
		if p.Op != "sum" {
			continue
		}
		kind := literal.Type(255)
		for _, a := range sols {
			v := a[p.Binding]
			if v.Kind != 'L' || (v.L.Type() != literal.Int64 && v.L.Type() != literal.Float64) {
				return false
			}
			if kind == 255 {
				kind = v.L.Type()
			} else if kind != v.L.Type() {
				return false
			}
		}
	}
	return true
}

// KeysOfRows canonicalises rows as a sorted multiset.
func KeysOfRows(rows []ORow, cols []string) []string {
	out := make([]string, 0, len(rows))
	for _, r := range rows {
		out = append(out, r.Key(cols))
	}
	sort.Strings(out)
	return out
}

// ---- value order (ORDER BY, HAVING) -------------------------------------------------

// Printed is the printed form of a value (what the property calls "its printed form").
func Printed(v Val) string {
	switch v.Kind {
	case 'N':
		return v.N.String()
	case 'P':
		return v.P.String()
	case 'L':
		return v.L.String()
	case 'T':
		return v.T.Format(time.RFC3339Nano)
	case 'S':
		return v.S
	}
	return "<NULL>"
}

// SortKind classifies a value for ordering: values of one SortKind are
// comparable with CompareVals.
func SortKind(v Val) string {
	switch v.Kind {
	case 'L':
		switch v.L.Type() {
		case literal.Int64:
			return "int64"
		case literal.Float64:
			return "float64"
		case literal.Text:
			return "text"
		case literal.Bool:
			return "bool"
		default:
			return "blob"
		}
	case 'T':
		return "time"
	case 'N':
		return "node"
	case 'P':
		return "predicate"
	case 'S':
		return "string"
	}
	return "null"
}

// CompareVals orders two values of the same SortKind: int64 and float64
// numerically, times chronologically, everything else by printed form.
func CompareVals(a, b Val) int {
	switch SortKind(a) {
	case "int64":
		x, _ := a.L.Int64()
		y, _ := b.L.Int64()
		switch {
		case x < y:
			return -1
		case x > y:
			return 1
		}
		return 0
	case "float64":
		x, _ := a.L.Float64()
		y, _ := b.L.Float64()
		switch {
		case x < y:
			return -1
		case x > y:
			return 1
		case x == y:
			return 0
		}
		return strings.Compare(fmt.Sprint(math.Float64bits(x)), fmt.Sprint(math.Float64bits(y)))
	case "time":
		switch {
		case a.T.Before(b.T):
			return -1
		case a.T.After(b.T):
			return 1
		}
		return 0
	}
	return strings.Compare(Printed(a), Printed(b))
}
