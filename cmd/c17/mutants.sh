#!/bin/bash
# Demonstrates detection for C17: applies each deliberate property-breaking change to a COPY of a
# /repo file (go build -overlay; /repo is never touched), runs the quick tier and
# reports caught / missed, and runs the repository's bql tests under the same
# overlay to show the change is one the existing tests do not notice.
# Usage: cmd/c17/mutants.sh [name...]      (scratch: work/syntax/mut-c17/)
cd "$(dirname "$0")/../.." || exit 2
. ./env.sh
W=work/syntax/mut-c17; mkdir -p "$W" work/bin
G=/repo/bql/grammar/grammar.go
P=/repo/bql/grammar/parser.go

# name | file | python replacement (old -> new, must match exactly once)
mutant() {
  local name="$1" file="$2" old="$3" new="$4"
  [ $# -gt 4 ] && shift 4 || shift 4
  if [ -n "$ONLY" ] && ! echo " $ONLY " | grep -q " $name "; then return; fi
  local out="$PWD/$W/$name.go"
  python3 - "$file" "$out" "$old" "$new" <<'PY' || { echo "$name: MUTANT-DID-NOT-APPLY"; return; }
import sys
src=open(sys.argv[1]).read()
old,new=sys.argv[3],sys.argv[4]
if src.count(old)!=1:
    sys.stderr.write("pattern occurs %d times\n"%src.count(old)); sys.exit(1)
open(sys.argv[2],'w').write(src.replace(old,new))
PY
  echo "{\"Replace\":{\"$file\":\"$out\"}}" > "$W/$name.json"
  if ! go build -overlay "$W/$name.json" -o "work/bin/c17-$name" ./cmd/c17 2> "$W/$name.build"; then
    echo "$name: DOES-NOT-COMPILE ($(head -1 "$W/$name.build"))"; return
  fi
  mkdir -p "$W/root"; cp known_findings.json "$W/root/"   # evidence/replays of mutant runs go to scratch
  VERIF_ROOT="$PWD/$W/root" "work/bin/c17-$name" quick > "$W/$name.out" 2>&1; rc=$?
  (cd /repo && go test -overlay "$OLDPWD/$W/$name.json" -vet=off -count=1 ./bql/... > "$OLDPWD/$W/$name.tests" 2>&1); trc=$?
  tests="repo bql tests pass"; [ $trc -ne 0 ] && tests="repo bql tests FAIL ($(grep -c '^--- FAIL' "$W/$name.tests") failing)"
  if [ $rc -eq 1 ]; then echo "$name: CAUGHT (exit 1; $(grep -c 'violation class' "$W/$name.out") violation classes; first: $(grep -m1 'violation class' "$W/$name.out" | cut -c1-160)); $tests"
  elif [ $rc -eq 0 ]; then echo "$name: MISSED (exit 0); $tests"
  else echo "$name: MACHINERY exit $rc: $(tail -1 "$W/$name.out" | cut -c1-200); $tests"; fi
}
ONLY="$*"

# 1. a new alternative that starts with a token an earlier alternative already uses
#    (appended, so it is silently dead and every existing test still passes)
mutant dup-first-token "$G" '"CONSTRUCT_OBJECT":                       constructObjectClauses(),' '"CONSTRUCT_OBJECT":                       append(constructObjectClauses(), &Clause{Elements: []Element{NewTokenType(lexer.ItemBlankNode), NewTokenType(lexer.ItemLiteral)}}),'
# 1b. the same, but inserted first in a rule the tests exercise (old LITERAL alternative becomes dead)
mutant dup-first-token-front "$G" 'func insertObjectClauses() []*Clause {
	return []*Clause{' 'func insertObjectClauses() []*Clause {
	return []*Clause{
		{Elements: []Element{NewTokenType(lexer.ItemLiteral), NewTokenType(lexer.ItemLiteral)}},'

# 2. an alternative placed after the empty alternative (never tried; NewParser does not object)
mutant alt-after-empty "$G" '"LIMIT":                                  limitClauses(),' '"LIMIT":                                  append(limitClauses(), &Clause{Elements: []Element{NewTokenType(lexer.ItemAsc), NewTokenType(lexer.ItemLiteral)}}),'
# 2b. the empty alternative moved to the front of a rule
mutant empty-first "$G" 'func limitClauses() []*Clause {
	return []*Clause{' 'func limitClauses() []*Clause {
	return []*Clause{
		{},'

# 3. a reference to an undefined symbol (in a branch no test statement exercises)
mutant undefined-symbol "$G" '"GRAPH_SHOW":                             graphShowClauses(),' '"GRAPH_SHOW":                             append(graphShowClauses(), &Clause{Elements: []Element{NewTokenType(lexer.ItemGraph), NewSymbol("GRAPH_LIST")}}),'

# 4. a rule that nothing references any more / unreachable rule
mutant unreachable-rule "$G" '"GRAPH_SHOW":                             graphShowClauses(),' '"GRAPH_SHOW":                             graphShowClauses(),
		"GRAPH_LIST":                             graphShowClauses(),'

# 5. SemanticBQL gains an alternative the plain grammar does not have
mutant semantic-extra-alt "$G" '	semanticBQL := BQL()
' '	semanticBQL := BQL()
	(*semanticBQL)["GRAPH_SHOW"] = append((*semanticBQL)["GRAPH_SHOW"], &Clause{Elements: []Element{NewTokenType(lexer.ItemGraph)}})
'

# 6. the parser tries the alternatives of a rule but takes the empty one as soon as it is seen,
#    here made visible by trying alternatives in reverse order
mutant parser-reverse-order "$P" '	for _, clause := range (*p.grammar)[s] {
		if len(clause.Elements) == 0 {' '	cls := (*p.grammar)[s]
	for i := len(cls) - 1; i >= 0; i-- {
		clause := cls[i]
		if len(clause.Elements) == 0 {'

# 7. non-productive rule: a rule whose only alternative refers to itself
mutant unproductive-rule "$G" '"GRAPH_SHOW":                             graphShowClauses(),' '"GRAPH_SHOW":                             append(graphShowClauses(), &Clause{Elements: []Element{NewTokenType(lexer.ItemGraph), NewSymbol("LOOP")}}),
		"LOOP": []*Clause{{Elements: []Element{NewTokenType(lexer.ItemGraph), NewSymbol("LOOP")}}},'
