// C17 — every alternative of every BQL grammar rule is live and chosen by one token.
//
// Graph search over the finite tables grammar.BQL() and grammar.SemanticBQL(),
// checked completely: first-token conflicts over all pairs of alternatives,
// position of the empty alternative, defined / reachable / productive symbols,
// and for every alternative a shortest witness statement (shortest context
// from START + shortest yield) that the REAL parser must accept while a
// recording ProcessStart hook, set on every clause of a fresh BQL() copy,
// reports exactly the alternatives the table-driven derivation predicts.
package main

import (
	"encoding/json"
	"fmt"
	"strings"

	"github.com/google/badwolf/bql/grammar"
	"github.com/google/badwolf/bql/semantic"

	"verif/common"
	"verif/recog"
)

type structCase struct {
	Table string `json:"table"` // BQL | SemanticBQL
	Rule  string `json:"rule"`
	Check string `json:"check"`
	Alts  []int  `json:"alts,omitempty"`
}

type witnessCase struct {
	Alt    recog.AltRef `json:"alternative"`
	Tokens []string     `json:"tokens"`
	Text   string       `json:"text"`
	Origin string       `json:"origin"` // shortest | occurrence:<parent>[i]@k | search
}

func tableByName(name string) *recog.Table {
	if name == "SemanticBQL" {
		return recog.FromGrammar(grammar.SemanticBQL())
	}
	return recog.FromGrammar(grammar.BQL())
}

type structFinding struct {
	c      structCase
	shape  string
	detail string
}

// structural runs every table-level clause of the property on one table.
func structural(name string, t *recog.Table) (fs []structFinding, pairs int) {
	an := t.Analyse()
	add := func(rule, check string, alts []int, shape, detail string) {
		fs = append(fs, structFinding{structCase{name, rule, check, alts}, shape, detail})
	}
	if _, ok := t.Rules[t.Start]; !ok {
		add(t.Start, "defined", nil, "start-rule-missing", "the table has no START rule")
	}
	for _, u := range an.Undefined {
		add(strings.Fields(u)[0], "defined", nil, "reference-to-undefined-symbol", u)
	}
	for _, s := range t.Syms {
		alts := t.Rules[s]
		if len(alts) == 0 {
			add(s, "productive", nil, "rule-without-alternatives", s+" has no alternatives")
		}
		if !an.Reachable[s] {
			add(s, "reachable", nil, "symbol-unreachable-from-START", s+" cannot be reached from START")
		}
		if !an.Productive[s] {
			add(s, "productive", nil, "symbol-derives-no-finite-statement", s+" derives no finite token string")
		}
		empties := 0
		for i, a := range alts {
			if a.Empty() {
				empties++
				if i != len(alts)-1 {
					add(s, "empty-last", []int{i}, "empty-alternative-not-last",
						fmt.Sprintf("%s: empty alternative at index %d of %d; every later alternative is never tried", s, i, len(alts)))
				}
				continue
			}
			if a.Elems[0].IsSym() {
				add(s, "first-token", []int{i}, "alternative-starts-with-symbol", a.String())
			}
		}
		if empties > 1 {
			add(s, "empty-last", nil, "more-than-one-empty-alternative", fmt.Sprintf("%s has %d empty alternatives", s, empties))
		}
		for i := 0; i < len(alts); i++ {
			for j := i + 1; j < len(alts); j++ {
				if alts[i].Empty() || alts[j].Empty() {
					continue
				}
				pairs++
				fi, _ := t.AltFirst(alts[i].Elems)
				fj, _ := t.AltFirst(alts[j].Elems)
				for _, k := range fi.Sorted() {
					if fj[k] {
						add(s, "first-token", []int{i, j}, "two-alternatives-start-with-the-same-token",
							fmt.Sprintf("%s and %s both start with %s: the second is never chosen", alts[i], alts[j], k))
						break
					}
				}
			}
		}
	}
	for _, s := range an.LeftRecursive {
		add(s, "first-token", nil, "left-recursive-symbol", s+" reaches itself without consuming a token")
	}
	return fs, pairs
}

// realTrace parses text with the real parser over a fresh BQL() whose every
// clause carries a recording ProcessStart hook.
func realTrace(text string) (taken []recog.AltRef, err error, panicked interface{}) {
	g := grammar.BQL()
	for sym, cls := range *g {
		for i, c := range cls {
			ref := recog.AltRef{Sym: string(sym), Idx: i}
			var hook semantic.ClauseHook
			hook = func(*semantic.Statement, semantic.Symbol) (semantic.ClauseHook, error) {
				taken = append(taken, ref)
				return hook, nil
			}
			c.ProcessStart = hook
		}
	}
	panicked = common.Guard(func() {
		var p *grammar.Parser
		p, err = grammar.NewParser(g)
		if err != nil {
			return
		}
		err = p.Parse(grammar.NewLLk(text, 1), &semantic.Statement{})
	})
	return taken, err, panicked
}

func refs(rs []recog.AltRef) string {
	var s []string
	for _, r := range rs {
		s = append(s, r.String())
	}
	return strings.Join(s, " ")
}

// checkWitness replays one witness: the table-driven derivation must accept
// it using the alternative, and the real parser must accept it reporting the
// same alternatives in the same order.
func checkWitness(t *recog.Table, c witnessCase, ks []recog.Kind) (ok bool, shape, detail string) {
	tr := t.GreedyTrace(ks)
	if !tr.Accepted || !tr.Uses(c.Alt) {
		return false, "model-derivation-does-not-take-alternative",
			fmt.Sprintf("%s: witness %q: table-driven derivation accepted=%v uses=%v (%s)", c.Alt, c.Text, tr.Accepted, tr.Uses(c.Alt), tr.Why)
	}
	got, err, p := realTrace(c.Text)
	if p != nil {
		return false, "parser-panics-on-witness", fmt.Sprintf("%s: witness %q: panic %v", c.Alt, c.Text, p)
	}
	if err != nil {
		return false, "parser-rejects-witness", fmt.Sprintf("%s: witness %q rejected: %v", c.Alt, c.Text, err)
	}
	if refs(got) != refs(tr.Taken) {
		return false, "parser-takes-other-alternatives",
			fmt.Sprintf("%s: witness %q\n parser took: %s\n table says : %s", c.Alt, c.Text, refs(got), refs(tr.Taken))
	}
	return true, "", fmt.Sprintf("%s taken by %q", c.Alt, c.Text)
}

func kindsFromNames(names []string) []recog.Kind {
	byName := map[string]recog.Kind{}
	for _, k := range recog.Kinds() {
		byName[k.String()] = k
	}
	var ks []recog.Kind
	for _, n := range names {
		ks = append(ks, byName[n])
	}
	return ks
}

func main() {
	r := common.Start("C17", "model_checking")
	r.Replayer("structure", func(raw json.RawMessage) (bool, string) {
		var c structCase
		json.Unmarshal(raw, &c)
		fs, _ := structural(c.Table, tableByName(c.Table))
		for _, f := range fs {
			if f.c.Rule == c.Rule && f.c.Check == c.Check {
				return false, f.detail
			}
		}
		return true, fmt.Sprintf("rule %s of %s passes %s", c.Rule, c.Table, c.Check)
	})
	r.Replayer("shape", func(raw json.RawMessage) (bool, string) {
		d := recog.SameShape(recog.FromGrammar(grammar.BQL()), recog.FromGrammar(grammar.SemanticBQL()))
		if len(d) > 0 {
			return false, strings.Join(d, "; ")
		}
		return true, "SemanticBQL has the rules and alternatives of BQL"
	})
	r.Replayer("witness", func(raw json.RawMessage) (bool, string) {
		var c witnessCase
		json.Unmarshal(raw, &c)
		ok, _, d := checkWitness(tableByName("BQL"), c, kindsFromNames(c.Tokens))
		return ok, d
	})
	r.Replayer("no-witness", func(raw json.RawMessage) (bool, string) {
		var c witnessCase
		json.Unmarshal(raw, &c)
		t := tableByName("BQL")
		if ks, ok := findWitness(t, c.Alt, 20000); ok {
			text, _ := recog.Render(ks)
			return true, fmt.Sprintf("%s has witness %q", c.Alt, text)
		}
		return false, fmt.Sprintf("%s: no statement found whose one-token-lookahead derivation takes it", c.Alt)
	})
	r.MaybeReplay()
	r.Assume("the grammar is read through the exported table only (Grammar map, Clause.Elements, Element.Symbol/Token); an element with an empty Symbol() is a token element")
	r.Assume("which alternative the real parser took is observed through a ProcessStart hook on every clause of a fresh BQL(); ProcessStart fires for non-empty alternatives only, so an empty alternative counts as taken when the parser accepts and its recorded sequence equals the table-driven derivation's (which contains the parent alternative but no alternative of that symbol at that point)")
	r.Assume("witness statements are rendered with one canonical lexeme per token kind and re-lexed by the real lexer to confirm the token sequence")

	bql := recog.FromGrammar(grammar.BQL())
	sem := recog.FromGrammar(grammar.SemanticBQL())
	for _, g := range []struct {
		n string
		f func() *grammar.Grammar
	}{{"BQL", grammar.BQL}, {"SemanticBQL", grammar.SemanticBQL}} {
		if _, err := grammar.NewParser(g.f()); err != nil {
			r.Fail(common.Failure{Check: "structure", Class: "table:" + g.n, Shape: "NewParser-refuses-table",
				Case: structCase{Table: g.n, Rule: "*", Check: "NewParser"}, Detail: err.Error()})
		}
	}

	// 1. table-level clauses, both tables, completely.
	totalPairs := 0
	for _, tb := range []struct {
		n string
		t *recog.Table
	}{{"BQL", bql}, {"SemanticBQL", sem}} {
		fs, pairs := structural(tb.n, tb.t)
		totalPairs += pairs
		for _, f := range fs {
			r.Fail(common.Failure{Check: "structure", Class: "rule:" + f.c.Rule, Shape: f.shape, Case: f.c, Detail: tb.n + ": " + f.detail})
		}
		r.Add("states", len(tb.t.Syms))
		r.Add("transitions", tb.t.NumAlts())
	}
	r.Set("rules_per_table", len(bql.Syms))
	r.Set("alternatives_per_table", bql.NumAlts())
	r.Set("alternative_pairs_checked", totalPairs)

	// 2. SemanticBQL has exactly the rules and alternatives of BQL.
	for _, d := range recog.SameShape(bql, sem) {
		r.Fail(common.Failure{Check: "shape", Class: "semantic-table", Shape: "differs-from-plain-table", Case: map[string]string{"diff": d}, Detail: d})
	}

	// 3. a witness per alternative, replayed on the real parser.
	distinct := map[string]bool{}
	outcomes := map[string]int{}
	emptyAlts, occurrences, unrenderable := 0, 0, 0
	for _, alt := range bql.Alts() {
		ref := recog.AltRef{Sym: alt.Sym, Idx: alt.Idx}
		if alt.Empty() {
			emptyAlts++
		}
		ks, ok := findWitness(bql, ref, 20000)
		if !ok {
			outcomes["no-witness"]++
			r.Fail(common.Failure{Check: "no-witness", Class: "alternative:" + ref.String(), Shape: "no-statement-takes-alternative",
				Case: witnessCase{Alt: ref}, Detail: fmt.Sprintf("%s: no statement found whose one-token-lookahead derivation takes it", alt)})
			continue
		}
		cands := []occ{{ks, "shortest"}}
		// the same alternative through every occurrence of its symbol (other FOLLOW contexts)
		for _, o := range occurrenceWitnesses(bql, ref) {
			tr := bql.GreedyTrace(o.ks)
			if tr.Accepted && tr.Uses(ref) {
				cands = append(cands, o)
			}
		}
		// the primary witness must be expressible as text: if the shortest is not
		// (e.g. a TIME token where the lexer never produces one), an occurrence
		// witness or a searched one takes its place.
		if _, ok := recog.Render(ks); !ok {
			unrenderable++
			replaced := false
			for _, o := range cands[1:] {
				if _, ok := recog.Render(o.ks); ok {
					replaced = true
					break
				}
			}
			if !replaced {
				if ks2, ok := bql.SearchWitnessFunc(ref, len(ks)+3, 2000000, func(k []recog.Kind) bool { _, ok := recog.Render(k); return ok }); ok {
					cands = append(cands, occ{ks2, "search"})
					replaced = true
				}
			}
			if !replaced {
				// every token sequence that takes this alternative (up to the searched length) contains a pair of tokens
				// the lexer never emits one after the other: no TEXT is a statement the parser accepts by taking it
				outcomes["no-witness-text"]++
				r.Fail(common.Failure{Check: "no-witness", Class: "alternative:" + ref.String(), Shape: "no-text-takes-alternative",
					Case: witnessCase{Alt: ref, Tokens: recog.KindNames(ks)}, Detail: fmt.Sprintf("%s: the token sequences that take it (shortest: %v) cannot be produced by the lexer from any text: the alternative is dead", alt, recog.KindNames(ks))})
				continue
			}
			cands = cands[1:]
		}
		for _, cd := range cands {
			text, ok := recog.Render(cd.ks)
			if !ok {
				continue
			}
			if cd.origin != "shortest" {
				occurrences++
			}
			c := witnessCase{Alt: ref, Tokens: recog.KindNames(cd.ks), Text: text, Origin: cd.origin}
			ok, shape, detail := checkWitness(bql, c, cd.ks)
			r.Add("traces_validated_against_impl", 1)
			distinct[text] = true
			if !ok {
				outcomes[shape]++
				r.Fail(common.Failure{Check: "witness", Class: "alternative:" + ref.String(), Shape: shape, Case: c, Detail: detail})
				continue
			}
			outcomes["taken"]++
			if alt.Sym == "HAVING_CLAUSE" || alt.Sym == "OBJECT_BINDING_EXTRACT" || alt.Sym == "MORE_FILTER_ARGUMENTS" {
				r.Sample(map[string]interface{}{"alternative": c.Alt.String(), "text": c.Text, "origin": c.Origin})
			}
		}
	}
	// 4. every statement up to a token length: the alternatives the real parser
	// reports are exactly those of the table-driven derivation.
	sentLen := r.Pick(13, 15)
	nSent, nSentRendered := 0, 0
	bql.Sentences(sentLen, func(ks []recog.Kind) bool {
		nSent++
		text, ok := recog.Render(ks)
		if !ok {
			return true
		}
		nSentRendered++
		tr := bql.GreedyTrace(ks)
		if !tr.Accepted {
			return true // derivable only by skipping an optional part: outside "chosen by one token"
		}
		c := witnessCase{Alt: tr.Taken[len(tr.Taken)-1], Tokens: recog.KindNames(ks), Text: text, Origin: "statement-enumeration"}
		ok, shape, detail := checkWitness(bql, c, append([]recog.Kind{}, ks...))
		r.Add("traces_validated_against_impl", 1)
		distinct[text] = true
		if !ok {
			outcomes[shape]++
			r.Fail(common.Failure{Check: "witness", Class: "statement-enumeration", Shape: shape, Case: c, Detail: detail})
		} else {
			outcomes["taken"]++
		}
		return true
	})
	r.Set("statements_enumerated", nSent)
	r.Set("statements_enumerated_max_tokens", sentLen)
	r.Set("statements_enumerated_rendered", nSentRendered)
	r.Set("witness_outcomes", outcomes)
	r.Set("empty_alternatives", emptyAlts)
	r.Set("occurrence_witnesses", occurrences)
	r.Set("shortest_witness_not_expressible_as_text", unrenderable)
	r.Set("evaluations", r.Get("traces_validated_against_impl")+totalPairs)
	r.Set("distinct_nontrivial", len(distinct))
	r.Set("exhaustive", true)
	r.Set("rule", "both tables completely: every rule, every pair of alternatives, every referenced symbol; per alternative of BQL() the shortest witness plus one witness per occurrence of its symbol in another alternative, each replayed on the real parser with recording hooks; plus every derivable statement up to statements_enumerated_max_tokens tokens, parser trace compared with the table derivation; distinct_nontrivial = distinct witness texts")
	r.Finish()
}

// findWitness returns a statement whose deterministic derivation takes ref:
// the shortest candidate first, then a bounded search over all short statements.
func findWitness(t *recog.Table, ref recog.AltRef, budget int) ([]recog.Kind, bool) {
	if ks, ok := t.Witness(ref); ok {
		tr := t.GreedyTrace(ks)
		if tr.Accepted && tr.Uses(ref) {
			return ks, true
		}
		return t.SearchWitness(ref, len(ks)+2, budget)
	}
	return nil, false
}

type occ struct {
	ks     []recog.Kind
	origin string
}

// occurrenceWitnesses builds, for every place the symbol of ref occurs in the
// table, the statement: shortest context of the parent + shortest yields of
// the siblings + shortest yield of ref's alternative.
func occurrenceWitnesses(t *recog.Table, ref recog.AltRef) []occ {
	var out []occ
	ctx := t.Contexts()
	mid, ok := t.MinYield(t.Rules[ref.Sym][ref.Idx].Elems)
	if !ok {
		return nil
	}
	for _, parent := range t.Alts() {
		pc, ok := ctx[parent.Sym]
		if !ok {
			continue
		}
		for k, e := range parent.Elems {
			if !e.IsSym() || e.Sym != ref.Sym {
				continue
			}
			before, ok1 := t.MinYield(parent.Elems[:k])
			after, ok2 := t.MinYield(parent.Elems[k+1:])
			if !ok1 || !ok2 {
				continue
			}
			var ks []recog.Kind
			ks = append(ks, pc.Pre...)
			ks = append(ks, before...)
			ks = append(ks, mid...)
			ks = append(ks, after...)
			ks = append(ks, pc.Post...)
			out = append(out, occ{ks, fmt.Sprintf("occurrence:%s[%d]@%d", parent.Sym, parent.Idx, k)})
		}
	}
	return out
}
