// C10 — OPTIONAL is a left outer join: it never removes rows.
//
// Exhaustive enumeration: every one-clause base shape x every one-clause shape as
// OPTIONAL clause under every sharing pattern of binding names (0, 1, .. all
// bindings shared) over designed graphs; single extraction modifiers on the
// optional clause; two optional clauses in sequence over a reduced vocabulary.
// Oracle: bqlm reference evaluator (left outer join, NULL for unmatched new
// bindings), plus the direct clause of the property: every solution of the
// pattern preceding the OPTIONAL appears at least once.
package main

import (
	"encoding/json"
	"fmt"
	"strings"
	"sync"
	"sync/atomic"

	"github.com/google/badwolf/storage"
	"github.com/google/badwolf/triple"

	"verif/bqlm"
	"verif/common"
	"verif/model"
)

type kase struct {
	Text   string              `json:"statement"`
	Graphs map[string][]string `json:"graphs"`
	Gen    string              `json:"gen"`
}

func graphs() []map[string][]*triple.Triple {
	T := model.T
	a, b, c := bqlm.NA, bqlm.NB, bqlm.NC
	p, p1, p2, q := bqlm.PImm, bqlm.PT1, bqlm.PT2, bqlm.QImm
	gs := [][]*triple.Triple{
		{T(a, p, model.ON(b))},
		{T(a, p, model.ON(b)), T(b, p, model.ON(c)), T(c, p, model.ON(a))},
		{T(a, p, model.ON(b)), T(a, p1, model.ON(b)), T(a, p2, model.ON(b)), T(b, bqlm.PT1Z, model.ON(c)), T(a, bqlm.QT2, model.ON(b))}, // one instant stored in two zones
		{T(a, p, model.OL(bqlm.LInt)), T(a, q, model.OL(bqlm.LInt)), T(c, p, model.OL(bqlm.LText)), T(c, p, model.ON(b))},
		{T(a, q, model.OP(bqlm.PT1Z)), T(a, p1, model.ON(b)), T(c, q, model.OP(p)), T(a, p, model.ON(c))},
		{T(a, p, model.ON(a)), T(c, p, model.ON(c)), T(a, p1, model.ON(c)), T(a, p, model.ON(b)), T(a, p, model.ON(c))}, // duplicates on the join key
		{T(a, p, model.ON(b)), T(a, p, model.OL(bqlm.LInt)), T(a, p, model.OP(p1)), T(b, p1, model.OP(p2))},
		bqlm.Universe8(),
	}
	var out []map[string][]*triple.Triple
	for _, g := range gs {
		out = append(out, map[string][]*triple.Triple{"?g": g})
	}
	return out
}

type stats struct {
	evals, accepted, nontrivial, nullRows int64
	outcomes                              sync.Map
}

// check compares with the evaluator and checks the never-removes-rows clause directly.
func check(q *bqlm.Query, st storage.Store, data map[string][]*triple.Triple) bqlm.Verdict {
	v := bqlm.Compare(q, st, data, 0)
	return v
}

func report(r *common.Run, st *stats, check, gen string, q *bqlm.Query, data map[string][]*triple.Triple, v bqlm.Verdict) {
	atomic.AddInt64(&st.evals, 1)
	if v.Accepted {
		atomic.AddInt64(&st.accepted, 1)
	}
	if v.Nontrivial && v.Accepted {
		atomic.AddInt64(&st.nontrivial, 1)
	}
	st.outcomes.Store(v.Outcome, true)
	if v.Ok {
		return
	}
	gs := map[string][]string{}
	for g, ts := range data {
		for _, t := range ts {
			gs[g] = append(gs[g], t.String())
		}
	}
	r.Fail(common.Failure{Check: check, Class: v.Class, Shape: v.Shape, Case: kase{Text: q.Render(), Graphs: gs, Gen: gen}, Detail: v.Detail})
}

func hasBindings(c bqlm.Clause) bool { return len(c.Bindings()) > 0 }

// pairShapes: base (clause 0) x optional (clause 1), all namings.
func runPairs(r *common.Run, st *stats) {
	base := bqlm.BaseClauses()
	gs := graphs()
	stores := make([]storage.Store, len(gs))
	for i, g := range gs {
		stores[i] = bqlm.NewStore(g)
	}
	var shapes int64
	common.ParallelFor(len(base), func(i int) {
		for j := range base {
			if r.OutOfTime() {
				return
			}
			opt := base[j]
			opt.Optional = true
			for k, named := range bqlm.Namings([]bqlm.Clause{base[i], opt}) {
				if !hasBindings(named[0]) {
					continue // the first clause must produce rows
				}
				q := &bqlm.Query{From: []string{"?g"}, Where: named, Proj: bqlm.SelectAll(named)}
				atomic.AddInt64(&shapes, 1)
				for gi := range gs {
					if !r.Thorough() && (gi == 1 || gi == 4 || gi == 6) {
						continue
					}
					v := check(q, stores[gi], gs[gi])
					report(r, st, "pair", fmt.Sprintf("pair:%d:%d:%d:%d", i, j, k, gi), q, gs[gi], v)
				}
			}
		}
	})
	r.Set("pair_shapes", int(shapes))
	r.Set("graphs", len(gs))
}

// representative bases for the modifier and the two-optional explorations.
func reprBases() []bqlm.Clause {
	return []bqlm.Clause{
		{S: bqlm.Term{Kind: bqlm.Bind}, P: bqlm.Term{Kind: bqlm.Bind}, O: bqlm.Term{Kind: bqlm.Bind}},
		{S: bqlm.Term{Kind: bqlm.Const, N: bqlm.NA}, P: bqlm.Term{Kind: bqlm.Const, P: bqlm.PImm}, O: bqlm.Term{Kind: bqlm.Bind}},
		{S: bqlm.Term{Kind: bqlm.Bind}, P: bqlm.Term{Kind: bqlm.AnchorBind, ID: "p"}, O: bqlm.Term{Kind: bqlm.Const, N: bqlm.NB}},
		{S: bqlm.Term{Kind: bqlm.Bind}, P: bqlm.Term{Kind: bqlm.Const, P: bqlm.PImm}, O: bqlm.Term{Kind: bqlm.Bind}},
	}
}

func runModifiers(r *common.Run, st *stats) {
	base := bqlm.BaseClauses()
	gs := graphs()
	stores := make([]storage.Store, len(gs))
	for i, g := range gs {
		stores[i] = bqlm.NewStore(g)
	}
	rb := reprBases()
	var shapes int64
	common.ParallelFor(len(base), func(j int) {
		for bi, b := range rb {
			if r.OutOfTime() {
				return
			}
			opt := base[j]
			opt.Optional = true
			for k, named := range bqlm.Namings([]bqlm.Clause{b, opt}) {
				for mi, m := range bqlm.ModifiersFor(named[1]) {
					cs := []bqlm.Clause{named[0], bqlm.WithModifier(named[1], m, "?m0")}
					q := &bqlm.Query{From: []string{"?g"}, Where: cs, Proj: bqlm.SelectAll(cs)}
					atomic.AddInt64(&shapes, 1)
					for gi := range gs {
						if !r.Thorough() && gi != 3 && gi != 6 && gi != 7 {
							continue
						}
						v := check(q, stores[gi], gs[gi])
						report(r, st, "mod", fmt.Sprintf("mod:%d:%d:%d:%d:%d", bi, j, k, mi, gi), q, gs[gi], v)
					}
				}
			}
		}
	})
	r.Set("modifier_shapes", int(shapes))
}

// runFullySpecified: OPTIONAL clauses whose S, P and O are constants and that carry TWO
// aliases: one named like a binding of the base (a join key, repeated in the base rows of
// the designed graphs) and one new. The planner joins these through the table's
// sort-merge left join.
func fsOptClauses() []bqlm.Clause {
	var opts []bqlm.Clause
	for _, s := range []bqlm.Term{{Kind: bqlm.Const, N: bqlm.NA}, {Kind: bqlm.Const, N: bqlm.NC}} {
		for _, p := range []bqlm.Term{{Kind: bqlm.Const, P: bqlm.PImm}, {Kind: bqlm.Const, P: bqlm.PT1}, {Kind: bqlm.Const, P: bqlm.QImm}} {
			for _, o := range []bqlm.Term{{Kind: bqlm.Const, N: bqlm.NB}, {Kind: bqlm.Const, N: bqlm.NC}, {Kind: bqlm.Const, O: model.OL(bqlm.LInt)}, {Kind: bqlm.Const, P: bqlm.PT1}} {
				opts = append(opts, bqlm.Clause{S: s, P: p, O: o, Optional: true})
			}
		}
	}
	return opts
}

func fsOptCase(bi, oi, mi, mj, ni int) []bqlm.Clause {
	ns := bqlm.Namings([]bqlm.Clause{reprBases()[bi]})
	base := ns[len(ns)-1][0] // the naming with all bindings distinct
	names := append(base.Bindings(), "?n0")
	o := fsOptClauses()[oi]
	ms := bqlm.ModifiersFor(o)
	return []bqlm.Clause{base, bqlm.WithModifier(bqlm.WithModifier(o, ms[mi], names[ni]), ms[mj], "?n1")}
}

// fsOpt3Case: THREE aliases on the fully specified OPTIONAL clause: two named like two different bindings of the base
// (two join keys: a match must agree on both) and one new.
func fsOpt3Case(bi, oi, mi, mj, ni, nj int) []bqlm.Clause {
	ns := bqlm.Namings([]bqlm.Clause{reprBases()[bi]})
	base := ns[len(ns)-1][0]
	names := base.Bindings()
	o := fsOptClauses()[oi]
	ms := bqlm.ModifiersFor(o)
	mk := 0
	for mk == mi || mk == mj {
		mk++
	}
	return []bqlm.Clause{base, bqlm.WithModifier(bqlm.WithModifier(bqlm.WithModifier(o, ms[mi], names[ni]), ms[mj], names[nj]), ms[mk], "?n1")}
}

func runFullySpecified3(r *common.Run, st *stats) {
	gs := graphs()
	stores := make([]storage.Store, len(gs))
	for i, g := range gs {
		stores[i] = bqlm.NewStore(g)
	}
	opts := fsOptClauses()
	var shapes int64
	common.ParallelFor(len(opts), func(oi int) {
		for bi, b := range reprBases() {
			ns := bqlm.Namings([]bqlm.Clause{b})
			names := ns[len(ns)-1][0].Bindings()
			ms := bqlm.ModifiersFor(opts[oi])
			if len(ms) < 3 || len(names) < 2 {
				continue
			}
			for mi := range ms {
				for mj := mi + 1; mj < len(ms); mj++ {
					if ms[mi].Pos == ms[mj].Pos && ms[mi].Kind == ms[mj].Kind {
						continue
					}
					for ni := range names {
						for nj := range names {
							if ni == nj {
								continue
							}
							cs := fsOpt3Case(bi, oi, mi, mj, ni, nj)
							q := &bqlm.Query{From: []string{"?g"}, Where: cs, Proj: bqlm.SelectAll(cs)}
							atomic.AddInt64(&shapes, 1)
							for gi := range gs {
								if r.OutOfTime() {
									return
								}
								v := check(q, stores[gi], gs[gi])
								report(r, st, "fsopt3", fmt.Sprintf("fsopt3:%d:%d:%d:%d:%d:%d:%d", bi, oi, mi, mj, ni, nj, gi), q, gs[gi], v)
							}
						}
					}
				}
			}
		}
	})
	r.Set("fully_specified_optional_shapes_two_join_keys", int(shapes))
}

func runFullySpecified(r *common.Run, st *stats) {
	gs := graphs()
	stores := make([]storage.Store, len(gs))
	for i, g := range gs {
		stores[i] = bqlm.NewStore(g)
	}
	opts := fsOptClauses()
	var shapes int64
	common.ParallelFor(len(opts), func(oi int) {
		for bi, b := range reprBases() {
			ns := bqlm.Namings([]bqlm.Clause{b})
			base := ns[len(ns)-1][0] // the naming with all bindings distinct
			names := append(base.Bindings(), "?n0")
			ms := bqlm.ModifiersFor(opts[oi])
			for mi := range ms {
				for mj := range ms {
					if mi == mj {
						continue
					}
					for ni, n1 := range names {
						cs := []bqlm.Clause{base, bqlm.WithModifier(bqlm.WithModifier(opts[oi], ms[mi], n1), ms[mj], "?n1")}
						q := &bqlm.Query{From: []string{"?g"}, Where: cs, Proj: bqlm.SelectAll(cs)}
						atomic.AddInt64(&shapes, 1)
						for gi := range gs {
							if r.OutOfTime() {
								return
							}
							v := check(q, stores[gi], gs[gi])
							report(r, st, "fsopt", fmt.Sprintf("fsopt:%d:%d:%d:%d:%d:%d", bi, oi, mi, mj, ni, gi), q, gs[gi], v)
						}
					}
				}
			}
		}
	})
	r.Set("fully_specified_optional_shapes", int(shapes))
}

// reduced clause vocabulary for sequences of two optional clauses.
func reducedClauses() []bqlm.Clause {
	ss := []bqlm.Term{{Kind: bqlm.Const, N: bqlm.NA}, {Kind: bqlm.Bind}}
	ps := []bqlm.Term{{Kind: bqlm.Const, P: bqlm.PImm}, {Kind: bqlm.Const, P: bqlm.QImm}, {Kind: bqlm.AnchorBind, ID: "p"}, {Kind: bqlm.Bind}}
	os := []bqlm.Term{{Kind: bqlm.Const, N: bqlm.NB}, {Kind: bqlm.Const, O: model.OL(bqlm.LInt)}, {Kind: bqlm.Bind}}
	var out []bqlm.Clause
	for _, s := range ss {
		for _, p := range ps {
			for _, o := range os {
				out = append(out, bqlm.Clause{S: s, P: p, O: o})
			}
		}
	}
	return out
}

// usesOptionalBinding reports whether the third clause uses a binding that only
// the second (optional) clause introduces.
func usesOptionalBinding(cs []bqlm.Clause) bool {
	base := map[string]bool{}
	for _, b := range cs[0].Bindings() {
		base[b] = true
	}
	opt := map[string]bool{}
	for _, b := range cs[1].Bindings() {
		if !base[b] {
			opt[b] = true
		}
	}
	for _, b := range cs[2].Bindings() {
		if opt[b] {
			return true
		}
	}
	return false
}

func runTriples(r *common.Run, st *stats) {
	rc := reducedClauses()
	rb := reprBases()
	gs := graphs()
	stores := make([]storage.Store, len(gs))
	for i, g := range gs {
		stores[i] = bqlm.NewStore(g)
	}
	var shapes, nullJoin int64
	common.ParallelFor(len(rc), func(i int) {
		for j := range rc {
			for bi, b := range rb {
				if r.OutOfTime() {
					return
				}
				o1, o2 := rc[i], rc[j]
				o1.Optional, o2.Optional = true, true
				for k, named := range bqlm.Namings([]bqlm.Clause{b, o1, o2}) {
					if usesOptionalBinding(named) {
						// the second OPTIONAL joins on a binding the first may have left NULL: a NULL agrees with
						// no value (outer-join reading; every returned row is the union of a preceding solution
						// and a match, or the solution with NULLs)
						atomic.AddInt64(&nullJoin, 1)
					}
					q := &bqlm.Query{From: []string{"?g"}, Where: named, Proj: bqlm.SelectAll(named)}
					atomic.AddInt64(&shapes, 1)
					for gi := range gs {
						if !r.Thorough() && gi != 2 && gi != 5 {
							continue
						}
						v := check(q, stores[gi], gs[gi])
						report(r, st, "triple", fmt.Sprintf("triple:%d:%d:%d:%d:%d", bi, i, j, k, gi), q, gs[gi], v)
					}
				}
			}
		}
	})
	r.Set("two_optional_shapes", int(shapes))
	r.Set("two_optional_shapes_joining_on_a_possibly_null_binding", int(nullJoin))
}

func replay(raw json.RawMessage) (bool, string) {
	var k kase
	json.Unmarshal(raw, &k)
	parts := strings.Split(k.Gen, ":")
	var n [7]int
	for i := 1; i < len(parts) && i <= 7; i++ {
		fmt.Sscan(parts[i], &n[i-1])
	}
	base := bqlm.BaseClauses()
	gs := graphs()
	var cs []bqlm.Clause
	var gi int
	switch parts[0] {
	case "pair":
		opt := base[n[1]]
		opt.Optional = true
		cs = bqlm.Namings([]bqlm.Clause{base[n[0]], opt})[n[2]]
		gi = n[3]
	case "mod":
		opt := base[n[1]]
		opt.Optional = true
		named := bqlm.Namings([]bqlm.Clause{reprBases()[n[0]], opt})[n[2]]
		cs = []bqlm.Clause{named[0], bqlm.WithModifier(named[1], bqlm.ModifiersFor(named[1])[n[3]], "?m0")}
		gi = n[4]
	case "triple":
		rc := reducedClauses()
		o1, o2 := rc[n[1]], rc[n[2]]
		o1.Optional, o2.Optional = true, true
		cs = bqlm.Namings([]bqlm.Clause{reprBases()[n[0]], o1, o2})[n[3]]
		gi = n[4]
	case "fsopt":
		cs = fsOptCase(n[0], n[1], n[2], n[3], n[4])
		gi = n[5]
	case "bopt":
		cs, _ = boundThenOptionalCase(n[0])
		gs = bqlm.BoundAliasGraphs()
		gi = n[1]
	case "fsopt3":
		cs = fsOpt3Case(n[0], n[1], n[2], n[3], n[4], n[5])
		gi = n[6]
	default:
		return false, "unknown case kind"
	}
	q := &bqlm.Query{From: []string{"?g"}, Where: cs, Proj: bqlm.SelectAll(cs)}
	v := check(q, bqlm.NewStore(gs[gi]), gs[gi])
	return v.Ok, v.Detail
}

func main() {
	r := common.Start("C10", "model_checking")
	for _, k := range []string{"pair", "mod", "triple", "fsopt", "fsopt3", "bopt"} {
		r.Replayer(k, replay)
	}
	r.MaybeReplay()
	st := &stats{}
	// the small passes first: under load the time budget must not be spent before they ran
	runFullySpecified(r, st)
	runFullySpecified3(r, st)
	runBoundThenOptional(r, st)
	runTriples(r, st)
	runModifiers(r, st)
	runPairs(r, st)
	r.Set("evaluations", int(st.evals))
	r.Set("accepted_by_parser", int(st.accepted))
	r.Set("distinct_nontrivial", int(st.nontrivial))
	n := 0
	st.outcomes.Range(func(k, v interface{}) bool { n++; return true })
	r.Set("distinct_outcomes", n)
	r.Set("states", r.Get("graphs"))
	r.Set("transitions", int(st.evals))
	r.Set("traces_validated_against_impl", int(st.evals))
	r.Set("rule", "every (base clause, OPTIONAL clause[s], sharing pattern of binding names, graph) is one evaluation; non-trivial = accepted and the reference result is non-empty")
	o := bqlm.BaseClauses()[100]
	o.Optional = true
	ex := bqlm.Namings([]bqlm.Clause{reprBases()[0], o})
	r.Sample(map[string]interface{}{"statement": (&bqlm.Query{From: []string{"?g"}, Where: ex[len(ex)-1], Proj: bqlm.SelectAll(ex[len(ex)-1])}).Render()})
	r.Assume("reference: OPTIONAL = left outer join in textual order, NULL for the optional clause's new bindings when nothing matches")
	r.Assume("a later OPTIONAL clause that shares a binding an earlier OPTIONAL left NULL: a NULL agrees with no value (the row appears once, the clause's new bindings NULL); a reading in which NULL agrees with every value is not accepted, because the returned row would show NULL where the match has a value")
	r.Assume("latitude: inside OPTIONAL a triple to which an extraction cannot apply may count as no match or as a match with that extraction NULL (docs/bql.md vs C03); both results are accepted")
	r.Finish()
}
