package main

// A time bound taken from a binding of an earlier clause, followed by an OPTIONAL clause over a temporal predicate: the
// bound belongs to the clause (and the row) it was written for; the clauses that follow must see all their matches.
// first clause x (required | OPTIONAL) second clause with "p"@[?t,] / "p"@[,?t] / both x an OPTIONAL third clause that
// binds the anchor of "p" or "q", over the designed graphs of the bound-alias shapes (anchors not in ascending order).

import (
	"fmt"
	"sync/atomic"

	"github.com/google/badwolf/storage"

	"verif/bqlm"
	"verif/common"
)

func boundThenOptionalCase(i int) ([]bqlm.Clause, bool) {
	bind := func(n string) bqlm.Term { return bqlm.Term{Kind: bqlm.Bind, Name: n} }
	firsts := []bqlm.Clause{
		{S: bind("?s"), P: bqlm.Term{Kind: bqlm.AnchorBind, ID: "p", Name: "?t"}, O: bind("?o")},
		{S: bind("?s"), P: bqlm.Term{Kind: bqlm.AnchorBind, ID: "q", Name: "?t"}, O: bind("?o")},
	}
	seconds := []bqlm.Term{
		{Kind: bqlm.Bound, ID: "p", LoName: "?t"},
		{Kind: bqlm.Bound, ID: "p", HiName: "?t"},
		{Kind: bqlm.Bound, ID: "p", LoName: "?t", HiName: "?t"},
		{Kind: bqlm.Bound, ID: "q", LoName: "?t"},
	}
	thirds := []bqlm.Clause{
		{S: bind("?s"), P: bqlm.Term{Kind: bqlm.AnchorBind, ID: "p", Name: "?w"}, O: bind("?f"), Optional: true},
		{S: bind("?s"), P: bqlm.Term{Kind: bqlm.AnchorBind, ID: "q", Name: "?w"}, O: bind("?f"), Optional: true},
		{S: bind("?x"), P: bqlm.Term{Kind: bqlm.AnchorBind, ID: "p", Name: "?w"}, O: bind("?o"), Optional: true},
	}
	n := len(firsts) * len(seconds) * 2 * 2 * len(thirds)
	if i >= n {
		return nil, false
	}
	f := firsts[i%len(firsts)]
	i /= len(firsts)
	p2 := seconds[i%len(seconds)]
	i /= len(seconds)
	opt2 := i%2 == 1
	i /= 2
	s2 := bind("?s")
	if i%2 == 1 {
		s2 = bind("?r")
	}
	i /= 2
	return []bqlm.Clause{f, {S: s2, P: p2, O: bind("?e"), Optional: opt2}, thirds[i]}, true
}

func runBoundThenOptional(r *common.Run, st *stats) {
	gs := bqlm.BoundAliasGraphs()
	stores := make([]storage.Store, len(gs))
	for i, g := range gs {
		stores[i] = bqlm.NewStore(g)
	}
	n := 0
	for {
		if _, ok := boundThenOptionalCase(n); !ok {
			break
		}
		n++
	}
	var shapes int64
	common.ParallelFor(n, func(i int) {
		cs, _ := boundThenOptionalCase(i)
		q := &bqlm.Query{From: []string{"?g"}, Where: cs, Proj: bqlm.SelectAll(cs)}
		atomic.AddInt64(&shapes, 1)
		for gi := range gs {
			if r.OutOfTime() {
				return
			}
			v := check(q, stores[gi], gs[gi])
			report(r, st, "bopt", fmt.Sprintf("bopt:%d:%d", i, gi), q, gs[gi], v)
		}
	})
	r.Set("bound_from_binding_then_optional_shapes", int(shapes))
}
