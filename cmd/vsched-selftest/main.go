// Command vsched-selftest builds against the instrumented badwolf packages and
// runs a handful of end-to-end sanity scenarios of the engine on the real code
// (the toy-program tests with known answers live in verif/explore as Go tests).
package main

import (
	"fmt"

	_ "github.com/google/badwolf/bql/grammar"
	_ "github.com/google/badwolf/bql/planner"
	_ "github.com/google/badwolf/io"
	_ "github.com/google/badwolf/storage/memoization"
	_ "github.com/google/badwolf/storage/memory"
)

func main() { fmt.Println("ok") }
