// Command vsched-selftest checks the vsched engine itself:
//
//  1. toy programs with known answers (go test ./explore): interleaving counts,
//     lost update at exactly one deviation, lock-order deadlock, RWMutex
//     writer-preference deadlock, buffered vs unbuffered channels, select
//     enumeration, WaitGroup / Once, double close, leak, horizon,
//     nondeterminism detection, foreign channels + Choose, map order, shards;
//  2. the repository's own tests for the instrumented packages, run on the
//     instrumented build with the scheduler off (the rewrite preserves
//     semantics);
//  3. end-to-end on the real code under the scheduler: a BQL INSERT + SELECT in
//     the default schedule and with one deviation must give the sequential
//     answer, twice the same op trace.
//
// Built by build.sh (needs the overlay). Exit 0 = all green.
package main

import (
	"context"
	"fmt"
	"os"
	"os/exec"
	"sort"
	"strings"

	"github.com/google/badwolf/bql/grammar"
	"github.com/google/badwolf/bql/planner"
	"github.com/google/badwolf/bql/semantic"
	"github.com/google/badwolf/storage"
	"github.com/google/badwolf/storage/memory"

	"verif/explore"
	"verif/vrt"
)

func bql(ctx context.Context, st storage.Store, text string) ([]string, error) {
	p, err := grammar.NewParser(grammar.SemanticBQL())
	if err != nil {
		return nil, err
	}
	stm := &semantic.Statement{}
	if err := p.Parse(grammar.NewLLk(text, 1), stm); err != nil {
		return nil, err
	}
	pln, err := planner.New(ctx, st, stm, 0, 1, nil)
	if err != nil {
		return nil, err
	}
	tbl, err := pln.Execute(ctx)
	if err != nil {
		return nil, err
	}
	var rows []string
	for _, r := range tbl.Rows() {
		var cs []string
		for _, b := range tbl.Bindings() {
			cs = append(cs, b+"="+r[b].String())
		}
		sort.Strings(cs)
		rows = append(rows, strings.Join(cs, " "))
	}
	sort.Strings(rows)
	return rows, nil
}

func run(name string, args ...string) bool {
	cmd := exec.Command(args[0], args[1:]...)
	cmd.Dir = root()
	cmd.Env = os.Environ()
	out, err := cmd.CombinedOutput()
	tail := strings.TrimSpace(string(out))
	if len(tail) > 3000 {
		tail = tail[len(tail)-3000:]
	}
	if err != nil {
		fmt.Printf("FAIL %s: %v\n%s\n", name, err, tail)
		return false
	}
	fmt.Printf("ok   %s\n", name)
	for _, l := range strings.Split(tail, "\n") {
		if strings.HasPrefix(l, "ok") || strings.HasPrefix(l, "---") {
			fmt.Println("     " + l)
		}
	}
	return true
}

func root() string {
	if r := os.Getenv("VERIF_ROOT"); r != "" {
		return r
	}
	return "/verif"
}

func main() {
	ok := true
	ok = run("toy programs with known answers (go test ./explore)", "go", "test", "-count=1", "./explore") && ok
	ov := root() + "/work/instr/selftest/overlay.json"
	ok = run("repository tests on the instrumented build, scheduler off", "go", "test", "-overlay", ov, "-vet=off", "-count=1",
		"github.com/google/badwolf/storage/...", "github.com/google/badwolf/bql/...", "github.com/google/badwolf/triple/...", "github.com/google/badwolf/io/...") && ok

	// end-to-end under the scheduler
	ctx := context.Background()
	mk := func() explore.Exec {
		var rows []string
		var err error
		return explore.Exec{
			Body: func() {
				st := memory.NewStore()
				if _, err = st.NewGraph(ctx, "?g"); err != nil {
					return
				}
				if _, err = bql(ctx, st, `insert data into ?g {/u<a> "p"@[] /u<b> . /u<b> "q"@[] /u<c>};`); err != nil {
					return
				}
				rows, err = bql(ctx, st, `select ?x, ?y from ?g where {/u<a> "p"@[] ?x . ?x "q"@[] ?y};`)
				vrt.MarkReturned()
			},
			Check: func(out *vrt.Outcome) ([]explore.Verdict, string) {
				var vs []explore.Verdict
				if v := explore.GlobalVerdict("e2e", out); v != nil {
					vs = append(vs, *v)
				}
				got := fmt.Sprintf("%v err=%v", rows, err)
				if out.Status == vrt.StOK && got != "[?x=/u<b> ?y=/u<c>] err=<nil>" {
					vs = append(vs, explore.Verdict{Class: "e2e", Shape: "wrong-answer", Detail: got})
				}
				return vs, got
			},
		}
	}
	res := explore.Explore("e2e-bql", explore.Options{Mode: explore.Bounded, Bound: 1, Cfg: vrt.Config{Procs: 2}}, mk)
	switch {
	case res.Nondet != "":
		fmt.Printf("FAIL end-to-end: NONDETERMINISM %s\n", res.Nondet)
		ok = false
	case len(res.Failures) > 0 || !res.Complete || res.Executions < 50:
		fmt.Printf("FAIL end-to-end: %d executions, complete=%v, failures %+v\n", res.Executions, res.Complete, res.Failures)
		ok = false
	default:
		fmt.Printf("ok   end-to-end BQL insert+select on the instrumented stack: %d schedules (<= 1 deviation), %d partial orders, max %d steps, %d threads, outcomes %v\n",
			res.Executions, res.DistinctHB, res.MaxSteps, res.MaxThreads, res.Outcomes)
	}
	if !ok {
		os.Exit(1)
	}
	fmt.Println("vsched self-test: all green")
}
