#!/bin/bash
# cmd/vsched-selftest/build.sh <output-binary>
set -e
out="$1"
here="$(cd "$(dirname "$0")/../.." && pwd)"
cd "$here"
. ./env.sh
case "$out" in /*) ;; *) out="$here/$out" ;; esac
mkdir -p work/bin work/instr
go build -o work/bin/instr ./instr
work/bin/instr -out work/instr/selftest -repo "${VSCHED_REPO:-/repo}" -overlay-root /repo \
  -pkgs ./storage/...,./bql/...,./triple/...,./io/... \
  -exclude github.com/google/badwolf/triple/node,github.com/google/badwolf/bql/planner/tracer > work/instr/selftest.inventory.txt
go build -overlay work/instr/selftest/overlay.json -o "$out" ./cmd/vsched-selftest
