package main

import (
	"context"
	"fmt"
	"os"
	"time"

	"github.com/google/badwolf/storage/memory"
	"github.com/google/badwolf/tools/vcli/bw/run"

	"verif/vrt"
)

func main() {
	ctx := context.Background()
	texts := []string{
		`select ?s from ?a where {?s ?p ?o};`,
		`select select select select select select select;`,
		`create graph ?a;`,
		`foo`,
	}
	for _, diag := range []bool{false, true} {
		for _, tx := range texts {
			n := 2000
			start := time.Now()
			var last *vrt.Outcome
			var res string
			for i := 0; i < n; i++ {
				last = vrt.Run(vrt.Config{Diag: diag}, vrt.DefaultChooser{}, func() {
					st := memory.NewStore()
					st.NewGraph(ctx, "?a")
					tbl, err := run.BQL(ctx, tx, st, 0, 1)
					res = fmt.Sprint(tbl != nil, err)
				})
			}
			el := time.Since(start)
			fmt.Printf("diag=%v %-50q %v/exec status=%s steps=%d ticks=%d threads=%d blocked=%v res=%.80s\n", diag, tx, el/time.Duration(n), last.Status, last.Steps, last.Ticks, last.Threads, last.Blocked, res)
		}
	}
	os.Exit(0)
}
