// C08 — any statement text yields a table or an error: no crash, hang or leak.
//
// The real entry point tools/vcli/bw/run.BQL (lexer goroutine, LLk parser,
// semantic hooks, planner with its errgroup / semaphore fan-out, memory store)
// is instrumented by verif/instr (cmd/c08/build.sh) and every case — one
// statement text against one fresh store — is ONE controlled execution under
// the vsched runtime on the default schedule. The runtime makes the global
// oracles decidable: a panic in any logical thread is an outcome, at
// quiescence every thread is either finished or parked on a known operation
// (deadlock before the call returned, leak after it), a tick / step horizon
// replaces wall-clock hang detection. Every K-th execution is additionally
// explored with every schedule of at most one deviation.
//
// Input spaces (all enumerated exhaustively inside their bound, see gen.go):
//
//	S1 token sequences of length <= 3 over the 55 kinds; viable prefixes + 1 kind (+ ';')
//	S2 grammar sentences, every single-token mutant, fixed lexeme edits at every position
//	S3 every byte string of length <= n over a BQL punctuation alphabet
//	S4 a corpus of valid statements of every kind x chanSize x bulkSize
//	S5 every single-token mutant / lexeme edit of the corpus statements
//
// each against an empty store, a store whose graphs exist but are empty, and a
// populated store.
package main

import (
	"bytes"
	"context"
	"encoding/json"
	"fmt"
	"os"
	"os/exec"
	"path/filepath"
	"regexp"
	"runtime"
	"runtime/pprof"
	"sort"
	"strings"
	"sync"
	"time"

	"github.com/google/badwolf/bql/grammar"
	"github.com/google/badwolf/bql/lexer"
	"github.com/google/badwolf/bql/semantic"
	"github.com/google/badwolf/bql/table"
	"github.com/google/badwolf/storage"
	"github.com/google/badwolf/storage/memory"
	"github.com/google/badwolf/tools/vcli/bw/run"

	"verif/common"
	"verif/explore"
	"verif/recog"
	"verif/vrt"
)

var ctx = context.Background()

// the horizon: the largest execution observed needs 1.7e4 ticks and 2.2e3 scheduled operations
var cfg = vrt.Config{Diag: true, MaxTicks: 3000000, MaxSteps: 60000}

// the lexer alone, on texts of a few tokens
var guardCfg = vrt.Config{Diag: true, MaxTicks: 100000, MaxSteps: 5000}

// Case is one replayable execution.
type Case struct {
	Space    string `json:"space"`
	Origin   string `json:"origin,omitempty"`
	Text     string `json:"text"`
	Store    string `json:"store"`
	ChanSize int    `json:"chan_size"`
	BulkSize int    `json:"bulk_size"`
	// Choices is the schedule (option index per step; trailing defaults implied).
	// Empty = the default schedule.
	Choices []int `json:"choices,omitempty"`
}

func buildStore(kind string) storage.Store {
	st := memory.NewStore()
	if kind == "empty" {
		return st
	}
	for _, n := range graphNames {
		g, err := st.NewGraph(ctx, n)
		if err != nil {
			panic(fmt.Sprintf("harness: NewGraph(%s): %v", n, err))
		}
		if kind != "populated" {
			continue
		}
		var err2 error
		switch n {
		case "?a":
			err2 = g.AddTriples(ctx, triplesA)
		case "?b":
			err2 = g.AddTriples(ctx, triplesB)
		}
		if err2 != nil {
			panic(fmt.Sprintf("harness: AddTriples(%s): %v", n, err2))
		}
	}
	return st
}

type callResult struct {
	tbl      *table.Table
	err      error
	returned bool
}

// mk is the factory of fresh executions of one case.
func mk(c Case) func() explore.Exec {
	return func() explore.Exec {
		ex, _ := newExec(c)
		return ex
	}
}

func newExec(c Case) (explore.Exec, *callResult) {
	{
		res := &callResult{}
		return explore.Exec{
			Body: func() {
				st := buildStore(c.Store) // fresh system under test for every execution
				tbl, err := run.BQL(ctx, c.Text, st, c.ChanSize, c.BulkSize)
				res.tbl, res.err, res.returned = tbl, err, true
				vrt.MarkReturned() // from here on a parked thread is a leak, not a deadlock
			},
			Check: func(out *vrt.Outcome) ([]explore.Verdict, string) { return judge(c, res, out) },
		}, res
	}
}

// ---- oracle -------------------------------------------------------------------------------

func stageOf(err error) (stage, msg string) {
	s := err.Error()
	for _, p := range []struct{ stage, prefix string }{
		{"parse-error", "[ERROR] Failed to parse BQL statement with error "},
		{"plan-error", "[ERROR] Should have not failed to create a plan"},
		{"execute-error", "[ERROR] Failed to execute BQL statement with error "},
		{"init-error", "[ERROR] Failed to initilize"},
	} {
		if strings.HasPrefix(s, p.prefix) {
			return p.stage, s[len(p.prefix):]
		}
	}
	return "other-error", s
}

// constantPrefix keeps the part of an error message before its first variable part.
func constantPrefix(s string) string {
	if i := strings.IndexAny(s, "\"(/?[{<0123456789`'"); i >= 0 {
		s = s[:i]
	}
	s = strings.TrimSpace(s)
	if len(s) > 90 {
		s = s[:90]
	}
	return s
}

var upperWord = regexp.MustCompile(`\b[A-Z][A-Z_]{2,}\b`)
var lexerMsg = regexp.MustCompile(`\[lexer:\d+:\d+\] ([a-zA-Z ,;']+)`)

// errorClass abstracts an error message: its constant prefix, the token kinds
// and grammar symbols it names (at most six) and the lexer's own message.
func errorClass(msg string) string {
	out := constantPrefix(msg)
	ws := upperWord.FindAllString(msg, -1)
	var keep []string
	for _, w := range ws {
		if w == "ERROR" && len(keep) > 0 && keep[len(keep)-1] == "ERROR" {
			continue
		}
		if len(keep) < 6 {
			keep = append(keep, w)
		}
	}
	if len(keep) > 0 {
		out += " | " + strings.Join(keep, " ")
	}
	if m := lexerMsg.FindStringSubmatch(msg); m != nil {
		out += " | lexer: " + strings.TrimSpace(m[1])
	}
	return out
}

func siteFunc(site string) string {
	if i := strings.Index(site, " ("); i >= 0 {
		site = site[:i]
	}
	// a loop over a channel is rewritten into an iterator closure of the runtime
	for _, m := range []string{".Range[", ".MapRange["} {
		if i := strings.Index(site, m); i >= 0 {
			site = site[:i]
		}
	}
	if site == "" {
		site = "?"
	}
	return site
}

func panicReason(detail string) string {
	for _, p := range []struct{ has, name string }{
		{"nil pointer dereference", "nil-dereference"},
		{"index out of range", "index-out-of-range"},
		{"slice bounds out of range", "slice-bounds-out-of-range"},
		{"makeslice", "makeslice"},
		{"makechan", "makechan"},
		{"send on closed channel", "send-on-closed-channel"},
		{"close of closed channel", "close-of-closed-channel"},
		{"close of nil channel", "close-of-nil-channel"},
		{"negative WaitGroup counter", "negative-waitgroup-counter"},
		{"assignment to entry in nil map", "nil-map-write"},
		{"interface conversion", "interface-conversion"},
		{"log.Fatal", "log-fatal"},
		{"harness:", "HARNESS"},
	} {
		if strings.Contains(detail, p.has) {
			return p.name
		}
	}
	return strings.ReplaceAll(constantPrefix(detail), " ", "-")
}

// shapeOf is the failure shape of a global-oracle verdict: status plus, per
// parked thread, the operation and the function it is parked in (no line
// numbers, so a patch elsewhere in the file does not rename the shape).
func shapeOf(out *vrt.Outcome) string {
	switch out.Status {
	case vrt.StPanic:
		who := "calling-goroutine"
		if out.PanicTid != 0 {
			who = "started-goroutine"
		}
		return fmt.Sprintf("panic:%s@%s[%s]", panicReason(out.Detail), out.PanicSite, who)
	case vrt.StDeadlock, vrt.StLeak:
		var ks []string
		for _, b := range out.Blocked {
			op := b.Pending
			if i := strings.IndexAny(op, " #{"); i >= 0 {
				op = op[:i]
			}
			who := ""
			if b.Tid == 0 {
				who = "[calling-goroutine]"
			}
			ks = append(ks, op+"@"+siteFunc(b.Site)+who)
		}
		sort.Strings(ks)
		// a set: how many workers are parked at one site depends on the data, not on the defect
		uniq := ks[:0]
		for i, k := range ks {
			if i == 0 || k != ks[i-1] {
				uniq = append(uniq, k)
			}
		}
		return string(out.Status) + ":" + strings.Join(uniq, ",")
	case vrt.StHorizon:
		if strings.Contains(out.Detail, "tick") {
			return "horizon:tick-budget"
		}
		return "horizon:step-budget"
	}
	return string(out.Status)
}

func judge(c Case, res *callResult, out *vrt.Outcome) ([]explore.Verdict, string) {
	if out.Status != vrt.StOK {
		sh := shapeOf(out)
		if strings.Contains(sh, "HARNESS") {
			common.Machinery("the harness itself failed on %+v: %s", c, out.Detail)
		}
		d := fmt.Sprintf("%q (space %s, %s) on the %s store, chanSize %d, bulkSize %d: %s after %d steps in %d threads: %s", c.Text, c.Space, c.Origin, c.Store, c.ChanSize, c.BulkSize, out.Status, out.Steps, out.Threads, out.Detail)
		if res.returned {
			d += fmt.Sprintf("\n  the call had returned (table=%v, err=%v)", res.tbl != nil, clip(fmt.Sprint(res.err), 200))
		} else {
			d += "\n  the call had NOT returned"
		}
		for _, b := range out.Blocked {
			d += fmt.Sprintf("\n  thread %d parked in %s at %s", b.Tid, b.Pending, b.Site)
		}
		if out.Status == vrt.StPanic {
			d += "\n" + clip(out.Stack, 1800)
		}
		return []explore.Verdict{{Class: classOf(c), Shape: sh, Detail: d}}, string(out.Status) + ":" + sh
	}
	if !res.returned {
		common.Machinery("execution of %+v ended ok although the call never returned", c)
	}
	switch {
	case res.err != nil:
		st, msg := stageOf(res.err)
		return nil, st + ": " + errorClass(msg)
	case res.tbl == nil:
		return []explore.Verdict{{Class: classOf(c), Shape: "returns-nil-table-and-nil-error",
			Detail: fmt.Sprintf("%q on the %s store returned (nil, nil): neither a table nor an error", c.Text, c.Store)}}, "nil,nil"
	}
	// the table must be usable: what the CLI does with it next
	var cols, rows int
	if p := common.Guard(func() { cols, rows = len(res.tbl.Bindings()), res.tbl.NumRows(); _ = res.tbl.String() }); p != nil {
		return []explore.Verdict{{Class: classOf(c), Shape: "result-table-unusable:panic-in-String",
			Detail: fmt.Sprintf("%q on the %s store returned a table whose String() panics: %v", c.Text, c.Store, p)}}, "table-unusable"
	}
	return nil, fmt.Sprintf("table: %d columns, %d rows", cols, rows)
}

// ---- input classifier -----------------------------------------------------------------------

// probe parses the text once more, under control, on a parser of its own and
// then drains the LLk: how many tokens (including the terminating EOF / ERROR)
// had not been consumed when the parser stopped.
type probeResult struct {
	status   vrt.Status
	accepted bool
	left     int
	first    lexer.TokenType
	kinds    map[lexer.TokenType]bool
	// some PREDICATE_BOUND token takes a limit from a binding ("p"@[?lo,?hi])
	boundFromBinding bool
}

var (
	probeParser *grammar.Parser
	probeMemo   = map[string]*probeResult{}
)

func probe(text string) *probeResult {
	if p, ok := probeMemo[text]; ok {
		return p
	}
	if probeParser == nil {
		p, err := grammar.NewParser(grammar.SemanticBQL())
		if err != nil {
			common.Machinery("NewParser: %v", err)
		}
		probeParser = p
	}
	pr := &probeResult{kinds: map[lexer.TokenType]bool{}}
	out := vrt.Run(vrt.Config{MaxTicks: cfg.MaxTicks, MaxSteps: cfg.MaxSteps}, vrt.DefaultChooser{}, func() {
		llk := grammar.NewLLk(text, 1)
		pr.first = llk.Current().Type
		// kinds of the whole text, from a second lexer run
		for t := range vrt.Range(lexer.New(text, 0)) {
			pr.kinds[t.Type] = true
			if t.Type == lexer.ItemPredicateBound && strings.Contains(t.Text, "?") {
				pr.boundFromBinding = true
			}
		}
		err := probeParser.Parse(llk, &semantic.Statement{})
		pr.accepted = err == nil
		for {
			pr.left++
			t := llk.Current().Type
			if t == lexer.ItemEOF || t == lexer.ItemError {
				break
			}
			llk.Consume(t)
		}
	})
	pr.status = out.Status
	if len(probeMemo) > 200000 {
		probeMemo = map[string]*probeResult{}
	}
	probeMemo[text] = pr
	return pr
}

var featureKinds = []struct {
	k    lexer.TokenType
	name string
}{
	{lexer.ItemOptional, "optional"}, {lexer.ItemGroup, "group-by"}, {lexer.ItemCount, "count"}, {lexer.ItemSum, "sum"},
	{lexer.ItemOrder, "order-by"}, {lexer.ItemHaving, "having"}, {lexer.ItemLimit, "limit"}, {lexer.ItemBefore, "before"},
	{lexer.ItemAfter, "after"}, {lexer.ItemBetween, "between"}, {lexer.ItemFilter, "filter"}, {lexer.ItemBlankNode, "blank-node"},
	{lexer.ItemPredicateBound, "predicate-bound"}, {lexer.ItemSemicolon, ""},
}

// classOf is the input classifier: computed from the case alone (text, store,
// configuration) — never from the verdict of the execution being judged.
func classOf(c Case) string {
	p := probe(c.Text)
	switch p.status {
	case vrt.StOK:
	case vrt.StHorizon:
		return "text-on-which-lexing-or-parsing-alone-does-not-terminate"
	default:
		return "text-on-which-parsing-alone-fails-with-" + string(p.status)
	}
	if !p.accepted {
		if p.left > 4 {
			return "rejected-at-parse-with-more-than-4-tokens-left"
		}
		return "rejected-at-parse-with-at-most-4-tokens-left"
	}
	fs := []string{"accepted-by-parser", "kind:" + strings.ToLower(p.first.String()), "store:" + c.Store}
	for _, f := range featureKinds {
		if f.name != "" && p.kinds[f.k] {
			fs = append(fs, f.name)
		}
	}
	if p.boundFromBinding {
		fs = append(fs, "time-bound-from-binding")
	}
	if c.ChanSize != 0 || c.BulkSize != 1 {
		fs = append(fs, fmt.Sprintf("chanSize:%d", c.ChanSize), fmt.Sprintf("bulkSize:%d", c.BulkSize))
	}
	return strings.Join(fs, ",")
}

func clip(s string, n int) string {
	if len(s) > n {
		return s[:n] + "…"
	}
	return s
}

// ---- worker -----------------------------------------------------------------------------------

type job struct {
	Space      string    `json:"space"`
	Chunk      int       `json:"chunk"`
	Cases      []genCase `json:"cases"`
	Stores     []string  `json:"stores"`
	Configs    [][2]int  `json:"configs"` // (chanSize, bulkSize)
	K          int       `json:"k"`       // every K-th execution is explored with deviation bound 1 (0: none)
	B1DefCfg   bool      `json:"b1_default_config_only"`
	DeadlineMs int64     `json:"deadline_ms"`
}

type failOut struct {
	Class  string `json:"class"`
	Shape  string `json:"shape"`
	Case   Case   `json:"case"`
	Detail string `json:"detail"`
	Count  int    `json:"count"`
}

type chunkOut struct {
	Space string `json:"space"`
	Chunk int    `json:"chunk"`
	Cases int    `json:"cases"`
	Execs int    `json:"execs"`
	// store / size variants not executed because the parser rejected the text
	VariantsSkipped int            `json:"variants_skipped"`
	Stages          map[string]int `json:"stages"`   // table | parse-error | plan-error | execute-error | <status>
	Statuses        map[string]int `json:"statuses"` // ok | panic | deadlock | leak | horizon
	Outcomes        map[string]int `json:"outcomes"`
	PerStore        map[string]int `json:"per_store"`
	Threads         map[int]int    `json:"threads"`
	MaxSteps        int            `json:"max_steps"`
	MaxTicks        int            `json:"max_ticks"`
	MaxThreads      int            `json:"max_threads"`
	TotalSteps      int64          `json:"total_steps"`
	HB              []uint64       `json:"hb"`
	HBTrunc         bool           `json:"hb_truncated"`
	Fails           []failOut      `json:"fails"`
	// deviation bound 1 on the systematic subset
	B1Cases     int            `json:"b1_cases"`
	B1Execs     int            `json:"b1_execs"`
	B1Complete  bool           `json:"b1_complete"`
	B1MaxSteps  int            `json:"b1_max_steps"`
	B1Outcomes  map[string]int `json:"b1_outcomes"`
	B1MultiOutc int            `json:"b1_cases_with_more_than_one_outcome"`
	Nondet      string         `json:"nondet,omitempty"`
	Partial     bool           `json:"partial"`
	Sample      *Case          `json:"sample,omitempty"`
	SampleTrace string         `json:"sample_trace,omitempty"`
	WallMs      int64          `json:"wall_ms"`
}

func serveWorker() {
	var j job
	if err := json.NewDecoder(os.Stdin).Decode(&j); err != nil {
		fmt.Fprintf(os.Stderr, "c08 worker: bad job: %v\n", err)
		os.Exit(2)
	}
	if pf := os.Getenv("C08_CPUPROFILE"); pf != "" {
		f, _ := os.Create(pf)
		pprof.StartCPUProfile(f)
		defer pprof.StopCPUProfile()
	}
	o := runJob(&j)
	pprof.StopCPUProfile()
	b, _ := json.Marshal(o)
	os.Stdout.Write(b)
	os.Exit(0)
}

func runJob(j *job) *chunkOut {
	start := time.Now()
	o := &chunkOut{Space: j.Space, Chunk: j.Chunk, Stages: map[string]int{}, Statuses: map[string]int{}, Outcomes: map[string]int{},
		PerStore: map[string]int{}, Threads: map[int]int{}, B1Outcomes: map[string]int{}, B1Complete: true}
	fails := map[string]*failOut{}
	var forder []string
	hb := map[uint64]struct{}{}
	addFail := func(v explore.Verdict, c Case, n int) {
		k := v.Class + "|" + v.Shape
		if f, ok := fails[k]; ok {
			f.Count += n
			return
		}
		fails[k] = &failOut{Class: v.Class, Shape: v.Shape, Case: c, Detail: v.Detail, Count: n}
		forder = append(forder, k)
	}
	per := len(j.Stores) * len(j.Configs)
	for _, gc := range j.Cases {
		if j.DeadlineMs > 0 && time.Now().UnixMilli() > j.DeadlineMs {
			o.Partial = true
			break
		}
		o.Cases++
		rejectedByParser := false
		for si, store := range j.Stores {
			for ci, cf := range j.Configs {
				if rejectedByParser {
					// run.BQL returned from its parse branch: the store and the sizes were never
					// read, the remaining variants of this text are the same execution
					o.VariantsSkipped++
					continue
				}
				c := Case{Space: j.Space, Origin: gc.Origin, Text: gc.Text, Store: store, ChanSize: cf[0], BulkSize: cf[1]}
				ex, cres := newExec(c)
				out := vrt.Run(cfg, vrt.DefaultChooser{}, ex.Body)
				vs, oc := ex.Check(out)
				if cres.returned && cres.err != nil {
					if st, _ := stageOf(cres.err); st == "parse-error" {
						rejectedByParser = true
					}
				}
				o.Execs++
				o.PerStore[store]++
				o.Statuses[string(out.Status)]++
				o.Outcomes[oc]++
				st := oc
				if i := strings.Index(st, ":"); i >= 0 {
					st = st[:i]
				}
				o.Stages[st]++
				o.Threads[out.Threads]++
				o.TotalSteps += int64(out.Steps)
				if out.Steps > o.MaxSteps {
					o.MaxSteps = out.Steps
				}
				if out.Ticks > o.MaxTicks {
					o.MaxTicks = out.Ticks
				}
				if out.Threads > o.MaxThreads {
					o.MaxThreads = out.Threads
				}
				if len(hb) < 50000 {
					hb[out.HB] = struct{}{}
				} else {
					o.HBTrunc = true
				}
				if o.Sample == nil && out.Status == vrt.StOK && out.Threads > 2 {
					cc := c
					o.Sample, o.SampleTrace = &cc, clip(vrt.FormatTrace(out.Trace), 1200)
				}
				for _, v := range vs {
					if _, seen := fails[v.Class+"|"+v.Shape]; !seen {
						// determinism: the default schedule must reproduce the verdict
						for rep := 0; rep < 2; rep++ {
							ex2 := mk(c)()
							out2 := vrt.Run(cfg, vrt.DefaultChooser{}, ex2.Body)
							vs2, _ := ex2.Check(out2)
							found := false
							for _, v2 := range vs2 {
								if v2.Class == v.Class && v2.Shape == v.Shape {
									found = true
								}
							}
							if !found || out2.Status != out.Status || out2.Steps != out.Steps {
								o.Nondet = fmt.Sprintf("case %+v: first run %s %s (%d steps), re-run %s %v (%d steps)", c, out.Status, v.Shape, out.Steps, out2.Status, vs2, out2.Steps)
								return o
							}
						}
					}
					addFail(v, c, 1)
				}
				// systematic subset: every schedule with at most one deviation
				if j.K > 0 && (gc.Idx*per+si*len(j.Configs)+ci)%j.K == 0 && (!j.B1DefCfg || (cf[0] == 0 && cf[1] == 1)) {
					res := explore.Explore(j.Space, explore.Options{Mode: explore.Bounded, Bound: 1, Cfg: cfg, Confirm: 2, DeadlineMs: j.DeadlineMs}, mk(c))
					if res.Nondet != "" {
						o.Nondet = fmt.Sprintf("case %+v: %s", c, res.Nondet)
						return o
					}
					o.B1Cases++
					o.B1Execs += res.Executions
					if !res.Complete {
						o.B1Complete = false
					}
					if res.MaxSteps > o.B1MaxSteps {
						o.B1MaxSteps = res.MaxSteps
					}
					if len(res.Outcomes) > 1 {
						o.B1MultiOutc++
					}
					for k, n := range res.Outcomes {
						o.B1Outcomes[k] += n
					}
					for _, f := range res.Failures {
						cc := c
						cc.Choices = f.Choices
						v := f.Verdict
						if len(f.Choices) > 0 {
							v.Detail = fmt.Sprintf("schedule %v (one deviation from the default schedule): %s", f.Choices, v.Detail)
						}
						// the default schedule's own failure was already counted by the single run above
						if len(f.Choices) == 0 {
							if f.Count > 1 {
								addFail(v, cc, f.Count-1)
							}
							continue
						}
						addFail(v, cc, f.Count)
					}
				}
			}
		}
	}
	for h := range hb {
		o.HB = append(o.HB, h)
	}
	sort.Slice(o.HB, func(a, b int) bool { return o.HB[a] < o.HB[b] })
	for _, k := range forder {
		o.Fails = append(o.Fails, *fails[k])
	}
	o.WallMs = time.Since(start).Milliseconds()
	return o
}

// runJobs runs every job in its own worker process (the runtime is a process-wide singleton).
func runJobs(jobs []*job, par int) ([]*chunkOut, error) {
	exe, err := os.Executable()
	if err != nil {
		return nil, err
	}
	res := make([]*chunkOut, len(jobs))
	errs := make([]error, len(jobs))
	sem := make(chan struct{}, par)
	var wg sync.WaitGroup
	for i := range jobs {
		wg.Add(1)
		sem <- struct{}{}
		go func(i int) {
			defer wg.Done()
			defer func() { <-sem }()
			if jobs[i].DeadlineMs > 0 && time.Now().UnixMilli() > jobs[i].DeadlineMs {
				res[i] = &chunkOut{Space: jobs[i].Space, Chunk: jobs[i].Chunk, Partial: true, B1Complete: true}
				return
			}
			in, _ := json.Marshal(jobs[i])
			cmd := exec.Command(exe)
			cmd.Env = append(os.Environ(), "C08_WORKER=1", "GOMAXPROCS=1")
			cmd.Stdin = bytes.NewReader(in)
			var out, eb bytes.Buffer
			cmd.Stdout, cmd.Stderr = &out, &eb
			if err := cmd.Run(); err != nil {
				errs[i] = fmt.Errorf("worker for %s chunk %d: %v\n%s\n%s", jobs[i].Space, jobs[i].Chunk, err, clip(eb.String(), 4000), clip(out.String(), 2000))
				return
			}
			var r chunkOut
			if err := json.Unmarshal(out.Bytes(), &r); err != nil {
				errs[i] = fmt.Errorf("worker for %s chunk %d: unreadable result: %v\n%s", jobs[i].Space, jobs[i].Chunk, err, clip(out.String(), 800))
				return
			}
			res[i] = &r
		}(i)
	}
	wg.Wait()
	for _, e := range errs {
		if e != nil {
			return res, e
		}
	}
	return res, nil
}

// ---- main ---------------------------------------------------------------------------------------

type spacePlan struct {
	gen     *spaceGen
	stores  []string
	configs [][2]int
	k       int
	b1def   bool
	what    string
	extra   map[string]interface{}
}

// controlled executions of the guard, counted in the evidence
var (
	guardHB    = map[uint64]struct{}{}
	guardSteps int64
)

// lexerGuard runs the real lexer, under control, over every canonical lexeme
// after every possible previous kind (the lexer's only state besides its
// position) and over the corpus. The generators lex natively (recog.Render);
// this keeps a lexer that does not terminate from hanging the check itself:
// it is reported here, by the horizon, as a violation.
func lexerGuard(r *common.Run, kinds []recog.Kind) bool {
	ok := true
	n := 0
	try := func(text, what string) {
		n++
		toks := 0
		out := vrt.Run(guardCfg, vrt.DefaultChooser{}, func() {
			for range vrt.Range(lexer.New(text, 0)) {
				toks++
			}
		})
		guardHB[out.HB] = struct{}{}
		guardSteps += int64(out.Steps)
		if out.Status != vrt.StOK {
			ok = false
			c := Case{Space: "S0", Origin: what, Text: text, Store: "empty", BulkSize: 1}
			r.Fail(common.Failure{Check: "exec", Class: "lexer-guard:" + what, Shape: "lexer-alone:" + shapeOf(out), Case: c,
				Detail: fmt.Sprintf("lexing %q alone (no parser): %s %s", text, out.Status, out.Detail)})
		}
	}
	for _, k := range kinds {
		if t, ok := recog.RenderRaw([]recog.Kind{k}); ok {
			try(t, "single")
		}
		for _, k2 := range kinds {
			if t, ok := recog.RenderRaw([]recog.Kind{k, k2}); ok {
				try(t, "pair")
			}
		}
	}
	for _, c := range corpus {
		try(c, "corpus")
	}
	// non-canonical lexemes: the edits of corpus.go and every string of length <= 2 over the S3 alphabet
	for _, k := range kinds {
		for _, e := range lexemeEdits[k] {
			try(e, "lexeme-edit")
		}
	}
	for _, c := range genS3(2).cases {
		try(c.Text, "short-bytes")
	}
	r.Set("lexer_guard_texts", n)
	return ok
}

func main() {
	if os.Getenv("C08_WORKER") != "" {
		triplesA, triplesB = parseTriples(populatedA), parseTriples(populatedB)
		serveWorker()
		return
	}
	r := common.Start("C08", "model_checking")
	triplesA, triplesB = parseTriples(populatedA), parseTriples(populatedB)
	r.Replayer("exec", func(raw json.RawMessage) (bool, string) {
		var c Case
		if err := json.Unmarshal(raw, &c); err != nil {
			return false, "case does not parse: " + err.Error()
		}
		if c.Space == "S0" {
			out := vrt.Run(guardCfg, vrt.DefaultChooser{}, func() {
				for range vrt.Range(lexer.New(c.Text, 0)) {
				}
			})
			if out.Status != vrt.StOK {
				return false, fmt.Sprintf("lexing %q alone: %s %s", c.Text, out.Status, out.Detail)
			}
			return true, fmt.Sprintf("lexing %q alone terminates (%d steps)", c.Text, out.Steps)
		}
		out, vs, oc, bad := explore.Replay(cfg, mk(c), c.Choices)
		if bad != "" {
			common.Machinery("NONDETERMINISM the recorded schedule does not fit the program: %s", bad)
		}
		if len(vs) > 0 {
			return false, fmt.Sprintf("class %s, shape %s\n%s\ntrace: %s", vs[0].Class, vs[0].Shape, vs[0].Detail, clip(vrt.FormatTrace(out.Trace), 3000))
		}
		return true, fmt.Sprintf("%q on the %s store, schedule %v: status %s after %d steps in %d threads; %s", c.Text, c.Store, c.Choices, out.Status, out.Steps, out.Threads, oc)
	})
	r.MaybeReplay()
	if !instrumented() {
		common.Machinery("cmd/c08 was built without the vsched overlay (use ./vcheck C08 or cmd/c08/build.sh)")
	}
	r.Assume("one case = one controlled execution of the instrumented real code (run.BQL and everything below it) on the default schedule: scheduling points are the synchronisation operations (channel, mutex, waitgroup, select, go); the runtime's channel / WaitGroup / RWMutex semantics are its transcription of Go's (self-tests: go test ./explore)")
	r.Assume("leak = at quiescence after the call returned some thread is parked forever; a goroutine that is still runnable when the call returns but runs to completion on its own (the lexer pushing its last tokens into the channel buffer, a worker between wg.Done() and its return) is not counted: no caller can distinguish it from one that finished just before the return, and every use of sync.WaitGroup has this window")
	r.Assume("hang = deadlock before the call returned, or the tick / step horizon (3e6 ticks, 6e4 scheduled operations; the largest execution observed is reported as max_ticks / max_steps)")
	r.Assume("when run.BQL returns from its parse branch it has read neither the store nor chanSize / bulkSize (Parser.Parse has no such argument): the remaining store and size variants of a text the parser rejects are the same execution and are not run (counted per space); texts the parser accepts run against all three stores")
	r.Assume("configuration is not input: chanSize and bulkSize are quantified over the non-negative values {0,1,3} x {0,1,1000} on the corpus only; negative sizes (make(chan, 2*bulkSize) panics for bulkSize < 0) are outside the property, which quantifies over text and store content")
	r.Assume("blank node ids (triple/node stays native: its init daemon produces random UUIDs) do not influence the schedule: the op trace of the default schedule is compared between two runs for every explored case")
	r.Assume("the input classifier of a failing case (rejected-at-parse-with-more-than-4-tokens-left, ...) is computed by a separate controlled parse of the same text on a parser of its own that then drains the token stream and counts what the parser had not consumed")

	kinds := recog.Kinds()
	tbl := recog.FromGrammar(grammar.BQL()).Prepare()
	an := tbl.Analyse()
	if len(an.Undefined) > 0 || len(an.LeftRecursive) > 0 {
		common.Machinery("grammar table not analysable (undefined=%v left-recursive=%v): see C17", an.Undefined, an.LeftRecursive)
	}
	r.Set("token_kinds", len(kinds))

	budget := time.Duration(r.Pick(150, 1020)) * time.Second
	if s := os.Getenv("C08_BUDGET_S"); s != "" {
		var v int
		fmt.Sscan(s, &v)
		budget = time.Duration(v) * time.Second
	}
	start := time.Now()
	deadline := start.Add(budget)

	if !lexerGuard(r, kinds) {
		// the generators would hang on native lexing: report what the guard found and stop
		r.SetCapped()
		r.Set("states", len(guardHB))
		r.Set("transitions", int(guardSteps))
		r.Set("traces_validated_against_impl", r.Get("lexer_guard_texts"))
		r.Set("evaluations", r.Get("lexer_guard_texts"))
		r.Set("rule", "the lexer alone does not terminate on some short text: the input spaces were not generated; states / transitions are those of the controlled executions of the lexer guard")
		r.Sample(map[string]string{"note": "lexer guard failed, see the violations"})
		r.Finish()
	}

	// ---- generate the spaces
	maxPrefix := r.Pick(6, 9)
	sentLen, mutLen, editLen := r.Pick(14, 15), r.Pick(12, 14), r.Pick(13, 15)
	s3Len := r.Pick(3, 4)
	k := r.Pick(101, 37)
	if s := os.Getenv("C08_PARAMS"); s != "" { // maxPrefix,sentLen,mutLen,editLen,s3Len,k (trial runs)
		fmt.Sscanf(s, "%d,%d,%d,%d,%d,%d", &maxPrefix, &sentLen, &mutLen, &editLen, &s3Len, &k)
	}
	tGen := time.Now()
	s1, s1levels := genS1(tbl, kinds, maxPrefix)
	s2, s2stats := genS2(tbl, kinds, sentLen, mutLen, editLen)
	s3 := genS3(s3Len)
	s4 := genS4()
	s5 := genS5(kinds)
	genWall := time.Since(tGen).Seconds()
	def := [][2]int{{0, 1}}
	var allCfg [][2]int
	for _, cs := range []int{0, 1, 3} {
		for _, bs := range []int{0, 1, 1000} {
			allCfg = append(allCfg, [2]int{cs, bs})
		}
	}
	plans := []*spacePlan{
		{gen: s4, stores: storeKinds, configs: allCfg, k: 1, b1def: !r.Thorough(), what: fmt.Sprintf("corpus of %d valid statements of every kind x chanSize {0,1,3} x bulkSize {0,1,1000}", len(corpus))},
		{gen: s5, stores: storeKinds, configs: def, k: k, what: "every single-token mutant (delete, duplicate, truncate, replace by the canonical lexeme of each kind) and every fitting lexeme edit of every corpus statement"},
		{gen: s3, stores: storeKinds, configs: def, k: k, what: fmt.Sprintf("every byte string of length <= %d over %q", s3Len, s3Alphabet)},
		{gen: s2, stores: storeKinds, configs: def, k: k, what: fmt.Sprintf("every grammar sentence of <= %d tokens (canonical lexemes, and once with distinct bindings); every single-token mutant (delete, duplicate, truncate, replace by each other kind) of those of <= %d tokens; every fixed lexeme edit at every fitting position of those of <= %d tokens", sentLen, mutLen, editLen),
			extra: map[string]interface{}{"sentence_stats": s2stats}},
		{gen: s1, stores: storeKinds, configs: def, k: k, what: fmt.Sprintf("every token sequence of length <= 3 over the %d kinds; every viable grammar prefix of length <= %d extended by each kind, with and without a closing ';'", len(kinds), maxPrefix),
			extra: map[string]interface{}{"viable_prefix_levels": s1levels}},
	}
	if only := os.Getenv("C08_ONLY"); only != "" { // trial runs: a subset of the spaces
		var ps []*spacePlan
		for _, p := range plans {
			if strings.Contains(only, p.gen.name) {
				ps = append(ps, p)
			}
		}
		plans = ps
		r.SetCapped()
	}

	// ---- chunk the spaces into jobs, largest executions first
	par := runtime.NumCPU()
	if par > 16 {
		par = 16
	}
	var jobs []*job
	for _, p := range plans {
		n := len(p.gen.cases)
		// few, large chunks: a worker process costs up to a second on a loaded machine
		size := n/(par*3) + 1
		if size < 1500 {
			size = 1500
		}
		if size > 12000 {
			size = 12000
		}
		if p.gen.name == "S4" {
			size = 2 // the corpus executions are the largest ones (up to 70 threads, x 27 variants, all explored)
		}
		for lo, ch := 0, 0; lo < n; lo, ch = lo+size, ch+1 {
			hi := lo + size
			if hi > n {
				hi = n
			}
			jobs = append(jobs, &job{Space: p.gen.name, Chunk: ch, Cases: p.gen.cases[lo:hi], Stores: p.stores, Configs: p.configs, K: p.k, B1DefCfg: p.b1def, DeadlineMs: deadline.UnixMilli()})
		}
	}
	outs, err := runJobs(jobs, par)
	if err != nil {
		common.Machinery("worker failed: %v", err)
	}

	// ---- merge
	type spaceRep struct {
		Space            string                 `json:"space"`
		What             string                 `json:"what"`
		Generated        int                    `json:"texts_generated"`
		Unrenderable     int                    `json:"token_sequences_no_text_can_produce_skipped"`
		Duplicates       int                    `json:"duplicate_texts_dropped"`
		Cases            int                    `json:"distinct_texts"`
		CasesRun         int                    `json:"distinct_texts_executed"`
		PerOrigin        map[string]int         `json:"texts_per_origin"`
		Stores           []string               `json:"stores"`
		Configs          [][2]int               `json:"chan_size_bulk_size"`
		Execs            int                    `json:"executions"`
		VariantsSkipped  int                    `json:"store_and_size_variants_not_executed_because_the_parser_rejected_the_text"`
		Returned         map[string]int         `json:"executions_by_result"`
		Statuses         map[string]int         `json:"executions_by_status"`
		DistinctOutcomes int                    `json:"distinct_outcomes"`
		MaxSteps         int                    `json:"max_steps"`
		MaxTicks         int                    `json:"max_ticks"`
		MaxThreads       int                    `json:"max_threads"`
		Threads          map[string]int         `json:"executions_by_thread_count"`
		K                int                    `json:"bound1_every_kth_execution"`
		B1Cases          int                    `json:"bound1_cases"`
		B1Execs          int                    `json:"bound1_schedules"`
		B1Complete       bool                   `json:"bound1_completed"`
		B1MaxSteps       int                    `json:"bound1_max_steps"`
		B1Multi          int                    `json:"bound1_cases_whose_outcome_depends_on_the_schedule"`
		Exhaustive       bool                   `json:"exhaustive"`
		Extra            map[string]interface{} `json:"extra,omitempty"`
	}
	reps := map[string]*spaceRep{}
	outcomes := map[string]map[string]int{}
	allOutcomes := map[string]int{}
	hb := map[uint64]struct{}{}
	var order []string
	for _, p := range plans {
		g := p.gen
		reps[g.name] = &spaceRep{Space: g.name, What: p.what, Generated: g.generated, Unrenderable: g.unrenderable, Duplicates: g.duplicates, Cases: len(g.cases),
			PerOrigin: g.perOrigin, Stores: p.stores, Configs: p.configs, Returned: map[string]int{}, Statuses: map[string]int{}, Threads: map[string]int{},
			K: p.k, B1Complete: true, Exhaustive: true, Extra: p.extra}
		outcomes[g.name] = map[string]int{}
		order = append(order, g.name)
	}
	totalExecs, totalB1, totalSteps := 0, 0, guardSteps
	for h := range guardHB {
		hb[h] = struct{}{}
	}
	type merged struct {
		f     failOut
		count int
	}
	fails := map[string]*merged{}
	var forder []string
	var samples []interface{}
	for _, o := range outs {
		if o == nil {
			continue
		}
		if o.Nondet != "" {
			common.Machinery("NONDETERMINISM %s chunk %d: %s", o.Space, o.Chunk, o.Nondet)
		}
		if os.Getenv("C08_DEBUG") != "" {
			fmt.Printf("    chunk %s/%d: cases=%d execs=%d b1=%d/%d wall=%dms partial=%v\n", o.Space, o.Chunk, o.Cases, o.Execs, o.B1Cases, o.B1Execs, o.WallMs, o.Partial)
		}
		sr := reps[o.Space]
		sr.CasesRun += o.Cases
		sr.Execs += o.Execs
		sr.VariantsSkipped += o.VariantsSkipped
		for k2, v := range o.Stages {
			sr.Returned[k2] += v
		}
		for k2, v := range o.Statuses {
			sr.Statuses[k2] += v
		}
		for k2, v := range o.Outcomes {
			outcomes[o.Space][k2] += v
			allOutcomes[k2] += v
		}
		for k2, v := range o.B1Outcomes {
			allOutcomes[k2] += v
		}
		for k2, v := range o.Threads {
			sr.Threads[fmt.Sprint(k2)] += v
		}
		if o.MaxSteps > sr.MaxSteps {
			sr.MaxSteps = o.MaxSteps
		}
		if o.MaxTicks > sr.MaxTicks {
			sr.MaxTicks = o.MaxTicks
		}
		if o.MaxThreads > sr.MaxThreads {
			sr.MaxThreads = o.MaxThreads
		}
		sr.B1Cases += o.B1Cases
		sr.B1Execs += o.B1Execs
		sr.B1Multi += o.B1MultiOutc
		if o.B1MaxSteps > sr.B1MaxSteps {
			sr.B1MaxSteps = o.B1MaxSteps
		}
		if !o.B1Complete {
			sr.B1Complete = false
		}
		if o.Partial {
			sr.Exhaustive = false
		}
		totalExecs += o.Execs
		totalB1 += o.B1Execs
		totalSteps += o.TotalSteps
		for _, h := range o.HB {
			hb[h] = struct{}{}
		}
		for _, f := range o.Fails {
			k2 := f.Class + "|" + f.Shape
			if m, ok := fails[k2]; ok {
				m.count += f.Count
				continue
			}
			fails[k2] = &merged{f: f, count: f.Count}
			forder = append(forder, k2)
		}
		if o.Sample != nil && len(samples) < 6 && (o.Chunk%7 == 0 || o.Space == "S4") {
			samples = append(samples, map[string]interface{}{"case": o.Sample, "op_trace": o.SampleTrace})
		}
	}
	sort.Strings(forder)
	for _, k2 := range forder {
		m := fails[k2]
		for i := 0; i < m.count; i++ {
			r.Fail(common.Failure{Check: "exec", Class: m.f.Class, Shape: m.f.Shape, Case: m.f.Case, Detail: m.f.Detail})
		}
	}
	var spaceList []*spaceRep
	accepted, rejected, skipped := 0, 0, 0
	bound1Complete := true
	for _, n := range order {
		sr := reps[n]
		sr.DistinctOutcomes = len(outcomes[n])
		if sr.CasesRun < sr.Cases {
			sr.Exhaustive = false
		}
		if !sr.Exhaustive || !sr.B1Complete {
			r.SetCapped()
		}
		if !sr.B1Complete || !sr.Exhaustive {
			bound1Complete = false
		}
		accepted += sr.Returned["table"]
		rejected += sr.Returned["parse-error"] + sr.Returned["plan-error"] + sr.Returned["execute-error"] + sr.Returned["other-error"]
		skipped += sr.Unrenderable
		spaceList = append(spaceList, sr)
		fmt.Printf("  %-3s texts=%-8d executions=%-8d results=%v statuses=%v outcomes=%d max-steps=%d max-threads=%d unrenderable=%d bound1: cases=%d schedules=%d complete=%v schedule-dependent=%d exhaustive=%v\n",
			sr.Space, sr.Cases, sr.Execs, sr.Returned, sr.Statuses, sr.DistinctOutcomes, sr.MaxSteps, sr.MaxThreads, sr.Unrenderable, sr.B1Cases, sr.B1Execs, sr.B1Complete, sr.B1Multi, sr.Exhaustive)
	}
	r.Set("spaces", spaceList)
	r.Set("executions_default_schedule", totalExecs)
	r.Set("executions_bound1", totalB1)
	r.Set("returned_a_table", accepted)
	r.Set("returned_an_error", rejected)
	r.Set("token_sequences_no_text_can_produce_skipped", skipped)
	r.Set("deviation_bound_completed_on_subset", map[bool]int{true: 1, false: 0}[bound1Complete])
	r.Set("generation_wall_s", genWall)
	// the most frequent outcomes, and all of them counted
	type oc struct {
		O string `json:"outcome"`
		N int    `json:"executions"`
	}
	var ocs []oc
	for k2, v := range allOutcomes {
		ocs = append(ocs, oc{k2, v})
	}
	sort.Slice(ocs, func(a, b int) bool {
		if ocs[a].N != ocs[b].N {
			return ocs[a].N > ocs[b].N
		}
		return ocs[a].O < ocs[b].O
	})
	distinctOutcomes := len(ocs)
	r.Set("distinct_outcomes", distinctOutcomes)
	if len(ocs) > 60 {
		ocs = ocs[:60]
	}
	r.Set("most_frequent_outcomes", ocs)
	r.Set("states", len(hb)) // distinct happens-before partial orders of the op traces of the default-schedule executions
	r.Set("transitions", int(totalSteps))
	r.Set("traces_validated_against_impl", totalExecs+totalB1+r.Get("lexer_guard_texts"))
	r.Set("evaluations", totalExecs+totalB1+r.Get("lexer_guard_texts"))
	r.Set("distinct_nontrivial", distinctOutcomes)
	r.Set("rule", "case = (statement text, store in {empty, graphs exist but empty, populated}, chanSize, bulkSize); one controlled execution of run.BQL per case on the default schedule, plus every schedule with at most one deviation for every K-th execution of a space (K per space in spaces[].bound1_every_kth_execution); texts are enumerated exhaustively per space (spaces[].what) and de-duplicated; states = distinct happens-before partial orders among the default-schedule executions (those of the lexer guard included), transitions = scheduled operations, distinct_nontrivial = distinct outcomes (result stage + constant part of the error message, or table shape, or oracle verdict)")
	if b, err := os.ReadFile(filepath.Join(common.Root(), instrDir(), "inventory.json")); err == nil {
		var inv map[string]interface{}
		if json.Unmarshal(b, &inv) == nil {
			r.Set("instrumentation_inventory", inv)
		}
	}
	for _, s := range samples {
		r.Sample(s)
	}
	for _, p := range plans {
		if n := len(p.gen.cases); n > 0 {
			r.Sample(Case{Space: p.gen.name, Origin: p.gen.cases[n/2].Origin, Text: p.gen.cases[n/2].Text, Store: "populated", BulkSize: 1})
		}
	}
	r.Finish()
}

func instrDir() string {
	if d := os.Getenv("C08_INSTR_DIR"); d != "" {
		return d
	}
	return "work/instr/c08"
}

// instrumented reports whether the lexer was compiled from the rewritten
// sources: under the scheduler lexing must produce scheduling events.
func instrumented() bool {
	n := 0
	out := vrt.Run(vrt.Config{}, vrt.DefaultChooser{}, func() {
		for range vrt.Range(lexer.New("select ?a", 0)) {
			n++
		}
	})
	return out.Status == vrt.StOK && n == 3 && out.Steps >= 6 && out.Threads == 2
}
