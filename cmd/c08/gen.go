package main

import (
	"fmt"
	"strings"

	"github.com/google/badwolf/bql/lexer"

	"verif/common"
	"verif/recog"
)

// genCase is one statement text of an input space.
type genCase struct {
	Idx    int    `json:"idx"` // index in the space (generation order, after de-duplication)
	Text   string `json:"text"`
	Origin string `json:"origin"`
}

// spaceGen collects the texts of one space, de-duplicated, in generation order.
type spaceGen struct {
	name         string
	cases        []genCase
	seen         map[string]bool
	generated    int // texts produced, before de-duplication
	unrenderable int // token sequences that no text built from the canonical lexemes produces
	duplicates   int
	perOrigin    map[string]int
	notes        map[string]int
}

func newSpace(name string) *spaceGen {
	return &spaceGen{name: name, seen: map[string]bool{}, perOrigin: map[string]int{}, notes: map[string]int{}}
}

func (g *spaceGen) add(text, origin string) {
	g.generated++
	if g.seen[text] {
		g.duplicates++
		return
	}
	g.seen[text] = true
	g.perOrigin[origin]++
	g.cases = append(g.cases, genCase{Idx: len(g.cases), Text: text, Origin: origin})
}

// rendered is the result of rendering one token sequence.
type rendered struct {
	text   string
	origin string
	ok     bool
}

func (g *spaceGen) addAll(rs []rendered) {
	for _, r := range rs {
		if !r.ok {
			g.generated++
			g.unrenderable++
			continue
		}
		g.add(r.text, r.origin)
	}
}

func renderSeq(ks []recog.Kind, origin string) rendered {
	t, ok := recog.Render(ks)
	return rendered{text: t, origin: origin, ok: ok}
}

func cat(p []recog.Kind, k ...recog.Kind) []recog.Kind {
	return append(append(make([]recog.Kind, 0, len(p)+len(k)), p...), k...)
}

// ---- S1: token sequences -----------------------------------------------------------------

// genS1: every token sequence of length <= 3 over the token kinds, and every
// viable prefix of the grammar of length <= maxPrefix extended by each kind,
// with and without a closing ';'.
func genS1(table *recog.Table, kinds []recog.Kind, maxPrefix int) (*spaceGen, []map[string]int) {
	g := newSpace("S1")
	n := len(kinds)
	// length <= 3, odometer order
	total := n + n*n + n*n*n
	rs := make([]rendered, total)
	common.ParallelFor(total, func(i int) {
		var ks []recog.Kind
		switch {
		case i < n:
			ks = []recog.Kind{kinds[i]}
		case i < n+n*n:
			j := i - n
			ks = []recog.Kind{kinds[j/n], kinds[j%n]}
		default:
			j := i - n - n*n
			ks = []recog.Kind{kinds[j/(n*n)], kinds[(j/n)%n], kinds[j%n]}
		}
		rs[i] = renderSeq(ks, "sequence<=3")
	})
	g.addAll(rs)
	// viable prefixes (BFS over parser configurations as in C18), each extended by every kind
	var levels []map[string]int
	frontier := [][]recog.Kind{{}}
	for l := 0; l <= maxPrefix && len(frontier) > 0; l++ {
		// frontier = viable prefixes of length l
		out := make([][]rendered, len(frontier))
		next := make([][][]recog.Kind, len(frontier))
		common.ParallelFor(len(frontier), func(i int) {
			p := frontier[i]
			for _, k := range kinds {
				q := cat(p, k)
				out[i] = append(out[i], renderSeq(q, "viable-prefix+1"), renderSeq(cat(q, lexer.ItemSemicolon), "viable-prefix+1+;"))
				v, err := table.Recognise(q)
				if err != nil {
					common.Machinery("recogniser: %v", err)
				}
				if v.Viable {
					next[i] = append(next[i], q)
				}
			}
		})
		var nf [][]recog.Kind
		for i := range frontier {
			g.addAll(out[i])
			nf = append(nf, next[i]...)
		}
		levels = append(levels, map[string]int{"prefix_length": l, "viable_prefixes": len(frontier), "extensions": len(frontier) * n * 2})
		frontier = nf
	}
	return g, levels
}

// ---- S2: grammar sentences and their single-edit mutants ---------------------------------------

func joinLexemes(ks []recog.Kind, lex []string) string {
	var b strings.Builder
	for i := range lex {
		if lex[i] == "" {
			continue
		}
		if b.Len() > 0 && !(i > 0 && ks[i-1] == lexer.ItemFilterFunction && ks[i] == lexer.ItemLPar) {
			b.WriteByte(' ')
		}
		b.WriteString(lex[i])
	}
	return b.String()
}

func canonicalLexemes(ks []recog.Kind) ([]string, bool) {
	out := make([]string, len(ks))
	prev := lexer.ItemEOF
	for i, k := range ks {
		s, ok := recog.Lexeme(prev, k)
		if !ok {
			return nil, false
		}
		out[i] = s
		prev = k
	}
	return out, true
}

// diversify renders a sentence with position dependent binding names instead
// of the single canonical ?a: graph positions keep ?a (the graph that exists);
// inside a WHERE clause the plain bindings are ?s ?p ?o by position; a binding
// after AS / TYPE / ID / AT is a fresh alias; bindings outside the braces refer
// to ?s. ok is false when the text does not lex back to the same kinds.
func diversify(ks []recog.Kind) (string, bool) {
	lex, ok := canonicalLexemes(ks)
	if !ok {
		return "", false
	}
	names := []string{"?s", "?p", "?o", "?x", "?y", "?z"}
	depth, pos, alias := 0, 0, 0
	graphList := false
	seenWhere := false
	for i, k := range ks {
		switch k {
		case lexer.ItemFrom, lexer.ItemInto, lexer.ItemIn, lexer.ItemGraph:
			graphList = true
			continue
		case lexer.ItemWhere:
			seenWhere = true
		case lexer.ItemLBracket:
			depth++
			pos = 0
		case lexer.ItemRBracket:
			depth--
		case lexer.ItemDot:
			pos = 0
		}
		if k != lexer.ItemBinding {
			if k != lexer.ItemComma {
				graphList = false
			}
			continue
		}
		switch {
		case graphList:
			// keep ?a
		case i > 0 && (ks[i-1] == lexer.ItemAs || ks[i-1] == lexer.ItemType || ks[i-1] == lexer.ItemID || ks[i-1] == lexer.ItemAt):
			if depth > 0 && seenWhere {
				alias++
				lex[i] = fmt.Sprintf("?v%d", alias)
			} else {
				lex[i] = "?n" // projection alias
			}
		case depth > 0:
			lex[i] = names[pos%len(names)]
			pos++
		default:
			lex[i] = "?s"
		}
	}
	text := joinLexemes(ks, lex)
	got, clean := recog.LexKinds(text)
	if !clean || len(got) != len(ks) {
		return text, false
	}
	for i := range ks {
		if got[i] != ks[i] {
			return text, false
		}
	}
	return text, true
}

// mutantsOf: every single-edit mutant of a token sequence (delete token i,
// duplicate token i, truncate at i, replace token i by the canonical lexeme of
// every other kind).
func mutantsOf(s []recog.Kind, kinds []recog.Kind) []rendered {
	var out []rendered
	for i := range s {
		out = append(out, renderSeq(cat(s[:i], s[i+1:]...), "delete-token"))
		out = append(out, renderSeq(cat(s[:i+1], s[i:]...), "duplicate-token"))
		out = append(out, renderSeq(cat(s[:i]), "truncate"))
		for _, k := range kinds {
			if k == s[i] {
				continue
			}
			q := cat(s)
			q[i] = k
			out = append(out, renderSeq(q, "replace-token"))
		}
	}
	return out
}

// lexemeMutants applies the fixed lexeme edits at every position they fit.
func lexemeMutants(ks []recog.Kind, lex []string, origin string) []rendered {
	var out []rendered
	for i, k := range ks {
		for _, e := range lexemeEdits[k] {
			l2 := append([]string(nil), lex...)
			l2[i] = e
			out = append(out, rendered{text: joinLexemes(ks, l2), origin: origin, ok: true})
		}
	}
	return out
}

func genS2(table *recog.Table, kinds []recog.Kind, sentLen, mutLen, editLen int) (*spaceGen, map[string]int) {
	g := newSpace("S2")
	var sentences [][]recog.Kind
	table.Sentences(sentLen, func(ks []recog.Kind) bool {
		sentences = append(sentences, append([]recog.Kind{}, ks...))
		return true
	})
	out := make([][]rendered, len(sentences))
	mutated, edited := make([]bool, len(sentences)), make([]bool, len(sentences))
	common.ParallelFor(len(sentences), func(i int) {
		s := sentences[i]
		out[i] = append(out[i], renderSeq(s, "sentence"))
		if t, ok := diversify(s); ok {
			out[i] = append(out[i], rendered{text: t, origin: "sentence-distinct-bindings", ok: true})
		}
		if len(s) <= mutLen {
			mutated[i] = true
			out[i] = append(out[i], mutantsOf(s, kinds)...)
		}
		if len(s) <= editLen {
			if lex, ok := canonicalLexemes(s); ok {
				edited[i] = true
				out[i] = append(out[i], lexemeMutants(s, lex, "lexeme-edit")...)
			}
		}
	})
	st := map[string]int{"sentences": len(sentences), "sentences_max_tokens": sentLen, "token_mutants_of_sentences_up_to_tokens": mutLen, "lexeme_edits_of_sentences_up_to_tokens": editLen}
	for i := range sentences {
		g.addAll(out[i])
		if mutated[i] {
			st["sentences_with_all_token_mutants"]++
		}
		if edited[i] {
			st["sentences_with_all_lexeme_edits"]++
		}
	}
	return g, st
}

// ---- S3: short byte strings ------------------------------------------------------------------

const s3Alphabet = "s?/<>\"@[]^:;{}.,_ "

func genS3(maxLen int) *spaceGen {
	g := newSpace("S3")
	// by length, then odometer order
	for l := 0; l <= maxLen; l++ {
		var gen func(prefix string)
		gen = func(prefix string) {
			if len(prefix) == l {
				g.add(prefix, fmt.Sprintf("bytes-len-%d", l))
				return
			}
			for i := 0; i < len(s3Alphabet); i++ {
				gen(prefix + string(s3Alphabet[i]))
			}
		}
		gen("")
	}
	return g
}

// ---- S4: corpus; S5: single-edit mutants of the corpus -------------------------------------------

func genS4() *spaceGen {
	g := newSpace("S4")
	for _, c := range corpus {
		g.add(c, "corpus")
	}
	return g
}

// genS5: every corpus statement with one token deleted, duplicated, cut off,
// replaced by the canonical lexeme of every kind, or replaced by each fitting
// lexeme edit. Tokens are the real lexer's (the corpus is fixed, valid text).
func genS5(kinds []recog.Kind) *spaceGen {
	g := newSpace("S5")
	out := make([][]rendered, len(corpus))
	common.ParallelFor(len(corpus), func(ci int) {
		toks := recog.Lex(corpus[ci])
		var ks []recog.Kind
		var lex []string
		for _, t := range toks {
			if t.Type == lexer.ItemEOF || t.Type == lexer.ItemError {
				break
			}
			ks = append(ks, t.Type)
			lex = append(lex, strings.TrimSpace(t.Text))
		}
		add := func(k2 []recog.Kind, l2 []string, origin string) {
			out[ci] = append(out[ci], rendered{text: joinLexemes(k2, l2), origin: origin, ok: true})
		}
		for i := range ks {
			add(cat(ks[:i], ks[i+1:]...), append(append([]string{}, lex[:i]...), lex[i+1:]...), "corpus-delete-token")
			add(cat(ks[:i+1], ks[i:]...), append(append([]string{}, lex[:i+1]...), lex[i:]...), "corpus-duplicate-token")
			add(cat(ks[:i]), append([]string{}, lex[:i]...), "corpus-truncate")
			for _, k := range kinds {
				if k == ks[i] {
					continue
				}
				prev := lexer.ItemEOF
				if i > 0 {
					prev = ks[i-1]
				}
				s, ok := recog.Lexeme(prev, k)
				if !ok {
					continue
				}
				k2, l2 := cat(ks), append([]string{}, lex...)
				k2[i], l2[i] = k, s
				add(k2, l2, "corpus-replace-token")
			}
		}
		out[ci] = append(out[ci], lexemeMutants(ks, lex, "corpus-lexeme-edit")...)
	})
	for ci := range corpus {
		g.addAll(out[ci])
	}
	return g
}
