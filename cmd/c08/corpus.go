package main

import (
	"github.com/google/badwolf/bql/lexer"
	"github.com/google/badwolf/triple"
	"github.com/google/badwolf/triple/literal"

	"verif/common"
	"verif/recog"
)

// ---- store contents ---------------------------------------------------------------------
//
// Graph names are the canonical binding lexeme of verif/recog (?a) plus ?b and
// ?c, which the corpus uses. Every canonical lexeme of recog that can stand in
// a triple (/u<a>, "p"@[], "1"^^type:int64, the anchor 2006-01-02T15:04:05Z)
// occurs in the populated content, so that statements made of canonical
// lexemes have non-empty answers on the populated store.

var graphNames = []string{"?a", "?b", "?c"}

// populatedA: nodes, immutable and temporal predicates, every literal kind, a
// predicate as object (immutable and temporal) and a reified triple whose
// blank node has a fixed id.
var populatedA = []string{
	`/u<a>	"p"@[]	/u<a>`,
	`/u<a>	"p"@[]	/u<b>`,
	`/u<b>	"p"@[]	/u<c>`,
	`/u<a>	"p"@[]	"1"^^type:int64`,
	`/u<b>	"p"@[]	"2"^^type:int64`,
	`/u<c>	"p"@[]	"40"^^type:int64`,
	`/u<a>	"q"@[]	"1.5"^^type:float64`,
	`/u<b>	"q"@[]	"2.5"^^type:float64`,
	`/u<a>	"q"@[]	"true"^^type:bool`,
	`/u<a>	"q"@[]	"hello"^^type:text`,
	`/u<a>	"q"@[]	"[1 2 3]"^^type:blob`,
	`/u<a>	"p"@[2006-01-02T15:04:05Z]	/u<b>`,
	`/u<a>	"p"@[2006-01-03T15:04:05Z]	/u<c>`,
	`/u<b>	"t"@[2016-01-01T00:00:00Z]	"3"^^type:int64`,
	`/u<b>	"t"@[2017-01-01T00:00:00Z]	"4"^^type:int64`,
	`/u<a>	"r"@[]	"p"@[]`,
	`/u<a>	"r"@[]	"p"@[2006-01-02T15:04:05Z]`,
	`/u<b>	"r"@[2006-01-02T15:04:05Z]	"t"@[2016-01-01T00:00:00Z]`,
	// reification of /u<a> "p"@[] /u<b> around the blank node /_<r1>
	`/_<r1>	"_subject"@[]	/u<a>`,
	`/_<r1>	"_predicate"@[]	"p"@[]`,
	`/_<r1>	"_object"@[]	/u<b>`,
	`/_<r1>	"weight"@[]	"7"^^type:int64`,
}

var populatedB = []string{
	`/u<a>	"p"@[]	/u<c>`,
	`/u<c>	"p"@[]	"1"^^type:int64`,
	`/u<c>	"p"@[2006-01-02T15:04:05Z]	/u<a>`,
}

var triplesA, triplesB []*triple.Triple

func parseTriples(lines []string) []*triple.Triple {
	var ts []*triple.Triple
	for _, l := range lines {
		t, err := triple.Parse(l, literal.DefaultBuilder())
		if err != nil {
			common.Machinery("store content %q does not parse: %v", l, err)
		}
		ts = append(ts, t)
	}
	return ts
}

var storeKinds = []string{"empty", "graphs", "populated"}

// ---- corpus (space S4) ---------------------------------------------------------------------

var corpus = []string{
	// graph statements
	`create graph ?a;`,
	`create graph ?x, ?y, ?z;`,
	`drop graph ?a;`,
	`drop graph ?a, ?nosuch;`,
	`show graphs;`,
	// data statements
	`insert data into ?a {/u<n> "p"@[] /u<m>};`,
	`insert data into ?a, ?b {/u<joe> "follows"@[2006-01-02T15:04:05.999999999Z] /u<mary> . /u<joe> "age"@[] "33"^^type:int64 . /u<joe> "nick"@[] "j\"oe"^^type:text . /u<joe> "p"@[] "q"@[2006-01-02T15:04:05Z]};`,
	`insert data into ?nosuch {/u<n> "p"@[] /u<m>};`,
	`delete data from ?a {/u<a> "p"@[] /u<b>};`,
	`delete data from ?a, ?b {/u<a> "p"@[] /u<c> . /u<zz> "p"@[] "1"^^type:int64};`,
	// select: every clause kind
	`select ?s, ?p, ?o from ?a where {?s ?p ?o};`,
	`select ?s from ?a, ?b where {?s "p"@[] ?o};`,
	`select ?o from ?a where {/u<a> "p"@[] ?o};`,
	`select ?p from ?a where {/u<a> ?p /u<b>};`,
	`select ?s from ?a where {?s "p"@[] "1"^^type:int64};`,
	`select ?s as ?x, ?o as ?y from ?a where {?s "p"@[] ?o};`,
	`select ?x, ?y, ?z from ?a where {?s as ?x type ?y id ?z ?p ?o};`,
	`select ?x, ?y, ?z from ?a where {?s ?p as ?x id ?y at ?z ?o};`,
	`select ?x, ?y, ?z, ?t from ?a where {?s ?p ?o as ?x type ?y id ?z at ?t};`,
	`select ?o, ?t from ?a where {?s "p"@[?t] ?o};`,
	`select ?o from ?a where {?s "p"@[,] ?o};`,
	`select ?x, ?z from ?a where {?s "p"@[2006-01-01T00:00:00Z,2006-01-02T23:00:00Z] as ?x id ?y at ?z ?o};`,
	`select ?s, ?lo from ?a where {?s "p"@[?lo,?hi] ?o};`,
	`select ?s, ?t from ?a where {?s "r"@[] "p"@[?t]};`,
	`select ?s, ?x from ?a where {?s ?p "t"@[,] as ?x id ?z at ?u};`,
	`select ?s, ?r from ?a where {?s "p"@[] ?o . ?o "p"@[] ?r};`,
	`select ?s, ?r from ?a where {?s "p"@[] ?o . optional {?o "q"@[] ?r}};`,
	`select ?s, ?r from ?a where {?s "p"@[] ?o . optional {/u<zz> "q"@[] ?r}};`,
	`select ?s from ?a where {?s "p"@[] ?o . /u<a> "p"@[] /u<b>};`,
	// OPTIONAL whose bindings nothing binds (disjoint from the rest, no match / a match), then used
	// by ORDER BY, by an alias + ORDER BY, by GROUP BY + aggregates and by HAVING: NULL cells must be usable
	`select ?s, ?w from ?a where {?s "p"@[] ?o . optional {?x "zz"@[] ?w}} order by ?w;`,
	`select ?s, ?w as ?ww from ?a where {?s "p"@[] ?o . optional {?x "zz"@[] ?w}} order by ?ww desc, ?s;`,
	`select ?s, sum(?w) as ?t from ?a where {?s "p"@[] ?o . optional {?x "zz"@[] ?w}} group by ?s;`,
	`select ?s, count(?w) as ?n from ?a where {?s "p"@[] ?o . optional {?x "zz"@[] ?w}} group by ?s order by ?n;`,
	`select ?s, ?w from ?a where {?s "p"@[] ?o . optional {?x "zz"@[] ?w}} having ?w > "1"^^type:int64;`,
	`select ?s, ?r from ?a where {?s "p"@[] ?o . optional {?o "q"@[] ?r}} order by ?r, ?s;`,
	`select ?s, ?r, ?w from ?a where {?s "p"@[] ?o . optional {?o "q"@[] ?r} . optional {?x "zz"@[] ?w}} order by ?w, ?r;`,
	`select ?n, ?s, ?q, ?o from ?a where {?n "_subject"@[] ?s . ?n "_predicate"@[] ?q . ?n "_object"@[] ?o};`,
	// two required clauses without a common binding (a cross product), one side or both without a match
	`select ?s, ?x from ?a where {?s "p"@[] ?o . ?x "zz"@[] ?y};`,
	`select ?s, ?x from ?a where {?x "zz"@[] ?y . ?s "p"@[] ?o};`,
	`select ?s, ?x from ?a where {?s "zz"@[] ?o . ?x "zy"@[] ?y};`,
	`select ?s, ?x from ?a where {?s "p"@[] ?o . /u<nobody> "p"@[] ?x};`,
	`construct {?s "new"@[] ?x} into ?b from ?a where {?s "p"@[] ?o . ?x "zz"@[] ?y};`,
	// the same output name twice (refused when the table is built), with and without rows in the result
	`select ?s, ?s from ?a where {?s "p"@[] ?o};`,
	`select ?s, ?s from ?a where {?s "zz"@[] ?o};`,
	`select ?s as ?x, ?o as ?x from ?a where {?s "p"@[] ?o};`,
	`select ?s as ?x, ?o as ?x from ?a where {?s "p"@[] ?o} limit "0"^^type:int64;`,
	`select ?s as ?x, ?o as ?x from ?a where {?s "p"@[] ?o} having ?o = /u<nobody>;`,
	`select ?s, count(?o) as ?s from ?a where {?s "zz"@[] ?o} group by ?s;`,
	// HAVING forms the grammar derives and only the expression builder can refuse (bare bindings, empty operands)
	`select ?s from ?a where {?s ?p ?o} having (?s);`,
	`select ?s from ?a where {?s ?p ?o} having (not ?s);`,
	`select ?s from ?a where {?s ?p ?o} having not (?s);`,
	`select ?s from ?a where {?s ?p ?o} having (?s = ?s) or (?o);`,
	`select ?s from ?a where {?s ?p ?o} having (?s = ?s) and ?o;`,
	`select ?s from ?a where {?s ?p ?o} having ?s;`,
	`select ?s from ?a where {?s ?p ?o} having ((?s));`,
	`select ?s from ?a where {?s ?p ?o} having (?s =);`,
	`select ?s from ?a where {?s ?p ?o} having (?s = ?o) or;`,
	`select ?s from ?a where {?s ?p ?o} having ();`,
	// a binding that an earlier clause binds to a value of ANOTHER kind than the later position needs:
	// an anchor binding (predicate / object position) or a time bound bound to a node, a literal, or the
	// NULL of an OPTIONAL without match; a predicate binding bound to a node; a subject bound to a literal
	`select ?s, ?t from ?a where {?s "p"@[] ?t . ?x "r"@[] "p"@[?t]};`,
	`select ?s, ?t from ?a where {?s "p"@[] ?t . ?x "p"@[?t] ?y};`,
	`select ?s, ?t from ?a where {?s "q"@[] ?t . /u<a> "r"@[] "p"@[?t]};`,
	`select ?s, ?t from ?a where {?s "p"@[] ?o . optional {?x "zz"@[?t] ?w} . ?y "r"@[] "p"@[?t]};`,
	`select ?s, ?t from ?a where {?s "p"@[] ?o . optional {?x "zz"@[?t] ?w} . ?y "p"@[?t] ?z};`,
	`select ?s, ?t from ?a where {?s "p"@[] ?t . ?x "p"@[?t,] ?y};`,
	`select ?s, ?t from ?a where {?s "p"@[] ?t . ?x "r"@[] "p"@[,?t]};`,
	`select ?s, ?t from ?a where {?s "p"@[] ?t . ?x ?t ?y};`,
	`select ?s, ?t from ?a where {?s "q"@[] ?t . ?t "p"@[] ?y};`,
	`select ?s, ?t from ?a where {?s "r"@[] ?t . ?t "p"@[] ?y};`,
	`select ?s, ?t from ?a where {?s "p"@[?t] ?o . ?t "p"@[] ?y};`,
	`select ?s, ?t from ?a where {?s "p"@[?t] ?o . ?x ?t ?y};`,
	// group by / aggregates
	`select ?s, count(?o) as ?n from ?a where {?s "p"@[] ?o} group by ?s;`,
	`select ?s, count(distinct ?o) as ?n from ?a where {?s ?p ?o} group by ?s;`,
	`select ?s, sum(?o) as ?n from ?a where {?s "p"@[] ?o} group by ?s;`,
	`select ?s, sum(?o) as ?n from ?a where {?s "q"@[] ?o} group by ?s;`,
	`select ?p, sum(?o) as ?n from ?a where {/u<b> ?p ?o} group by ?p;`,
	`select ?s as ?x, count(?o) as ?n, sum(?o) as ?m from ?a where {?s "t"@[,] ?o} group by ?x order by ?n desc;`,
	// order by / having / limit / global bounds
	`select ?s, ?o from ?a where {?s ?p ?o} order by ?s asc, ?o desc;`,
	`select ?s, ?o from ?a where {?s ?p ?o} order by ?o;`,
	`select ?s, ?o from ?a where {?s "p"@[] ?o} having ?o > "1"^^type:int64;`,
	`select ?s, ?o from ?a where {?s ?p ?o} having (?o = /u<b>) or not (?s = ?o);`,
	`select ?s, ?o from ?a where {?s ?p ?o} having (?o < "zz"^^type:text) and (?s = /u<a>);`,
	`select ?s, ?t from ?a where {?s ?p ?o at ?t} having ?t < 2006-01-03T00:00:00Z;`,
	`select ?s, ?p from ?a where {?s ?p ?o} having ?p = "p"@[2006-01-02T15:04:05Z];`,
	`select ?s, ?y from ?a where {?s id ?y ?p ?o} having ?y = "a"^^type:text;`,
	`select ?s, ?o from ?a where {?s ?p ?o} before 2006-01-03T00:00:00Z;`,
	`select ?s, ?o from ?a where {?s ?p ?o} after 2006-01-03T00:00:00Z;`,
	`select ?s, ?o from ?a where {?s ?p ?o} between 2006-01-01T00:00:00Z, 2016-06-01T00:00:00Z;`,
	`select ?s, ?o from ?a where {?s ?p ?o} limit "2"^^type:int64;`,
	`select ?s, ?o from ?a where {?s ?p ?o} limit "0"^^type:int64;`,
	`select ?s, count(?o) as ?n from ?a where {?s ?p ?o} group by ?s order by ?n desc having ?n > "1"^^type:int64 before 2016-06-01T00:00:00Z limit "5"^^type:int64;`,
	// filters
	`select ?s, ?p from ?a where {?s ?p ?o . filter latest(?p)};`,
	`select ?s, ?p from ?a where {?s ?p ?o . filter isTemporal(?p)};`,
	`select ?s, ?p from ?a where {?s ?p ?o . filter isImmutable(?p) .};`,
	`select ?s, ?o from ?a where {?s "r"@[] ?o . filter latest(?o)};`,
	`select ?s, ?p from ?a where {?s ?p ?o . ?o ?q ?r . filter isTemporal(?p) . filter isImmutable(?q)};`,
	// construct / deconstruct
	`construct {?s "new"@[] ?o} into ?b from ?a where {?s "p"@[] ?o};`,
	`construct {?s "new"@[] ?o} into ?b, ?c from ?a where {?s "p"@[,] ?o} having ?s = /u<a>;`,
	`construct {?s ?p ?o . _:v "_subject"@[] ?s . _:v "_predicate"@[] ?p} into ?b from ?a where {?s ?p ?o};`,
	`construct {?s "p1"@[] ?o ; "p2"@[2006-01-02T15:04:05Z] ?r . /u<x> "p3"@[] "1"^^type:int64} into ?b from ?a where {?s "p"@[] ?o . ?o "p"@[] ?r};`,
	// reified facts (';') whose own object is a literal, a predicate and a node: written in the statement and bound by WHERE
	`construct {?s "kind"@[] "person"^^type:text ; "since"@[] ?o} into ?b from ?a where {?s "p"@[] ?o};`,
	`construct {?s "pred"@[] "q"@[2006-01-02T15:04:05Z] ; "since"@[] ?o} into ?b from ?a where {?s "p"@[] ?o};`,
	`construct {?s "copy"@[] ?o ; "via"@[] ?p} into ?b, ?c from ?a where {?s ?p ?o};`,
	`construct {?s "at"@[?t] ?o} into ?b from ?a where {?s "p"@[?t] ?o};`,
	`construct {?o "new"@[] ?s} into ?b from ?a where {?s "p"@[] ?o};`,
	`construct {?s ?o ?p} into ?b from ?a where {?s ?p ?o};`,
	`construct {?s "new"@[] ?o} into ?nosuch from ?a where {?s "p"@[] ?o};`,
	`deconstruct {?s "p"@[] ?o} in ?a from ?a where {?s "p"@[] ?o};`,
	`deconstruct {?s "p"@[] ?o . ?n "_subject"@[] ?s} in ?a, ?b from ?a, ?b where {?n "_subject"@[] ?s . ?n "_object"@[] ?o};`,
	`deconstruct {?s "r"@[] ?o . /u<a> "p"@[] /u<a>} in ?a, ?c from ?a where {?s "r"@[] ?o};`,
}

// ---- lexeme-level edits (space S2 and the corpus mutants) ----------------------------------
//
// Each entry replaces the text of one token of the given kind. The result need
// not lex to the same kind (that is the point).

var lexemeEdits = map[lexer.TokenType][]string{
	lexer.ItemNode:      {`/u<>`, `/<a>`, `/u<a`, `/u a>`, `_:`, `/u<a>>`, `/u<\<>`, `/_<b>`, "/u<\u023a\u023a\u023a\u023a\u023a\u023a>", "/\u023a\u023a\u023a<\u0130\u212a>", "/u<\xff\xfe>"},
	lexer.ItemBlankNode: {`_:`, `_:1`, `_b`, `/_<>`},
	lexer.ItemPredicate: {`""@[]`, `"p"@[`, `"p"@[x]`, `"p"@[?t]`, `"p"@[?]`, `"p"@[2006-01-02T15:04:05Z]`,
		`"p"@[2006-13-45T99:99:99Z]`, `"p"@[2006-01-02]`, `"p\"@[]`, `"p\\"@[]`, `"p"@[?lo,?hi]`, `"p"@ []`, `"P"@[]`, "\"\u023a\u023a\u023a\u023a\u023a\u023a\"@[]", "\"\u0130\u212a\"@[2006-01-02T15:04:05Z]", "\"\xff\xfe\xfd\"@[]"},
	lexer.ItemPredicateBound: {`"p"@[?lo,?hi]`, `"p"@[?lo,]`, `"p"@[2007-01-01T00:00:00Z,2006-01-01T00:00:00Z]`,
		`"p"@[x,y]`, `""@[,]`, `"p"@[,,]`, `"p"@[2006-01-01T00:00:00Z,2007-01-01T00:00:00Z]`, `"p"@[,`},
	lexer.ItemLiteral: {`"1"^^type:INT64`, `"-1"^^type:int64`, `"0"^^type:int64`, `"9223372036854775807"^^type:int64`,
		`"9223372036854775808"^^type:int64`, `"1.5"^^type:int64`, `"x"^^type:int64`, `"1.5"^^type:float64`, `"NaN"^^type:float64`,
		`"x"^^type:text`, `""^^type:text`, `"1"^^type:foo`, `"1"^^type:`, `""^^type:int64`, `"1`, `"1"`, `"true"^^type:bool`,
		`"x"^^type:bool`, `"[1 2]"^^type:blob`, `"[300]"^^type:blob`, `"x"^^type:blob`, `"1"^^type:int64x`, `"1"^^TYPE:int64`, `"a\"b"^^type:text`,
		// letters whose lower / upper case has another byte length (U+023A, U+0130, U+212A) and invalid UTF-8: offsets
		// computed on a case-folded copy do not fit the original text
		"\"\u023a\u023a\u023a\u023a\u023a\u023a\"^^type:text", "\"\u0130\u0130\u0130\u0130\u0130\u0130\u0130\u0130\u0130\"^^type:text", "\"\u212a\u212a\u212a\u212a\u212a\"^^type:text",
		"\"\xff\xfe\xfd\xfc\"^^type:text", "\"\u023a\u023a\u023a\u023a\u023a\u023a\u023a\u023a\"^^type:int64", "\"\u023a\"^^TYPE:TEXT"},
	lexer.ItemBinding:        {`?`, `?_`, `?zz`, `? a`, `/u<a>`, `"1"^^type:int64`, `?A`, "?\u023a\u023a\u023a", "?\u0130"},
	lexer.ItemTime:           {`2006-01-02`, `x`, `2006-13-45T99:99:99Z`, `9999999999`, `2006-01-02T15:04:05+25:00`, `2006-01-02T15:04:05.999999999Z`},
	lexer.ItemFilterFunction: {`isTemporal`, `isImmutable`, `nosuch`, `LATEST`, `l8`},
	lexer.ItemSemicolon:      {``, `;;`, `; select`},
	lexer.ItemLimit:          {`limit limit`},
	lexer.ItemCount:          {`sum`, `count distinct`},
	lexer.ItemSum:            {`count`, `sum distinct`},
}

var _ = recog.Kinds
