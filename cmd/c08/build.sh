#!/bin/bash
# cmd/c08/build.sh <output-binary>
# Instruments the CURRENT /repo working tree (storage, bql, triple, io and the
# tools/vcli/bw/run entry point) and builds the C08 harness against the
# rewritten copies through an overlay.
# VSCHED_REPO=<dir>: instrument another checkout (scratch worktree with a candidate
# fix or a deliberate property-breaking change) while still building against /repo.
# C08_INSTR_DIR=<dir>: where the rewritten copies go (default work/instr/c08), so
# that trial builds do not disturb the evidence of the regular build.
set -e
out="$1"
here="$(cd "$(dirname "$0")/../.." && pwd)"
cd "$here"
. ./env.sh
case "$out" in /*) ;; *) out="$here/$out" ;; esac
dir="${C08_INSTR_DIR:-work/instr/c08}"
mkdir -p work/bin "$dir"
go build -o work/bin/instr-c08 ./instr
work/bin/instr-c08 -q -out "$dir" -repo "${VSCHED_REPO:-/repo}" -overlay-root /repo \
  -pkgs ./storage/...,./bql/...,./triple/...,./io/...,./tools/vcli/bw/run \
  -exclude github.com/google/badwolf/triple/node,github.com/google/badwolf/bql/planner/tracer
go build -overlay "$dir/overlay.json" -o "$out" ./cmd/c08
