// C04 — data and graph statements change the store exactly as stated, nothing else.
//
// Explicit-state BFS over sequences of BQL statements (CREATE / DROP / INSERT /
// DELETE / CONSTRUCT / DECONSTRUCT incl. anchor bindings and ';' reification,
// plus statements that must be rejected before execution). The model state is
// the StoreModel; every transition is replayed on a fresh memory store (path +
// statement through the real parse -> plan -> execute pipeline) and every
// graph's listing is compared with the model after the step. Blank nodes are
// compared up to renaming, with the freshness conditions checked explicitly.
package main

import (
	"context"
	"encoding/json"
	"fmt"
	"sort"
	"strings"
	"sync"

	"github.com/google/badwolf/storage"
	"github.com/google/badwolf/storage/memory"
	"github.com/google/badwolf/triple"
	"github.com/google/badwolf/triple/literal"
	"github.com/google/badwolf/triple/node"
	"github.com/google/badwolf/triple/predicate"

	"verif/bqlm"
	"verif/common"
	"verif/model"
)

var names = []string{"?a", "?b", "?c"}

// ---- statements -------------------------------------------------------------------

type tterm struct { // template term
	Const  string // rendered constant (node / predicate / object)
	N      *node.Node
	P      *predicate.Predicate
	O      *triple.Object
	Bind   string // binding
	ID     string // "id"@[?anchor]
	Anchor string
}

type pair struct{ P, O tterm }

type stmt struct {
	Kind   string // create drop insert delete construct deconstruct raw
	Graphs []string
	Data   []*triple.Triple
	// construct / deconstruct
	S     tterm
	Pairs []pair // first = the fact; more = reified extras (';')
	Into  []string
	From  []string
	Where []bqlm.Clause
	Raw   string // raw text for must-reject statements
	// expectations for raw statements
	MustReject bool
}

func renderT(t tterm) string {
	switch {
	case t.Bind != "":
		return t.Bind
	case t.ID != "":
		return fmt.Sprintf("%q@[%s]", t.ID, t.Anchor)
	case t.N != nil:
		return t.N.String()
	case t.P != nil:
		return t.P.String()
	case t.O != nil:
		return t.O.String()
	}
	return t.Const
}

func tripleText(t *triple.Triple) string {
	return t.Subject().String() + " " + t.Predicate().String() + " " + t.Object().String()
}

func (s stmt) Render() string {
	switch s.Kind {
	case "create":
		return "CREATE GRAPH " + strings.Join(s.Graphs, ", ") + ";"
	case "drop":
		return "DROP GRAPH " + strings.Join(s.Graphs, ", ") + ";"
	case "insert", "delete":
		var ts []string
		for _, t := range s.Data {
			ts = append(ts, tripleText(t))
		}
		if s.Kind == "insert" {
			return "INSERT DATA INTO " + strings.Join(s.Graphs, ", ") + " { " + strings.Join(ts, " . ") + " };"
		}
		return "DELETE DATA FROM " + strings.Join(s.Graphs, ", ") + " { " + strings.Join(ts, " . ") + " };"
	case "construct", "deconstruct":
		var ps []string
		for _, p := range s.Pairs {
			ps = append(ps, renderT(p.P)+" "+renderT(p.O))
		}
		body := renderT(s.S) + " " + strings.Join(ps, " ; ")
		kw, in := "CONSTRUCT", "INTO"
		if s.Kind == "deconstruct" {
			kw, in = "DECONSTRUCT", "IN"
		}
		return fmt.Sprintf("%s { %s } %s %s FROM %s WHERE { %s };", kw, body, in, strings.Join(s.Into, ", "), strings.Join(s.From, ", "), bqlm.RenderWhere(s.Where))
	}
	return s.Raw
}

func bt(n string) bqlm.Term { return bqlm.Term{Kind: bqlm.Bind, Name: n} }

func alphabet() []stmt {
	a, b, c := bqlm.NA, bqlm.NB, bqlm.NC
	P, Q := bqlm.PImm, bqlm.QImm
	t1 := model.T(a, P, model.ON(b))
	t2 := model.T(b, P, model.OL(bqlm.LInt))
	t3 := model.T(a, bqlm.PT1, model.ON(c))
	t4 := model.T(c, bqlm.PT2, model.OP(bqlm.PT1Z)) // the object's anchor is T1 written in another zone than t3's
	pw := []bqlm.Clause{{S: bt("?s"), P: bqlm.Term{Kind: bqlm.Const, P: P}, O: bt("?o")}}
	tw := []bqlm.Clause{{S: bt("?s"), P: bqlm.Term{Kind: bqlm.AnchorBind, ID: "p", Name: "?t"}, O: bt("?o")}}
	qw := []bqlm.Clause{{S: bt("?s"), P: bqlm.Term{Kind: bqlm.Const, P: Q}, O: bt("?o")}}
	all := []bqlm.Clause{{S: bt("?s"), P: bt("?p"), O: bt("?o")}}
	B := func(n string) tterm { return tterm{Bind: n} }
	CP := func(p *predicate.Predicate) tterm { return tterm{P: p} }
	return []stmt{
		{Kind: "create", Graphs: []string{"?a"}},
		{Kind: "create", Graphs: []string{"?b"}},
		{Kind: "create", Graphs: []string{"?a", "?b"}},
		{Kind: "create", Graphs: []string{"?c"}},
		{Kind: "drop", Graphs: []string{"?a"}},
		{Kind: "drop", Graphs: []string{"?b", "?c"}},
		{Kind: "insert", Graphs: []string{"?a"}, Data: []*triple.Triple{t1}},
		{Kind: "insert", Graphs: []string{"?a", "?b"}, Data: []*triple.Triple{t1, t2}},
		{Kind: "insert", Graphs: []string{"?b"}, Data: []*triple.Triple{t3, t4}},
		{Kind: "insert", Graphs: []string{"?a"}, Data: []*triple.Triple{t2, t3, t2}},
		{Kind: "delete", Graphs: []string{"?a"}, Data: []*triple.Triple{t1}},
		{Kind: "delete", Graphs: []string{"?a", "?b"}, Data: []*triple.Triple{t2, t3}},
		// copy with a new predicate
		{Kind: "construct", S: B("?s"), Pairs: []pair{{CP(Q), B("?o")}}, Into: []string{"?b"}, From: []string{"?a"}, Where: pw},
		// copy everything into two graphs from two graphs
		{Kind: "construct", S: B("?s"), Pairs: []pair{{B("?p"), B("?o")}}, Into: []string{"?b", "?c"}, From: []string{"?a", "?b"}, Where: all},
		// anchor binding in the template
		{Kind: "construct", S: B("?s"), Pairs: []pair{{tterm{ID: "q", Anchor: "?t"}, B("?o")}}, Into: []string{"?a"}, From: []string{"?a", "?b"}, Where: tw},
		// constant subject and object
		{Kind: "construct", S: tterm{N: c}, Pairs: []pair{{CP(Q), tterm{O: model.OL(bqlm.LText)}}}, Into: []string{"?a"}, From: []string{"?a"}, Where: pw},
		// reification with one extra pair
		{Kind: "construct", S: B("?s"), Pairs: []pair{{CP(Q), B("?o")}, {CP(model.PI("w")), tterm{O: model.OL(bqlm.LInt)}}}, Into: []string{"?b"}, From: []string{"?a"}, Where: pw},
		// reification, temporal fact, extra pair with a binding
		{Kind: "construct", S: B("?s"), Pairs: []pair{{tterm{ID: "q", Anchor: "?t"}, B("?o")}, {CP(model.PI("w")), B("?s")}}, Into: []string{"?c"}, From: []string{"?a", "?b"}, Where: tw},
		// anchor binding in OBJECT position of the template (a predicate-valued object built per row), plain and with ';'
		{Kind: "construct", S: B("?s"), Pairs: []pair{{CP(Q), tterm{ID: "r", Anchor: "?t"}}}, Into: []string{"?c"}, From: []string{"?a", "?b"}, Where: tw},
		{Kind: "construct", S: B("?s"), Pairs: []pair{{CP(Q), B("?o")}, {CP(model.PI("w")), tterm{ID: "r", Anchor: "?t"}}}, Into: []string{"?b"}, From: []string{"?a"}, Where: tw},
		{Kind: "deconstruct", S: B("?s"), Pairs: []pair{{CP(Q), tterm{ID: "r", Anchor: "?t"}}}, Into: []string{"?c"}, From: []string{"?a", "?b"}, Where: tw},
		// reification whose reified fact is the same for every solution row (constant, or built from a part of the
		// row's bindings): still one fresh blank node per row, each with that row's extra fact
		{Kind: "construct", S: tterm{N: c}, Pairs: []pair{{CP(Q), tterm{O: model.OL(bqlm.LText)}}, {CP(model.PI("w")), B("?o")}}, Into: []string{"?b"}, From: []string{"?a"}, Where: pw},
		{Kind: "construct", S: B("?s"), Pairs: []pair{{CP(Q), tterm{N: c}}, {CP(model.PI("w")), B("?o")}}, Into: []string{"?c"}, From: []string{"?a"}, Where: all},
		{Kind: "deconstruct", S: B("?s"), Pairs: []pair{{CP(P), B("?o")}}, Into: []string{"?a"}, From: []string{"?b"}, Where: qw},
		{Kind: "deconstruct", S: B("?s"), Pairs: []pair{{B("?p"), B("?o")}}, Into: []string{"?a", "?b"}, From: []string{"?a"}, Where: all},
		// must be rejected before execution starts
		{Kind: "raw", Raw: `INSERT DATA INTO ?a { /u<a> "p"@[] };`, MustReject: true},
		{Kind: "raw", Raw: `CONSTRUCT { ?s "q"@[] ?o } INTO ?b FROM ?zz WHERE { ?s "p"@[] ?o };`, MustReject: true},
		{Kind: "raw", Raw: `CONSTRUCT { ?s "q"@[] ?o } INTO ?zz FROM ?a WHERE { ?s "p"@[] ?o };`, MustReject: true},
		{Kind: "raw", Raw: `DECONSTRUCT { ?s "q"@[] ?o } IN ?zz FROM ?a WHERE { ?s "p"@[] ?o };`, MustReject: true},
		{Kind: "raw", Raw: `CONSTRUCT { ?s "q"@[] ?x } INTO ?b FROM ?a WHERE { ?s "p"@[] ?o };`, MustReject: true},
		// the unknown binding is NOT the first thing the template instantiates: a statement that starts executing writes
		// the earlier clauses / the reification triples before it notices
		{Kind: "raw", Raw: `CONSTRUCT { ?s "q"@[] ?o . ?s "w"@[] ?x } INTO ?b FROM ?a WHERE { ?s "p"@[] ?o };`, MustReject: true},
		{Kind: "raw", Raw: `CONSTRUCT { ?s "q"@[] ?o ; "w"@[] ?x } INTO ?b FROM ?a WHERE { ?s "p"@[] ?o };`, MustReject: true},
		{Kind: "raw", Raw: `DECONSTRUCT { ?s "p"@[] ?o . ?x "p"@[] ?o } IN ?a FROM ?a WHERE { ?s "p"@[] ?o };`, MustReject: true},
		{Kind: "raw", Raw: `DELETE DATA FROM ?a { /u<a> "p"@[] /u<b> } garbage;`, MustReject: true},
	}
}

// ---- model ---------------------------------------------------------------------------

// mgraph: plain triples by key + reified groups (each: sorted "pred obj" lines of one blank node).
type mgraph struct {
	plain  model.Graph
	groups []string
}

type mstore map[string]*mgraph

func (m mstore) clone() mstore {
	c := mstore{}
	for k, g := range m {
		c[k] = &mgraph{plain: g.plain.Clone(), groups: append([]string{}, g.groups...)}
	}
	return c
}

func (g *mgraph) canon() string {
	gs := append([]string{}, g.groups...)
	sort.Strings(gs)
	return g.plain.Canon() + "\n#groups:" + strings.Join(gs, "|")
}

func (m mstore) canon() string {
	var ns []string
	for n := range m {
		ns = append(ns, n)
	}
	sort.Strings(ns)
	var sb strings.Builder
	for _, n := range ns {
		sb.WriteString("[" + n + "]\n" + m[n].canon() + "\n")
	}
	return sb.String()
}

func (g *mgraph) triples() []*triple.Triple {
	var ts []*triple.Triple
	for _, t := range g.plain {
		ts = append(ts, t)
	}
	return ts
}

// instantiate a template term for a row.
func instP(t tterm, a bqlm.Assign) (*predicate.Predicate, bool) {
	switch {
	case t.P != nil:
		return t.P, true
	case t.Bind != "":
		v := a[t.Bind]
		return v.P, v.Kind == 'P'
	case t.ID != "":
		v := a[t.Anchor]
		if v.Kind != 'T' {
			return nil, false
		}
		return model.PT(t.ID, v.T), true
	}
	return nil, false
}

func instO(t tterm, a bqlm.Assign) (*triple.Object, bool) {
	switch {
	case t.O != nil:
		return t.O, true
	case t.N != nil:
		return model.ON(t.N), true
	case t.P != nil:
		return model.OP(t.P), true
	case t.Bind != "":
		v := a[t.Bind]
		switch v.Kind {
		case 'N':
			return model.ON(v.N), true
		case 'P':
			return model.OP(v.P), true
		case 'L':
			return model.OL(v.L), true
		}
		return nil, false
	case t.ID != "":
		v := a[t.Anchor]
		if v.Kind != 'T' {
			return nil, false
		}
		return model.OP(model.PT(t.ID, v.T)), true
	}
	return nil, false
}

func instS(t tterm, a bqlm.Assign) (*node.Node, bool) {
	if t.N != nil {
		return t.N, true
	}
	v := a[t.Bind]
	return v.N, v.Kind == 'N'
}

func reifPred(id string, p *predicate.Predicate) *predicate.Predicate {
	if p.Type() == predicate.Temporal {
		ta, _ := p.TimeAnchor()
		return model.PT(id, *ta)
	}
	return model.PI(id)
}

// outcome of applying a statement to the model.
type expect struct {
	wantErr   bool // the statement must fail
	mayFail   bool // failure is permitted (then only non-target graphs are constrained)
	unchanged bool // on failure nothing may change
	next      mstore
	targets   map[string]bool
	skip      bool // the model has no defined answer (template not instantiable)
	overlap   bool // FROM graphs share a triple: row multiplicities are left open
}

func apply(m mstore, s stmt) expect {
	e := expect{next: m.clone(), targets: map[string]bool{}}
	switch s.Kind {
	case "create":
		for _, g := range s.Graphs {
			e.targets[g] = true
			if _, ok := e.next[g]; ok {
				e.wantErr = true
				continue
			}
			e.next[g] = &mgraph{plain: model.Graph{}}
		}
	case "drop":
		for _, g := range s.Graphs {
			e.targets[g] = true
			if _, ok := e.next[g]; !ok {
				e.wantErr = true
				continue
			}
			delete(e.next, g)
		}
	case "insert", "delete":
		for _, g := range s.Graphs {
			e.targets[g] = true
			mg, ok := e.next[g]
			if !ok {
				e.wantErr = true
				continue
			}
			if s.Kind == "insert" {
				mg.plain.Add(s.Data...)
			} else {
				mg.plain.Remove(s.Data...)
			}
		}
	case "construct", "deconstruct":
		for _, g := range append(append([]string{}, s.Into...), s.From...) {
			if _, ok := m[g]; !ok {
				e.wantErr, e.unchanged = true, true
				return e
			}
		}
		var data []*triple.Triple
		for _, g := range s.From {
			data = append(data, m[g].triples()...)
			// reified groups of the source graphs take part in the pattern as triples on blank nodes
			data = append(data, m[g].blankTriples(g)...)
		}
		if len(bqlm.Dedup(data)) < len(data) {
			e.overlap = true
		}
		data = bqlm.Dedup(data)
		sols := bqlm.Solutions(s.Where, data, nil, nil)
		for _, g := range s.Into {
			e.targets[g] = true
		}
		for _, a := range sols {
			sb, ok1 := instS(s.S, a)
			p0, ok2 := instP(s.Pairs[0].P, a)
			o0, ok3 := instO(s.Pairs[0].O, a)
			if !ok1 || !ok2 || !ok3 {
				e.skip = true
				return e
			}
			if len(s.Pairs) == 1 {
				t := model.T(sb, p0, o0)
				for _, g := range s.Into {
					if s.Kind == "construct" {
						e.next[g].plain.Add(t)
					} else {
						e.next[g].plain.Remove(t)
					}
				}
				continue
			}
			// reification: three triples + extras on one fresh blank node
			lines := []string{
				model.PredKey(reifPred("_subject", p0)) + " " + model.ObjKey(model.ON(sb)),
				model.PredKey(reifPred("_predicate", p0)) + " " + model.ObjKey(model.OP(p0)),
				model.PredKey(reifPred("_object", p0)) + " " + model.ObjKey(o0),
			}
			for _, ex := range s.Pairs[1:] {
				pe, ok4 := instP(ex.P, a)
				oe, ok5 := instO(ex.O, a)
				if !ok4 || !ok5 {
					e.skip = true
					return e
				}
				lines = append(lines, model.PredKey(pe)+" "+model.ObjKey(oe))
			}
			sort.Strings(lines)
			for _, g := range s.Into {
				e.next[g].groups = append(e.next[g].groups, strings.Join(lines, " ; "))
			}
		}
	case "raw":
		e.wantErr, e.unchanged = true, true
	}
	if e.wantErr && (s.Kind == "create" || s.Kind == "drop" || s.Kind == "insert" || s.Kind == "delete") {
		// failing midway is documented as non atomic: the named graphs may be partially affected
		e.mayFail = true
	}
	return e
}

// blankTriples: the model does not keep blank node identities; patterns over
// graphs that hold reified groups are not generated precisely, so a source graph
// with groups makes the step "skip" (see apply's caller).
func (g *mgraph) blankTriples(name string) []*triple.Triple { return nil }

// adoptGroups takes the observed multiplicities of reified groups into the model
// (used after a step whose row multiplicities the property leaves open; the
// groups were already compared as sets).
func adoptGroups(m mstore, st storage.Store, targets map[string]bool) {
	obs, _, _ := observe(st)
	for n, mg := range m {
		if o, ok := obs[n]; ok && targets[n] {
			mg.groups = append([]string{}, o.groups...)
		}
	}
}

func uniq(s []string) []string {
	var out []string
	for i, x := range s {
		if i == 0 || x != s[i-1] {
			out = append(out, x)
		}
	}
	return out
}

// ---- implementation observation -----------------------------------------------------------

type gobs struct {
	exists bool
	plain  []string
	groups []string
	bad    string // freshness violation
}

func observe(st storage.Store) (map[string]*gobs, []string, string) {
	ln, err := model.GraphNames(st)
	if err != nil {
		return nil, nil, "GraphNames: " + err.Error()
	}
	out := map[string]*gobs{}
	blankHome := map[string]string{} // blank id -> graph+group
	for _, n := range ln {
		g, err := st.Graph(model.Ctx, n)
		if err != nil {
			return nil, nil, "Graph: " + err.Error()
		}
		ts, err := model.ListTriples(g, storage.DefaultLookup)
		if err != nil {
			return nil, nil, "Triples: " + err.Error()
		}
		o := &gobs{exists: true}
		byBlank := map[string][]string{}
		for _, t := range ts {
			isBlank := t.Subject().Type().String() == "/_"
			if on, err := t.Object().Node(); err == nil && on.Type().String() == "/_" {
				o.bad = "blank node used as an object: " + t.String()
			}
			if isBlank {
				id := t.Subject().ID().String()
				byBlank[id] = append(byBlank[id], model.PredKey(t.Predicate())+" "+model.ObjKey(t.Object()))
			} else {
				o.plain = append(o.plain, model.TripleKey(t))
			}
		}
		sort.Strings(o.plain)
		// the graph must also answer its two-component lookups from the same contents
		// (a statement that corrupts an index has changed the graph)
		if bad := indexedView(g, ts); bad != "" {
			o.bad = bad
		}
		for id, lines := range byBlank {
			sort.Strings(lines)
			o.groups = append(o.groups, strings.Join(lines, " ; "))
			_ = blankHome
			_ = id
		}
		sort.Strings(o.groups)
		out[n] = o
	}
	return out, ln, ""
}

// indexedView checks that every listed triple is found again through the S+P,
// P+O and S+O lookups of the driver.
func indexedView(g storage.Graph, ts []*triple.Triple) string {
	for _, t := range ts {
		want := model.TripleKey(t)
		found := func(got []*triple.Triple) bool {
			for _, x := range got {
				if model.TripleKey(x) == want {
					return true
				}
			}
			return false
		}
		drain := func(call func(ch chan *triple.Triple) error) []*triple.Triple {
			ch := make(chan *triple.Triple, 64)
			done := make(chan []*triple.Triple, 1)
			go func() {
				var out []*triple.Triple
				for x := range ch {
					out = append(out, x)
				}
				done <- out
			}()
			if err := call(ch); err != nil {
				return nil
			}
			return <-done
		}
		sp := drain(func(ch chan *triple.Triple) error {
			return g.TriplesForSubjectAndPredicate(model.Ctx, t.Subject(), t.Predicate(), storage.DefaultLookup, ch)
		})
		po := drain(func(ch chan *triple.Triple) error {
			return g.TriplesForPredicateAndObject(model.Ctx, t.Predicate(), t.Object(), storage.DefaultLookup, ch)
		})
		if !found(sp) || !found(po) {
			return "a listed triple is not returned by the S+P / P+O lookups of its graph: " + t.String()
		}
		pch := make(chan *predicate.Predicate, 64)
		okp := false
		go func() {
			g.PredicatesForSubjectAndObject(model.Ctx, t.Subject(), t.Object(), storage.DefaultLookup, pch)
		}()
		for pr := range pch {
			if model.PredKey(pr) == model.PredKey(t.Predicate()) {
				okp = true
			}
		}
		if !okp {
			return "a listed triple is not returned by the S+O lookup of its graph: " + t.String()
		}
	}
	return ""
}

func exec(st storage.Store, s stmt, bulk int) *bqlm.Result {
	return bqlm.Exec(st, s.Render(), 0, bulk, nil)
}

// execCancelled runs the statement under a context that is already done: it may fail, but if it reports success
// its effect must be the whole stated one.
func execCancelled(st storage.Store, s stmt, bulk int) *bqlm.Result {
	ctx, cancel := context.WithCancel(context.Background())
	cancel()
	return bqlm.ExecCtx(ctx, st, s.Render(), 0, bulk, nil)
}

type kase struct {
	Path []string `json:"statements"`
	Idx  []int    `json:"alphabet_indexes"`
	Seed int      `json:"seed_store"`
	Bulk int      `json:"bulk_size"`
}

func seedStores() [][]int {
	// as statement index sequences applied before the explored path
	return [][]int{{}, {0, 1, 3, 7, 8}, {2, 6, 8, 12}}
}

// replayPath runs seed + path on a fresh store and checks the last step against the model.
func checkPath(alpha []stmt, seed []int, path []int, bulk int) (ok bool, class, shape, detail string, next mstore, skipped bool) {
	st := memory.NewStore()
	m := mstore{}
	// bulk < 0: the LAST statement runs under a context that is already done (bulk size 1000)
	cancelled := bulk < 0
	if cancelled {
		bulk = 1000
	}
	full := append(append([]int{}, seed...), path...)
	for i, si := range full {
		s := alpha[si]
		hasGroups := false
		for _, g := range s.From {
			if mg, ok := m[g]; ok && len(mg.groups) > 0 {
				hasGroups = true
			}
		}
		e := apply(m, s)
		if hasGroups || e.skip {
			// patterns over reified groups / non-instantiable templates: no defined model answer
			return true, "", "", "", nil, true
		}
		last := i == len(full)-1
		var res *bqlm.Result
		if last && cancelled {
			res = execCancelled(st, s, bulk)
			if res.Stage != "" && res.Stage != "panic" && res.Stage != "hang" {
				// an error is an answer under a done context; what the store holds then is not judged
				return true, s.Kind, "", "", nil, false
			}
		} else {
			res = exec(st, s, bulk)
		}
		if !last {
			// earlier steps were checked when their own prefix was explored; only track the model
			failed := res.Stage != ""
			switch {
			case !failed && !e.wantErr:
				m = e.next
				if e.overlap {
					adoptGroups(m, st, e.targets)
				}
			case failed && !e.mayFail:
				// rejected: nothing changes
			default:
				obs, _, _ := observe(st)
				m = fromObs(obs, m, e)
			}
			continue
		}
		class = s.Kind
		text := s.Render()
		hist := func() string {
			var hs []string
			for _, x := range full {
				hs = append(hs, alpha[x].Render())
			}
			return strings.Join(hs, "\n ")
		}
		if res.Stage == "panic" || res.Stage == "hang" {
			return false, class, res.Stage + "@" + res.Stack, fmt.Sprintf("%s\n %s: %s", hist(), res.Stage, res.Err), nil, false
		}
		failed := res.Stage != ""
		if e.wantErr && !failed {
			return false, class, "accepted-but-must-fail", fmt.Sprintf("%s\n the last statement must fail (model: %s) but returned success", hist(), text), nil, false
		}
		if !e.wantErr && failed {
			return false, class, "failed:" + res.Stage, fmt.Sprintf("%s\n the last statement must succeed; got %s error: %s", hist(), res.Stage, res.Err), nil, false
		}
		obs, ln, bad := observe(st)
		if bad != "" {
			return false, class, "observation-error", hist() + "\n " + bad, nil, false
		}
		want := e.next
		if failed && (e.unchanged || !e.mayFail) {
			want = m
		}
		// compare every graph
		for _, n := range names {
			mg, mok := want[n]
			og, ook := obs[n]
			if failed && e.mayFail && e.targets[n] {
				continue // partial effects on the named graphs are documented as possible
			}
			if mok != ook {
				return false, class, "graph-existence", fmt.Sprintf("%s\n graph %s: model exists=%v, store lists %v", hist(), n, mok, ln), nil, false
			}
			if !mok {
				continue
			}
			if og.bad != "" {
				sh := "blank-node-not-fresh"
				if strings.Contains(og.bad, "of its graph") {
					sh = "listing-and-indexed-lookups-disagree"
				}
				return false, class, sh, hist() + "\n " + og.bad, nil, false
			}
			wp := mg.plain.Keys()
			wg := append([]string{}, mg.groups...)
			sort.Strings(wg)
			if e.overlap {
				// the same triple is stored in several FROM graphs: the number of solution
				// rows (hence of reified groups) is left open; compare the groups as sets
				wg, og.groups = uniq(wg), uniq(og.groups)
			}
			if !model.SameStrings(wp, og.plain) || !model.SameStrings(wg, og.groups) {
				sh := "graph-content"
				if !e.targets[n] {
					sh = "other-graph-changed"
				}
				return false, class, sh, fmt.Sprintf("%s\n graph %s\n want triples %v\n      groups %v\n got  triples %v\n      groups %v", hist(), n, wp, wg, og.plain, og.groups), nil, false
			}
		}
		if failed && e.mayFail {
			return true, "", "", "", fromObs(obs, m, e), false
		}
		if failed {
			return true, "", "", "", m, false
		}
		if e.overlap {
			adoptGroups(want, st, e.targets)
		}
		return true, "", "", "", want, false
	}
	return true, "", "", "", m, false
}

// fromObs rebuilds the model from the observed store (used only where the
// property grants latitude: partially failing CREATE / DROP / INSERT / DELETE).
func fromObs(obs map[string]*gobs, prev mstore, e expect) mstore {
	out := mstore{}
	for n, o := range obs {
		mg := &mgraph{plain: model.Graph{}, groups: append([]string{}, o.groups...)}
		// plain triples: recover from the union of what the model knew and the statement's data by key
		known := map[string]*triple.Triple{}
		for _, g := range prev {
			for k, t := range g.plain {
				known[k] = t
			}
		}
		for _, g := range e.next {
			for k, t := range g.plain {
				known[k] = t
			}
		}
		for _, k := range o.plain {
			if t, ok := known[k]; ok {
				mg.plain[k] = t
			}
		}
		out[n] = mg
	}
	return out
}

func main() {
	r := common.Start("C04", "model_checking")
	alpha := alphabet()
	seeds := seedStores()
	r.Replayer("step", func(raw json.RawMessage) (bool, string) {
		var k kase
		json.Unmarshal(raw, &k)
		ok, _, _, d, _, _ := checkPath(alpha, seeds[k.Seed], k.Idx, k.Bulk)
		return ok, d
	})
	r.MaybeReplay()
	_ = literal.Int64
	depth := r.Pick(4, 5)
	type nodeT struct{ path []int }
	states, trans, skippedN := 0, 0, 0
	var mu sync.Mutex
	outcomes := map[string]bool{}
	for si, seed := range seeds {
		seen := map[string]bool{}
		frontier := []nodeT{{}}
		// canonical of the seeded start
		for d := 0; d < depth && len(frontier) > 0; d++ {
			if r.OutOfTime() {
				break
			}
			type succ struct {
				path  []int
				canon string
			}
			results := make([][]succ, len(frontier))
			common.ParallelFor(len(frontier), func(i int) {
				for ai := range alpha {
					path := append(append([]int{}, frontier[i].path...), ai)
					for _, bulk := range []int{1000, 1, -1} {
						if bulk == 1 && alpha[ai].Kind != "construct" && alpha[ai].Kind != "deconstruct" {
							continue
						}
						if bulk == -1 && len(path) > 2 {
							continue // the done-context variant on the transitions out of the states of depth <= 1
						}
						ok, class, shape, detail, next, skipped := checkPath(alpha, seed, path, bulk)
						mu.Lock()
						trans++
						if skipped {
							skippedN++
						}
						outcomes[class+"/"+shape] = true
						mu.Unlock()
						if !ok {
							var hs []string
							for _, x := range path {
								hs = append(hs, alpha[x].Render())
							}
							r.Fail(common.Failure{Check: "step", Class: class, Shape: shape, Case: kase{hs, path, si, bulk}, Detail: detail})
							continue
						}
						if bulk == 1000 && next != nil && !skipped {
							results[i] = append(results[i], succ{path, next.canon()})
						}
					}
				}
			})
			var nf []nodeT
			for _, rs := range results {
				for _, s := range rs {
					if !seen[s.canon] {
						seen[s.canon] = true
						nf = append(nf, nodeT{s.path})
					}
				}
			}
			frontier = nf
		}
		states += len(seen)
	}
	r.Set("states", states)
	r.Set("transitions", trans)
	r.Set("traces_validated_against_impl", trans)
	r.Set("skipped_no_model_answer", skippedN)
	r.Set("statements", len(alpha))
	r.Set("depth", depth)
	r.Set("distinct_outcomes", len(outcomes))
	r.Set("evaluations", trans)
	r.Set("distinct_nontrivial", states)
	r.Set("rule", "BFS over statement sequences from 3 start stores, deduplicated by canonical store content (blank nodes up to renaming); every (state, statement, bulkSize) replayed on a fresh store")
	r.Sample(map[string]interface{}{"path": []string{alpha[2].Render(), alpha[7].Render(), alpha[16].Render()}})
	r.Assume("solution rows of CONSTRUCT / DECONSTRUCT come from the reference evaluator bqlm.Solutions over the union of the FROM graphs")
	r.Assume("latitude: CREATE / DROP / INSERT / DELETE failing midway may leave partial effects on the graphs they name; patterns over graphs that already hold reified (blank node) groups and templates that cannot be instantiated have no defined model answer and are skipped")
	r.Finish()
}
