#!/bin/bash
# cmd/c06/build.sh <output-binary>: the pair / definedness part is a plain build; the schedule
# part (cmd/c06s) is built against the instrumented copy of the CURRENT /repo tree.
set -e
out="$1"
here="$(cd "$(dirname "$0")/../.." && pwd)"
cd "$here"
. ./env.sh
case "$out" in /*) ;; *) out="$here/$out" ;; esac
mkdir -p work/bin work/instr
go build ${SEED_OVERLAY:+-overlay "$SEED_OVERLAY"} -o "$out" ./cmd/c06 &   # SEED_OVERLAY: trial builds against a changed copy of /repo (tools/seedcheck.py)
p1=$!
go build -o work/bin/instr ./instr
work/bin/instr -q -out work/instr/c06s -repo "${VSCHED_REPO:-/repo}" -overlay-root /repo \
  -pkgs ./triple/... \
  -exclude github.com/google/badwolf/triple/node
go build -overlay work/instr/c06s/overlay.json -o "$(dirname "$out")/c06s" ./cmd/c06s
wait $p1
