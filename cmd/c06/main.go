// C06 — equal UUID exactly when values are structurally equal; UUID defined
// for every value; stable across calls, goroutines and processes.
//
// Bounded-exhaustive enumeration (no sampling): a value universe built to
// contain every near-collision family the property names (type/id boundary
// moved, literal types with identical payload bytes, immutable vs temporal,
// one instant in several zones, byte strings that coincide across kinds,
// instants outside the UnixNano range) and ALL ordered pairs within each
// family of values that can occupy the same slot (nodes, predicates, literals,
// objects, triples). Definedness on every universe value and on the
// int64/float64 boundary sets; every UUID computed three times, once more from
// 8 concurrent goroutines, and once more in a second process (this binary
// re-executed with --dump-uuids).
package main

import (
	"bufio"
	"bytes"
	"encoding/hex"
	"encoding/json"
	"fmt"
	"math"
	"os"
	"os/exec"
	"path/filepath"
	"runtime/debug"
	"sort"
	"strings"
	"sync"
	"sync/atomic"
	"time"

	"github.com/google/badwolf/triple/node"

	"verif/common"
	"verif/model"
	"verif/vals"
)

// ---- universe ----------------------------------------------------------------------

type universe struct {
	fam   []string       // family names in order
	specs [][]*vals.Spec // per family
}

func instants(thorough bool) []time.Time   { return vals.NearInstants(thorough) }
func varint16(v int64) string              { return vals.Varint16(v) }
func nodeSpecs(thorough bool) []*vals.Spec { return vals.NearNodes(thorough) }
func predSpecs(thorough bool) []*vals.Spec { return vals.NearPreds(thorough) }
func litSpecs(thorough bool) []*vals.Spec  { return vals.NearLits(thorough) }
func specID(s *vals.Spec) string           { return vals.SpecID(s) }
func dedup(in []*vals.Spec) []*vals.Spec   { return vals.Dedup(in) }

func buildUniverse(thorough bool) *universe {
	ns, ps, ls := nodeSpecs(thorough), predSpecs(thorough), litSpecs(thorough)
	var os []*vals.Spec
	for _, s := range ns {
		os = append(os, vals.ObjSpec(s))
	}
	for _, s := range ps {
		os = append(os, vals.ObjSpec(s))
	}
	for _, s := range ls {
		os = append(os, vals.ObjSpec(s))
	}
	// triples: two products so that a pair of triples differs by at most one
	// colliding family (subjects x all objects is restricted to "plain"
	// subjects; the colliding subjects meet only plain objects).
	plainS := []*vals.Spec{vals.NodeSpec("/t", "a"), vals.NodeSpec("/t", "b")}
	collS := []*vals.Spec{vals.NodeSpec("/a/b", "c"), vals.NodeSpec("/a", "/bc"), vals.NodeSpec("/a/b/c", "a"), vals.NodeSpec("/a", "immutable")}
	t0 := model.T0
	tp := []*vals.Spec{vals.ImmSpec("p"), vals.TempSpec("p", t0), vals.TempSpec("p", t0.In(time.FixedZone("", 3600))), vals.TempSpec("p", t0.Add(time.Nanosecond)), vals.ImmSpec("q"),
		vals.TempSpec("p", time.Date(1500, 1, 1, 0, 0, 0, 0, time.UTC))}
	plainO := []*vals.Spec{vals.ObjSpec(vals.NodeSpec("/t", "b")), vals.ObjSpec(vals.TextSpec("x")), vals.ObjSpec(vals.ImmSpec("p")), vals.ObjSpec(vals.IntSpec(0)), vals.ObjSpec(vals.FloatSpec(0))}
	var allO []*vals.Spec
	step := 7
	if thorough {
		step = 2
	}
	for i := 0; i < len(os); i += step {
		allO = append(allO, os[i])
	}
	// always keep the objects the near-collision families need
	allO = append(allO, vals.ObjSpec(vals.NodeSpec("/a", "immutable")), vals.ObjSpec(vals.ImmSpec("/a")),
		vals.ObjSpec(vals.NodeSpec("/a/b", "c")), vals.ObjSpec(vals.NodeSpec("/a", "/bc")),
		vals.ObjSpec(vals.TextSpec("abcimmutable")), vals.ObjSpec(vals.ImmSpec("text\x00abc")),
		vals.ObjSpec(vals.TextSpec("true")), vals.ObjSpec(vals.BoolSpec(true)), vals.ObjSpec(vals.BlobSpec([]byte("true"))),
		vals.ObjSpec(vals.TempSpec("r", time.Date(1500, 1, 1, 0, 0, 0, 0, time.UTC))), vals.ObjSpec(vals.TempSpec("r", instants(false)[9])))
	allO = dedup(allO)
	var tr []*vals.Spec
	for _, s := range plainS {
		for _, p := range tp {
			for _, o := range allO {
				tr = append(tr, vals.TripleSpec(s, p, o))
			}
		}
	}
	for _, s := range collS {
		for _, p := range tp {
			for _, o := range plainO {
				tr = append(tr, vals.TripleSpec(s, p, o))
			}
		}
	}
	return &universe{fam: []string{"node", "predicate", "literal", "object", "triple"}, specs: [][]*vals.Spec{ns, dedup(ps), ls, dedup(os), dedup(tr)}}
}

// ---- UUIDs ---------------------------------------------------------------------------

func uuidOf(v *vals.Value) []byte {
	switch {
	case v.N != nil:
		return v.N.UUID()
	case v.P != nil:
		return v.P.UUID()
	case v.L != nil:
		return v.L.UUID()
	case v.O != nil:
		return v.O.UUID()
	}
	return v.T.UUID()
}

// identity used by the oracle: kind of value + structural key with anchors as
// instants (zone ignored, as the property states).
func identity(v *vals.Value) string {
	switch {
	case v.N != nil:
		return "node " + v.Key(false)
	case v.P != nil:
		return "predicate " + v.Key(false)
	case v.L != nil:
		return "literal " + v.Key(false)
	case v.O != nil:
		return "object[" + vals.ObjKind(v.O) + "] " + v.Key(false)
	}
	return "triple " + v.Key(false)
}

// ---- input classifier for a pair (predicate over the two specs alone) ------------------

func inUnixNanoRange(a *vals.Anchor) bool {
	// time.Time.UnixNano is defined between 1677-09-21T00:12:43.145224192Z and 2262-04-11T23:47:16.854775807Z
	const lo, hi = -9223372037, 9223372036
	if a.Sec < lo || a.Sec > hi {
		return false
	}
	if a.Sec == lo && a.Nsec < 145224192 {
		return false
	}
	if a.Sec == hi && a.Nsec > 854775807 {
		return false
	}
	return true
}

func litBytes(s *vals.Spec) (string, bool) {
	if s.T == "text" || s.T == "blob" {
		return s.T + "\x00" + string(s.V), true
	}
	if s.T == "bool" {
		return "bool\x00" + string(s.V), true
	}
	return "", false
}

// leafClass explains how two different leaf values (node/pred/lit, possibly of
// different kinds) relate; "" when no listed near-collision family applies.
func leafClass(a, b *vals.Spec) string {
	if a.K > b.K {
		a, b = b, a
	}
	switch {
	case a.K == "node" && b.K == "node":
		if a.T+string(a.ID) == b.T+string(b.ID) {
			return "nodes-with-equal-type+id-concatenation"
		}
	case a.K == "pred" && b.K == "pred":
		if a.ID == b.ID && a.A != nil && b.A != nil && (!inUnixNanoRange(a.A) || !inUnixNanoRange(b.A)) {
			return "temporal-predicates-same-id-anchor-outside-unixnano-range"
		}
	case a.K == "node" && b.K == "pred":
		nb := a.T + string(a.ID)
		if b.A == nil && nb == string(b.ID)+"immutable" {
			return "node-bytes-equal-immutable-predicate-bytes"
		}
		if b.A != nil && inUnixNanoRange(b.A) && nb == string(b.ID)+varint16(b.A.Time().UnixNano()) {
			return "node-bytes-equal-temporal-predicate-bytes"
		}
	case a.K == "lit" && b.K == "pred":
		if lb, ok := litBytes(a); ok && b.A == nil && lb == string(b.ID)+"immutable" {
			return "literal-bytes-equal-immutable-predicate-bytes"
		}
	}
	return ""
}

func unbox(s *vals.Spec) *vals.Spec {
	if s.K == "obj" {
		return s.O
	}
	return s
}

func pairClass(a, b *vals.Spec) string {
	if a.K == "triple" && b.K == "triple" {
		set := map[string]bool{}
		for _, pr := range [][2]*vals.Spec{{a.S, b.S}, {a.P, b.P}, {unbox(a.O), unbox(b.O)}} {
			if specID(pr[0]) == specID(pr[1]) {
				continue
			}
			x, y := vals.MustBuild(pr[0]), vals.MustBuild(pr[1])
			if identity(x) == identity(y) {
				continue // e.g. the same instant in another zone
			}
			c := leafClass(pr[0], pr[1])
			if c == "" {
				c = "unrelated-" + pr[0].K + "-" + pr[1].K
			}
			set[c] = true
		}
		var cs []string
		for c := range set {
			cs = append(cs, c)
		}
		sort.Strings(cs)
		if len(cs) == 0 {
			return "equal-values"
		}
		return strings.Join(cs, "+")
	}
	x, y := vals.MustBuild(a), vals.MustBuild(b)
	if identity(x) == identity(y) {
		return "equal-values"
	}
	if c := leafClass(unbox(a), unbox(b)); c != "" {
		return c
	}
	return "unrelated-" + unbox(a).K + "-" + unbox(b).K
}

// ---- pair check -------------------------------------------------------------------------

type paircase struct {
	A *vals.Spec `json:"a"`
	B *vals.Spec `json:"b"`
}

// checkPair is the oracle for one ordered pair (recomputes everything: used by replay).
func checkPair(a, b *vals.Spec) (ok bool, class, shape, detail string) {
	x, y := vals.MustBuild(a), vals.MustBuild(b)
	var ux, uy []byte
	var eq, eqDefined bool
	if p := vals.Guard(func() {
		ux, uy = uuidOf(x), uuidOf(y)
		if x.T != nil && y.T != nil {
			eq, eqDefined = x.T.Equal(y.T), true
		}
	}); p != nil {
		return false, pairClass(a, b), p.Shape(), p.Msg
	}
	return judge(a, b, identity(x) == identity(y), bytes.Equal(ux, uy), eq, eqDefined, ux, uy)
}

func judge(a, b *vals.Spec, same, sameUUID, eq, eqDefined bool, ux, uy []byte) (ok bool, class, shape, detail string) {
	if same == sameUUID && (!eqDefined || eq == same) {
		return true, "", "", ""
	}
	d := fmt.Sprintf("%s [%x] vs %s [%x]: structurally equal=%v, same UUID=%v", a.Short(), ux, b.Short(), uy, same, sameUUID)
	if eqDefined {
		d += fmt.Sprintf(", Triple.Equal=%v", eq)
	}
	switch {
	case sameUUID && !same:
		shape = "same-uuid-for-different-values"
	case !sameUUID && same:
		shape = "different-uuid-for-equal-values"
	default:
		shape = "triple-equal-disagrees-with-structural-equality"
	}
	return false, pairClass(a, b), shape, d
}

// ---- tables ----------------------------------------------------------------------------------

type table struct {
	vals [][]*vals.Value
	uuid [][][]byte
	id   [][]string
}

func computeTable(u *universe) (*table, []failure) {
	t := &table{}
	var fails []failure
	for f := range u.fam {
		vs := make([]*vals.Value, len(u.specs[f]))
		us := make([][]byte, len(vs))
		ids := make([]string, len(vs))
		for i, s := range u.specs[f] {
			vs[i] = vals.MustBuild(s)
			ids[i] = identity(vs[i])
			if p := vals.Guard(func() { us[i] = append([]byte{}, uuidOf(vs[i])...) }); p != nil {
				fails = append(fails, failure{s, p})
			}
		}
		t.vals, t.uuid, t.id = append(t.vals, vs), append(t.uuid, us), append(t.id, ids)
	}
	return t, fails
}

type failure struct {
	spec *vals.Spec
	p    *vals.Panic
}

func definedClass(s *vals.Spec) string {
	in := unbox(s)
	if s.K == "triple" {
		in = unbox(s.O)
	}
	if in.K == "lit" {
		return "uuid-of-" + in.T + "-literal"
	}
	return "uuid-of-" + in.K
}

type defcase struct {
	Value *vals.Spec `json:"value"`
}

// checkDefined: UUID returns, has 16 bytes, and is the same on three calls.
func checkDefined(s *vals.Spec) (ok bool, class, shape, detail string) {
	v := vals.MustBuild(s)
	var u [3][]byte
	if p := vals.Guard(func() {
		for i := range u {
			u[i] = append([]byte{}, uuidOf(v)...)
		}
	}); p != nil {
		return false, definedClass(s), p.Shape(), s.Short() + ": UUID() panics: " + p.Msg
	}
	if len(u[0]) != 16 {
		return false, definedClass(s), "uuid-not-16-bytes", fmt.Sprintf("%s: UUID() has %d bytes", s.Short(), len(u[0]))
	}
	if !bytes.Equal(u[0], u[1]) || !bytes.Equal(u[0], u[2]) {
		return false, definedClass(s), "uuid-differs-between-calls", fmt.Sprintf("%s: %x %x %x", s.Short(), u[0], u[1], u[2])
	}
	return true, "", "", ""
}

// dump prints "family index uuid" lines of the whole universe (child process).
func dump(thorough bool, w *bufio.Writer) {
	u := buildUniverse(thorough)
	for f := range u.fam {
		for i, s := range u.specs[f] {
			v := vals.MustBuild(s)
			var id []byte
			if p := vals.Guard(func() { id = uuidOf(v) }); p != nil {
				fmt.Fprintf(w, "%d %d panic\n", f, i)
				continue
			}
			fmt.Fprintf(w, "%d %d %s\n", f, i, hex.EncodeToString(id))
		}
	}
	w.Flush()
}

func childUUID(args ...string) (string, error) {
	cmd := exec.Command(os.Args[0], args...)
	cmd.Env = os.Environ()
	out, err := cmd.Output()
	return string(out), err
}

type xcase struct {
	Value *vals.Spec `json:"value"`
}

func main() {
	// child modes (before common.Start: they print nothing else)
	if len(os.Args) >= 3 && os.Args[1] == "--dump-uuids" {
		dump(os.Args[2] == "thorough", bufio.NewWriter(os.Stdout))
		return
	}
	if len(os.Args) >= 3 && os.Args[1] == "--uuid-of" {
		var s vals.Spec
		if err := json.Unmarshal([]byte(os.Args[2]), &s); err != nil {
			fmt.Println("bad spec")
			os.Exit(2)
		}
		fmt.Println(hex.EncodeToString(uuidOf(vals.MustBuild(&s))))
		return
	}
	debug.SetGCPercent(400)
	r := common.Start("C06", "model_checking")
	r.Replayer("pair", func(raw json.RawMessage) (bool, string) {
		var c paircase
		if err := json.Unmarshal(raw, &c); err != nil {
			common.Machinery("bad case: %v", err)
		}
		ok, _, sh, d := checkPair(c.A, c.B)
		if ok {
			return true, "UUID equality agrees with structural equality for " + c.A.Short() + " vs " + c.B.Short()
		}
		return ok, sh + ": " + d
	})
	r.Replayer("defined", func(raw json.RawMessage) (bool, string) {
		var c defcase
		if err := json.Unmarshal(raw, &c); err != nil {
			common.Machinery("bad case: %v", err)
		}
		ok, _, sh, d := checkDefined(c.Value)
		if ok {
			return true, "UUID defined and identical on 3 calls for " + c.Value.Short()
		}
		return ok, sh + ": " + d
	})
	r.Replayer("process", func(raw json.RawMessage) (bool, string) {
		var c xcase
		if err := json.Unmarshal(raw, &c); err != nil {
			common.Machinery("bad case: %v", err)
		}
		here := hex.EncodeToString(uuidOf(vals.MustBuild(c.Value)))
		js, _ := json.Marshal(c.Value)
		out, err := childUUID("--uuid-of", string(js))
		if err != nil {
			return false, "child process failed: " + err.Error()
		}
		there := strings.TrimSpace(out)
		return here == there, fmt.Sprintf("%s: this process %s, second process %s", c.Value.Short(), here, there)
	})
	r.Replayer("goroutines", func(raw json.RawMessage) (bool, string) {
		var c xcase
		if err := json.Unmarshal(raw, &c); err != nil {
			common.Machinery("bad case: %v", err)
		}
		v := vals.MustBuild(c.Value)
		want := append([]byte{}, uuidOf(v)...)
		var bad int32
		var wg sync.WaitGroup
		for g := 0; g < 8; g++ {
			wg.Add(1)
			go func() {
				defer wg.Done()
				for i := 0; i < 10000; i++ {
					if !bytes.Equal(uuidOf(v), want) {
						atomic.AddInt32(&bad, 1)
					}
				}
			}()
		}
		wg.Wait()
		return bad == 0, fmt.Sprintf("%s: %d of 80000 concurrent calls differ (free-running, not exhaustive over schedules)", c.Value.Short(), bad)
	})
	r.Replayer("sched", func(raw json.RawMessage) (bool, string) {
		bin := filepath.Join(common.Root(), "work", "bin", "c06s")
		out, err := exec.Command(bin, "--replay-case", string(raw)).CombinedOutput()
		if err != nil {
			if ee, ok := err.(*exec.ExitError); ok && ee.ExitCode() == 1 {
				return false, string(out)
			}
			common.Machinery("schedule replay: %v %s", err, out)
		}
		return true, string(out)
	})
	r.MaybeReplay()

	r.Assume("identity is structural via exported accessors: (type,id); (id, kind, instant regardless of zone); (literal type, value; float64 by IEEE bits, NaN excluded from pairs); object = kind of boxed value + boxed value; triple = its three parts")
	r.Assume("pairs are formed within each family of values that can occupy the same slot: node x node, predicate x predicate, literal x literal, object x object (this is where 'of the same kind' has force: an object boxes a node, a literal or a predicate, and Object.UUID is documented to be the UUID of the boxed value), triple x triple; a bare node is not compared with a bare predicate")
	r.Assume("triples combine a colliding subject only with plain objects and vice versa, so a failing triple pair is attributable to one family; triples combining two colliding families are not explored")
	r.Assume("'every goroutine', decided part: the schedule part (cmd/c06s, keys sched_*) runs two or three threads computing UUIDs / Triple.Equal of different values on the instrumented triple, literal and predicate packages with sync.Pool modelled (LIFO hand-out; scheduling points in front of Get and Put and after Put) and executes every schedule up to the deviation bound; triple/node is not instrumented (its pool is the real one)")
	r.Assume("'every goroutine', validated part: each UUID table is also recomputed concurrently by 8 free-running goroutines (they share the sync.Pool buffers) and compared with the sequential table; this part is NOT exhaustive over schedules")
	r.Assume("'every process': a second process of this same binary on this machine recomputes the whole table")

	th := r.Thorough()
	u := buildUniverse(th)
	tab, fails := computeTable(u)
	for _, f := range fails {
		r.Fail(common.Failure{Check: "defined", Class: definedClass(f.spec), Shape: f.p.Shape(), Case: defcase{f.spec}, Detail: f.spec.Short() + ": UUID() panics: " + f.p.Msg})
	}
	if len(fails) > 0 {
		r.Set("universe_values_with_undefined_uuid", len(fails))
	}
	total := 0
	for f, name := range u.fam {
		r.Set("universe_"+name+"s", len(u.specs[f]))
		total += len(u.specs[f])
	}
	r.Set("states", total)

	// -- definedness + stability on 3 calls: universe + full boundary sets (+NaN, + a blank node)
	var defs []*vals.Spec
	for f := range u.fam {
		defs = append(defs, u.specs[f]...)
	}
	s0, p0 := vals.NodeSpec("/t", "a"), vals.ImmSpec("p")
	for _, v := range vals.Int64Boundaries() {
		defs = append(defs, vals.IntSpec(v), vals.ObjSpec(vals.IntSpec(v)), vals.TripleSpec(s0, p0, vals.ObjSpec(vals.IntSpec(v))))
	}
	fl := append(vals.Float64Boundaries(), math.NaN(), math.Float64frombits(0x7ff8000000000001), math.Float64frombits(0xfff0000000000001))
	for _, v := range fl {
		defs = append(defs, vals.FloatSpec(v), vals.ObjSpec(vals.FloatSpec(v)), vals.TripleSpec(s0, p0, vals.ObjSpec(vals.FloatSpec(v))))
	}
	for _, t := range instants(true) {
		defs = append(defs, vals.TempSpec("p", t))
	}
	var defDone int64
	common.ParallelFor(len(defs), func(i int) {
		ok, c, sh, d := checkDefined(defs[i])
		atomic.AddInt64(&defDone, 1)
		if !ok {
			r.Fail(common.Failure{Check: "defined", Class: c, Shape: sh, Case: defcase{defs[i]}, Detail: d})
		}
	})
	// a blank node: defined and stable (its id is random, so it is not in any table)
	bn := node.NewBlankNode()
	if p := vals.Guard(func() {
		if !bytes.Equal(bn.UUID(), bn.UUID()) {
			r.Fail(common.Failure{Check: "defined", Class: "uuid-of-blank-node", Shape: "uuid-differs-between-calls", Case: defcase{vals.NodeSpec("/_", "blank")}, Detail: "blank node UUID differs between calls"})
		}
	}); p != nil {
		r.Fail(common.Failure{Check: "defined", Class: "uuid-of-blank-node", Shape: p.Shape(), Case: defcase{vals.NodeSpec("/_", "blank")}, Detail: p.Msg})
	}
	r.Set("definedness_values", int(defDone)+1)
	r.Set("int64_boundary_values", len(vals.Int64Boundaries()))
	r.Set("float64_boundary_values", len(fl))

	// -- all ordered pairs within each family
	pairs, collisions := int64(0), int64(0)
	for f := range u.fam {
		n := len(u.specs[f])
		isTriple := u.fam[f] == "triple"
		common.ParallelFor(n, func(i int) {
			if r.OutOfTime() {
				return
			}
			local, coll := int64(0), int64(0)
			j := 0
			defer func() {
				// a panic in Triple.Equal is a failure of the pair, not of the check
				if rec := recover(); rec != nil {
					r.Fail(common.Failure{Check: "pair", Class: pairClass(u.specs[f][i], u.specs[f][j]), Shape: "panic-in-triple-equal", Case: paircase{u.specs[f][i], u.specs[f][j]}, Detail: fmt.Sprint(rec)})
				}
			}()
			for ; j < n; j++ {
				local++
				ux, uy := tab.uuid[f][i], tab.uuid[f][j]
				if ux == nil || uy == nil {
					continue // undefined UUID: reported by the definedness pass
				}
				same, sameUUID := tab.id[f][i] == tab.id[f][j], bytes.Equal(ux, uy)
				eq, eqDef := false, false
				if isTriple {
					eq, eqDef = tab.vals[f][i].T.Equal(tab.vals[f][j].T), true
				}
				if same && i != j {
					coll++ // structurally equal pair of distinct universe entries (zones)
				}
				if ok, c, sh, d := judge(u.specs[f][i], u.specs[f][j], same, sameUUID, eq, eqDef, ux, uy); !ok {
					r.Fail(common.Failure{Check: "pair", Class: c, Shape: sh, Case: paircase{u.specs[f][i], u.specs[f][j]}, Detail: d})
				}
			}
			atomic.AddInt64(&pairs, local)
			atomic.AddInt64(&collisions, coll)
		})
	}
	r.Set("transitions", int(pairs))
	r.Set("ordered_pairs", int(pairs))
	r.Set("pairs_equal_but_distinct_entries", int(collisions))
	r.Add("evaluations", int(pairs)+int(defDone))
	r.Set("distinct_nontrivial", int(collisions))

	// -- stability: 8 goroutines recompute the table concurrently
	var wg sync.WaitGroup
	var concBad int64
	for g := 0; g < 8; g++ {
		wg.Add(1)
		go func(g int) {
			defer wg.Done()
			for rep := 0; rep < 3; rep++ {
				for f := range u.fam {
					n := len(tab.vals[f])
					for k := 0; k < n; k++ {
						i := (k*7 + g*131) % n // each goroutine walks the table in a different order
						if tab.uuid[f][i] == nil {
							continue
						}
						var got []byte
						if p := vals.Guard(func() { got = uuidOf(tab.vals[f][i]) }); p != nil || !bytes.Equal(got, tab.uuid[f][i]) {
							atomic.AddInt64(&concBad, 1)
							r.Fail(common.Failure{Check: "goroutines", Class: definedClass(u.specs[f][i]), Shape: "uuid-differs-under-concurrent-calls", Case: xcase{u.specs[f][i]},
								Detail: fmt.Sprintf("%s: sequential %x, concurrent %x", u.specs[f][i].Short(), tab.uuid[f][i], got)})
						}
					}
				}
			}
		}(g)
	}
	wg.Wait()
	r.Set("concurrent_recomputations", 8*3*total)

	// -- stability: every schedule of small concurrent scenarios (vsched engine)
	r.Set("schedule_part", runSchedulePart(r))

	// -- stability: second process
	out, err := childUUID("--dump-uuids", r.Tier)
	if err != nil {
		common.Machinery("second process failed: %v", err)
	}
	lines, compared := strings.Split(strings.TrimSpace(out), "\n"), 0
	if len(lines) != total {
		common.Machinery("second process printed %d UUIDs, universe has %d (universe not deterministic?)", len(lines), total)
	}
	for _, l := range lines {
		var f, i int
		var h string
		if _, err := fmt.Sscanf(l, "%d %d %s", &f, &i, &h); err != nil {
			common.Machinery("second process: bad line %q", l)
		}
		here := "panic"
		if tab.uuid[f][i] != nil {
			here = hex.EncodeToString(tab.uuid[f][i])
		}
		compared++
		if here != h {
			r.Fail(common.Failure{Check: "process", Class: definedClass(u.specs[f][i]), Shape: "uuid-differs-between-processes", Case: xcase{u.specs[f][i]},
				Detail: fmt.Sprintf("%s: this process %s, second process %s", u.specs[f][i].Short(), here, h)})
		}
	}
	r.Set("second_process_uuids_compared", compared)
	r.Set("traces_validated_against_impl", int(pairs))
	r.Sample(paircase{u.specs[0][2], u.specs[0][2+13]})
	r.Sample(paircase{u.specs[3][1], u.specs[3][len(u.specs[3])/2]})
	r.Set("rule", "all ordered pairs (x,y) within each family (node, predicate, literal, object, triple): UUID(x)=UUID(y) <=> same kind and structurally equal (anchors as instants), Triple.Equal likewise; UUID defined (no panic, 16 bytes) and identical on 3 calls for every universe value and the int64/float64 boundary sets; table identical when recomputed by 8 concurrent goroutines and by a second process; distinct_nontrivial = ordered pairs of distinct universe entries that are structurally equal")
	r.Finish()
}

// runSchedulePart runs the vsched scenarios binary (cmd/c06s) and folds its verdict into this run.
func runSchedulePart(r *common.Run) string {
	bin := filepath.Join(common.Root(), "work", "bin", "c06s")
	if _, err := os.Stat(bin); err != nil {
		common.Machinery("schedule part not built: %v", err)
	}
	cmd := exec.Command(bin, r.Tier, "--sub")
	cmd.Env = append(os.Environ(), "VERIF_ROOT="+common.Root())
	out, err := cmd.CombinedOutput()
	for _, l := range strings.Split(string(out), "\n") {
		if strings.HasPrefix(l, "SUB-FAIL ") {
			var f common.Failure
			if json.Unmarshal([]byte(l[len("SUB-FAIL "):]), &f) == nil {
				r.Fail(f)
			}
		}
		if strings.HasPrefix(l, "SUB-COV ") {
			var m map[string]interface{}
			if json.Unmarshal([]byte(l[len("SUB-COV "):]), &m) == nil {
				for k, v := range m {
					r.Set("sched_"+k, v)
				}
			}
		}
	}
	if err != nil {
		if ee, ok := err.(*exec.ExitError); !ok || ee.ExitCode() != 1 {
			common.Machinery("schedule part failed: %v %s", err, string(out))
		}
	}
	return "ran"
}
