// c06s — the schedule part of C06, on the vsched engine: "the UUID of a value is the same on every call, in every
// goroutine". Two or three threads compute UUIDs (and Triple.Equal) of DIFFERENT values at the same time, on the
// instrumented copy of the value packages with sync.Pool modelled (vsync.ModelPools: LIFO hand-out, a scheduling
// point in front of Get and Put and one after Put, so that whatever a caller still does with an item it has put back
// is a step other threads can get in front of). Every schedule up to the deviation bound is executed; in each one
// every returned UUID must be the one the value has sequentially (computed natively before the exploration) and
// every Equal verdict the structural one.
//
// Run by cmd/c06 (`c06s <tier> --sub`), which folds the result into C06's evidence.
package main

import (
	"bytes"
	"encoding/json"
	"fmt"
	"os"
	"strings"
	"time"

	"github.com/google/badwolf/triple"
	"github.com/google/badwolf/triple/literal"

	"verif/common"
	"verif/explore"
	"verif/model"
	"verif/vrt"
	"verif/vsync"
)

// a job of one thread: compute, twice, the UUID of one value / the verdict of one Equal
type job struct {
	name string
	f    func() []byte
	want []byte
}

type scen struct {
	Name string
	Jobs []job // one thread each
}

func uu(name string, f func() []byte) job { return job{name: name, f: f} }

func scenarios() []scen {
	a, b, c := model.N("/u", "a"), model.N("/u", "b"), model.N("/u", "c")
	p, q := model.PI("p"), model.PT("q", model.T1)
	l1, l2, l3 := model.L(literal.Int64, int64(1)), model.L(literal.Text, "one"), model.L(literal.Float64, 0.5)
	t1 := model.T(a, p, model.ON(b))
	t2 := model.T(b, q, model.OL(l1))
	t3 := model.T(c, p, model.OP(q))
	t1b := model.T(model.N("/u", "a"), model.PI("p"), model.ON(model.N("/u", "b"))) // t1 built a second time
	tu := func(t *triple.Triple) job {
		return uu("UUID of "+t.String(), func() []byte { u := t.UUID(); return u[:] })
	}
	lu := func(l *literal.Literal) job {
		return uu("UUID of "+l.String(), func() []byte { u := l.UUID(); return u[:] })
	}
	ou := func(o *triple.Object) job {
		return uu("UUID of object "+o.String(), func() []byte { u := o.UUID(); return u[:] })
	}
	pu := uu("UUID of "+q.String(), func() []byte { u := q.UUID(); return u[:] })
	nu := uu("UUID of "+a.String(), func() []byte { u := a.UUID(); return u[:] })
	eq := func(x, y *triple.Triple) job {
		return uu(fmt.Sprintf("(%s).Equal(%s)", x, y), func() []byte {
			if x.Equal(y) {
				return []byte{1}
			}
			return []byte{0}
		})
	}
	return []scen{
		{"triple|triple", []job{tu(t1), tu(t2)}},
		{"triple|triple|triple", []job{tu(t1), tu(t2), tu(t3)}},
		{"literal|literal", []job{lu(l1), lu(l2)}},
		{"literal|literal|literal", []job{lu(l1), lu(l2), lu(l3)}},
		{"triple|literal", []job{tu(t2), lu(l2)}},
		{"object|object", []job{ou(model.OL(l1)), ou(model.OL(l3))}},
		{"object|triple", []job{ou(model.OP(q)), tu(t3)}},
		{"predicate|node|triple", []job{pu, nu, tu(t1)}},
		{"equal|equal", []job{eq(t1, t1b), eq(t2, t1)}},
		{"equal|triple", []job{eq(t1b, t1), tu(t3)}},
	}
}

func find(name string) *scen {
	for _, s := range scenarios() {
		if s.Name == name {
			s := s
			// the sequential answers, computed natively (no controlled execution is active here)
			for i := range s.Jobs {
				s.Jobs[i].want = append([]byte{}, s.Jobs[i].f()...)
			}
			return &s
		}
	}
	return nil
}

func factory(name string) func() explore.Exec {
	s := find(name)
	if s == nil {
		return nil
	}
	return func() explore.Exec {
		got := make([][2][]byte, len(s.Jobs))
		return explore.Exec{
			Body: func() {
				var wg vsync.WaitGroup
				for i := range s.Jobs {
					i := i
					wg.Add(1)
					vrt.GoNamed(s.Jobs[i].name, func() {
						defer wg.Done()
						got[i][0] = append([]byte{}, s.Jobs[i].f()...)
						got[i][1] = append([]byte{}, s.Jobs[i].f()...)
					})
				}
				wg.Wait()
			},
			Check: func(out *vrt.Outcome) ([]explore.Verdict, string) {
				class := "concurrent-calls:" + s.Name
				if v := explore.GlobalVerdict(class, out); v != nil {
					return []explore.Verdict{*v}, string(out.Status)
				}
				var oc []string
				for i, j := range s.Jobs {
					for k := 0; k < 2; k++ {
						oc = append(oc, fmt.Sprintf("%x", got[i][k]))
						if !bytes.Equal(got[i][k], j.want) {
							shape := "uuid-differs-from-the-sequential-one"
							if len(j.want) == 1 {
								shape = "equal-verdict-differs-from-the-sequential-one"
							}
							return []explore.Verdict{{Class: class, Shape: shape,
								Detail: fmt.Sprintf("%s, call %d in its thread: sequentially %x, in this schedule %x", j.name, k+1, j.want, got[i][k])}}, "differs"
						}
					}
				}
				return nil, strings.Join(oc, " ")
			},
		}
	}
}

type schedCase struct {
	Variant string `json:"variant"`
	Bound   int    `json:"bound"`
	Choices []int  `json:"choices"`
}

func cfg() vrt.Config { return vrt.Config{Procs: 2, MaxTicks: 200000, MaxSteps: 20000} }

func main() {
	vsync.ModelPools = true
	explore.ServeWorker(factory)
	tier, sub, replay := "quick", false, ""
	for i, a := range os.Args[1:] {
		switch a {
		case "quick", "thorough":
			tier = a
		case "--sub":
			sub = true
		case "--replay-case":
			replay = os.Args[i+2]
		}
	}
	if replay != "" {
		var c schedCase
		json.Unmarshal([]byte(replay), &c)
		if find(c.Variant) == nil {
			fmt.Println("unknown variant")
			os.Exit(2)
		}
		cf := cfg()
		cf.Diag = true
		out, vs, oc, bad := explore.Replay(cf, factory(c.Variant), c.Choices)
		if bad != "" {
			fmt.Println("MACHINERY-ERROR: NONDETERMINISM", bad)
			os.Exit(2)
		}
		for _, v := range vs {
			if !v.Info {
				fmt.Printf("FAILS %s: %s\n%s\n", v.Shape, v.Detail, vrt.FormatTrace(out.Trace))
				os.Exit(1)
			}
		}
		fmt.Println("held:", oc)
		return
	}
	maxB := 3
	budget := 60 * time.Second
	if tier == "thorough" {
		maxB, budget = 6, 10*time.Minute
	}
	deadline := time.Now().Add(budget).UnixMilli()
	cov := map[string]interface{}{}
	totalExec, totalHB := 0, 0
	var per []map[string]interface{}
	rc := 0
	minCompleted := 99
	for _, s := range scenarios() {
		completed := -1
		var acc *explore.Result
		for b := 0; b <= maxB; b++ {
			var jobs []explore.Job
			n := 8
			if b == 0 {
				n = 1
			}
			for sh := 0; sh < n; sh++ {
				jobs = append(jobs, explore.Job{Scenario: s.Name, Opt: explore.Options{Mode: explore.Bounded, Bound: b, OnlyLevel: b > 0, Shard: sh, Shards: n, DeadlineMs: deadline, Cfg: cfg()}})
			}
			res, err := explore.RunJobs(jobs, 16)
			if err != nil {
				fmt.Println("MACHINERY-ERROR: worker failed:", err)
				os.Exit(2)
			}
			m := explore.Merge(res)
			if m.Nondet != "" {
				fmt.Println("MACHINERY-ERROR: NONDETERMINISM", s.Name, m.Nondet)
				os.Exit(2)
			}
			if acc == nil {
				acc = m
			} else {
				acc = explore.Merge([]*explore.Result{acc, m})
			}
			if !m.Complete {
				break
			}
			completed = b
		}
		if completed < minCompleted {
			minCompleted = completed
		}
		for _, f := range acc.Failures {
			cf := common.Failure{Check: "sched", Class: f.Class, Shape: f.Shape, Case: schedCase{s.Name, completed, f.Choices}, Detail: fmt.Sprintf("%s schedule %v (%d failing schedules): %s", s.Name, f.Choices, f.Count, f.Detail)}
			b, _ := json.Marshal(cf)
			fmt.Println("SUB-FAIL " + string(b))
			rc = 1
		}
		totalExec += acc.Executions
		totalHB += acc.DistinctHB
		per = append(per, map[string]interface{}{"scenario": s.Name, "schedules": acc.Executions, "bound_completed": completed, "distinct_outcomes": len(acc.Outcomes), "distinct_partial_orders": acc.DistinctHB, "max_steps": acc.MaxSteps, "threads": acc.MaxThreads})
		fmt.Printf("  c06s %-26s schedules=%-7d bound_completed=%d outcomes=%d partial-orders=%d max-steps=%d threads=%d failures=%d\n", s.Name, acc.Executions, completed, len(acc.Outcomes), acc.DistinctHB, acc.MaxSteps, acc.MaxThreads, len(acc.Failures))
	}
	cov["schedules"] = totalExec
	cov["scenarios"] = per
	cov["deviation_bound_completed_in_every_scenario"] = minCompleted
	cov["distinct_partial_orders_total"] = totalHB
	b, _ := json.Marshal(cov)
	fmt.Println("SUB-COV " + string(b))
	if !sub && rc != 0 {
		fmt.Println("VIOLATION property=C06 replay=(run through ./vcheck C06)")
	}
	os.Exit(rc)
}
