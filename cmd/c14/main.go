// C14 — query results depend only on data and query meaning, not on order or scheduling.
//
// Metamorphic closure, checked exhaustively over a query corpus (all one-clause
// shapes, two-clause shapes over a reduced vocabulary, three-clause chains in
// thorough) x designed graphs: every consistent renaming of the bindings from a
// pool of 4 names; chanSize in {0,1,3}; GOMAXPROCS in {1,2,4}; repeated
// execution; every assignment of the (<= 5) triples to 3 FROM graphs; every
// permutation of the clauses; every one-triple superset of the data never
// loses a row; ORDER BY with a total order returns the same row sequence.
// No reference model is involved: the oracle is agreement between executions.
//
// The schedule part of the property (planner goroutines) is explored by the
// vsched engine in cmd/c14s and merged into the same evidence file.
package main

import (
	"time"
	"encoding/json"

	"fmt"
	"github.com/google/badwolf/triple/literal"
	"os"
	"os/exec"
	"path/filepath"
	"runtime"
	"sort"
	"strings"
	"sync"
	"sync/atomic"

	"github.com/google/badwolf/storage"
	"github.com/google/badwolf/triple"

	"verif/bqlm"
	"verif/common"
	"verif/model"
)

type kase struct {
	Relation string   `json:"relation"`
	Base     string   `json:"base_statement"`
	Variant  string   `json:"variant"`
	Data     []string `json:"data"`
	Gen      string   `json:"gen"`
}

// ---- corpus -----------------------------------------------------------------------------

func reducedClauses(thorough bool) []bqlm.Clause {
	ss := []bqlm.Term{{Kind: bqlm.Const, N: bqlm.NA}, {Kind: bqlm.Bind}}
	ps := []bqlm.Term{{Kind: bqlm.Const, P: bqlm.PImm}, {Kind: bqlm.AnchorBind, ID: "p"}, {Kind: bqlm.Bind}}
	os := []bqlm.Term{{Kind: bqlm.Const, N: bqlm.NB}, {Kind: bqlm.AnchorBind, ID: "p"}, {Kind: bqlm.Bind}}
	if thorough {
		ps = append(ps, bqlm.Term{Kind: bqlm.Const, P: bqlm.PT1}, bqlm.Term{Kind: bqlm.Bound, ID: "p"})
		os = append(os, bqlm.Term{Kind: bqlm.Const, O: model.OL(bqlm.LInt)})
	}
	var out []bqlm.Clause
	for _, s := range ss {
		for _, p := range ps {
			for _, o := range os {
				out = append(out, bqlm.Clause{S: s, P: p, O: o})
			}
		}
	}
	return out
}

func corpus(thorough bool) [][]bqlm.Clause {
	var out [][]bqlm.Clause
	for _, b := range bqlm.BaseClauses() {
		for _, named := range bqlm.Namings([]bqlm.Clause{b}) {
			if len(named[0].Bindings()) == 0 {
				continue
			}
			out = append(out, named)
			for _, m := range bqlm.ModifiersFor(named[0]) {
				out = append(out, []bqlm.Clause{bqlm.WithModifier(named[0], m, "?m0")})
			}
		}
	}
	rc := reducedClauses(thorough)
	for i := range rc {
		for j := range rc {
			for _, named := range bqlm.Namings([]bqlm.Clause{rc[i], rc[j]}) {
				if len(bqlm.AllBindings(named)) == 0 {
					continue
				}
				out = append(out, named)
			}
		}
	}
	// two clauses, one extraction modifier on the FIRST clause (state kept by the clause
	// hooks between clauses shows up as a dependence on the clause order)
	for i := range rc {
		if !thorough && i%3 != 0 {
			continue
		}
		for j := range rc {
			for _, named := range bqlm.Namings([]bqlm.Clause{rc[i], rc[j]}) {
				for _, m := range bqlm.ModifiersFor(named[0]) {
					out = append(out, []bqlm.Clause{bqlm.WithModifier(named[0], m, "?m0"), named[1]})
				}
			}
		}
	}
	// the same alias name on BOTH clauses (a value only the join's compatibility check compares), next to whatever
	// else the two clauses share
	for i := range rc {
		if !thorough && i%6 != 1 {
			continue
		}
		for j := range rc {
			for _, named := range bqlm.Namings([]bqlm.Clause{rc[i], rc[j]}) {
				shared := false
				for _, b1 := range named[0].Bindings() {
					for _, b2 := range named[1].Bindings() {
						shared = shared || b1 == b2
					}
				}
				if !shared {
					continue
				}
				st := bqlm.Modifier{Pos: 'S', Kind: "TYPE"}
				out = append(out, []bqlm.Clause{bqlm.WithModifier(named[0], st, "?m0"), bqlm.WithModifier(named[1], st, "?m0")})
			}
		}
	}
	// time bounds taken from a binding of an earlier clause: the planner derives the
	// lookup options of every row from shared options
	out = append(out, bqlm.BoundAliasShapes()...)
	// a clause without bindings whose predicate is only partly given (id and time range): it is an existence test that
	// the driver answers with every predicate between that subject and object, filtered afterwards
	t1, t2 := model.T1, model.T2
	for _, bp := range []bqlm.Term{{Kind: bqlm.Bound, ID: "p"}, {Kind: bqlm.Bound, ID: "p", Lo: &t1, Hi: &t2}} {
		guard := bqlm.Clause{S: bqlm.Term{Kind: bqlm.Const, N: bqlm.NA}, P: bp, O: bqlm.Term{Kind: bqlm.Const, N: bqlm.NB}}
		for i := range rc {
			for _, named := range bqlm.Namings([]bqlm.Clause{rc[i]}) {
				if len(named[0].Bindings()) == 0 {
					continue
				}
				out = append(out, []bqlm.Clause{guard, named[0]}, []bqlm.Clause{named[0], guard})
			}
		}
	}
	// three clauses: one that gives rows, a fully written-out triple with an alias, and one whose only link to the rest
	// is that alias (the alias must be known to the clauses that follow, in every order of writing)
	{
		P := bqlm.Term{Kind: bqlm.Const, P: bqlm.PImm}
		firsts := []bqlm.Clause{
			{S: bqlm.Term{Kind: bqlm.Bind, Name: "?s"}, P: bqlm.Term{Kind: bqlm.Const, P: bqlm.PT1}, O: bqlm.Term{Kind: bqlm.Bind, Name: "?o"}},
			{S: bqlm.Term{Kind: bqlm.Bind, Name: "?s"}, P: P, O: bqlm.Term{Kind: bqlm.Bind, Name: "?o"}},
		}
		aliased := []bqlm.Clause{
			{S: bqlm.Term{Kind: bqlm.Const, N: bqlm.NA}, P: P, O: bqlm.Term{Kind: bqlm.Const, N: bqlm.NB, As: "?m"}},
			{S: bqlm.Term{Kind: bqlm.Const, N: bqlm.NA, As: "?m"}, P: P, O: bqlm.Term{Kind: bqlm.Const, N: bqlm.NB}},
		}
		thirds := []bqlm.Clause{
			{S: bqlm.Term{Kind: bqlm.Bind, Name: "?m"}, P: P, O: bqlm.Term{Kind: bqlm.Bind, Name: "?z"}},
			{S: bqlm.Term{Kind: bqlm.Bind, Name: "?z"}, P: P, O: bqlm.Term{Kind: bqlm.Bind, Name: "?m"}},
		}
		for _, c1 := range firsts {
			for _, c2 := range aliased {
				for _, c3 := range thirds {
					out = append(out, []bqlm.Clause{c1, c2, c3})
				}
			}
		}
	}
	// OPTIONAL second clause (relations: renaming, chanSize, processors, repetition, partition)
	for i := range rc {
		for j := range rc {
			if !thorough && (i+j)%3 != 0 {
				continue
			}
			for _, named := range bqlm.Namings([]bqlm.Clause{rc[i], rc[j]}) {
				if len(named[0].Bindings()) == 0 {
					continue
				}
				named[1].Optional = true
				out = append(out, named)
			}
		}
	}
	// aggregate form (GROUP BY the first binding, count and count distinct of the second): same relations
	for bi, b := range bqlm.BaseClauses() {
		so := b.S.Kind == bqlm.Bind && b.O.Kind == bqlm.Bind // subject and object columns: always taken
		if !thorough && bi%4 != 0 && !so {
			continue
		}
		for _, named := range bqlm.Namings([]bqlm.Clause{b}) {
			if len(named[0].Bindings()) >= 2 {
				named[0].Tag = "agg"
				out = append(out, named)
				o := append([]bqlm.Clause{}, named...)
				o[0].Tag = "aggO"
				out = append(out, o)
			}
		}
	}
	for i := range rc {
		for j := range rc {
			if !thorough && (i+j)%5 != 0 {
				continue
			}
			for _, named := range bqlm.Namings([]bqlm.Clause{rc[i], rc[j]}) {
				if len(bqlm.AllBindings(named)) >= 2 {
					named[0].Tag = "agg"
					out = append(out, named)
				}
			}
		}
	}
	if thorough {
		// three-clause chains over a smaller vocabulary
		var small []bqlm.Clause
		for i, c := range rc {
			if i%3 == 0 {
				small = append(small, c)
			}
		}
		for _, a := range small {
			for _, b := range small {
				for _, c := range small {
					ns := bqlm.Namings([]bqlm.Clause{a, b, c})
					for k := 0; k < len(ns); k += 7 { // every 7th sharing pattern, fixed stride
						if len(bqlm.AllBindings(ns[k])) > 0 {
							out = append(out, ns[k])
						}
					}
				}
			}
		}
	}
	return out
}

func graphs() [][]*triple.Triple {
	T := model.T
	a, b, c := bqlm.NA, bqlm.NB, bqlm.NC
	p, p1, p2 := bqlm.PImm, bqlm.PT1, bqlm.PT2
	return [][]*triple.Triple{
		{T(a, p, model.ON(b)), T(b, p, model.ON(c)), T(c, p, model.ON(a)), T(a, p1, model.ON(b)), T(a, p2, model.OL(bqlm.LInt)), T(b, bqlm.PT1Z, model.ON(c))}, // the last one: the instant of p1 written in another zone
		{T(a, p, model.OL(bqlm.LInt)), T(a, p, model.ON(b)), T(a, p, model.OP(p1)), T(b, p1, model.OP(p2)), T(a, p1, model.OP(p1))},
		{T(a, p, model.ON(a)), T(a, p1, model.ON(a)), T(c, p2, model.OP(p2)), T(a, bqlm.QT2, model.ON(b))},
		// one object column alternating between kinds, values repeated across subjects: b, "x", a, "x", b (a grouping
		// column whose groups are not contiguous after a kind-blind sort)
		{T(model.N("/u", "s1"), p, model.ON(b)), T(model.N("/u", "s2"), p, model.OL(bqlm.LText)), T(model.N("/u", "s3"), p, model.ON(a)), T(model.N("/u", "s4"), p, model.OL(bqlm.LText)), T(model.N("/u", "s5"), p, model.ON(b))},
		bqlm.BoundAliasGraphs()[0]["?g"],
	}
}

func extras() []*triple.Triple {
	T := model.T
	a, b, c := bqlm.NA, bqlm.NB, bqlm.NC
	return []*triple.Triple{
		T(b, bqlm.PImm, model.ON(a)), T(a, bqlm.PT3, model.ON(b)), T(c, bqlm.PImm, model.OL(bqlm.LInt)),
		T(a, bqlm.QImm, model.OP(bqlm.PT1)), T(a, bqlm.PT1, model.ON(c)), T(b, bqlm.PT2, model.OP(bqlm.PT1)),
		// other predicates between a and b, printed before and after "p": whatever the driver lists first
		T(a, model.PI("a"), model.ON(b)), T(a, model.PT("a", model.T1), model.ON(b)), T(a, model.PI("z"), model.ON(b)),
	}
}

// ---- execution helpers ----------------------------------------------------------------------

type outcome struct {
	failed bool
	stage  string
	rows   []string // sorted canonical rows over the output columns (sorted by name)
	seq    []string // in returned order
}

func run(st storage.Store, q *bqlm.Query, chanSize int) outcome {
	res := bqlm.Exec(st, q.Render(), chanSize, 0, nil)
	if res.Stage != "" || res.NilBoth {
		return outcome{failed: true, stage: res.Stage}
	}
	return outcome{rows: res.Sorted(), seq: res.Rows}
}

func isAgg(cs []bqlm.Clause) bool { return len(cs) > 0 && (cs[0].Tag == "agg" || cs[0].Tag == "aggO") }

func query(cs []bqlm.Clause, from []string) *bqlm.Query {
	if isAgg(cs) {
		bs := bqlm.AllBindings(cs) // order of first appearance: stable under renaming
		if cs[0].Tag == "aggO" && len(bs) >= 2 {
			// group by the LAST binding (usually an object column, which mixes kinds), count the first
			bs = []string{bs[len(bs)-1], bs[0]}
		}
		return &bqlm.Query{From: from, Where: cs, GroupBy: []string{bs[0]}, Proj: []bqlm.Proj{{Binding: bs[0]},
			{Binding: bs[1], Op: "count", Alias: "?cnt"}, {Binding: bs[1], Op: "count", Distinct: true, Alias: "?dst"}}}
	}
	return &bqlm.Query{From: from, Where: cs, Proj: bqlm.SelectAll(cs)}
}

// usesBoundBindings: a time bound taken from a binding ("p"@[?t,]) is only defined when an
// earlier clause binds it, so such patterns are not permuted.
func usesBoundBindings(cs []bqlm.Clause) bool {
	for _, c := range cs {
		if c.P.LoName+c.P.HiName+c.O.LoName+c.O.HiName != "" {
			return true
		}
	}
	return false
}

func hasOptional(cs []bqlm.Clause) bool {
	for _, c := range cs {
		if c.Optional {
			return true
		}
	}
	return false
}

// rename applies a consistent renaming to every binding of the clauses.
func rename(cs []bqlm.Clause, m map[string]string) []bqlm.Clause {
	out := make([]bqlm.Clause, len(cs))
	r := func(s string) string {
		if v, ok := m[s]; ok {
			return v
		}
		return s
	}
	for i, c := range cs {
		for _, t := range []*bqlm.Term{&c.S, &c.P, &c.O} {
			t.Name, t.As, t.IDAlias, t.TypeAlias, t.AtAlias = r(t.Name), r(t.As), r(t.IDAlias), r(t.TypeAlias), r(t.AtAlias)
			t.LoName, t.HiName = r(t.LoName), r(t.HiName)
		}
		out[i] = c
	}
	return out
}

// renameRows maps canonical rows ("?a=...;?b=...;") back through inverse names and re-sorts columns.
func renameRows(rows []string, inv map[string]string) []string {
	out := make([]string, 0, len(rows))
	for _, r := range rows {
		parts := strings.Split(strings.TrimSuffix(r, ";"), ";")
		var cols []string
		for _, p := range parts {
			if i := strings.Index(p, "="); i > 0 {
				n := p[:i]
				if v, ok := inv[n]; ok {
					n = v
				}
				cols = append(cols, n+p[i:])
			}
		}
		sort.Strings(cols)
		out = append(out, strings.Join(cols, ";")+";")
	}
	sort.Strings(out)
	return out
}

func sortCols(rows []string) []string { return renameRows(rows, map[string]string{}) }

var pool = []string{"?k", "?a", "?zz", "?B"}

// injections enumerates all injective maps from bs into the pool.
func injections(bs []string) []map[string]string {
	var out []map[string]string
	var rec func(i int, used []bool, cur map[string]string)
	rec = func(i int, used []bool, cur map[string]string) {
		if i == len(bs) {
			m := map[string]string{}
			for k, v := range cur {
				m[k] = v
			}
			out = append(out, m)
			return
		}
		for j, n := range pool {
			if !used[j] {
				used[j] = true
				cur[bs[i]] = n
				rec(i+1, used, cur)
				used[j] = false
			}
		}
	}
	if len(bs) <= len(pool) {
		rec(0, make([]bool, len(pool)), map[string]string{})
	}
	return out
}

func same(a, b []string) bool { return model.SameStrings(a, b) }

func contains(hay, needle []string) bool {
	i := 0
	for _, n := range needle {
		for i < len(hay) && hay[i] < n {
			i++
		}
		if i >= len(hay) || hay[i] != n {
			return false
		}
		i++
	}
	return true
}

type ctx struct {
	r     *common.Run
	evals int64
	nontr int64
	skips int64
	rels  sync.Map
}

func (c *ctx) fail(rel string, base *bqlm.Query, variant string, data []*triple.Triple, gen, detail string) {
	var ds []string
	for _, t := range data {
		ds = append(ds, t.String())
	}
	shape := "rows-differ"
	if strings.HasPrefix(detail, "variant failed") {
		shape = "variant-fails"
	}
	if i := strings.IndexAny(rel, "=,"); i > 0 && strings.HasPrefix(rel, "chanSize") {
		rel = "chanSize-or-processors"
	}
	c.r.Fail(common.Failure{Check: "rel", Class: "relation:" + rel + "," + bqlm.Classify(base, data), Shape: shape, Case: kase{rel, base.Render(), variant, ds, gen}, Detail: detail})
}

func diff(rel string, base, got outcome) (bool, string) {
	if got.failed {
		return false, "variant failed at stage " + got.stage + " while the base query returned rows"
	}
	if !same(sortCols(base.rows), sortCols(got.rows)) {
		return false, fmt.Sprintf("base rows (%d): %v\n variant rows (%d): %v", len(base.rows), base.rows, len(got.rows), got.rows)
	}
	return true, ""
}

// ---- relations --------------------------------------------------------------------------------

func (c *ctx) relationsOnStore(ci int, cs []bqlm.Clause, gi int, data []*triple.Triple, st storage.Store, procsTag string) {
	q := query(cs, []string{"?g"})
	base := run(st, q, 0)
	atomic.AddInt64(&c.evals, 1)
	if base.failed {
		atomic.AddInt64(&c.skips, 1)
		return
	}
	if len(base.rows) > 0 {
		atomic.AddInt64(&c.nontr, 1)
	}
	gen := fmt.Sprintf("%d:%d", ci, gi)
	// (d) run twice, (b) channel sizes
	for _, cs2 := range []int{0, 1, 3} {
		o := run(st, q, cs2)
		atomic.AddInt64(&c.evals, 1)
		if ok, d := diff("chan", base, o); !ok {
			c.fail(fmt.Sprintf("chanSize=%d%s", cs2, procsTag), q, q.Render(), data, gen, d)
		}
	}
	if procsTag != "" {
		return // the remaining relations do not depend on the processor count; done once
	}
	// (a) every consistent renaming from a pool of 4 names
	bs := bqlm.AllBindings(cs)
	inj := injections(bs)
	if len(cs) > 1 && !c.r.Thorough() && len(inj) > 4 {
		// quick: multi-clause queries get 4 renamings spread over the enumeration (all of them in thorough)
		inj = []map[string]string{inj[0], inj[len(inj)/3], inj[2*len(inj)/3], inj[len(inj)-1]}
	}
	for _, m := range inj {
		inv := map[string]string{}
		for k, v := range m {
			inv[v] = k
		}
		rq := query(rename(cs, m), []string{"?g"})
		o := run(st, rq, 0)
		atomic.AddInt64(&c.evals, 1)
		if o.failed {
			c.fail("renaming", q, rq.Render(), data, gen, "variant failed at stage "+o.stage)
			continue
		}
		if !same(sortCols(base.rows), renameRows(o.rows, inv)) {
			c.fail("renaming", q, rq.Render(), data, gen, fmt.Sprintf("base rows: %v\n renamed rows: %v", base.rows, o.rows))
		}
	}
	// (f) every permutation of the clauses (no OPTIONAL)
	if len(cs) > 1 && !hasOptional(cs) && !usesBoundBindings(cs) && !isAgg(cs) {
		perm(len(cs), func(p []int) {
			identity := true
			for i, x := range p {
				identity = identity && i == x
			}
			if identity {
				return
			}
			pc := make([]bqlm.Clause, len(cs))
			for i, x := range p {
				pc[i] = cs[x]
			}
			pq := query(pc, []string{"?g"})
			o := run(st, pq, 0)
			atomic.AddInt64(&c.evals, 1)
			if ok, d := diff("perm", base, o); !ok {
				c.fail("clause-order", q, pq.Render(), data, gen, d)
			}
		})
	}
}

// uniformColumns reports whether every column of the canonical rows holds values of one kind.
func uniformColumns(rows []string) bool {
	kinds := map[string]string{}
	for _, r := range rows {
		for _, part := range strings.Split(strings.TrimSuffix(r, ";"), ";") {
			i := strings.Index(part, "=")
			if i < 0 {
				continue
			}
			col, v := part[:i], part[i+1:]
			k := v
			if j := strings.Index(v, "("); j >= 0 {
				k = v[:j]
				if k == "L" {
					if e := strings.Index(v, ","); e > 0 {
						k = v[:e]
					}
				}
			}
			if prev, ok := kinds[col]; ok && prev != k {
				return false
			}
			kinds[col] = k
		}
	}
	return true
}

func perm(n int, f func([]int)) {
	p := make([]int, n)
	for i := range p {
		p[i] = i
	}
	var rec func(k int)
	rec = func(k int) {
		if k == n {
			f(append([]int{}, p...))
			return
		}
		for i := k; i < n; i++ {
			p[k], p[i] = p[i], p[k]
			rec(k + 1)
			p[k], p[i] = p[i], p[k]
		}
	}
	rec(0)
}

func main() {
	r := common.Start("C14", "model_checking")
	r.Replayer("rel", replayCase)
	r.Replayer("sched", func(raw json.RawMessage) (bool, string) {
		bin := filepath.Join(common.Root(), "work", "bin", "c14s")
		out, err := exec.Command(bin, "--replay-case", string(raw)).CombinedOutput()
		if err != nil {
			if ee, ok := err.(*exec.ExitError); ok && ee.ExitCode() == 1 {
				return false, string(out)
			}
			common.Machinery("schedule replay: %v %s", err, out)
		}
		return true, string(out)
	})
	r.MaybeReplay()
	t0 := time.Now()
	cps := corpus(r.Thorough())
	gs := graphs()
	c := &ctx{r: r}
	r.Set("corpus_queries", len(cps))
	// bases per (query, graph), computed once and reused by the store-changing relations
	stores := make([]storage.Store, len(gs))
	for i, g := range gs {
		stores[i] = bqlm.NewStore(map[string][]*triple.Triple{"?g": g})
	}
	bases := make([][]outcome, len(gs))
	for gi := range gs {
		bases[gi] = make([]outcome, len(cps))
	}
	// relations that keep the store: renaming, chanSize, repetition, clause order
	common.ParallelFor(len(cps), func(ci int) {
		if r.OutOfTime() {
			return
		}
		for gi := range gs {
			c.relationsOnStore(ci, cps[ci], gi, gs[gi], stores[gi], "")
			bases[gi][ci] = run(stores[gi], query(cps[ci], []string{"?g"}), 0)
		}
	})
	phase := func(n string) { fmt.Fprintf(os.Stderr, "c14 phase %s at %.0fs\n", n, time.Since(t0).Seconds()) }
	phase("store-relations done")
	// (c) processor counts: the planner sizes its fan-out by runtime.GOMAXPROCS(0)
	prev := runtime.GOMAXPROCS(0)
	for _, p := range []int{1, 2, 4} {
		runtime.GOMAXPROCS(p)
		common.ParallelFor(len(cps), func(ci int) {
			if r.OutOfTime() {
				return
			}
			for gi := range gs {
				if len(cps[ci]) < 2 || (!r.Thorough() && ci%4 != 0) {
					continue // the fan-out only exists for clauses specialised per row; quick: every 4th query
				}
				c.relationsOnStore(ci, cps[ci], gi, gs[gi], stores[gi], fmt.Sprintf(",GOMAXPROCS=%d", p))
			}
		})
	}
	runtime.GOMAXPROCS(prev)
	phase("procs done")
	// (e) every assignment of the triples to 3 FROM graphs
	var parts int64
	for gi, g := range gs {
		n := len(g)
		total := 1
		for i := 0; i < n; i++ {
			total *= 3
		}
		ggi, gg := gi, g
		common.ParallelFor(total, func(code int) {
			if r.OutOfTime() {
				return
			}
			split := map[string][]*triple.Triple{"?g1": nil, "?g2": nil, "?g3": nil}
			x := code
			for _, t := range gg {
				name := fmt.Sprintf("?g%d", x%3+1)
				split[name] = append(split[name], t)
				x /= 3
			}
			st := bqlm.NewStore(split)
			atomic.AddInt64(&parts, 1)
			for ci, cs := range cps {
				base := bases[ggi][ci]
				if base.failed {
					continue
				}
				if !r.Thorough() && (len(cs) > 1 || len(gg) > 5) && code%54 != 0 {
					continue // quick: multi-clause queries on every 54th partition (all in thorough)
				}
				q := query(cs, []string{"?g1", "?g2", "?g3"})
				o := run(st, q, 0)
				atomic.AddInt64(&c.evals, 1)
				if ok, d := diff("partition", base, o); !ok {
					c.fail("partition-over-graphs", query(cs, []string{"?g"}), fmt.Sprintf("%s\n partition code %d", q.Render(), code), gg, fmt.Sprintf("%d:%d:%d", ci, ggi, code), d)
				}
			}
		})
	}
	r.Set("partitions", int(parts))
	phase("partitions done")
	// (g) adding a triple never removes a row
	ex := extras()
	type sup struct{ gi, ei int }
	var sups []sup
	for gi := range gs {
		for ei := range ex {
			sups = append(sups, sup{gi, ei})
		}
	}
	common.ParallelFor(len(sups), func(i int) {
		if r.OutOfTime() {
			return
		}
		s := sups[i]
		data := append(append([]*triple.Triple{}, gs[s.gi]...), ex[s.ei])
		st := bqlm.NewStore(map[string][]*triple.Triple{"?g": data})
		for ci, cs := range cps {
			base := bases[s.gi][ci]
			if base.failed || hasOptional(cs) || isAgg(cs) {
				continue // the superset relation is stated for queries without OPTIONAL and aggregates
			}
			q := query(cs, []string{"?g"})
			o := run(st, q, 0)
			atomic.AddInt64(&c.evals, 1)
			if o.failed {
				continue // a query may become inapplicable; only lost rows are judged
			}
			if !contains(sortCols(o.rows), sortCols(base.rows)) {
				c.fail("superset", q, "data + "+ex[s.ei].String(), gs[s.gi], fmt.Sprintf("%d:%d:%d", ci, s.gi, s.ei), fmt.Sprintf("rows on the data (%d): %v\n rows on the superset (%d): %v", len(base.rows), base.rows, len(o.rows), o.rows))
			}
		}
	})
	r.Set("supersets", len(sups))
	phase("supersets done")
	// total ORDER BY: same sequence every time, under every chanSize
	var seqs int64
	common.ParallelFor(len(cps), func(ci int) {
		if r.OutOfTime() || ci%4 != 0 {
			return
		}
		cs := cps[ci]
		bs := bqlm.AllBindings(cs)
		sort.Strings(bs)
		q := query(cs, []string{"?g"})
		for _, b := range bs {
			q.OrderBy = append(q.OrderBy, bqlm.Key{Binding: b})
		}
		for gi := range gs {
			first := run(stores[gi], q, 0)
			if first.failed || !uniformColumns(first.seq) {
				// the order of values of different kinds is not specified (C12), so
				// a key column mixing kinds does not determine a total order
				continue
			}
			for _, cs2 := range []int{0, 1, 3} {
				o := run(stores[gi], q, cs2)
				atomic.AddInt64(&c.evals, 1)
				atomic.AddInt64(&seqs, 1)
				if o.failed || strings.Join(o.seq, "\n") != strings.Join(first.seq, "\n") {
					c.fail("total-order-sequence", q, fmt.Sprintf("chanSize=%d", cs2), gs[gi], fmt.Sprintf("%d:%d", ci, gi), fmt.Sprintf("first run: %v\n this run: %v", first.seq, o.seq))
				}
			}
		}
	})
	// total ORDER BY with ties on the first key (bqlm.KindGraph: two subjects share every value, one instant is
	// written in two zones): the later key decides, so the sequence is the same however the rows reach the sort —
	// one graph, the data split over two FROM graphs in several ways and listing orders, every chanSize
	kg := bqlm.KindGraph()
	cl := func(s, p, o bqlm.Term) bqlm.Clause { return bqlm.Clause{S: s, P: p, O: o} }
	bt := func(n string) bqlm.Term { return bqlm.Term{Kind: bqlm.Bind, Name: n} }
	var tieBases [][]bqlm.Clause
	for _, id := range []string{"ki", "kf", "kt", "kn"} {
		tieBases = append(tieBases, []bqlm.Clause{cl(bt("?s"), bqlm.Term{Kind: bqlm.Const, P: model.PI(id)}, bt("?v"))})
	}
	tieBases = append(tieBases, []bqlm.Clause{cl(bt("?s"), bqlm.Term{Kind: bqlm.AnchorBind, ID: "t", Name: "?v"}, bt("?o"))})
	tieBases = append(tieBases, []bqlm.Clause{cl(bt("?s"), bqlm.Term{Kind: bqlm.Const, P: model.PI("ki")}, bt("?v")), cl(bt("?s"), bqlm.Term{Kind: bqlm.Const, P: model.PI("kf")}, bt("?w"))})
	splits := []func(i int) bool{func(i int) bool { return i%2 == 0 }, func(i int) bool { return i < len(kg)/2 }, func(i int) bool { return i%3 == 0 }}
	var tieSeqs int64
	for bi, cs := range tieBases {
		for ki, keys := range [][]bqlm.Key{{{Binding: "?v"}, {Binding: "?s"}}, {{Binding: "?v", Desc: true}, {Binding: "?s"}}, {{Binding: "?v"}, {Binding: "?s", Desc: true}}} {
			q := &bqlm.Query{From: []string{"?g"}, Where: cs, Proj: []bqlm.Proj{{Binding: "?s"}, {Binding: "?v"}}, OrderBy: keys}
			first := run(bqlm.NewStore(map[string][]*triple.Triple{"?g": kg}), q, 0)
			if first.failed {
				continue
			}
			for si, in := range splits {
				var a, b []*triple.Triple
				for i, t := range kg {
					if in(i) {
						a = append(a, t)
					} else {
						b = append(b, t)
					}
				}
				st2 := bqlm.NewStore(map[string][]*triple.Triple{"?g": a, "?h": b})
				for _, from := range [][]string{{"?g", "?h"}, {"?h", "?g"}} {
					for _, cs2 := range []int{0, 1, 3} {
						q2 := &bqlm.Query{From: from, Where: cs, Proj: q.Proj, OrderBy: keys}
						o := run(st2, q2, cs2)
						atomic.AddInt64(&c.evals, 1)
						tieSeqs++
						if o.failed || strings.Join(o.seq, "\n") != strings.Join(first.seq, "\n") {
							c.fail("total-order-sequence", q, fmt.Sprintf("%s\n split %d, chanSize=%d", q2.Render(), si, cs2), kg, fmt.Sprintf("tie:%d:%d:%d", bi, ki, si), fmt.Sprintf("one graph: %v\n two graphs: %v", first.seq, o.seq))
						}
					}
				}
			}
		}
	}
	r.Set("ordered_sequences_with_ties_compared", int(tieSeqs))
	r.Set("ordered_sequences_compared", int(seqs))
	phase("sequences done")

	// schedule part (vsched engine), if built: merge its counters
	schedNote := runSchedulePart(r)
	r.Set("evaluations", int(c.evals))
	r.Set("distinct_nontrivial", int(c.nontr))
	r.Set("base_queries_failing_skipped", int(c.skips))
	r.Set("states", len(gs)+int(parts)+len(sups))
	r.Set("transitions", int(c.evals))
	r.Set("traces_validated_against_impl", int(c.evals))
	r.Set("schedule_part", schedNote)
	r.Set("rule", "every (query, graph, variant) execution is one evaluation; a relation holds when base and variant return the same row multiset (or a superset for the superset relation); non-trivial = base query returns at least one row")
	r.Sample(map[string]interface{}{"query": query(cps[len(cps)/2], []string{"?g"}).Render(), "relations": "renaming x24, chanSize, GOMAXPROCS, repetition, partition over 3 graphs, clause order, one-triple supersets, total ORDER BY sequence"})
	r.Assume("differential oracle only: no reference model; executions of badwolf are compared with each other")
	r.Assume("GOMAXPROCS is set process wide for a whole pass; Go map iteration order is not controlled in this native build")
	r.Finish()
}

// runSchedulePart runs the vsched scenarios binary (cmd/c14s) when present and folds
// its verdict into this run: its violations become failures of this check.
func runSchedulePart(r *common.Run) string {
	bin := filepath.Join(common.Root(), "work", "bin", "c14s")
	if _, err := os.Stat(bin); err != nil {
		return "not built"
	}
	cmd := exec.Command(bin, r.Tier, "--sub")
	cmd.Env = append(os.Environ(), "VERIF_ROOT="+common.Root())
	out, err := cmd.CombinedOutput()
	for _, l := range strings.Split(string(out), "\n") {
		if strings.HasPrefix(l, "SUB-FAIL ") {
			var f common.Failure
			if json.Unmarshal([]byte(l[len("SUB-FAIL "):]), &f) == nil {
				r.Fail(f)
			}
		}
		if strings.HasPrefix(l, "SUB-COV ") {
			var m map[string]interface{}
			if json.Unmarshal([]byte(l[len("SUB-COV "):]), &m) == nil {
				for k, v := range m {
					r.Set("sched_"+k, v)
				}
			}
		}
	}
	if err != nil {
		if ee, ok := err.(*exec.ExitError); ok && ee.ExitCode() == 2 {
			common.Machinery("schedule part failed: %s", string(out))
		}
	}
	return "ran"
}

// replayCase re-executes one recorded relation instance from its texts.
func replayCase(raw json.RawMessage) (bool, string) {
	var k kase
	json.Unmarshal(raw, &k)
	var data []*triple.Triple
	for _, l := range k.Data {
		t, err := triple.Parse(l, literal.DefaultBuilder())
		if err != nil {
			return false, "cannot parse recorded triple " + l
		}
		data = append(data, t)
	}
	exe := func(st storage.Store, text string, chanSize int) (outcome, string) {
		res := bqlm.Exec(st, text, chanSize, 0, nil)
		if res.Stage != "" {
			return outcome{failed: true, stage: res.Stage}, res.Err
		}
		return outcome{rows: res.Sorted(), seq: res.Rows}, ""
	}
	values := func(rows []string) []string { // drop column names: compare value tuples
		var out []string
		for _, r := range rows {
			var vs []string
			for _, p := range strings.Split(strings.TrimSuffix(r, ";"), ";") {
				if i := strings.Index(p, "="); i >= 0 {
					vs = append(vs, p[i+1:])
				}
			}
			sort.Strings(vs)
			out = append(out, strings.Join(vs, ";"))
		}
		sort.Strings(out)
		return out
	}
	st := bqlm.NewStore(map[string][]*triple.Triple{"?g": data})
	base, _ := exe(st, k.Base, 0)
	if base.failed {
		return true, "base statement fails now; relation not applicable"
	}
	variantText := strings.SplitN(k.Variant, "\n partition code", 2)[0]
	switch {
	case strings.HasPrefix(k.Relation, "chanSize"):
		for _, cs := range []int{0, 1, 3} {
			o, _ := exe(st, k.Base, cs)
			if o.failed || !same(base.rows, o.rows) {
				return false, fmt.Sprintf("chanSize %d: %v vs %v", cs, base.rows, o.rows)
			}
		}
		return true, "same rows for every chanSize (processor counts are not replayed)"
	case k.Relation == "renaming" || k.Relation == "clause-order":
		o, e := exe(st, variantText, 0)
		if o.failed {
			return false, "variant fails: " + e
		}
		if !same(values(base.rows), values(o.rows)) {
			return false, fmt.Sprintf("base %v\n variant %v", base.rows, o.rows)
		}
		return true, "same rows"
	case k.Relation == "partition-over-graphs":
		var code int
		fmt.Sscanf(strings.TrimSpace(strings.SplitN(k.Variant, "partition code", 2)[1]), "%d", &code)
		split := map[string][]*triple.Triple{"?g1": nil, "?g2": nil, "?g3": nil}
		x := code
		for _, t := range data {
			n := fmt.Sprintf("?g%d", x%3+1)
			split[n] = append(split[n], t)
			x /= 3
		}
		o, e := exe(bqlm.NewStore(split), variantText, 0)
		if o.failed {
			return false, "variant fails: " + e
		}
		if !same(base.rows, o.rows) {
			return false, fmt.Sprintf("one graph %v\n partitioned %v", base.rows, o.rows)
		}
		return true, "same rows"
	case k.Relation == "superset":
		extra, err := triple.Parse(strings.TrimPrefix(k.Variant, "data + "), literal.DefaultBuilder())
		if err != nil {
			return false, "cannot parse the added triple"
		}
		o, _ := exe(bqlm.NewStore(map[string][]*triple.Triple{"?g": append(append([]*triple.Triple{}, data...), extra)}), k.Base, 0)
		if !o.failed && !contains(o.rows, base.rows) {
			return false, fmt.Sprintf("rows lost: %v -> %v", base.rows, o.rows)
		}
		return true, "no row lost"
	case k.Relation == "total-order-sequence" && strings.HasPrefix(k.Gen, "tie:"):
		var bi, ki, si int
		fmt.Sscanf(k.Gen, "tie:%d:%d:%d", &bi, &ki, &si)
		var a, b []*triple.Triple
		for i, t := range data {
			if (si == 0 && i%2 == 0) || (si == 1 && i < len(data)/2) || (si == 2 && i%3 == 0) {
				a = append(a, t)
			} else {
				b = append(b, t)
			}
		}
		st2 := bqlm.NewStore(map[string][]*triple.Triple{"?g": a, "?h": b})
		for _, from := range []string{"FROM ?g, ?h", "FROM ?h, ?g"} {
			text := strings.Replace(k.Base, "FROM ?g", from, 1)
			for _, cs := range []int{0, 1, 3} {
				o, _ := exe(st2, text, cs)
				if o.failed || strings.Join(o.seq, "|") != strings.Join(base.seq, "|") {
					return false, fmt.Sprintf("sequence differs (%s, chanSize %d): %v vs %v", from, cs, base.seq, o.seq)
				}
			}
		}
		return true, "same sequence over one graph and over the two-graph split"
	case k.Relation == "total-order-sequence":
		for i := 0; i < 20; i++ {
			o, _ := exe(st, k.Base, i%4)
			if o.failed || strings.Join(o.seq, "|") != strings.Join(base.seq, "|") {
				return false, fmt.Sprintf("sequence differs: %v vs %v", base.seq, o.seq)
			}
		}
		return true, "same sequence in 20 runs"
	}
	return false, "unknown relation " + k.Relation
}
