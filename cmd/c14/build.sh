#!/bin/bash
# cmd/c14/build.sh <output-binary>: the differential part is a plain build; the schedule
# part (cmd/c14s) is built against the instrumented copy of the CURRENT /repo tree.
set -e
out="$1"
here="$(cd "$(dirname "$0")/../.." && pwd)"
cd "$here"
. ./env.sh
case "$out" in /*) ;; *) out="$here/$out" ;; esac
mkdir -p work/bin work/instr
go build ${SEED_OVERLAY:+-overlay "$SEED_OVERLAY"} -o "$out" ./cmd/c14 &   # SEED_OVERLAY: trial builds against a changed copy of /repo (tools/seedcheck.py)
p1=$!
go build -o work/bin/instr ./instr
work/bin/instr -q -out work/instr/c14s -repo "${VSCHED_REPO:-/repo}" -overlay-root /repo \
  -pkgs ./storage/...,./bql/...,./triple/...,./io/... \
  -exclude github.com/google/badwolf/triple/node,github.com/google/badwolf/bql/planner/tracer
go build -overlay work/instr/c14s/overlay.json -o "$(dirname "$out")/c14s" ./cmd/c14s
wait $p1
