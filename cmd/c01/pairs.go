package main

// Level 0: the store keeps any two different values apart, in every position of a triple. The values come from the
// near-collision universes shared with C06 (byte encodings, printed forms and hashed inputs that coincide or nearly
// coincide across kinds, types, zones, lengths and spellings); for every unordered pair (x, y) of one position the two
// triples that differ only there go through a fresh graph: add tx, (Exist ty), add ty, (listing), remove tx, (Exist both).

import (
	"fmt"
	"sync/atomic"

	"github.com/google/badwolf/storage"
	"github.com/google/badwolf/storage/memory"
	"github.com/google/badwolf/triple"

	"verif/common"
	"verif/model"
	"verif/vals"
)

type pairCase struct {
	Pos string     `json:"position"`
	X   *vals.Spec `json:"x"`
	Y   *vals.Spec `json:"y"`
}

func pairTriple(pos string, s *vals.Spec) *triple.Triple {
	fs, fp, fo := vals.NodeSpec("/u", "s0"), vals.ImmSpec("p0"), vals.ObjSpec(vals.NodeSpec("/u", "o0"))
	switch pos {
	case "S":
		fs = s
	case "P":
		fp = s
	default:
		fo = s
	}
	return vals.MustBuild(vals.TripleSpec(fs, fp, fo)).T
}

func splitNodes(a, b *vals.Spec) bool {
	if a.K == "obj" && b.K == "obj" {
		a, b = a.O, b.O
	}
	return a.K == "node" && b.K == "node" && a.T+string(a.ID) == b.T+string(b.ID)
}

// checkPair returns ok, class, shape, detail.
func checkPair(c pairCase) (bool, string, string, string) {
	tx, ty := pairTriple(c.Pos, c.X), pairTriple(c.Pos, c.Y)
	same := model.TripleKey(tx) == model.TripleKey(ty) // e.g. one instant written in two zones
	class := "value-pair:" + c.Pos
	var g storage.Graph
	var obs []string
	step := func(name string, f func() error) bool {
		if err := f(); err != nil {
			obs = append(obs, name+": "+err.Error())
			return false
		}
		return true
	}
	exist := func(t *triple.Triple) bool { ok, _ := g.Exist(model.Ctx, t); return ok }
	kx, ky := model.TripleKey(tx), model.TripleKey(ty)
	listingOK := true // the listing holds the right triples, not only the right number of them
	count := func(want ...string) int {
		ts, _ := model.ListTriples(g, storage.DefaultLookup)
		got := map[string]int{}
		for _, t := range ts {
			got[model.TripleKey(t)]++
		}
		for _, w := range want {
			if got[w] != 1 {
				listingOK = false
			}
		}
		return len(ts)
	}
	var got [6]int
	b2i := func(b bool) int {
		if b {
			return 1
		}
		return 0
	}
	if p := common.Guard(func() {
		st := memory.NewStore()
		g, _ = st.NewGraph(model.Ctx, "?g")
		step("add x", func() error { return g.AddTriples(model.Ctx, []*triple.Triple{tx}) })
		got[0] = b2i(exist(ty))
		step("add y", func() error { return g.AddTriples(model.Ctx, []*triple.Triple{ty}) })
		if same {
			got[1] = count(kx)
		} else {
			got[1] = count(kx, ky)
		}
		step("remove x", func() error { return g.RemoveTriples(model.Ctx, []*triple.Triple{tx}) })
		got[2], got[3] = b2i(exist(tx)), b2i(exist(ty))
		if same {
			got[4] = count()
		} else {
			got[4] = count(ky)
		}
	}); p != nil {
		return false, class, "panic", fmt.Sprintf("%s vs %s in position %s: panic %v", c.X.Short(), c.Y.Short(), c.Pos, p)
	}
	if len(obs) > 0 {
		return false, class, "operation-error", fmt.Sprintf("%s vs %s: %v", c.X.Short(), c.Y.Short(), obs)
	}
	want := [6]int{0, 2, 0, 1, 1}
	if same {
		want = [6]int{1, 1, 0, 0, 0}
	}
	if got == want && listingOK {
		return true, "", "", ""
	}
	if got == want {
		return false, class, "listing-holds-other-triples-than-stored", fmt.Sprintf("triples differing only in position %s: %s vs %s: the listing has the right number of entries but not the stored triples (one listed twice, the other missing)", c.Pos, c.X.Short(), c.Y.Short())
	}
	shape := "two-values-not-kept-apart"
	if same {
		shape = "one-value-stored-twice"
	} else if got == [6]int{1, 1, 0, 0, 0} {
		shape = "behaves-as-if-identical"
		if splitNodes(c.X, c.Y) {
			class = "identity-collision:node-split"
		}
	}
	return false, class, shape, fmt.Sprintf("triples differing only in position %s: %s vs %s\n after add x: Exist(y)=%d; after add y: %d listed; after remove x: Exist(x)=%d Exist(y)=%d, %d listed (want %v)",
		c.Pos, c.X.Short(), c.Y.Short(), got[0], got[1], got[2], got[3], got[4], want[:5])
}

func levelPairs(r *common.Run) {
	th := r.Thorough()
	ns, ps, ls := vals.NearNodes(th), vals.NearPreds(th), vals.NearLits(th)
	var os []*vals.Spec
	for _, fam := range [][]*vals.Spec{ns, ps, ls} {
		for _, s := range fam {
			os = append(os, vals.ObjSpec(s))
		}
	}
	var cases []pairCase
	for pos, fam := range map[string][]*vals.Spec{"S": ns, "P": ps, "O": os} {
		fam = vals.Dedup(fam)
		for i := range fam {
			for j := i + 1; j < len(fam); j++ {
				cases = append(cases, pairCase{pos, fam[i], fam[j]})
			}
		}
	}
	var done int64
	common.ParallelFor(len(cases), func(i int) {
		if r.OutOfTime() {
			return
		}
		atomic.AddInt64(&done, 1)
		if ok, class, shape, d := checkPair(cases[i]); !ok {
			r.Fail(common.Failure{Check: "pair", Class: class, Shape: shape, Case: cases[i], Detail: d})
		}
	})
	r.Set("l0_value_pairs", int(done))
	r.Add("transitions", int(done))
	r.Add("traces_validated_against_impl", int(done))
}

// Batch sizes: one AddTriples / RemoveTriples call with n distinct triples for n = 2^k and 2^k +- 1 up to the bound
// (sizes far beyond the two-element batches of level 1): the graph holds exactly the n triples afterwards, a second
// identical add changes nothing, and one remove of the whole batch empties it.
type batchCase struct {
	N int `json:"batch_size"`
}

func checkBatch(c batchCase) (bool, string, string) {
	ts := make([]*triple.Triple, 0, c.N)
	s, p := model.N("/u", "s"), model.PI("p")
	for i := 0; i < c.N; i++ {
		ts = append(ts, model.T(s, p, model.ON(model.N("/u", fmt.Sprintf("o%d", i)))))
	}
	st := memory.NewStore()
	g, _ := st.NewGraph(model.Ctx, "?g")
	count := func() int { l, _ := model.ListTriples(g, storage.DefaultLookup); return len(l) }
	missing := func() int {
		n := 0
		for _, t := range ts {
			if ok, _ := g.Exist(model.Ctx, t); !ok {
				n++
			}
		}
		return n
	}
	for round := 0; round < 2; round++ {
		if err := g.AddTriples(model.Ctx, ts); err != nil {
			return false, "operation-error", err.Error()
		}
		if n, m := count(), missing(); n != c.N || m != 0 {
			return false, "batch-not-stored", fmt.Sprintf("AddTriples with %d distinct triples (call %d): %d listed, Exist false for %d of them", c.N, round+1, n, m)
		}
	}
	if err := g.RemoveTriples(model.Ctx, ts); err != nil {
		return false, "operation-error", err.Error()
	}
	if n, m := count(), missing(); n != 0 || m != c.N {
		return false, "batch-not-removed", fmt.Sprintf("RemoveTriples with the %d stored triples: %d still listed, Exist still true for %d", c.N, n, c.N-m)
	}
	return true, "", ""
}

func levelBatches(r *common.Run) {
	max := r.Pick(4096, 65536)
	var sizes []int
	for n := 1; n <= max; n *= 2 {
		for _, d := range []int{-1, 0, 1} {
			if n+d >= 0 {
				sizes = append(sizes, n+d)
			}
		}
	}
	common.ParallelFor(len(sizes), func(i int) {
		c := batchCase{sizes[i]}
		if ok, shape, d := checkBatch(c); !ok {
			r.Fail(common.Failure{Check: "batch", Class: "batch-size", Shape: shape, Case: c, Detail: d})
		}
	})
	r.Set("l0_batch_sizes", len(sizes))
	r.Set("l0_batch_max", max)
	r.Add("transitions", len(sizes))
	r.Add("traces_validated_against_impl", len(sizes))
}
