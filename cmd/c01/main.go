// C01 — a store is a map from graph names to independent sets of triples.
//
// Explicit-state BFS over the reachable states of StoreModel; every transition
// is replayed on a fresh real memory store (shortest path + the operation) and
// the full observation compared.
package main

import (
	"encoding/json"
	"fmt"
	"runtime/debug"
	"sort"
	"strings"
	"sync"
	"time"

	"github.com/google/badwolf/storage"
	"github.com/google/badwolf/storage/memory"
	"github.com/google/badwolf/triple"
	"github.com/google/badwolf/triple/literal"

	"verif/common"
	"verif/model"
)

// ---- level 1: one graph ------------------------------------------------------

func universe(n int) []*triple.Triple {
	a, b := model.N("/u", "a"), model.N("/u", "b")
	p := model.PI("p")
	u := []*triple.Triple{
		model.T(a, p, model.ON(b)),                                    // 0 base
		model.T(a, model.PT("p", model.T1), model.ON(b)),              // 1 same id, temporal
		model.T(a, p, model.OL(model.L(literal.Int64, int64(0)))),     // 3
		model.T(a, p, model.OL(model.L(literal.Float64, float64(0)))), // 4 same bytes, other type
		model.T(a, p, model.OL(model.L(literal.Int64, int64(1)<<40))), // same type, a value whose encoding is longer (identity must not depend on what was hashed before)
		model.T(a, p, model.OL(model.L(literal.Text, "abc"))),         // 5
		model.T(a, p, model.OL(model.L(literal.Blob, []byte("abc")))), // 6 same bytes, other type
		model.T(model.N("/a/b", "c"), p, model.ON(b)),                 // 7
		model.T(model.N("/a", "/bc"), p, model.ON(b)),                 // 8 type/id boundary moved
		model.T(a, p, model.OP(p)),                                    // 9 predicate-valued object
		model.T(a, model.PT("p", time.Unix(0, 0).UTC()), model.ON(b)), // 10 temporal at the zero instant: still not the immutable "p"
		model.T(a, model.PT("p", model.T2), model.ON(b)),              // another instant (the quick universe already has two temporal instants: T1 and the epoch)
		model.T(a, p, model.OL(model.L(literal.Bool, true))),          // 10
		model.T(a, p, model.OL(model.L(literal.Text, "true"))),        // 11 same bytes, other type
		model.T(a, model.PI("q"), model.ON(b)),                        // 12 other predicate id
		model.T(a, p, model.ON(a)),                                    // 13 other object
	}
	return u[:n]
}

type op struct {
	Kind string `json:"kind"` // add | remove
	Idx  []int  `json:"triples"`
}

func (o op) String() string { return fmt.Sprintf("%s%v", o.Kind, o.Idx) }

func alphabet(n int) []op {
	var ops []op
	for _, k := range []string{"add", "remove"} {
		ops = append(ops, op{k, []int{}})
		for i := 0; i < n; i++ {
			ops = append(ops, op{k, []int{i}})
		}
		for i := 0; i < n; i++ {
			for j := i; j < n; j++ { // j == i: duplicate inside one batch
				ops = append(ops, op{k, []int{i, j}})
			}
		}
	}
	return ops
}

func pick(u []*triple.Triple, idx []int) []*triple.Triple {
	ts := make([]*triple.Triple, 0, len(idx))
	for _, i := range idx {
		ts = append(ts, u[i])
	}
	return ts
}

func applyModel(s uint32, o op) uint32 {
	for _, i := range o.Idx {
		if o.Kind == "add" {
			s |= 1 << uint(i)
		} else {
			s &^= 1 << uint(i)
		}
	}
	return s
}

// quotient identities: what "the same triple" would mean under each hypothesis
// recorded as a known finding. Used only to *classify* a failure, never to
// accept one silently.
func quotientKey(t *triple.Triple, hyp map[string]bool) string {
	sk := model.NodeKey(t.Subject())
	if hyp["node-split"] {
		sk = "N~" + t.Subject().Type().String() + t.Subject().ID().String()
	}
	ok := model.ObjKey(t.Object())
	if n, err := t.Object().Node(); err == nil && hyp["node-split"] {
		ok = "ON~" + n.Type().String() + n.ID().String()
	}
	if l, err := t.Object().Literal(); err == nil && hyp["literal-type"] {
		switch l.Type() {
		case literal.Int64:
			v, _ := l.Int64()
			if v == 0 {
				ok = "OL~zero8"
			}
		case literal.Float64:
			v, _ := l.Float64()
			if v == 0 {
				ok = "OL~zero8"
			}
		case literal.Text:
			v, _ := l.Text()
			ok = "OL~bytes:" + v
		case literal.Blob:
			v, _ := l.Blob()
			ok = "OL~bytes:" + string(v)
		case literal.Bool:
			v, _ := l.Bool()
			ok = fmt.Sprintf("OL~bytes:%v", v)
		}
	}
	return sk + " " + model.PredKey(t.Predicate()) + " " + ok
}

type obs struct {
	Exist []bool   `json:"exist"`
	List  []string `json:"list"`
	Err   string   `json:"err,omitempty"`
}

func (o obs) String() string { b, _ := json.Marshal(o); return string(b) }

func sameObs(a, b obs) bool {
	if a.Err != b.Err || len(a.Exist) != len(b.Exist) || !model.SameStrings(a.List, b.List) {
		return false
	}
	for i := range a.Exist {
		if a.Exist[i] != b.Exist[i] {
			return false
		}
	}
	return true
}

func observeImpl(g storage.Graph, u []*triple.Triple) obs {
	var o obs
	for _, t := range u {
		ok, err := g.Exist(model.Ctx, t)
		if err != nil {
			o.Err = "exist: " + err.Error()
		}
		o.Exist = append(o.Exist, ok)
	}
	ts, err := model.ListTriples(g, storage.DefaultLookup)
	if err != nil {
		o.Err = "triples: " + err.Error()
	}
	o.List = model.KeysOf(ts)
	return o
}

// predict runs the path under an identity function (structural, or a quotient).
func predict(u []*triple.Triple, path []op, key func(*triple.Triple) string) obs {
	g := map[string]*triple.Triple{}
	for _, o := range path {
		for _, i := range o.Idx {
			if o.Kind == "add" {
				g[key(u[i])] = u[i]
			} else {
				delete(g, key(u[i]))
			}
		}
	}
	var ob obs
	for _, t := range u {
		_, ok := g[key(t)]
		ob.Exist = append(ob.Exist, ok)
	}
	var ts []*triple.Triple
	for _, t := range g {
		ts = append(ts, t)
	}
	ob.List = model.KeysOf(ts)
	return ob
}

func runPath(u []*triple.Triple, path []op) (obs, string) {
	st := memory.NewStore()
	g, err := st.NewGraph(model.Ctx, "?g")
	if err != nil {
		return obs{}, "NewGraph: " + err.Error()
	}
	for _, o := range path {
		var err error
		if o.Kind == "add" {
			err = g.AddTriples(model.Ctx, pick(u, o.Idx))
		} else {
			err = g.RemoveTriples(model.Ctx, pick(u, o.Idx))
		}
		if err != nil {
			return obs{}, o.String() + ": " + err.Error()
		}
	}
	return observeImpl(g, u), ""
}

var hypNames = []string{"literal-type", "node-split"}

// classify explains a mismatch by the smallest set of known identity-collision
// hypotheses under which the implementation's observation is reproduced exactly.
func classify(u []*triple.Triple, path []op, got obs) (class, shape string) {
	for mask := 1; mask < 1<<len(hypNames); mask++ {
		h := map[string]bool{}
		var names []string
		for i, n := range hypNames {
			if mask&(1<<i) != 0 {
				h[n] = true
				names = append(names, n)
			}
		}
		if sameObs(predict(u, path, func(t *triple.Triple) string { return quotientKey(t, h) }), got) {
			return "identity-collision:" + strings.Join(names, "+"), "behaves-as-if-identical"
		}
	}
	return "graph-history", "observation-differs-from-set-model"
}

type l1case struct {
	N    int  `json:"universe"`
	Path []op `json:"path"`
}

func checkL1(u []*triple.Triple, path []op) (bool, string, string, string) {
	var got obs
	var msg string
	if p := common.Guard(func() { got, msg = runPath(u, path) }); p != nil {
		return false, "graph-history", "panic", fmt.Sprintf("panic: %v", p)
	}
	if msg != "" {
		return false, "graph-history", "operation-error", msg
	}
	want := predict(u, path, model.TripleKey)
	if sameObs(want, got) {
		return true, "", "", ""
	}
	c, s := classify(u, path, got)
	return false, c, s, fmt.Sprintf("path=%v\n want=%s\n got =%s", path, want, got)
}

func level1(r *common.Run, n int) {
	u := universe(n)
	ops := alphabet(n)
	// BFS over model states (bitsets); remember the shortest path to each.
	paths := map[uint32][]op{0: {}}
	frontier := []uint32{0}
	var order []uint32
	for len(frontier) > 0 {
		var next []uint32
		for _, s := range frontier {
			order = append(order, s)
			for _, o := range ops {
				ns := applyModel(s, o)
				if _, ok := paths[ns]; !ok {
					paths[ns] = append(append([]op{}, paths[s]...), o)
					next = append(next, ns)
				}
			}
		}
		frontier = next
	}
	r.Add("states", len(order))
	maxDepth := 0
	for _, p := range paths {
		if len(p) > maxDepth {
			maxDepth = len(p)
		}
	}
	r.Set("l1_max_depth", maxDepth)
	r.Set("l1_universe", n)
	r.Set("l1_ops", len(ops))
	var mu sync.Mutex
	trans, stopped := 0, false
	common.ParallelFor(len(order), func(i int) {
		if r.OutOfTime() {
			stopped = true
			return
		}
		s := order[i]
		local := 0
		for _, o := range ops {
			path := append(append([]op{}, paths[s]...), o)
			ok, c, sh, d := checkL1(u, path)
			local++
			if !ok {
				r.Fail(common.Failure{Check: "l1", Class: c, Shape: sh, Case: l1case{n, path}, Detail: d})
			}
		}
		mu.Lock()
		trans += local
		mu.Unlock()
	})
	_ = stopped
	r.Add("transitions", trans)
	r.Add("traces_validated_against_impl", trans)
	r.Sample(map[string]interface{}{"level": 1, "path": paths[order[len(order)/2]], "then": ops[len(ops)/3]})
}

// ---- level 2: the store -------------------------------------------------------

type sop struct {
	Kind string `json:"kind"` // new get del names add rem
	Name string `json:"name,omitempty"`
	T    int    `json:"t,omitempty"`
}

func (o sop) String() string { return fmt.Sprintf("%s(%s,%d)", o.Kind, o.Name, o.T) }

// mstate is the model: live graphs by incarnation, handle slots by incarnation.
type mstate struct {
	live  map[string]int // name -> incarnation
	sets  map[int]uint32 // incarnation -> set of triple indexes
	slots map[string]int // slot (per name) -> incarnation held
	next  int
	// listed: what the last GraphNames call of the history returned ("" = no listing yet). Not part of what
	// the store must hold, but part of the search state: an implementation may keep something from a listing
	// (a cache of names, patched or invalidated by later operations), so histories are kept apart by the
	// content of their last listing.
	listed string
}

func newM() *mstate {
	return &mstate{live: map[string]int{}, sets: map[int]uint32{}, slots: map[string]int{}, next: 1}
}

// step applies o to the model; returns whether the operation must succeed.
func (m *mstate) step(o sop) (wantErr bool) {
	switch o.Kind {
	case "new":
		if _, ok := m.live[o.Name]; ok {
			return true
		}
		m.live[o.Name] = m.next
		m.sets[m.next] = 0
		m.slots[o.Name] = m.next
		m.next++
	case "get":
		inc, ok := m.live[o.Name]
		if !ok {
			return true
		}
		m.slots[o.Name] = inc
	case "del":
		if _, ok := m.live[o.Name]; !ok {
			return true
		}
		delete(m.live, o.Name)
	case "names":
		m.listed = "listed" + m.liveNames()
	case "add":
		if inc, ok := m.slots[o.Name]; ok {
			m.sets[inc] |= 1 << uint(o.T)
		}
	case "rem":
		if inc, ok := m.slots[o.Name]; ok {
			m.sets[inc] &^= 1 << uint(o.T)
		}
	}
	return false
}

func (m *mstate) liveNames() string {
	var ln []string
	for n := range m.live {
		ln = append(ln, n)
	}
	sort.Strings(ln)
	return fmt.Sprint(ln)
}

func (m *mstate) canon(names []string) string {
	var b strings.Builder
	b.WriteString(m.listed + ";")
	for _, n := range names {
		inc, ok := m.live[n]
		if ok {
			fmt.Fprintf(&b, "%s=live:%03b ", n, m.sets[inc])
		} else {
			fmt.Fprintf(&b, "%s=absent ", n)
		}
		if h, ok := m.slots[n]; !ok {
			b.WriteString("slot=none;")
		} else if ok && h == inc && m.live[n] == h {
			b.WriteString("slot=live;")
		} else {
			// a stale handle's own content can never become visible again
			b.WriteString("slot=stale;")
		}
	}
	return b.String()
}

func (m *mstate) observe(names []string, nt int) string {
	var b strings.Builder
	var ln []string
	for n := range m.live {
		ln = append(ln, n)
	}
	sort.Strings(ln)
	fmt.Fprintf(&b, "names=%v;", ln)
	for _, n := range names {
		if inc, ok := m.live[n]; ok {
			var idx []int
			for i := 0; i < nt; i++ {
				if m.sets[inc]&(1<<uint(i)) != 0 {
					idx = append(idx, i)
				}
			}
			fmt.Fprintf(&b, "%s=%v;", n, idx)
		} else {
			fmt.Fprintf(&b, "%s=missing;", n)
		}
	}
	return b.String()
}

func l2universe() []*triple.Triple {
	a, b := model.N("/u", "a"), model.N("/u", "b")
	return []*triple.Triple{
		model.T(a, model.PI("p"), model.ON(b)),
		model.T(a, model.PT("p", model.T1), model.ON(b)),
		model.T(b, model.PI("p"), model.OL(model.L(literal.Text, "x"))),
	}
}

// runStore replays path on a fresh store; returns per-step error flags and the final observation.
func runStore(path []sop, names []string, u []*triple.Triple) (errs []bool, listings []string, observation string, fatal string) {
	st := memory.NewStore()
	slots := map[string]storage.Graph{}
	for _, o := range path {
		var err error
		switch o.Kind {
		case "new":
			var g storage.Graph
			g, err = st.NewGraph(model.Ctx, o.Name)
			if err == nil {
				if g == nil {
					return nil, nil, "", "NewGraph returned (nil, nil)"
				}
				slots[o.Name] = g
			}
		case "get":
			var g storage.Graph
			g, err = st.Graph(model.Ctx, o.Name)
			if err == nil {
				if g == nil {
					return nil, nil, "", "Graph returned (nil, nil)"
				}
				slots[o.Name] = g
			}
		case "del":
			err = st.DeleteGraph(model.Ctx, o.Name)
		case "names":
			var ln []string
			ln, err = model.GraphNames(st)
			sort.Strings(ln)
			if ln == nil {
				ln = []string{}
			}
			listings = append(listings, fmt.Sprint(ln))
		case "add":
			if g, ok := slots[o.Name]; ok {
				err = g.AddTriples(model.Ctx, []*triple.Triple{u[o.T]})
			}
		case "rem":
			if g, ok := slots[o.Name]; ok {
				err = g.RemoveTriples(model.Ctx, []*triple.Triple{u[o.T]})
			}
		}
		errs = append(errs, err != nil)
	}
	var b strings.Builder
	ln, err := model.GraphNames(st)
	if err != nil {
		return nil, nil, "", "GraphNames: " + err.Error()
	}
	if ln == nil {
		ln = []string{}
	}
	fmt.Fprintf(&b, "names=%v;", ln)
	for _, n := range names {
		g, err := st.Graph(model.Ctx, n)
		if err != nil {
			fmt.Fprintf(&b, "%s=missing;", n)
			continue
		}
		if id := g.ID(model.Ctx); id != n {
			return nil, nil, "", fmt.Sprintf("Graph(%q).ID() = %q", n, id)
		}
		ts, err := model.ListTriples(g, storage.DefaultLookup)
		if err != nil {
			return nil, nil, "", "Triples: " + err.Error()
		}
		var idx []int
		for _, t := range ts {
			found := -1
			for i, ut := range u {
				if model.TripleKey(ut) == model.TripleKey(t) {
					found = i
				}
			}
			idx = append(idx, found)
		}
		sort.Ints(idx)
		// Exist must agree with the listing.
		for i, ut := range u {
			ok, _ := g.Exist(model.Ctx, ut)
			in := false
			for _, j := range idx {
				if j == i {
					in = true
				}
			}
			if ok != in {
				return nil, nil, "", fmt.Sprintf("graph %s: Exist(t%d)=%v but listing=%v", n, i, ok, idx)
			}
		}
		fmt.Fprintf(&b, "%s=%v;", n, idx)
	}
	return errs, listings, b.String(), ""
}

// three names: dropping one of several, in every order, with and without a listing in between
var l2names = []string{"?a", "?b", "?c"}

type l2case struct {
	Path []sop  `json:"path"`
	Cfg  string `json:"cfg,omitempty"`
}

func checkL2(path []sop, names []string, u []*triple.Triple) (bool, string, string) {
	m := newM()
	var wantErrs []bool
	var wantListings []string
	for _, o := range path {
		wantErrs = append(wantErrs, m.step(o))
		if o.Kind == "names" {
			wantListings = append(wantListings, m.liveNames())
		}
	}
	var errs []bool
	var listings []string
	var got, fatal string
	if p := common.Guard(func() { errs, listings, got, fatal = runStore(path, names, u) }); p != nil {
		return false, "panic", fmt.Sprintf("path=%v panic: %v", path, p)
	}
	if fatal != "" {
		return false, "malformed-result", fmt.Sprintf("path=%v: %s", path, fatal)
	}
	for i := range errs {
		if errs[i] != wantErrs[i] {
			return false, "error-flag", fmt.Sprintf("path=%v step %d (%v): error=%v, model says %v", path, i, path[i], errs[i], wantErrs[i])
		}
	}
	if fmt.Sprint(listings) != fmt.Sprint(wantListings) {
		return false, "listing-inside-history", fmt.Sprintf("path=%v\n GraphNames calls returned %v, the graphs created and not dropped were %v", path, listings, wantListings)
	}
	if want := m.observe(names, len(u)); want != got {
		return false, "store-observation", fmt.Sprintf("path=%v\n want=%s\n got =%s", path, want, got)
	}
	return true, "", ""
}

// level2 runs the store-level search in two configurations: (a) two names x three triples, no listings inside
// the history; (b) three names x one triple with GraphNames as an operation of the history.
func level2(r *common.Run, maxDepth int) {
	level2cfg(r, maxDepth, "a", l2names[:2], l2universe(), false)
	level2cfg(r, maxDepth, "b", l2names, l2universe()[:1], true)
}

func level2cfg(r *common.Run, maxDepth int, label string, names []string, u []*triple.Triple, withNames bool) {
	var ops []sop
	if withNames {
		ops = append(ops, sop{Kind: "names"})
	}
	for _, n := range names {
		ops = append(ops, sop{Kind: "new", Name: n}, sop{Kind: "get", Name: n}, sop{Kind: "del", Name: n})
		for t := range u {
			ops = append(ops, sop{"add", n, t}, sop{"rem", n, t})
		}
	}
	type node struct {
		path []sop
	}
	seen := map[string]bool{newM().canon(names): true}
	frontier := []node{{}}
	states, trans, depth := 1, 0, 0
	var mu sync.Mutex
	for len(frontier) > 0 && depth < maxDepth {
		if r.OutOfTime() {
			break
		}
		type succ struct {
			path []sop
			key  string
		}
		results := make([][]succ, len(frontier))
		common.ParallelFor(len(frontier), func(i int) {
			nd := frontier[i]
			for _, o := range ops {
				path := append(append([]sop{}, nd.path...), o)
				ok, shape, d := checkL2(path, names, u)
				if !ok {
					r.Fail(common.Failure{Check: "l2", Class: "store-history", Shape: shape, Case: l2case{Path: path, Cfg: label}, Detail: d})
				}
				m := newM()
				for _, p := range path {
					m.step(p)
				}
				results[i] = append(results[i], succ{path, m.canon(names)})
				mu.Lock()
				trans++
				mu.Unlock()
			}
		})
		var next []node
		for _, rs := range results {
			for _, s := range rs {
				if !seen[s.key] {
					seen[s.key] = true
					states++
					next = append(next, node{s.path})
				}
			}
		}
		frontier = next
		depth++
	}
	r.Set("l2"+label+"_fixpoint", len(frontier) == 0)
	if len(frontier) > 0 {
		r.SetCapped()
	}
	r.Add("states", states)
	r.Add("transitions", trans)
	r.Add("traces_validated_against_impl", trans)
	r.Set("l2"+label+"_states", states)
	r.Set("l2"+label+"_depth", depth)
	if label != "a" {
		return
	}
	r.Sample(map[string]interface{}{"level": 2, "path": []sop{{Kind: "new", Name: "?a"}, {"add", "?a", 0}, {Kind: "del", Name: "?a"}, {Kind: "new", Name: "?a"}, {"add", "?a", 1}}})
}

func main() {
	debug.SetGCPercent(800)
	r := common.Start("C01", "model_checking")
	r.Replayer("l1", func(raw json.RawMessage) (bool, string) {
		var c l1case
		json.Unmarshal(raw, &c)
		ok, _, _, d := checkL1(universe(c.N), c.Path)
		return ok, d
	})
	r.Replayer("batch", func(raw json.RawMessage) (bool, string) {
		var c batchCase
		if err := json.Unmarshal(raw, &c); err != nil {
			common.Machinery("bad case: %v", err)
		}
		ok, sh, d := checkBatch(c)
		if ok {
			return true, fmt.Sprintf("a batch of %d is stored and removed as a whole", c.N)
		}
		return false, sh + ": " + d
	})
	r.Replayer("pair", func(raw json.RawMessage) (bool, string) {
		var c pairCase
		if err := json.Unmarshal(raw, &c); err != nil {
			common.Machinery("bad case: %v", err)
		}
		ok, _, sh, d := checkPair(c)
		if ok {
			return true, "the store keeps the two values apart"
		}
		return false, sh + ": " + d
	})
	r.Replayer("l2", func(raw json.RawMessage) (bool, string) {
		var c l2case
		json.Unmarshal(raw, &c)
		ok, _, d := checkL2(c.Path, l2names, l2universe()) // the names and triples of both configurations are prefixes of these
		return ok, d
	})
	r.MaybeReplay()
	r.Assume("identity of triples is judged structurally through exported accessors (type, id, kind, instant, literal type+value), never through UUID() or String()")
	r.Assume("successor states are produced by replaying the BFS-shortest operation path on a fresh memory store; merged model states are licensed by checking every transition out of every state")
	levelPairs(r)
	levelBatches(r)
	level2(r, r.Pick(12, 30))
	level1(r, r.Pick(11, 15))
	r.Set("rule", "level 0: every unordered pair of different values of the near-collision universes in each triple position, through add / add / remove on a fresh graph; BFS over StoreModel states; level 1: all subsets of the triple universe x all add/remove batches of size 0-2; level 2: store with 2 names x 3 triples, and 3 names x 1 triple with GraphNames calls inside the history (state keeps the content of the last listing), handle slots incl. stale handles, to fixpoint or the depth bound")
	r.Finish()
}
