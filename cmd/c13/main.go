// C13 — HAVING keeps exactly the rows satisfying its boolean expression.
//
// Exhaustive enumeration of expression trees (all trees to depth 2 quick / 3
// thorough in the shapes the grammar derives: A | NOT E | (E) | (E) AND E |
// (E) OR E) over atoms comparing a binding with constants of every kind
// (negative / fractional numbers, text with characters below '"', anchors in
// another zone, nodes, predicates, extracted ids and types, aggregate aliases)
// and with other bindings, run through the whole pipeline on result tables of
// every column kind. Oracle: truth-functional evaluation of the derivation tree
// over the rows of the same query without HAVING (bqlm.EvalRows).
package main

import (
	"encoding/json"
	"fmt"
	"github.com/google/badwolf/triple/predicate"
	"strings"
	"sync"
	"sync/atomic"

	"github.com/google/badwolf/triple"
	"github.com/google/badwolf/triple/literal"

	"verif/bqlm"
	"verif/common"
	"verif/model"
)

func bt(n string) bqlm.Term            { return bqlm.Term{Kind: bqlm.Bind, Name: n} }
func pc(id string) bqlm.Term           { return bqlm.Term{Kind: bqlm.Const, P: model.PI(id)} }
func cl(s, p, o bqlm.Term) bqlm.Clause { return bqlm.Clause{S: s, P: p, O: o} }
func pj(b string) bqlm.Proj            { return bqlm.Proj{Binding: b} }

func litOp(l *literal.Literal) bqlm.Operand {
	return bqlm.Operand{Text: l.String(), V: bqlm.Val{Kind: 'L', L: l}}
}

type tbl struct {
	name   string
	where  []bqlm.Clause
	proj   []bqlm.Proj
	group  []string
	atoms  []*bqlm.Expr
	second []*bqlm.Expr // atoms used only as right operands / deeper levels (keeps the product small)
}

func cmp(l, op string, r bqlm.Operand) *bqlm.Expr {
	return &bqlm.Expr{Kind: "cmp", Left: l, Op: op, Right: r}
}

func tables() []tbl {
	I := func(v int64) bqlm.Operand { return litOp(model.L(literal.Int64, v)) }
	F := func(v float64) bqlm.Operand { return litOp(model.L(literal.Float64, v)) }
	X := func(v string) bqlm.Operand { return litOp(model.L(literal.Text, v)) }
	an := bqlm.Anchors()
	Tm := func(i int, zoneHours int) bqlm.Operand {
		t := an[i].In(zoneOf(zoneHours))
		return bqlm.Operand{Text: bqlm.FmtTime(t), V: bqlm.Val{Kind: 'T', T: t}}
	}
	N := func(ty, id string) bqlm.Operand {
		n := model.N(ty, id)
		return bqlm.Operand{Text: n.String(), V: bqlm.Val{Kind: 'N', N: n}}
	}
	P := func(id string) bqlm.Operand {
		p := model.PT(id, model.T1)
		return bqlm.Operand{Text: p.String(), V: bqlm.Val{Kind: 'P', P: p}}
	}
	B := func(b string) bqlm.Operand { return bqlm.Operand{Binding: b} }
	ops := []string{"=", "<", ">"}
	var out []tbl
	mk := func(name string, where []bqlm.Clause, proj []bqlm.Proj, group []string, col string, same []bqlm.Operand, cross []bqlm.Operand) tbl {
		t := tbl{name: name, where: where, proj: proj, group: group}
		for _, c := range same {
			for _, op := range ops {
				t.atoms = append(t.atoms, cmp(col, op, c))
			}
		}
		// the constant written first (the grammar derives it; when the expression builder accepts it, it means
		// the mirrored comparison)
		for _, op := range ops {
			sw := cmp(col, op, same[1])
			sw.Swap = true
			t.atoms = append(t.atoms, sw)
		}
		for _, c := range cross {
			t.atoms = append(t.atoms, cmp(col, "=", c), cmp(col, "<", c))
		}
		return t
	}
	sv := []bqlm.Proj{pj("?s"), pj("?v")}
	one := func(id string) []bqlm.Clause { return []bqlm.Clause{cl(bt("?s"), pc(id), bt("?v"))} }
	out = append(out, mk("int64", one("ki"), sv, nil, "?v", []bqlm.Operand{I(-4), I(-3), I(0), I(3)}, []bqlm.Operand{F(0), X("0"), N("/u", "a")}))
	out = append(out, mk("float64", one("kf"), sv, nil, "?v", []bqlm.Operand{F(-1.0), F(-0.25), F(0.05), F(1e21), F(0.1000001), F(-0.2500001)}, []bqlm.Operand{I(0), X("0.1")}))
	out = append(out, mk("text", one("kt"), sv, nil, "?v", []bqlm.Operand{X("a"), X("a!"), X("aa"), X("B")}, []bqlm.Operand{I(1), N("/u", "a")}))
	tw := []bqlm.Clause{cl(bt("?s"), bqlm.Term{Kind: bqlm.AnchorBind, ID: "t", Name: "?v"}, bt("?o"))}
	out = append(out, mk("time", tw, sv, nil, "?v", []bqlm.Operand{Tm(1, 0), Tm(2, 3), Tm(3, -8)}, []bqlm.Operand{X("2016-01-01T00:00:00Z"), I(0)}))
	// nodes and predicates: identity only
	tn := tbl{name: "node", where: one("kn"), proj: sv}
	tn.atoms = []*bqlm.Expr{cmp("?v", "=", N("/u", "a")), cmp("?v", "=", N("/t", "a")), cmp("?v", "=", N("/u", "zz")), cmp("?v", "=", X("/u<a>")),
		// another node whose type and id, written one after the other, read like the stored /u<a0> (and /u<a>)
		cmp("?v", "=", N("/ua", "0")), cmp("?v", "=", P("p1")), cmp("?s", "=", B("?s")), cmp("?v", "=", B("?s"))}
	out = append(out, tn)
	tp := tbl{name: "predicate", where: one("kp"), proj: sv}
	pOther := func(p *predicate.Predicate) bqlm.Operand {
		return bqlm.Operand{Text: p.String(), V: bqlm.Val{Kind: 'P', P: p}}
	}
	tp.atoms = []*bqlm.Expr{cmp("?v", "=", P("p3")), cmp("?v", "=", P("p9")), cmp("?v", "=", N("/u", "a")), cmp("?v", "=", B("?v")),
		// the same id as a stored value, in the other kind / at another instant / the same instant in another zone
		cmp("?v", "=", pOther(model.PI("p3"))), cmp("?v", "=", pOther(model.PT("p3", model.T2))), cmp("?v", "=", pOther(model.PT("p3", model.T1.In(zoneOf(3)))))}
	out = append(out, tp)
	// extracted ids and types compare with text lexicographically
	ti := tbl{name: "id-type", where: []bqlm.Clause{cl(bt("?s"), pc("kn"), bqlm.Term{Kind: bqlm.Bind, Name: "?v", IDAlias: "?id", TypeAlias: "?ty"})}, proj: []bqlm.Proj{pj("?s"), pj("?id"), pj("?ty")}}
	for _, op := range ops {
		ti.atoms = append(ti.atoms, cmp("?id", op, X("a")), cmp("?id", op, X("a0")), cmp("?ty", op, X("/u")), cmp("?id", op, B("?ty")))
	}
	ti.atoms = append(ti.atoms, cmp("?id", "=", I(0)))
	out = append(out, ti)
	// two numeric bindings compared with each other
	tj := tbl{name: "join", where: []bqlm.Clause{cl(bt("?s"), pc("ki"), bt("?v")), cl(bt("?r"), pc("ki"), bt("?w"))}, proj: []bqlm.Proj{pj("?s"), pj("?v"), pj("?w")}}
	for _, op := range ops {
		tj.atoms = append(tj.atoms, cmp("?v", op, B("?w")), cmp("?v", op, I(-3)))
	}
	out = append(out, tj)
	// two anchors compared with each other (zones differ in the data)
	tt := tbl{name: "time-join", where: []bqlm.Clause{cl(bt("?s"), bqlm.Term{Kind: bqlm.AnchorBind, ID: "t", Name: "?v"}, bt("?o")), cl(bt("?r"), bqlm.Term{Kind: bqlm.AnchorBind, ID: "t", Name: "?w"}, bt("?o2"))}, proj: []bqlm.Proj{pj("?s"), pj("?v"), pj("?w")}}
	for _, op := range ops {
		tt.atoms = append(tt.atoms, cmp("?v", op, B("?w")))
	}
	out = append(out, tt)
	// bare bindings and a comparison without its right operand: the grammar derives them, only the expression
	// builder can refuse them (they must be refused with an error, whatever surrounds them)
	tb := tbl{name: "bare-binding", where: one("ki"), proj: sv}
	tb.atoms = []*bqlm.Expr{{Kind: "cmp", Left: "?v"}, {Kind: "cmp", Left: "?s"}, {Kind: "cmp", Left: "?v", Op: "="}, cmp("?v", "=", I(0))}
	out = append(out, tb)
	// the whole graph through one clause of three plain bindings (the only pattern whose LIMIT the planner may hand to the
	// driver: not when a HAVING expression still has to pick the rows)
	tall := tbl{name: "all", where: []bqlm.Clause{cl(bt("?s"), bt("?p"), bt("?v"))}, proj: []bqlm.Proj{pj("?s"), pj("?p"), pj("?v")}}
	tall.atoms = []*bqlm.Expr{cmp("?s", "=", N("/u", "n1")), cmp("?s", "=", N("/u", "n5")), cmp("?v", "=", N("/t", "a")), cmp("?v", "=", B("?s")), cmp("?s", "=", B("?s")), cmp("?s", "=", N("/u", "zz"))}
	out = append(out, tall)
	// applied after grouping: aggregate outputs
	ta := tbl{name: "aggregate", where: one("kn"), proj: []bqlm.Proj{pj("?v"), {Binding: "?s", Op: "count", Alias: "?c"}}, group: []string{"?v"}}
	for _, op := range ops {
		ta.atoms = append(ta.atoms, cmp("?c", op, I(1)), cmp("?c", op, I(2)))
	}
	ta.atoms = append(ta.atoms, cmp("?v", "=", N("/t", "a")), cmp("?c", "=", F(2)))
	out = append(out, ta)
	return out
}

func zoneOf(h int) *zoneT { return zoneLoc(h) }

type kase struct {
	Text string `json:"statement"`
	Gen  string `json:"gen"`
}

type verdict struct {
	ok                      bool
	class, shape            string
	detail, outcome         string
	rejected, crossRejected bool
}

func kindsIn(e *bqlm.Expr, acc map[string]bool) {
	switch e.Kind {
	case "cmp":
		k := "const:" + bqlm.SortKind(e.Right.V)
		if e.Right.Binding != "" {
			k = "binding-vs-binding"
		}
		acc[k+":"+e.Op] = true
	default:
		if e.A != nil {
			kindsIn(e.A, acc)
		}
		if e.B != nil {
			kindsIn(e.B, acc)
		}
	}
}

// baselinePrinted: per table the printed rows of its query WITHOUT HAVING, taken before any HAVING statement ran.
var baselinePrinted = map[string][]string{}

func check(t tbl, e *bqlm.Expr, data []*triple.Triple) verdict {
	q := &bqlm.Query{From: []string{"?g"}, Where: t.where, Proj: t.proj, GroupBy: t.group, Having: e.Render()}
	ks := map[string]bool{}
	kindsIn(e, ks)
	var kl []string
	for k := range ks {
		kl = append(kl, k)
	}
	sortStrings(kl)
	v := verdict{class: t.name + ":" + strings.Join(kl, ",")}
	full, err := bqlm.EvalRows(q, data)
	if err != nil {
		common.Machinery("reference evaluator: %v", err)
	}
	cols := q.OutCols()
	var want []bqlm.ORow
	cross := false
	for _, r := range full {
		row := map[string]bqlm.Val{}
		for i, c := range cols {
			row[c] = r[i]
		}
		// HAVING may also test input bindings that are projected under an alias: not generated here
		keep, ck := e.Eval(row)
		cross = cross || ck
		if keep {
			want = append(want, r)
		}
	}
	wk := bqlm.KeysOfRows(want, cols)
	res := bqlm.Exec(bqlm.NewStore(map[string][]*triple.Triple{"?g": data}), q.Render(), 0, 0, cols)
	text := q.Render()
	switch res.Stage {
	case "parse", "plan":
		v.ok, v.rejected, v.outcome = true, true, "rejected-at-parse"
		return v
	case "execute":
		if cross {
			// a comparison between different kinds: rejecting the query is permitted
			v.ok, v.crossRejected, v.outcome = true, true, "rejected-cross-kind"
			return v
		}
		v.shape = "execute-error:" + short(res.Err)
		v.detail = fmt.Sprintf("%s\n want %d rows %v\n got error %s", text, len(wk), wk, res.Err)
		v.outcome = "execute-error"
		return v
	case "panic", "hang":
		v.shape = res.Stage + "@" + res.Stack
		v.detail = fmt.Sprintf("%s\n %s %s", text, res.Stage, res.Err)
		v.outcome = res.Stage
		return v
	}
	got := res.Sorted()
	v.outcome = fmt.Sprintf("kept=%d/%d", len(got), len(full))
	if model.SameStrings(wk, got) {
		// "and leaves them unchanged": the kept rows print exactly as the same rows do without HAVING
		if base := baselinePrinted[t.name]; base != nil {
			left := map[string]int{}
			for _, p := range base {
				left[p]++
			}
			for _, p := range res.Printed {
				if left[p] == 0 {
					v.shape = "kept-row-printed-differently-than-without-having"
					v.detail = fmt.Sprintf("%s\n the kept row %s does not occur among the rows of the same query without HAVING: %v", text, p, base)
					return v
				}
				left[p]--
			}
		}
		v.ok = true
		return v
	}
	v.shape = "kept-rows-differ"
	v.detail = fmt.Sprintf("%s\n rows before HAVING (%d): %v\n want kept (%d): %v\n got  kept (%d): %v", text, len(full), bqlm.KeysOfRows(full, cols), len(wk), wk, len(got), got)
	return v
}

// checkLimit: HAVING picks the rows, LIMIT k then keeps k of them: the answer has min(k, kept) rows, each one a kept row
// (which ones is not specified without ORDER BY).
func checkLimit(t tbl, e *bqlm.Expr, k int, data []*triple.Triple) verdict {
	q := &bqlm.Query{From: []string{"?g"}, Where: t.where, Proj: t.proj, GroupBy: t.group, Having: e.Render()}
	v := verdict{class: t.name + ":with-limit"}
	full, err := bqlm.EvalRows(q, data)
	if err != nil {
		common.Machinery("reference evaluator: %v", err)
	}
	cols := q.OutCols()
	var want []bqlm.ORow
	for _, r := range full {
		row := map[string]bqlm.Val{}
		for i, c := range cols {
			row[c] = r[i]
		}
		if keep, _ := e.Eval(row); keep {
			want = append(want, r)
		}
	}
	wk := bqlm.KeysOfRows(want, cols)
	st := bqlm.NewStore(map[string][]*triple.Triple{"?g": data})
	if res := bqlm.Exec(st, q.Render(), 0, 0, cols); res.Stage != "" {
		v.ok, v.rejected, v.outcome = true, true, "not-accepted-without-limit" // judged by the pass without LIMIT
		return v
	}
	q.Limit = fmt.Sprintf("%q^^type:int64", fmt.Sprint(k))
	text := q.Render()
	res := bqlm.Exec(st, text, 0, 0, cols)
	if res.Stage != "" {
		v.shape = "fails-with-limit:" + res.Stage
		v.detail = fmt.Sprintf("%s\n accepted without LIMIT; with it: %s %s", text, res.Stage, res.Err)
		return v
	}
	n := len(wk)
	if k < n {
		n = k
	}
	got := res.Sorted()
	v.outcome = fmt.Sprintf("limit-kept=%d/%d", len(got), len(wk))
	left := map[string]int{}
	for _, w := range wk {
		left[w]++
	}
	for _, g := range got {
		if left[g] == 0 {
			v.shape = "row-under-limit-is-not-a-kept-row"
			v.detail = fmt.Sprintf("%s\n kept rows (%d): %v\n got: %v", text, len(wk), wk, got)
			return v
		}
		left[g]--
	}
	if len(got) != n {
		v.shape = "wrong-number-of-rows-under-limit"
		v.detail = fmt.Sprintf("%s\n the expression keeps %d rows, LIMIT %d must return %d of them; got %d: %v", text, len(wk), k, n, len(got), got)
		return v
	}
	v.ok = true
	return v
}

func short(e string) string {
	for _, cut := range []string{"a string binding can only be compared", "accepts only the \"=\" operation", "could not parse"} {
		if strings.Contains(e, cut) {
			return cut
		}
	}
	if len(e) > 60 {
		e = e[:60]
	}
	return e
}

func main() {
	r := common.Start("C13", "model_checking")
	data := bqlm.KindGraph()
	ts := tables()
	for _, t := range ts {
		q := &bqlm.Query{From: []string{"?g"}, Where: t.where, Proj: t.proj, GroupBy: t.group}
		res := bqlm.Exec(bqlm.NewStore(map[string][]*triple.Triple{"?g": data}), q.Render(), 0, 0, q.OutCols())
		if res.Stage != "" {
			common.Machinery("table %s: the query without HAVING fails: %s %s", t.name, res.Stage, res.Err)
		}
		if res.Printed == nil {
			res.Printed = []string{}
		}
		baselinePrinted[t.name] = res.Printed
	}
	depth := r.Pick(2, 3)
	trees := func(t tbl, d int) []*bqlm.Expr { return bqlm.Trees(t.atoms, d) }
	r.Replayer("having", func(raw json.RawMessage) (bool, string) {
		var k kase
		json.Unmarshal(raw, &k)
		var ti, ei, d int
		fmt.Sscanf(k.Gen, "%d:%d:%d", &ti, &ei, &d)
		es := trees(ts[ti], d)
		if d == 2 {
			n := 6
			if len(ts[ti].atoms) < n {
				n = len(ts[ti].atoms)
			}
			es = append(es, bqlm.Trees(ts[ti].atoms[:n], 3)...)
		}
		v := check(ts[ti], es[ei], data)
		return v.ok, v.detail
	})
	r.MaybeReplay()
	var evals, nontrivial, rejected, crossRejected int64
	var outcomes sync.Map
	total := 0
	for ti, t := range ts {
		d := depth
		if d == 3 && len(t.atoms) > 14 {
			// depth 3 over n atoms is ~4n^3 trees; keep the largest atom sets at depth 2 plus a depth-3 pass over their first 8 atoms
			d = 2
		}
		es := trees(t, d)
		if d == 2 {
			// deeper nesting over a reduced atom set: all trees of depth 3 over the first 6 atoms
			n := 6
			if len(t.atoms) < n {
				n = len(t.atoms)
			}
			es = append(es, bqlm.Trees(t.atoms[:n], 3)...)
		}
		total += len(es)
		tt, tti := t, ti
		common.ParallelFor(len(es), func(i int) {
			if r.OutOfTime() {
				return
			}
			v := check(tt, es[i], data)
			atomic.AddInt64(&evals, 1)
			outcomes.Store(v.outcome, true)
			if v.rejected {
				atomic.AddInt64(&rejected, 1)
			}
			if v.crossRejected {
				atomic.AddInt64(&crossRejected, 1)
			}
			if v.ok && !v.rejected && strings.HasPrefix(v.outcome, "kept=") && !strings.HasPrefix(v.outcome, "kept=0/") {
				atomic.AddInt64(&nontrivial, 1)
			}
			if !v.ok {
				q := &bqlm.Query{From: []string{"?g"}, Where: tt.where, Proj: tt.proj, GroupBy: tt.group, Having: es[i].Render()}
				r.Fail(common.Failure{Check: "having", Class: v.class, Shape: v.shape, Case: kase{q.Render(), fmt.Sprintf("%d:%d:%d", tti, i, d)}, Detail: v.detail})
			}
		})
	}
	// HAVING under LIMIT: every atom of every table x limits 0..3 and one beyond the table
	r.Replayer("having-limit", func(raw json.RawMessage) (bool, string) {
		var k kase
		json.Unmarshal(raw, &k)
		var ti, ei, lim int
		fmt.Sscanf(k.Gen, "limit:%d:%d:%d", &ti, &ei, &lim)
		v := checkLimit(ts[ti], ts[ti].atoms[ei], lim, data)
		return v.ok, v.detail
	})
	type ljob struct{ ti, ei, k int }
	var ljobs []ljob
	for ti, t := range ts {
		for ei := range t.atoms {
			for _, k := range []int{0, 1, 2, 3, 40} {
				ljobs = append(ljobs, ljob{ti, ei, k})
			}
		}
	}
	var limitEvals int64
	common.ParallelFor(len(ljobs), func(i int) {
		j := ljobs[i]
		if r.OutOfTime() {
			return
		}
		v := checkLimit(ts[j.ti], ts[j.ti].atoms[j.ei], j.k, data)
		atomic.AddInt64(&limitEvals, 1)
		if !v.ok {
			q := &bqlm.Query{From: []string{"?g"}, Where: ts[j.ti].where, Proj: ts[j.ti].proj, GroupBy: ts[j.ti].group, Having: ts[j.ti].atoms[j.ei].Render()}
			r.Fail(common.Failure{Check: "having-limit", Class: v.class, Shape: v.shape, Case: kase{q.Render(), fmt.Sprintf("limit:%d:%d:%d", j.ti, j.ei, j.k)}, Detail: v.detail})
		}
	})
	evals += limitEvals
	r.Set("having_under_limit_evaluations", int(limitEvals))
	// documented forms must stay accepted
	docs := []string{
		`?v > "10"^^type:int64`,
		`(?v > "10"^^type:int64) AND (?v < "20"^^type:int64)`,
		`?v < "mary"^^type:text`,
		`?v > ?s`,
		`?v > 2014-03-10T00:00:00-08:00`,
	}
	st := bqlm.NewStore(map[string][]*triple.Triple{"?g": data})
	for i, d := range docs {
		text := "SELECT ?s, ?v\n  FROM ?g\n  WHERE {\n    ?s \"ki\"@[] ?v\n  }\n  HAVING " + d + ";"
		res := bqlm.Exec(st, text, 0, 0, nil)
		evals++
		if res.Stage == "parse" || res.Stage == "plan" || res.Stage == "panic" {
			r.Fail(common.Failure{Check: "having", Class: "documented-form", Shape: "rejected:" + res.Stage, Case: kase{text, fmt.Sprintf("doc:%d", i)}, Detail: text + "\n " + res.Err})
		}
	}
	r.Set("evaluations", int(evals))
	r.Set("expressions", total)
	r.Set("tables", len(ts))
	r.Set("tree_depth", depth)
	r.Set("distinct_nontrivial", int(nontrivial))
	r.Set("rejected_by_expression_builder", int(rejected))
	r.Set("rejected_at_execution_for_cross_kind_comparison", int(crossRejected))
	n := 0
	outcomes.Range(func(k, v interface{}) bool { n++; return true })
	r.Set("distinct_outcomes", n)
	r.Set("states", len(ts))
	r.Set("transitions", int(evals))
	r.Set("traces_validated_against_impl", int(evals))
	r.Set("rule", "every (result table, expression tree) is one evaluation; non-trivial = accepted, no cross-kind rejection, and at least one row kept")
	r.Sample(map[string]interface{}{"having": trees(ts[0], 2)[len(trees(ts[0], 2))-7].Render(), "table": ts[0].name})
	r.Assume("truth-functional evaluation of the grammar's own (right nested) derivation: NOT applies to everything that follows it")
	r.Assume("latitude: a comparison between values of different kinds never holds; the query may also be rejected at execution; expressions the builder rejects at parse time are counted, the forms documented in docs/bql.md must be accepted")
	r.Finish()
}
