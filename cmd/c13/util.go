package main

import (
	"sort"
	"time"
)

type zoneT = time.Location

func zoneLoc(h int) *time.Location {
	if h == 0 {
		return time.UTC
	}
	return time.FixedZone("", h*3600)
}

func sortStrings(s []string) { sort.Strings(s) }
