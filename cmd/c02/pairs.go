package main

// Value pairs: the BFS universe is small (its values are chosen by hand), so a lookup that keys its index on something
// coarser than the value itself shows there only for those values. This pass quantifies over the values instead: for
// every unordered pair (x, y) of the near-collision universes shared with C01 and C06 (byte encodings, printed forms and
// hashed inputs that coincide or nearly coincide across kinds, types, zones, lengths and spellings) and every position
// of a triple, the two triples tx, ty that differ only there go through a fresh graph
//     add tx | add ty | remove tx
// and after each step the listing and all ten lookups are asked with x and with y in that position (the other two
// components are the stored ones) and compared with the set model.

import (
	"fmt"
	"sync/atomic"

	"github.com/google/badwolf/storage/memory"
	"github.com/google/badwolf/triple"

	"verif/common"
	"verif/lookup"
	"verif/model"
	"verif/vals"
)

type pairCase struct {
	Pos   string     `json:"position"`
	X     *vals.Spec `json:"x"`
	Y     *vals.Spec `json:"y"`
	Steps int        `json:"steps,omitempty"`  // replay: number of write steps before the failing read
	Meth  string     `json:"method,omitempty"` // replay: "" = listing
	WithY bool       `json:"query_uses_y,omitempty"`
}

func pairTriple(pos string, s *vals.Spec) *triple.Triple {
	fs, fp, fo := vals.NodeSpec("/u", "s0"), vals.ImmSpec("p0"), vals.ObjSpec(vals.NodeSpec("/u", "o0"))
	switch pos {
	case "S":
		fs = s
	case "P":
		fp = s
	default:
		fo = s
	}
	return vals.MustBuild(vals.TripleSpec(fs, fp, fo)).T
}

// splitNodes: node pairs whose type+id concatenations coincide (C01/C06 own that finding).
func splitNodes(a, b *vals.Spec) bool {
	if a.K == "obj" && b.K == "obj" {
		a, b = a.O, b.O
	}
	return a.K == "node" && b.K == "node" && a.T+string(a.ID) == b.T+string(b.ID)
}

// runPair executes the pair; only is nil (everything) or selects one read for replay. It returns the number of
// lookups compared and the first failure.
func runPair(c pairCase, only *pairCase, fail func(pairCase, verdict)) int {
	tx, ty := pairTriple(c.Pos, c.X), pairTriple(c.Pos, c.Y)
	st := memory.NewStore()
	g, err := st.NewGraph(model.Ctx, "?g")
	if err != nil {
		fail(c, verdict{class: "value-pair:" + c.Pos, shape: "operation-error", detail: err.Error()})
		return 0
	}
	set := map[string]*triple.Triple{}
	kx, ky := model.TripleKey(tx), model.TripleKey(ty)
	content := func() []*triple.Triple {
		var ts []*triple.Triple
		if t, ok := set[kx]; ok {
			ts = append(ts, t)
		}
		if t, ok := set[ky]; ok && ky != kx {
			ts = append(ts, t)
		}
		return ts
	}
	n := 0
	steps := []struct {
		name string
		f    func() error
	}{
		{"add x", func() error { set[model.TripleKey(tx)] = tx; return g.AddTriples(model.Ctx, []*triple.Triple{tx}) }},
		{"add y", func() error { set[model.TripleKey(ty)] = ty; return g.AddTriples(model.Ctx, []*triple.Triple{ty}) }},
		{"remove x", func() error {
			delete(set, model.TripleKey(tx))
			return g.RemoveTriples(model.Ctx, []*triple.Triple{tx})
		}},
	}
	for si, s := range steps {
		if err := s.f(); err != nil {
			cc := c
			cc.Steps = si + 1
			fail(cc, verdict{class: "value-pair:" + c.Pos, shape: "operation-error", detail: s.name + ": " + err.Error()})
			return n
		}
		cur := content()
		if only == nil || (only.Steps == si+1 && only.Meth == "") {
			n++
			if v := judgeListing(g, cur); !v.ok {
				cc := c
				cc.Steps = si + 1
				v.class = "value-pair:" + c.Pos
				fail(cc, v)
			}
		}
		for _, m := range lookup.Ten {
			for _, withY := range []bool{false, true} {
				if only != nil && (only.Steps != si+1 || only.Meth != m.String() || only.WithY != withY) {
					continue
				}
				t := tx
				if withY {
					t = ty
				}
				q := lookup.Query{M: m, S: t.Subject(), P: t.Predicate(), O: t.Object()}
				v := judge(g, cur, q)
				n++
				if !v.ok {
					cc := c
					cc.Steps, cc.Meth, cc.WithY = si+1, m.String(), withY
					if v.class == classGeneric {
						v.class = "value-pair:" + c.Pos
					}
					fail(cc, v)
				}
			}
		}
	}
	return n
}

func pairFamilies(th bool) map[string][]*vals.Spec {
	ns, ps, ls := vals.NearNodes(th), vals.NearPreds(th), vals.NearLits(th)
	var os []*vals.Spec
	for _, fam := range [][]*vals.Spec{ns, ps, ls} {
		for _, s := range fam {
			os = append(os, vals.ObjSpec(s))
		}
	}
	return map[string][]*vals.Spec{"S": vals.Dedup(ns), "P": vals.Dedup(ps), "O": vals.Dedup(os)}
}

func levelPairs(r *common.Run) {
	var cases []pairCase
	skipped := 0
	fams := pairFamilies(r.Thorough())
	for _, pos := range []string{"S", "P", "O"} {
		fam := fams[pos]
		for i := range fam {
			for j := i + 1; j < len(fam); j++ {
				if splitNodes(fam[i], fam[j]) {
					skipped++
					continue
				}
				cases = append(cases, pairCase{Pos: pos, X: fam[i], Y: fam[j]})
			}
		}
	}
	var done, evals int64
	const chunk = 256
	nchunks := (len(cases) + chunk - 1) / chunk
	shards := make([]lookup.Shard, nchunks)
	common.ParallelFor(nchunks, func(ci int) {
		sh := &shards[ci]
		for i := ci * chunk; i < (ci+1)*chunk && i < len(cases); i++ {
			if r.OutOfTime() {
				return
			}
			var n int
			if p := common.Guard(func() {
				n = runPair(cases[i], nil, func(c pairCase, v verdict) {
					sh.Fail(common.Failure{Check: "pair", Class: v.class, Shape: v.shape, Case: c,
						Detail: fmt.Sprintf("triples differing only in position %s: x=%s y=%s, after %d of [add x, add y, remove x]\n %s", c.Pos, c.X.Short(), c.Y.Short(), c.Steps, v.detail)})
				})
			}); p != nil {
				sh.Fail(common.Failure{Check: "pair", Class: "value-pair:" + cases[i].Pos, Shape: "panic", Case: cases[i], Detail: fmt.Sprint(p)})
			}
			atomic.AddInt64(&done, 1)
			atomic.AddInt64(&evals, int64(n))
		}
	})
	lookup.Flush(r, shards)
	r.Set("value_pairs", int(done))
	if int(done) < len(cases) {
		r.SetCapped() // the time budget ended before every pair was visited
	}
	r.Set("value_pairs_total", len(cases))
	r.Set("value_pair_lookups", int(evals))
	r.Set("value_pairs_skipped_node_split", skipped)
}
