// C02 — every indexed lookup returns exactly what a scan of the graph would return.
//
// Explicit-state BFS over all subsets of a small triple universe. Every
// transition (singleton or 2-batch add/remove) out of every state is replayed
// on a fresh memory graph (BFS-shortest path to the state + the operation);
// in the state reached, the listing and all ten lookup methods over a grid of
// stored and non-stored arguments are compared with the reference model
// (verif/lookup: filter of the model set by structural component equality).
package main

import (
	"encoding/json"
	"fmt"
	"os"
	"runtime/debug"
	"sort"
	"strings"
	"sync"
	"time"

	"github.com/google/badwolf/storage"
	"github.com/google/badwolf/storage/memory"
	"github.com/google/badwolf/triple"
	"github.com/google/badwolf/triple/literal"
	"github.com/google/badwolf/triple/node"
	"github.com/google/badwolf/triple/predicate"

	"verif/common"
	"verif/lookup"
	"verif/model"
)

// longX: ids longer than any fixed-size buffer that agree on their first 96 bytes ("q" is stored, "r" never;
// node "c" is stored, "z" never): an index keyed by a truncated id answers for the wrong one.
var longX = strings.Repeat("k", 96)

var (
	na, nb, nc, nz = model.N("/u", "a"), model.N("/u", "b"), model.N("/u", longX+"c"), model.N("/u", longX+"z")
	zonePlus2      = time.FixedZone("plus2", 2*3600)
	// nt: the id of na under another type (an index keyed by the id alone files it with na)
	nt = model.N("/t", "a")
	// tW: exactly 2^64 ns after T1 (outside the range of UnixNano, where that value wraps onto T1's)
	tW = model.T1.Add(1 << 62).Add(1 << 62).Add(1 << 62).Add(1 << 62)
	// tQ: 250 ms after T1, inside the same wall-clock second
	tQ = model.T1.Add(250 * time.Millisecond)
)

// universe: every pair of triples differs in as few components as possible, so
// that a bucket keyed too coarsely or a stale index entry shows.
func universe(n int) []*triple.Triple {
	p := model.PI("p")
	u := []*triple.Triple{
		model.T(na, p, model.ON(nb)),                                               // 0 base
		model.T(na, model.PT("p", model.T1), model.ON(nb)),                         // 1 same id, temporal
		model.T(na, model.PT("p", tW), model.ON(nb)),                               // 2 same id, other instant (2^64 ns later)
		model.T(na, model.PT("p", tQ), model.ON(nb)),                               // same id, an instant inside the same second as T1 (250 ms later)
		model.T(nt, p, model.ON(nb)),                                               // 3 other subject: the same id under another type
		model.T(na, p, model.ON(nc)),                                               // 4 other object
		model.T(na, model.PI(longX+"q"), model.ON(nb)),                             // 5 other predicate id
		model.T(na, p, model.OP(model.PT("p", model.T1))),                          // 6 predicate-valued object
		model.T(nc, model.PT("p", model.T1), model.OL(model.L(literal.Text, "x"))), // 7 literal object
		model.T(nb, model.PT(longX+"q", model.T1), model.ON(na)),                   // 8 node as subject here, object elsewhere
		model.T(na, model.PT("p", model.T1), model.OP(p)),                          // 9 predicate-valued object of the other kind
	}
	return u[:n]
}

// Argument grid: stored and non-stored values for every position.
var (
	argS = []*node.Node{na, nc, nb, nz, nt}
	argP = []*predicate.Predicate{
		model.PI("p"), model.PT("p", model.T1), model.PT("p", tW), model.PT("p", tQ),
		model.PT("p", model.T3),                              // anchor never stored
		model.PI(longX + "q"), model.PT(longX+"q", model.T1), // q@T1 stored only in the larger universe
		model.PI(longX + "r"),                 // identifier never stored
		model.PT("p", model.T1.In(zonePlus2)), // same instant as p@T1, written in another zone
	}
	argO = []*triple.Object{
		model.ON(nb), model.ON(nc), model.OP(model.PT("p", model.T1)), model.OP(model.PI("p")),
		model.ON(nz), model.OL(model.L(literal.Text, "x")), model.ON(na),
		model.OP(model.PT("p", model.T1.In(zonePlus2))), // same predicate object as #2, written in another zone
	}
)

type qref struct {
	Method string `json:"method"`
	S      int    `json:"s"`
	P      int    `json:"p"`
	O      int    `json:"o"`
}

func (r qref) query() lookup.Query {
	m, ok := lookup.MethodByName(r.Method)
	if !ok {
		common.Machinery("unknown method %q", r.Method)
	}
	return lookup.Query{M: m, S: argS[r.S], P: argP[r.P], O: argO[r.O]}
}

func grid() []qref {
	var g []qref
	for _, m := range lookup.Ten {
		fs, fp, fo := m.Fixes()
		ns, np, no := 1, 1, 1
		if fs {
			ns = len(argS)
		}
		if fp {
			np = len(argP)
		}
		if fo {
			no = len(argO)
		}
		for s := 0; s < ns; s++ {
			for p := 0; p < np; p++ {
				for o := 0; o < no; o++ {
					g = append(g, qref{m.String(), s, p, o})
				}
			}
		}
	}
	return g
}

type op struct {
	Kind string `json:"kind"` // add | remove
	Idx  []int  `json:"triples"`
}

func (o op) String() string { return fmt.Sprintf("%s%v", o.Kind, o.Idx) }

func alphabet(n int) []op {
	var ops []op
	for _, k := range []string{"add", "remove"} {
		for i := 0; i < n; i++ {
			ops = append(ops, op{k, []int{i}})
		}
		for i := 0; i < n; i++ {
			for j := i + 1; j < n; j++ {
				ops = append(ops, op{k, []int{i, j}})
			}
		}
	}
	return ops
}

func applyModel(s uint32, o op) uint32 {
	for _, i := range o.Idx {
		if o.Kind == "add" {
			s |= 1 << uint(i)
		} else {
			s &^= 1 << uint(i)
		}
	}
	return s
}

func members(u []*triple.Triple, s uint32) []*triple.Triple {
	var ts []*triple.Triple
	for i, t := range u {
		if s&(1<<uint(i)) != 0 {
			ts = append(ts, t)
		}
	}
	return ts
}

func pick(u []*triple.Triple, idx []int) []*triple.Triple {
	ts := make([]*triple.Triple, 0, len(idx))
	for _, i := range idx {
		ts = append(ts, u[i])
	}
	return ts
}

// build replays path on a fresh memory graph.
// primeAll runs the listing, Exist for every universe triple and every lookup of the grid on g and drops the
// answers: whatever the driver might keep from a read is in place when the next write arrives.
var primeAll func(g storage.Graph, u []*triple.Triple)

// buildPrimed replays path like build, but reads everything just before the LAST operation (read, write, read).
func buildPrimed(u []*triple.Triple, path []op) (storage.Graph, uint32, string) {
	if len(path) == 0 {
		return build(u, path)
	}
	g, s, msg := build(u, path[:len(path)-1])
	if msg != "" {
		return g, s, msg
	}
	primeAll(g, u)
	o := path[len(path)-1]
	var err error
	if o.Kind == "add" {
		err = g.AddTriples(model.Ctx, pick(u, o.Idx))
	} else {
		err = g.RemoveTriples(model.Ctx, pick(u, o.Idx))
	}
	if err != nil {
		return nil, 0, o.String() + ": " + err.Error()
	}
	return g, applyModel(s, o), ""
}

func build(u []*triple.Triple, path []op) (storage.Graph, uint32, string) {
	st := memory.NewStore()
	g, err := st.NewGraph(model.Ctx, "?g")
	if err != nil {
		return nil, 0, "NewGraph: " + err.Error()
	}
	var s uint32
	for _, o := range path {
		if o.Kind == "add" {
			err = g.AddTriples(model.Ctx, pick(u, o.Idx))
		} else {
			err = g.RemoveTriples(model.Ctx, pick(u, o.Idx))
		}
		if err != nil {
			return nil, 0, o.String() + ": " + err.Error()
		}
		s = applyModel(s, o)
	}
	return g, s, ""
}

type lcase struct {
	N      int   `json:"universe"`
	Path   []op  `json:"path"`
	Query  *qref `json:"query,omitempty"` // nil: the listing
	Primed bool  `json:"reads_before_the_last_write,omitempty"`
}

// verdict of one lookup in one state.
type verdict struct {
	ok           bool
	class, shape string
	detail       string
	nontrivial   bool
	size         int
}

const (
	classKind    = "query-predicate-same-id-other-kind-stored"
	shapeKind    = "extra-results-equal-kind-blind-match"
	classGeneric = "lookup-after-history"
)

// judge compares one real lookup with the model. set is the model content.
func judge(g storage.Graph, set []*triple.Triple, q lookup.Query) verdict {
	want := lookup.Expect(set, q, lookup.Opts{}, lookup.Hyp{})
	res := lookup.Call(g, q, storage.DefaultLookup)
	got := lookup.Sorted(res.Keys)
	v := verdict{size: len(got), nontrivial: len(want) > 0 && len(want) < len(set)}
	// Input classifier (the case alone): does the state hold a triple that the
	// query would match if predicate kinds were not compared, but not otherwise?
	blind := lookup.Expect(set, q, lookup.Opts{}, lookup.Hyp{KindBlindPredicate: true})
	v.class = classGeneric
	if !lookup.SameSeq(blind, want) {
		v.class = classKind
	}
	if !res.OK() {
		v.shape = res.Problem()
		v.detail = fmt.Sprintf("%v on content %v: %s", q, lookup.KeysOf(set), res)
		return v
	}
	if lookup.SameSeq(want, got) {
		v.ok = true
		return v
	}
	missing, extra := lookup.DiffMultiset(want, got)
	switch {
	case v.class == classKind && lookup.SameSeq(blind, got):
		v.shape = shapeKind
	case len(missing) > 0 && len(extra) > 0:
		v.shape = "missing-and-extra-results"
	case len(missing) > 0:
		v.shape = "missing-results"
	default:
		v.shape = "extra-results"
	}
	v.detail = fmt.Sprintf("%v\n content=%v\n want=%v\n got =%v\n missing=%v extra=%v", q, lookup.KeysOf(set), want, got, missing, extra)
	return v
}

// judgeListing compares the full listing (the "scan") with the model content.
func judgeListing(g storage.Graph, set []*triple.Triple) verdict {
	res := lookup.Call(g, lookup.Query{M: lookup.Triples}, storage.DefaultLookup)
	want := lookup.KeysOf(set)
	got := lookup.Sorted(res.Keys)
	v := verdict{class: "listing-after-history", size: len(got)}
	if !res.OK() {
		v.shape = res.Problem()
		v.detail = "Triples: " + res.String()
		return v
	}
	if lookup.SameSeq(want, got) {
		v.ok = true
		return v
	}
	v.shape = "listing-differs-from-set-model"
	v.detail = fmt.Sprintf("Triples()\n want=%v\n got =%v", want, got)
	return v
}

func main() {
	if os.Getenv("GOGC") == "" {
		debug.SetGCPercent(400)
	}
	r := common.Start("C02", "model_checking")
	qs := grid()
	r.Replayer("lookup", func(raw json.RawMessage) (bool, string) {
		var c lcase
		if err := json.Unmarshal(raw, &c); err != nil {
			return false, err.Error()
		}
		u := universe(c.N)
		bf := build
		if c.Primed {
			bf = buildPrimed
		}
		g, s, msg := bf(u, c.Path)
		if msg != "" {
			return false, msg
		}
		var v verdict
		if c.Query == nil {
			v = judgeListing(g, members(u, s))
		} else {
			v = judge(g, members(u, s), c.Query.query())
		}
		if v.ok {
			return true, fmt.Sprintf("path %v, %d results as the model says", c.Path, v.size)
		}
		return false, fmt.Sprintf("path=%v class=%s shape=%s\n %s", c.Path, v.class, v.shape, v.detail)
	})
	r.Replayer("pair", func(raw json.RawMessage) (bool, string) {
		var c pairCase
		if err := json.Unmarshal(raw, &c); err != nil {
			return false, err.Error()
		}
		var bad []string
		n := runPair(c, &c, func(cc pairCase, v verdict) {
			bad = append(bad, fmt.Sprintf("class=%s shape=%s\n %s", v.class, v.shape, v.detail))
		})
		if len(bad) > 0 {
			return false, strings.Join(bad, "\n")
		}
		return true, fmt.Sprintf("%d lookups as the model says", n)
	})
	primeAll = func(g storage.Graph, u []*triple.Triple) {
		lookup.Call(g, lookup.Query{M: lookup.Triples}, storage.DefaultLookup)
		for _, t := range u {
			g.Exist(model.Ctx, t)
		}
		for k := range qs {
			lookup.Call(g, qs[k].query(), storage.DefaultLookup)
		}
	}
	r.MaybeReplay()
	if err := lookup.SelfTest(); err != nil {
		common.Machinery("MODEL-INVALID: %v", err)
	}
	lookup.StartWatchdog(3 * time.Minute)
	stopProfile := lookup.MaybeProfile()
	r.Assume("identity of nodes, predicates, objects is judged structurally through exported accessors (type+id; id+kind+instant; kind+value), never through UUID() or String()")
	r.Assume("successor states are produced by replaying the BFS-shortest operation path on a fresh memory graph; every transition out of every state is replayed, which licenses merging states reached by different histories")
	r.Assume("the universe avoids node pairs whose type+id concatenations coincide (C01/C06 own that finding)")
	r.Assume("channels are buffered (64) so each lookup runs on the caller's goroutine; 'closed' means closed when the method returned")

	levelPairs(r)

	n := r.Pick(9, 11)
	u := universe(n)
	ops := alphabet(n)
	paths := map[uint32][]op{0: {}}
	frontier := []uint32{0}
	var order []uint32
	for len(frontier) > 0 {
		var next []uint32
		for _, s := range frontier {
			order = append(order, s)
			for _, o := range ops {
				ns := applyModel(s, o)
				if _, ok := paths[ns]; !ok {
					paths[ns] = append(append([]op{}, paths[s]...), o)
					next = append(next, ns)
				}
			}
		}
		frontier = next
	}
	var mu sync.Mutex
	trans, evals, nontrivial := 0, 0, 0
	sizes := map[int]int{}
	perMethodNontrivial := map[string]int{}
	statesDone := 0
	shards := make([]lookup.Shard, len(order))
	common.ParallelFor(len(order), func(i int) {
		sh := &shards[i]
		if r.OutOfTime() {
			return
		}
		s := order[i]
		lt, le, ln := 0, 0, 0
		lsizes := map[int]int{}
		lpm := map[string]int{}
		for _, primed := range []bool{false, true} {
			for _, o := range ops {
				path := append(append([]op{}, paths[s]...), o)
				bf := build
				if primed {
					bf = buildPrimed
				}
				var g storage.Graph
				var ns uint32
				var msg string
				if p := common.Guard(func() { g, ns, msg = bf(u, path) }); p != nil {
					msg = fmt.Sprintf("panic: %v", p)
				}
				lt++
				if msg != "" {
					sh.Fail(common.Failure{Check: "lookup", Class: "write-history", Shape: "operation-error", Case: lcase{N: n, Path: path, Primed: primed}, Detail: msg})
					continue
				}
				set := members(u, ns)
				if v := judgeListing(g, set); !v.ok {
					sh.Fail(common.Failure{Check: "lookup", Class: v.class, Shape: v.shape, Case: lcase{N: n, Path: path, Primed: primed}, Detail: fmt.Sprintf("path=%v\n %s", path, v.detail)})
				}
				for k := range qs {
					v := judge(g, set, qs[k].query())
					le++
					lsizes[v.size]++
					if v.nontrivial {
						ln++
						lpm[qs[k].Method]++
					}
					if !v.ok {
						q := qs[k]
						sh.Fail(common.Failure{Check: "lookup", Class: v.class, Shape: v.shape, Case: lcase{N: n, Path: path, Query: &q, Primed: primed}, Detail: fmt.Sprintf("path=%v\n %s", path, v.detail)})
					}
				}
			}
		}
		mu.Lock()
		trans += lt
		evals += le
		nontrivial += ln
		statesDone++
		for k, v := range lsizes {
			sizes[k] += v
		}
		for k, v := range lpm {
			perMethodNontrivial[k] += v
		}
		mu.Unlock()
	})
	stopProfile()
	lookup.Flush(r, shards)
	maxDepth := 0
	for _, p := range paths {
		if len(p) > maxDepth {
			maxDepth = len(p)
		}
	}
	r.Set("states", statesDone)
	r.Set("states_total", len(order))
	r.Set("transitions", trans)
	r.Set("traces_validated_against_impl", trans)
	r.Set("evaluations", evals)
	r.Set("distinct_nontrivial", nontrivial)
	r.Set("universe", n)
	r.Set("ops", len(ops))
	r.Set("lookups_per_state", len(qs))
	r.Set("max_depth", maxDepth)
	var sk []int
	for k := range sizes {
		sk = append(sk, k)
	}
	sort.Ints(sk)
	hist := map[string]int{}
	for _, k := range sk {
		hist[fmt.Sprint(k)] = sizes[k]
	}
	r.Set("result_size_histogram", hist)
	r.Set("nontrivial_per_method", perMethodNontrivial)
	r.Set("rule", "every unordered pair of values of the near-collision universes in every position of a triple: add tx, add ty, remove tx with the listing and all ten lookups (asked with x and with y) after each step; then BFS over all subsets of the universe x {add,remove} x {every singleton, every 2-batch}, each transition replayed plainly and with every read issued just before its last write (read, write, read); after each replayed transition: listing + 10 methods x (5 subjects x 9 predicates x 8 objects as applicable), default options; nontrivial = the model expects at least one result and at least one stored triple does not match")
	r.Sample(map[string]interface{}{"path": paths[order[len(order)/2]], "then": ops[len(ops)/3], "query": qs[len(qs)/2]})
	r.Sample(map[string]interface{}{"path": paths[order[len(order)-1]], "then": ops[0], "query": qs[0]})
	r.Finish()
}
