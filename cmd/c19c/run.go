package main

import (
	"encoding/json"
	"fmt"
	"io"
	"os"
	"path/filepath"
	"sort"
	"strings"
	"time"

	"github.com/google/badwolf/storage"
	"github.com/google/badwolf/triple"

	"verif/explore"
	"verif/vrt"
)

// This binary is the concurrent half of property C19. It is started by
// cmd/c19 (the property's check) and talks to it through stdout:
//
//	c19c --part quick|thorough [--budget-s N]   explore; one JSON report on stdout, progress on stderr
//	c19c --replay-case                          re-execute the case given on stdin; JSON {held, message} on stdout
//
// Exit codes: 0 = report written (failures, if any, are in the report),
// 2 = machinery error (not instrumented, nondeterminism, worker failure).
// cmd/c19 merges the report into evidence/C19.json and owns the verdict.

func variantName(sc *scenario, capa int) string { return fmt.Sprintf("%s/cap%d", sc.Name, capa) }

// a variant name with the suffix "+clock" runs with visible call/return instants (sleep-set runs)
func resolve(name string) (*scenario, int, bool) {
	clock := strings.HasSuffix(name, "+clock")
	parts := strings.Split(strings.TrimSuffix(name, "+clock"), "/cap")
	if len(parts) != 2 {
		return nil, 0, false
	}
	for i := range scenarios {
		if scenarios[i].Name == parts[0] {
			c := 0
			fmt.Sscan(parts[1], &c)
			return &scenarios[i], c, clock
		}
	}
	return nil, 0, false
}

func factory(name string) func() explore.Exec {
	sc, c, clock := resolve(name)
	if sc == nil {
		return nil
	}
	return sc.mk(c, clock)
}

type schedCase struct {
	Variant  string `json:"variant"`
	Scenario string `json:"scenario"`
	Mode     string `json:"mode"`
	Bound    int    `json:"bound"`
	Choices  []int  `json:"choices"`
	Trace    string `json:"trace,omitempty"`
}

type failureOut struct {
	Check  string    `json:"check"`
	Class  string    `json:"class"`
	Shape  string    `json:"shape"`
	Case   schedCase `json:"case"`
	Detail string    `json:"detail"`
	Count  int       `json:"count"`
}

type scenReport struct {
	Variant        string         `json:"variant"`
	Scenario       string         `json:"scenario"`
	Mode           string         `json:"mode"`
	Exhaustive     bool           `json:"exhaustive"`
	BoundCompleted int            `json:"bound_completed"`
	Executions     int            `json:"executions"`
	Pruned         int            `json:"pruned_partial_runs"`
	DistinctHB     int            `json:"distinct_partial_orders"`
	Outcomes       map[string]int `json:"outcomes"`
	MaxSteps       int            `json:"max_steps"`
	MaxThreads     int            `json:"max_threads"`
	Statuses       map[string]int `json:"statuses"`
	Failures       []string       `json:"failures,omitempty"`
	WallMs         int64          `json:"wall_ms"`
}

type report struct {
	Tier        string                   `json:"tier"`
	Scenarios   []scenReport             `json:"scenarios"`
	Schedules   int                      `json:"schedules"`
	Transitions int64                    `json:"transitions"`
	States      int                      `json:"states"`
	Validated   int                      `json:"traces_validated_against_impl"`
	Outcomes    int                      `json:"distinct_outcomes"`
	Exhaustive  bool                     `json:"exhaustive"`
	Rule        string                   `json:"rule"`
	Assumptions []string                 `json:"assumptions"`
	Samples     []map[string]interface{} `json:"samples"`
	Failures    []failureOut             `json:"failures"`
	Inventory   map[string]interface{}   `json:"instrumentation_inventory,omitempty"`
	WallS       float64                  `json:"wall_s"`
}

func machinery(format string, a ...interface{}) {
	fmt.Printf("MACHINERY-ERROR: "+format+"\n", a...)
	fmt.Fprintf(os.Stderr, "MACHINERY-ERROR: "+format+"\n", a...)
	os.Exit(2)
}

func main() {
	explore.ServeWorker(factory)
	args := os.Args[1:]
	tier, budget := "", 0
	for i := 0; i < len(args); i++ {
		switch args[i] {
		case "--replay-case":
			replayCase()
			return
		case "--part":
			if i+1 < len(args) {
				tier = args[i+1]
				i++
			}
		case "--budget-s":
			if i+1 < len(args) {
				fmt.Sscan(args[i+1], &budget)
				i++
			}
		}
	}
	if tier != "quick" && tier != "thorough" {
		fmt.Fprintln(os.Stderr, "usage: c19c --part quick|thorough [--budget-s N] | --replay-case  (started by cmd/c19; see cmd/c19c/NOTES.md)")
		os.Exit(2)
	}
	thorough := tier == "thorough"
	pickI := func(q, t int) int {
		if thorough {
			return t
		}
		return q
	}
	if !instrumented() {
		machinery("cmd/c19c was built without the vsched overlay (use ./vcheck C19 or cmd/c19c/build.sh)")
	}
	if budget == 0 {
		budget = pickI(100, 660)
	}
	start := time.Now()
	rep := report{Tier: tier, Exhaustive: true}
	rep.Assumptions = []string{
		"CONCURRENT part (vsched): scheduling points at synchronisation operations (the layer's RWMutex, its WaitGroup, goroutine start, channel operations, the memory store's locks) plus the call/return instants of every operation; code between two such points is atomic",
		"the oracle is exactly: (a) a read returns the wrapped store's content at some instant of its call interval, (b) a read that starts after a write returned reflects it, (c) after quiescence a fresh read through the wrapper equals the same read on the wrapped graph; reads are not required to be linearizable among themselves",
		"the instants at which a forwarded write starts and ends are observed by a pass-through recording layer between the memoizer and the memory store; the content changes somewhere in between (both allowed)",
	}

	type plan struct {
		variant string
		sc      *scenario
		capa    int
	}
	var plans []plan
	for i := range scenarios {
		for _, c := range scenarios[i].Caps {
			plans = append(plans, plan{variantName(&scenarios[i], c), &scenarios[i], c})
		}
	}
	shards := pickI(4, 8)
	deadlineB := start.Add(time.Duration(budget) * time.Second * time.Duration(pickI(3, 2)) / 5).UnixMilli()
	deadline := start.Add(time.Duration(budget) * time.Second).UnixMilli()

	run := func(mkJobs func(p plan) []explore.Job) map[string]*explore.Result {
		var jobs []explore.Job
		idx := map[string][]int{}
		for _, p := range plans {
			for _, j := range mkJobs(p) {
				idx[p.variant] = append(idx[p.variant], len(jobs))
				jobs = append(jobs, j)
			}
		}
		if len(jobs) == 0 {
			return nil
		}
		res, err := explore.RunJobs(jobs, 16)
		if err != nil {
			machinery("worker failed: %v", err)
		}
		out := map[string]*explore.Result{}
		for v, is := range idx {
			var rs []*explore.Result
			for _, i := range is {
				rs = append(rs, res[i])
			}
			out[v] = explore.Merge(rs)
			if out[v].Nondet != "" {
				machinery("NONDETERMINISM %s: %s", v, out[v].Nondet)
			}
		}
		return out
	}
	outcomes := 0
	add := func(p plan, m *explore.Result, mode string, exhaustive bool, bound int) {
		variant := p.variant
		if mode == string(explore.SleepSets) {
			variant += "+clock"
		}
		sr := scenReport{Variant: variant, Scenario: p.sc.Class, Mode: mode, Exhaustive: exhaustive, BoundCompleted: bound, Executions: m.Executions, Pruned: m.Pruned,
			DistinctHB: m.DistinctHB, Outcomes: m.Outcomes, MaxSteps: m.MaxSteps, MaxThreads: m.MaxThreads, Statuses: m.Statuses, WallMs: m.WallMs}
		for _, f := range m.Failures {
			sr.Failures = append(sr.Failures, fmt.Sprintf("%s x%d", f.Shape, f.Count))
			rep.Failures = append(rep.Failures, failureOut{Check: "sched", Class: f.Class, Shape: f.Shape, Count: f.Count,
				Case:   schedCase{Variant: variant, Scenario: p.sc.Class, Mode: mode, Bound: bound, Choices: f.Choices, Trace: clipS(f.Trace, 1500)},
				Detail: fmt.Sprintf("%s [%s], schedule %v (%d steps):\n%s", variant, mode, f.Choices, f.Outcome.Steps, f.Detail)})
		}
		rep.Scenarios = append(rep.Scenarios, sr)
		rep.Schedules += m.Executions
		rep.Validated += m.Statuses["ok"]
		rep.Transitions += m.TotalSteps
		rep.States += m.DistinctHB
		outcomes += len(m.Outcomes)
		if len(rep.Samples) < 3 && m.SampleTrace != "" && mode == string(explore.SleepSets) {
			rep.Samples = append(rep.Samples, map[string]interface{}{"part": "concurrent", "variant": p.variant, "scenario": p.sc.Class, "mode": mode, "sample_op_trace": clipS(m.SampleTrace, 900), "event": "t<thread>:<op>#<object>/<alternative>"})
		}
		fmt.Fprintf(os.Stderr, "  c19c %-8s %-9s exhaustive=%-5v bound=%2d executions=%-7d partial-orders=%-7d outcomes=%-3d max-steps=%-3d threads=%d %v\n",
			sr.Variant, sr.Mode, sr.Exhaustive, sr.BoundCompleted, sr.Executions, sr.DistinctHB, len(sr.Outcomes), sr.MaxSteps, sr.MaxThreads, sr.Failures)
	}

	// 1. deviation-bounded runs without reduction (primary for L4/L5, hedge for the others), bound by bound
	alive := map[string]bool{}
	completed := map[string]int{}
	acc := map[string]*explore.Result{}
	maxB := 0
	for _, p := range plans {
		if p.sc.Mode == explore.Bounded || p.sc.Hedge {
			alive[p.variant] = true
			completed[p.variant] = -1
			if b := pickI(p.sc.BoundQ, p.sc.BoundT); b > maxB {
				maxB = b
			}
		}
	}
	for b := 0; b <= maxB; b++ {
		if time.Now().UnixMilli() > deadlineB {
			break
		}
		res := run(func(p plan) []explore.Job {
			if !alive[p.variant] || b > pickI(p.sc.BoundQ, p.sc.BoundT) {
				return nil
			}
			n := shards
			if b < 2 {
				n = 1
			}
			var js []explore.Job
			for s := 0; s < n; s++ {
				js = append(js, explore.Job{Scenario: p.variant, Opt: explore.Options{Mode: explore.Bounded, Bound: b, OnlyLevel: b > 0, Shard: s, Shards: n, DeadlineMs: deadlineB, KeepHB: 200000, Cfg: execCfg}})
			}
			return js
		})
		for v, m := range res {
			if m.Complete {
				completed[v] = b
			} else {
				alive[v] = false
			}
			if acc[v] == nil {
				acc[v] = m
			} else {
				acc[v] = explore.Merge([]*explore.Result{acc[v], m})
			}
		}
	}
	for _, p := range plans {
		if m := acc[p.variant]; m != nil {
			add(p, m, string(explore.Bounded), false, completed[p.variant])
			if completed[p.variant] < pickI(p.sc.BoundQ, p.sc.BoundT) {
				rep.Exhaustive = false
			}
		}
	}
	// 2. unbounded with sleep sets: one execution per Mazurkiewicz trace
	ss := run(func(p plan) []explore.Job {
		if p.sc.Mode != explore.SleepSets || (p.sc.SSThoroughOnly && !thorough) {
			return nil
		}
		var js []explore.Job
		for s := 0; s < shards; s++ {
			js = append(js, explore.Job{Scenario: p.variant + "+clock", Opt: explore.Options{Mode: explore.SleepSets, Shard: s, Shards: shards, SplitAt: 6, Cfg: execCfg, DeadlineMs: deadline, KeepHB: 200000}})
		}
		return js
	})
	for _, p := range plans {
		if m := ss[p.variant]; m != nil {
			add(p, m, string(explore.SleepSets), m.Complete, -1)
			if !m.Complete {
				rep.Exhaustive = false
			}
		}
	}
	sort.Slice(rep.Scenarios, func(i, j int) bool {
		if rep.Scenarios[i].Variant != rep.Scenarios[j].Variant {
			return rep.Scenarios[i].Variant < rep.Scenarios[j].Variant
		}
		return rep.Scenarios[i].Mode > rep.Scenarios[j].Mode
	})
	rep.Outcomes = outcomes
	rep.Rule = "concurrent part: per scenario (one handle of the memoizing wrapper shared by a writer, one or two readers, optionally a second writer; initial content chosen so that the cache can hold the result) x result-channel capacity: every Mazurkiewicz trace of the synchronisation operations and call/return instants (sleep sets, unbounded) plus every schedule with <= bound deviations without reduction; L4, L5 (7-8 threads) bounded only; states = distinct happens-before partial orders"
	if b, err := os.ReadFile(filepath.Join(root(), "work/instr/c19c/inventory.json")); err == nil {
		json.Unmarshal(b, &rep.Inventory)
	}
	rep.WallS = time.Since(start).Seconds()
	b, _ := json.Marshal(rep)
	os.Stdout.Write(b)
	fmt.Fprintf(os.Stderr, "  c19c %s: schedules=%d states=%d failures=%d exhaustive=%v wall=%.1fs\n", tier, rep.Schedules, rep.States, len(rep.Failures), rep.Exhaustive, rep.WallS)
}

func root() string {
	if r := os.Getenv("VERIF_ROOT"); r != "" {
		return r
	}
	return "/verif"
}

// replayCase re-executes one recorded schedule.
func replayCase() {
	raw, _ := io.ReadAll(os.Stdin)
	var c schedCase
	if err := json.Unmarshal(raw, &c); err != nil {
		machinery("replay case does not parse: %v", err)
	}
	mk := factory(c.Variant)
	if mk == nil {
		machinery("unknown scenario variant %q", c.Variant)
	}
	cfg := execCfg
	cfg.Diag = true
	out, vs, oc, bad := explore.Replay(cfg, mk, c.Choices)
	if bad != "" {
		machinery("NONDETERMINISM replay does not fit the program: %s", bad)
	}
	var msgs []string
	for _, v := range vs {
		if !v.Info {
			msgs = append(msgs, v.Shape+": "+v.Detail)
		}
	}
	res := map[string]interface{}{"held": len(msgs) == 0}
	if len(msgs) > 0 {
		res["message"] = fmt.Sprintf("%s (%s) schedule %v: %s\ntrace: %s", c.Variant, c.Scenario, c.Choices, strings.Join(msgs, "\n"), clipS(vrt.FormatTrace(out.Trace), 2500))
	} else {
		res["message"] = fmt.Sprintf("%s schedule %v: status %s, outcome %s", c.Variant, c.Choices, out.Status, oc)
	}
	b, _ := json.Marshal(res)
	os.Stdout.Write(b)
}

func clipS(s string, n int) string {
	if len(s) > n {
		return s[:n] + "…"
	}
	return s
}

// instrumented reports whether storage/memory was compiled from the rewritten sources.
func instrumented() bool {
	n := 0
	out := vrt.Run(vrt.Config{}, vrt.DefaultChooser{}, func() {
		st := memoryStoreWith(0b001)
		g, _ := st.Graph(ctx, "?g")
		ch := vrt.MakeChan[*triple.Triple](4)
		g.Triples(ctx, storage.DefaultLookup, ch)
		for range vrt.Range(ch) {
			n++
		}
	})
	return out.Status == vrt.StOK && n == 1 && out.Steps >= 4
}
