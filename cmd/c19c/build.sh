#!/bin/bash
# cmd/c19c/build.sh <output-binary>
# Instruments the storage packages of the CURRENT /repo working tree (or $VSCHED_REPO: a
# scratch worktree with a candidate fix or a deliberate property-breaking change) and builds
# the concurrent half of the C19 check against the rewritten copies through an overlay.
# Called by cmd/c19/build.sh (./vcheck C19 ...).
set -e
out="$1"
here="$(cd "$(dirname "$0")/../.." && pwd)"
cd "$here"
. ./env.sh
case "$out" in /*) ;; *) out="$here/$out" ;; esac
idir="${VSCHED_INSTR_DIR:-work/instr/c19c}"
mkdir -p work/bin work/instr
go build -o work/bin/instr-c19c ./instr
work/bin/instr-c19c -q -out "$idir" -repo "${VSCHED_REPO:-/repo}" -overlay-root /repo \
  -pkgs ./storage/... \
  -exclude github.com/google/badwolf/triple/node,github.com/google/badwolf/bql/planner/tracer
go build -overlay "$idir/overlay.json" -o "$out" ./cmd/c19c
