// C19 (concurrent part) — the memoizing store is observationally identical to
// the store it wraps, "also when reads run concurrently with the write".
//
// The real storage/memoization and storage/memory code (instrumented by
// verif/instr, built through cmd/c19c/build.sh, invoked by cmd/c19) runs under
// the vsched runtime. One handle of one graph, obtained through
// memoization.New(store), is shared by a writer, one or two readers and
// optionally a second writer, each in its own thread; every interleaving of
// the layer's internal steps (its RWMutex, the goroutine and channel of the
// miss path, the cache store, the wrapped store's own locks) is enumerated:
// unbounded with sleep sets, plus a deviation-bounded run without reduction.
//
// Oracle on every execution (exactly the three clauses of the property, no
// more: reads are NOT required to be linearizable among themselves):
//
//	(a) every read returns the content the wrapped store had at some instant
//	    inside the read's call interval;
//	(b) in particular a read that starts after a write returned reflects it;
//	(c) after quiescence a fresh read through the wrapper equals the same read
//	    on the wrapped store;
//
// plus no panic / deadlock / leak / horizon and channels closed.
package main

import (
	"context"
	"fmt"
	"sort"
	"strings"

	"github.com/google/badwolf/storage"
	"github.com/google/badwolf/storage/memoization"
	"github.com/google/badwolf/storage/memory"
	"github.com/google/badwolf/triple"
	"github.com/google/badwolf/triple/node"
	"github.com/google/badwolf/triple/predicate"

	"verif/explore"
	"verif/model"
	"verif/vrt"
	"verif/vsync"
)

var (
	ctx = context.Background()
	nA  = model.N("/u", "a")
	pT1 = model.PT("p", model.T1)
	U   = []*triple.Triple{
		model.T(nA, pT1, model.ON(model.N("/u", "b"))), // t0
		model.T(nA, pT1, model.ON(model.N("/u", "c"))), // t1  same subject and predicate: one lookup sees both
		model.T(nA, pT1, model.ON(model.N("/u", "d"))), // t2
	}
	uKey = map[string]int{}
	oKey = map[string]int{}
)

func init() {
	for i, t := range U {
		uKey[model.TripleKey(t)] = i
		oKey[model.ObjKey(t.Object())] = i
	}
}

func pick(mask uint8) []*triple.Triple {
	var ts []*triple.Triple
	for i, t := range U {
		if mask&(1<<uint(i)) != 0 {
			ts = append(ts, t)
		}
	}
	return ts
}

func maskStr(m uint8) string {
	var s []string
	for i := range U {
		if m&(1<<uint(i)) != 0 {
			s = append(s, fmt.Sprintf("t%d", i))
		}
	}
	return "{" + strings.Join(s, "+") + "}"
}

// ---- recording layer between the memoizer and the memory store ------------------------------------

// recStore / recGraph pass every call through to the memory store and note the
// logical instants at which a forwarded write starts and ends (the wrapped
// store's content changes somewhere in between).
type recStore struct {
	storage.Store
	h *hctx
}

func (s *recStore) NewGraph(c context.Context, id string) (storage.Graph, error) {
	g, err := s.Store.NewGraph(c, id)
	if err != nil {
		return nil, err
	}
	return &recGraph{Graph: g, h: s.h}, nil
}

func (s *recStore) Graph(c context.Context, id string) (storage.Graph, error) {
	g, err := s.Store.Graph(c, id)
	if err != nil {
		return nil, err
	}
	return &recGraph{Graph: g, h: s.h}, nil
}

type recGraph struct {
	storage.Graph
	h *hctx
}

type innerWrite struct {
	add       bool
	mask      uint8
	call, ret int64
}

func (g *recGraph) AddTriples(c context.Context, ts []*triple.Triple) error {
	g.h.readsInside("before", g.h.before)
	w := &innerWrite{add: true, mask: maskOf(ts), call: g.h.tick(true)}
	g.h.inner = append(g.h.inner, w)
	err := g.Graph.AddTriples(c, ts)
	w.ret = g.h.tick(true)
	g.h.readsInside("after", g.h.after)
	return err
}

func (g *recGraph) RemoveTriples(c context.Context, ts []*triple.Triple) error {
	g.h.readsInside("before", g.h.before)
	w := &innerWrite{mask: maskOf(ts), call: g.h.tick(true)}
	g.h.inner = append(g.h.inner, w)
	err := g.Graph.RemoveTriples(c, ts)
	w.ret = g.h.tick(true)
	g.h.readsInside("after", g.h.after)
	return err
}

// readsInside issues reads through the wrapper from inside the forwarded write.
func (h *hctx) readsInside(where string, kinds []string) {
	for i, kind := range kinds {
		rec := &readRec{name: fmt.Sprintf("inside-write-%s-forwarding%d", where, i), rd: kind}
		h.reads = append(h.reads, rec)
		h.doRead(h.handle, rec, rec.name+"-consumer")
	}
}

func maskOf(ts []*triple.Triple) uint8 {
	var m uint8
	for _, t := range ts {
		m |= 1 << uint(uKey[model.TripleKey(t)])
	}
	return m
}

// ---- per-execution harness context ----------------------------------------------------------------

const (
	rdExist0 = "Exist(t0)"
	rdExist1 = "Exist(t1)"
	rdTFS    = "TriplesForSubject(a)"
	rdObj    = "Objects(a;p@T1)"
	rdTrip   = "Triples()"
	// the other lookups, on the same universe (every triple has subject a and predicate p@T1; t0 has object o0)
	rdTFP   = "TriplesForPredicate(p@T1)"
	rdTFSP  = "TriplesForSubjectAndPredicate(a;p@T1)"
	rdTFO0  = "TriplesForObject(o0)"
	rdTFPO0 = "TriplesForPredicateAndObject(p@T1;o0)"
	rdSubj0 = "Subjects(p@T1;o0)"
	rdPFO0  = "PredicatesForObject(o0)"
	rdPFSO0 = "PredicatesForSubjectAndObject(a;o0)"
)

// onlyT0: reads whose answer is t0's part alone
var onlyT0 = map[string]bool{rdTFO0: true, rdTFPO0: true, rdSubj0: true, rdPFO0: true, rdPFSO0: true}

// answerOn is the answer of a read on a given content (the reference: a set lookup).
func answerOn(rd string, content uint8) string {
	switch rd {
	case rdExist0:
		return fmt.Sprint(content&1 != 0)
	case rdExist1:
		return fmt.Sprint(content&2 != 0)
	}
	if onlyT0[rd] {
		return maskStr(content & 1)
	}
	return maskStr(content) // all triples of the universe share subject and predicate
}

type readRec struct {
	name      string
	rd        string
	call, ret int64
	got       string
	err       error
	closed    bool
	final     bool
	raw       string // final reads: the same read on the wrapped graph
}

type writeRec struct {
	name      string
	add       bool
	mask      uint8
	call, ret int64
	err       error
}

type hctx struct {
	clock   int64
	initial uint8
	reads   []*readRec
	writes  []*writeRec
	inner   []*innerWrite
	handle  storage.Graph // the wrapper's handle (for reads issued from inside a forwarded write)
	before  []string
	after   []string
	wg      vsync.WaitGroup
	capa    int
	// visibleClock: call/return instants are scheduling events (sleep-set runs)
	visibleClock bool
	quiet        bool // reference reads on the wrapped graph: not part of the history
}

// tick stamps the call / return instant of an operation.
//
// Sleep-set runs: the instant is a visible event (all instants conflict with
// each other), so every order of the call / return instants is a different
// trace and is enumerated; the real-time order the oracle relies on is not an
// accident of the representative interleaving the reduction happens to keep.
// Bounded runs have no reduction: a plain counter (the instant is atomic with
// the neighbouring synchronisation operation of its thread).
func (h *hctx) tick(writer bool) int64 {
	if !h.quiet && h.visibleClock {
		vrt.Access("c19c-clock")
	}
	h.clock++
	return h.clock
}

func (h *hctx) doRead(g storage.Graph, rec *readRec, consumerName string) {
	switch rec.rd {
	case rdSubj0:
		readOne(h, rec, consumerName, func(ch chan *node.Node) error { return g.Subjects(ctx, pT1, U[0].Object(), storage.DefaultLookup, ch) },
			func(n *node.Node) bool { return model.NodeKey(n) == model.NodeKey(nA) })
		return
	case rdPFO0:
		readOne(h, rec, consumerName, func(ch chan *predicate.Predicate) error {
			return g.PredicatesForObject(ctx, U[0].Object(), storage.DefaultLookup, ch)
		},
			func(p *predicate.Predicate) bool { return model.PredKey(p) == model.PredKey(pT1) })
		return
	case rdPFSO0:
		readOne(h, rec, consumerName, func(ch chan *predicate.Predicate) error {
			return g.PredicatesForSubjectAndObject(ctx, nA, U[0].Object(), storage.DefaultLookup, ch)
		}, func(p *predicate.Predicate) bool { return model.PredKey(p) == model.PredKey(pT1) })
		return
	}
	switch rec.rd {
	case rdExist0, rdExist1:
		t := U[0]
		if rec.rd == rdExist1 {
			t = U[1]
		}
		rec.call = h.tick(false)
		ok, err := g.Exist(ctx, t)
		rec.ret = h.tick(false)
		rec.got, rec.err, rec.closed = fmt.Sprint(ok), err, true
	case rdObj:
		ch := vrt.MakeChan[*triple.Object](h.capa)
		var m uint8
		bad := ""
		var done vsync.WaitGroup
		done.Add(1)
		vrt.GoNamed(consumerName, func() {
			defer done.Done()
			for o := range vrt.Range(ch) {
				i, ok := oKey[model.ObjKey(o)]
				if !ok || m&(1<<uint(i)) != 0 {
					bad = "unknown or duplicate element " + model.ObjKey(o)
					continue
				}
				m |= 1 << uint(i)
			}
			rec.closed = true
		})
		rec.call = h.tick(false)
		rec.err = g.Objects(ctx, nA, pT1, storage.DefaultLookup, ch)
		rec.ret = h.tick(false)
		done.Wait()
		rec.got = maskStr(m) + bad
	default:
		ch := vrt.MakeChan[*triple.Triple](h.capa)
		var m uint8
		bad := ""
		var done vsync.WaitGroup
		done.Add(1)
		vrt.GoNamed(consumerName, func() {
			defer done.Done()
			for t := range vrt.Range(ch) {
				i, ok := uKey[model.TripleKey(t)]
				if !ok || m&(1<<uint(i)) != 0 {
					bad = "unknown or duplicate element " + model.TripleKey(t)
					continue
				}
				m |= 1 << uint(i)
			}
			rec.closed = true
		})
		rec.call = h.tick(false)
		switch rec.rd {
		case rdTFS:
			rec.err = g.TriplesForSubject(ctx, nA, storage.DefaultLookup, ch)
		case rdTFP:
			rec.err = g.TriplesForPredicate(ctx, pT1, storage.DefaultLookup, ch)
		case rdTFSP:
			rec.err = g.TriplesForSubjectAndPredicate(ctx, nA, pT1, storage.DefaultLookup, ch)
		case rdTFO0:
			rec.err = g.TriplesForObject(ctx, U[0].Object(), storage.DefaultLookup, ch)
		case rdTFPO0:
			rec.err = g.TriplesForPredicateAndObject(ctx, pT1, U[0].Object(), storage.DefaultLookup, ch)
		default:
			rec.err = g.Triples(ctx, storage.DefaultLookup, ch)
		}
		rec.ret = h.tick(false)
		done.Wait()
		rec.got = maskStr(m) + bad
	}
}

// readOne runs a lookup that delivers nodes or predicates: the answer is "{t0}" when exactly the element belonging
// to t0 (its subject / its predicate) arrives once, "{}" when nothing arrives.
func readOne[T any](h *hctx, rec *readRec, consumerName string, call func(ch chan T) error, isT0 func(T) bool) {
	ch := vrt.MakeChan[T](h.capa)
	n, bad := 0, ""
	var done vsync.WaitGroup
	done.Add(1)
	vrt.GoNamed(consumerName, func() {
		defer done.Done()
		for e := range vrt.Range(ch) {
			if !isT0(e) {
				bad = " unknown element"
			}
			n++
		}
		rec.closed = true
	})
	rec.call = h.tick(false)
	rec.err = call(ch)
	rec.ret = h.tick(false)
	done.Wait()
	switch {
	case n == 0:
		rec.got = maskStr(0) + bad
	case n == 1:
		rec.got = maskStr(1) + bad
	default:
		rec.got = fmt.Sprintf("%d elements%s", n, bad)
	}
}

func (h *hctx) spawnRead(handle func() storage.Graph, name, rd string) {
	rec := &readRec{name: name, rd: rd}
	h.reads = append(h.reads, rec)
	h.wg.Add(1)
	vrt.GoNamed(name, func() {
		defer h.wg.Done()
		h.doRead(handle(), rec, name+"-consumer")
	})
}

func (h *hctx) spawnWrite(handle func() storage.Graph, name string, add bool, mask uint8) {
	rec := &writeRec{name: name, add: add, mask: mask}
	h.writes = append(h.writes, rec)
	h.wg.Add(1)
	vrt.GoNamed(name, func() {
		defer h.wg.Done()
		g := handle()
		rec.call = h.tick(true)
		if add {
			rec.err = g.AddTriples(ctx, pick(mask))
		} else {
			rec.err = g.RemoveTriples(ctx, pick(mask))
		}
		rec.ret = h.tick(true)
	})
}

// ---- scenarios ------------------------------------------------------------------------------------

type op struct {
	Name string
	Rd   string // read kind, or "" for a write
	Add  bool
	Mask uint8
	// ViaGraph: the operation first obtains its own handle with Store.Graph
	// (since 8ce954b every handle of a graph is the same memoizer, registered
	// under a store-level mutex) and works through it.
	ViaGraph bool
	// Inside (writes only): reads issued through the wrapper from inside the
	// forwarded write, i.e. at fixed places of the write's interval: Before
	// the wrapped graph is written (after the layer's own preparations), After
	// it has been written (before the layer's AddTriples / RemoveTriples
	// returns). A reader thread that runs entirely between two internal steps
	// of the writer does exactly this; here the interleaving is constructed
	// instead of searched for, so it costs no scheduling deviations.
	Before, After []string
}

type scenario struct {
	Name    string
	Class   string
	Initial uint8
	Prime   []string // reads issued sequentially through the handle before the concurrent phase (fill the cache: hit path)
	Ops     []op
	Final   []string // reads issued after quiescence through the handle and on the wrapped graph
	Mode    explore.Mode
	Hedge   bool
	Caps    []int // result channel capacities explored
	BoundQ  int   // bounded runs: largest bound on the quick / thorough tier
	BoundT  int
	// SSThoroughOnly: the sleep-set run is too large for the quick tier
	SSThoroughOnly bool
}

func rd(name, kind string) op     { return op{Name: name, Rd: kind} }
func add(name string, m uint8) op { return op{Name: name, Add: true, Mask: m} }
func rem(name string, m uint8) op { return op{Name: name, Mask: m} }
func rdVia(name, kind string) op  { return op{Name: name, Rd: kind, ViaGraph: true} }
func addVia(name string, m uint8) op {
	return op{Name: name, Add: true, Mask: m, ViaGraph: true}
}
func (o op) String() string {
	via := ""
	if o.ViaGraph {
		via = "Graph()."
	}
	if o.Rd != "" {
		return via + o.Rd
	}
	in := ""
	if len(o.Before)+len(o.After) > 0 {
		in = "[inside: " + strings.Join(o.Before, "+") + " | forwarded write | " + strings.Join(o.After, "+") + "]"
	}
	if o.Add {
		return via + "Add" + maskStr(o.Mask) + in
	}
	return via + "Remove" + maskStr(o.Mask) + in
}

func init() {
	// one overlap per remaining lookup: the writer changes the answer (removes t0, or adds t1 to the listing kinds) while
	// the reader misses the cache; afterwards the same read must agree with the wrapped store
	for _, k := range []string{rdTrip, rdTFP, rdTFSP} {
		scenarios = append(scenarios, scenario{Name: "LK-" + k, Initial: 0b001, Ops: []op{add("writer", 0b010), rd("reader", k)}, Final: []string{k}, Mode: explore.SleepSets, Caps: []int{0}, BoundQ: 2, BoundT: 3})
	}
	for _, k := range []string{rdTFO0, rdTFPO0, rdSubj0, rdPFO0, rdPFSO0} {
		scenarios = append(scenarios, scenario{Name: "LK-" + k, Initial: 0b011, Ops: []op{rem("writer", 0b001), rd("reader", k)}, Final: []string{k}, Mode: explore.SleepSets, Caps: []int{0}, BoundQ: 2, BoundT: 3})
	}
}

var scenarios = []scenario{
	// the cheapest overlap: Exist has no goroutine or channel, only the layer's lock and the cache store
	{Name: "E1", Initial: 0b000, Ops: []op{add("writer", 0b001), rd("reader", rdExist0)}, Final: []string{rdExist0}, Mode: explore.SleepSets, Hedge: true, Caps: []int{0}, BoundQ: 3, BoundT: 4},
	{Name: "E2", Initial: 0b001, Ops: []op{rem("writer", 0b001), rd("reader", rdExist0)}, Final: []string{rdExist0}, Mode: explore.SleepSets, Hedge: true, Caps: []int{0}, BoundQ: 3, BoundT: 4},
	// miss path of a streamed lookup: inner goroutine, channel forwarding, cache store (an empty result is never a hit, hence a non-empty initial content)
	{Name: "L1", Initial: 0b001, Ops: []op{add("writer", 0b010), rd("reader", rdTFS)}, Final: []string{rdTFS}, Mode: explore.SleepSets, Hedge: true, Caps: []int{0, 1}, BoundQ: 2, BoundT: 3},
	{Name: "L2", Initial: 0b011, Ops: []op{rem("writer", 0b001), rd("reader", rdObj)}, Final: []string{rdObj}, Mode: explore.SleepSets, Hedge: true, Caps: []int{0}, BoundQ: 2, BoundT: 3},
	// hit path: the cache is filled before the writer starts
	{Name: "H1", Initial: 0b001, Prime: []string{rdTFS, rdExist1}, Ops: []op{add("writer", 0b010), rd("reader", rdTFS)}, Final: []string{rdTFS, rdExist1}, Mode: explore.SleepSets, Hedge: true, Caps: []int{0}, BoundQ: 2, BoundT: 3},
	// a second reader (same key / another key) and a second writer
	{Name: "E3", Initial: 0b000, Ops: []op{add("writer", 0b001), rd("reader", rdExist0), rd("reader2", rdExist0)}, Final: []string{rdExist0}, Mode: explore.SleepSets, SSThoroughOnly: true, Hedge: true, Caps: []int{0}, BoundQ: 3, BoundT: 4},
	{Name: "E4", Initial: 0b010, Ops: []op{add("writer", 0b001), rem("writer2", 0b010), rd("reader", rdExist0), rd("reader2", rdExist1)}, Final: []string{rdExist0, rdExist1}, Mode: explore.Bounded, Caps: []int{0}, BoundQ: 2, BoundT: 3}, // sleep sets: > 13.7 million runs, not completed in 10 minutes
	{Name: "L3", Initial: 0b001, Ops: []op{add("writer", 0b010), rd("reader", rdTFS), rd("reader2", rdExist1)}, Final: []string{rdTFS, rdExist1}, Mode: explore.Bounded, Caps: []int{0}, BoundQ: 2, BoundT: 3},                              // sleep sets: 187 359 traces on the unpatched tree, > 277 000 (not finished in 9 minutes) with the C19 patch
	// reads placed inside the write: after the layer prepared the write / after the wrapped graph was written
	{Name: "N1", Initial: 0b000, Ops: []op{{Name: "writer", Add: true, Mask: 0b001, Before: []string{rdExist0}, After: []string{rdExist0}}}, Final: []string{rdExist0}, Mode: explore.SleepSets, Hedge: true, Caps: []int{0}, BoundQ: 3, BoundT: 4},
	{Name: "N2", Initial: 0b001, Ops: []op{{Name: "writer", Add: true, Mask: 0b010, Before: []string{rdTFS}, After: []string{rdTFS}}}, Final: []string{rdTFS}, Mode: explore.SleepSets, Hedge: true, Caps: []int{0, 1}, BoundQ: 2, BoundT: 3},
	{Name: "N3", Initial: 0b011, Ops: []op{{Name: "writer", Mask: 0b001, Before: []string{rdObj, rdTrip}, After: []string{rdTrip, rdObj}}}, Final: []string{rdObj, rdTrip}, Mode: explore.SleepSets, Hedge: true, Caps: []int{0}, BoundQ: 2, BoundT: 3},
	{Name: "N4", Initial: 0b001, Ops: []op{{Name: "writer", Add: true, Mask: 0b010, Before: []string{rdTFS}, After: []string{rdTFS}}, rd("reader", rdTFS)}, Final: []string{rdTFS}, Mode: explore.SleepSets, SSThoroughOnly: true, Hedge: true, Caps: []int{0}, BoundQ: 2, BoundT: 3},
	// handles obtained with Store.Graph while another handle is in use (store-level registration of the shared memoizer)
	{Name: "G1", Initial: 0b000, Ops: []op{add("writer", 0b001), rdVia("reader", rdExist0)}, Final: []string{rdExist0}, Mode: explore.SleepSets, Hedge: true, Caps: []int{0}, BoundQ: 3, BoundT: 4},
	{Name: "G2", Initial: 0b001, Ops: []op{addVia("writer", 0b010), rdVia("reader", rdTFS)}, Final: []string{rdTFS}, Mode: explore.SleepSets, Hedge: true, Caps: []int{0}, BoundQ: 2, BoundT: 3},
	{Name: "L4", Initial: 0b001, Ops: []op{add("writer", 0b010), rd("reader", rdTFS), rd("reader2", rdTrip)}, Final: []string{rdTFS, rdTrip}, Mode: explore.Bounded, Caps: []int{0}, BoundQ: 2, BoundT: 3},
	{Name: "L5", Initial: 0b011, Ops: []op{add("writer", 0b100), rem("writer2", 0b001), rd("reader", rdObj)}, Final: []string{rdObj}, Mode: explore.Bounded, Caps: []int{0}, BoundQ: 2, BoundT: 3},
}

func init() {
	for i := range scenarios {
		sc := &scenarios[i]
		var ops []string
		for _, o := range sc.Ops {
			ops = append(ops, o.String())
		}
		sc.Class = strings.Join(ops, "||")
		if len(sc.Prime) > 0 {
			sc.Class = "primed(" + strings.Join(sc.Prime, "+") + ");" + sc.Class
		}
		// feature list (see common.matchKnown "has:"): what all scenarios share, then the scenario itself
		sc.Class = "reader-concurrent-with-writer-on-one-memoizer-handle," + sc.Name + ":" + sc.Class + " on " + maskStr(sc.Initial)
	}
}

var execCfg = vrt.Config{MaxSteps: 5000, MaxTicks: 200000}

func (sc *scenario) mk(capa int, visibleClock bool) func() explore.Exec {
	return func() explore.Exec {
		h := &hctx{initial: sc.Initial, capa: capa, visibleClock: visibleClock}
		return explore.Exec{
			Body: func() {
				ms := memory.NewStore()
				w := memoization.New(&recStore{Store: ms, h: h})
				g, err := w.NewGraph(ctx, "?g")
				if err != nil {
					panic(err)
				}
				raw, err := ms.Graph(ctx, "?g")
				if err != nil {
					panic(err)
				}
				if sc.Initial != 0 {
					if err := raw.AddTriples(ctx, pick(sc.Initial)); err != nil {
						panic(err)
					}
				}
				for i, kind := range sc.Prime {
					rec := &readRec{name: fmt.Sprintf("prime%d", i), rd: kind}
					h.reads = append(h.reads, rec)
					h.doRead(g, rec, rec.name+"-consumer")
				}
				h.handle = g
				for _, o := range sc.Ops {
					if len(o.Before)+len(o.After) > 0 {
						h.before, h.after = o.Before, o.After
					}
					handle := func() storage.Graph { return g }
					if o.ViaGraph {
						handle = func() storage.Graph {
							g2, err := w.Graph(ctx, "?g")
							if err != nil {
								panic(err)
							}
							return g2
						}
					}
					if o.Rd != "" {
						h.spawnRead(handle, o.Name, o.Rd)
					} else {
						h.spawnWrite(handle, o.Name, o.Add, o.Mask)
					}
				}
				h.wg.Wait()
				// quiescence: every call has returned, every thread has been joined
				for i, kind := range sc.Final {
					rec := &readRec{name: fmt.Sprintf("final%d", i), rd: kind, final: true}
					h.reads = append(h.reads, rec)
					h.doRead(g, rec, rec.name+"-consumer")
					rr := &readRec{rd: kind}
					h.quiet = true // the reference read on the wrapped graph is not part of the history
					h.doRead(raw, rr, rec.name+"-raw-consumer")
					h.quiet = false
					rec.raw = rr.got
				}
			},
			Check: func(out *vrt.Outcome) ([]explore.Verdict, string) { return sc.check(h, out) },
		}
	}
}

// contentsDuring lists the contents the wrapped store may have had at some
// instant of [c, r]: a forwarded write that ended before the instant is
// applied, one that starts after it is not, one that spans it may or may not
// be. (Writes of one scenario touch disjoint triples, so they commute.)
func (h *hctx) contentsDuring(c, r int64) map[uint8]bool {
	res := map[uint8]bool{}
	for tau := c; tau <= r; tau++ {
		base := h.initial
		var maybe []*innerWrite
		for _, w := range h.inner {
			switch {
			case w.ret != 0 && w.ret < tau:
				base = apply(base, w)
			case w.call > tau:
			default:
				maybe = append(maybe, w)
			}
		}
		for sub := 0; sub < 1<<uint(len(maybe)); sub++ {
			s := base
			for i, w := range maybe {
				if sub&(1<<uint(i)) != 0 {
					s = apply(s, w)
				}
			}
			res[s] = true
		}
	}
	return res
}

func apply(s uint8, w *innerWrite) uint8 {
	if w.add {
		return s | w.mask
	}
	return s &^ w.mask
}

func (sc *scenario) check(h *hctx, out *vrt.Outcome) ([]explore.Verdict, string) {
	var vs []explore.Verdict
	addV := func(shape, detail string) {
		vs = append(vs, explore.Verdict{Class: sc.Class, Shape: shape, Detail: detail + "\n" + h.history()})
	}
	if v := explore.GlobalVerdict(sc.Class, out); v != nil {
		return []explore.Verdict{*v}, string(out.Status) + ":" + v.Shape
	}
	var oc []string
	for _, w := range h.writes {
		if w.err != nil {
			addV("write-returned-error", fmt.Sprintf("%s: %v", w.name, w.err))
		}
	}
	for _, rec := range h.reads {
		oc = append(oc, fmt.Sprintf("%s:%s=%s", rec.name, rec.rd, rec.got))
		if rec.err != nil {
			addV("read-returned-error", fmt.Sprintf("%s %s: %v", rec.name, rec.rd, rec.err))
			continue
		}
		if !rec.closed {
			addV("channel-not-closed", rec.name)
		}
		if rec.final {
			// (c) after quiescence the wrapper answers like the wrapped store
			if rec.got != rec.raw {
				addV("stale-after-quiescence:"+kindOf(rec.rd), fmt.Sprintf("after every call has returned, %s through the wrapper answers %s, the wrapped graph answers %s", rec.rd, rec.got, rec.raw))
			}
			continue
		}
		// (a) the answer is the wrapped store's content at some instant of the call
		ok := false
		var cands []string
		for s := range h.contentsDuring(rec.call, rec.ret) {
			a := answerOn(rec.rd, s)
			cands = append(cands, a)
			if a == rec.got {
				ok = true
			}
		}
		if ok {
			continue
		}
		sort.Strings(cands)
		// (b) which clause: a write that had returned before the read started and is not reflected?
		shape := "answer-not-the-wrapped-content-at-any-instant-of-the-call:" + kindOf(rec.rd)
		for _, w := range h.writes {
			if w.ret != 0 && w.ret < rec.call {
				shape = "read-started-after-write-returned-reflects-state-before-it:" + kindOf(rec.rd)
			}
		}
		addV(shape, fmt.Sprintf("%s %s called at %d, returned at %d with %s; the wrapped graph's possible answers during that interval: %v", rec.name, rec.rd, rec.call, rec.ret, rec.got, uniq(cands)))
	}
	sort.Strings(oc)
	return vs, strings.Join(oc, " ")
}

func kindOf(rd string) string {
	if strings.HasPrefix(rd, "Exist") {
		return "Exist"
	}
	return "lookup"
}

func uniq(xs []string) []string {
	var out []string
	for i, x := range xs {
		if i == 0 || x != xs[i-1] {
			out = append(out, x)
		}
	}
	return out
}

func (h *hctx) history() string {
	type ev struct {
		at int64
		s  string
	}
	var evs []ev
	for _, w := range h.writes {
		k := "Remove"
		if w.add {
			k = "Add"
		}
		evs = append(evs, ev{w.call, fmt.Sprintf("%s calls %s%s", w.name, k, maskStr(w.mask))}, ev{w.ret, fmt.Sprintf("%s returns (err=%v)", w.name, w.err)})
	}
	for _, w := range h.inner {
		evs = append(evs, ev{w.call, "  the layer forwards the write to the wrapped graph"}, ev{w.ret, "  the wrapped graph's write returns"})
	}
	for _, r := range h.reads {
		evs = append(evs, ev{r.call, fmt.Sprintf("%s calls %s", r.name, r.rd)})
		s := fmt.Sprintf("%s returns %s", r.name, r.got)
		if r.final {
			s += " (wrapped graph: " + r.raw + ")"
		}
		evs = append(evs, ev{r.ret, s})
	}
	sort.Slice(evs, func(i, j int) bool { return evs[i].at < evs[j].at })
	var b strings.Builder
	fmt.Fprintf(&b, "  initial content %s\n", maskStr(h.initial))
	for _, e := range evs {
		fmt.Fprintf(&b, "  @%-3d %s\n", e.at, e.s)
	}
	return b.String()
}

func memoryStoreWith(initial uint8) storage.Store {
	ms := memory.NewStore()
	g, err := ms.NewGraph(ctx, "?g")
	if err != nil {
		panic(err)
	}
	if initial != 0 {
		if err := g.AddTriples(ctx, pick(initial)); err != nil {
			panic(err)
		}
	}
	return ms
}
