// C09 — lookup options: time window, filter functions and paging select as defined.
//
// Every subset of a small temporal universe is a state; each is built on a
// fresh memory graph through two (thorough: three) different write histories,
// and read through the full option grid: 16 windows (lower, upper in
// {nil,T0,T1,T2}, including lower > upper and bounds equal to stored anchors)
// x 8 filters (none, {latest,isImmutable,isTemporal} x {predicate,object},
// LatestAnchor) x 16 (MaxElements, Offset) pairs, for all ten lookup methods and
// the listing over a reduced argument grid.
//
// The grid factorises: per (state, query, window, filter) the unpaged result is
// fetched twice (must be one sequence, and as a multiset the model's), and each
// of the 15 other (MaxElements, Offset) values must be the corresponding block
// of that sequence.
package main

import (
	"encoding/json"
	"fmt"
	"os"
	"runtime/debug"
	"sync"
	"time"

	"github.com/google/badwolf/bql/planner/filter"
	"github.com/google/badwolf/storage"
	"github.com/google/badwolf/storage/memory"
	"github.com/google/badwolf/triple"
	"github.com/google/badwolf/triple/node"
	"github.com/google/badwolf/triple/predicate"

	"verif/common"
	"verif/lookup"
	"verif/model"
)

// The outer anchors lie outside the range in which time.Time.UnixNano is defined (1678..2262): a window test done on
// wrapped integers instead of instants orders them wrongly. T0 < T1 < T2 as before.
var (
	t0x = time.Date(1500, 6, 1, 0, 0, 0, 0, time.UTC)
	t2x = time.Date(2300, 6, 1, 4, 21, 0, 0, time.UTC)
)

var (
	na, nb, nc, nz = model.N("/u", "a"), model.N("/u", "b"), model.N("/u", "c"), model.N("/u", "z")
	zonePlus2      = time.FixedZone("plus2", 2*3600)
	opT1           = model.OP(model.PT("p", model.T1))
	opR0           = model.OP(model.PI("r")) // an IMMUTABLE predicate as object, under a temporal triple predicate
	opP2           = model.OP(model.PT("p", t2x))
)

// universe: two predicate identifiers, anchors T0 < T1 < T2, one immutable
// triple per identifier, a tie at the greatest anchor of "p", a predicate-valued
// object. The thorough tier adds a second subject and a second predicate-valued
// object with a later anchor.
func universe(n int) []*triple.Triple {
	u := []*triple.Triple{
		model.T(na, model.PI("p"), model.ON(nb)),                         // 0
		model.T(na, model.PT("p", t0x), model.ON(nb)),                    // 1
		model.T(na, model.PT("p", model.T1), model.ON(nb)),               // 2
		model.T(na, model.PT("p", model.T1.In(zonePlus2)), model.ON(nc)), // 3 tie with 2: the same instant written in another zone
		model.T(na, model.PT("q", t2x), opT1),                            // 4 temporal predicate as object
		// 5: ANOTHER object predicate id under the SAME triple predicate: "latest" on the object
		// field groups by the object's predicate id, not by the triple's
		model.T(na, model.PT("q", t2x), opR0),
		model.T(na, model.PI("q"), model.ON(nb)), // 6
		// 7: the SAME object predicate id as 4 under ANOTHER triple predicate id, later anchor
		model.T(na, model.PT("p", t2x), opP2),
		model.T(nc, model.PT("q", t2x), opP2),         // 8
		model.T(nc, model.PT("p", t2x), model.ON(nb)), // 9
	}
	return u[:n]
}

var (
	argS = []*node.Node{na, nc, nz}
	argP = []*predicate.Predicate{
		model.PI("p"), model.PT("p", t0x), model.PT("p", model.T1),
		model.PT("p", model.T1.In(zonePlus2)), // same instant as p@T1, written in another zone
		model.PT("p", t2x),
		model.PT("q", t2x), model.PT("q", t2x.In(zonePlus2)), model.PI("q"),
	}
	argO = []*triple.Object{model.ON(nb), model.ON(nc), opT1, model.ON(nz), opR0, opP2}
)

type qref struct {
	Method string `json:"method"`
	S      int    `json:"s"`
	P      int    `json:"p"`
	O      int    `json:"o"`
}

func (r qref) query() lookup.Query {
	m, ok := lookup.MethodByName(r.Method)
	if !ok {
		common.Machinery("unknown method %q", r.Method)
	}
	return lookup.Query{M: m, S: argS[r.S], P: argP[r.P], O: argO[r.O]}
}

// grid is the reduced argument grid: every method, every predicate spelling
// where a predicate is taken, stored and absent subjects/objects.
func grid(thorough bool) []qref {
	var g []qref
	add := func(m lookup.Method, s, p, o int) { g = append(g, qref{m.String(), s, p, o}) }
	po := [][2]int{{0, 0}, {2, 0}, {3, 0}, {2, 1}, {4, 0}, {5, 2}, {6, 2}, {7, 0}}
	for p := range argP {
		add(lookup.Objects, 0, p, 0)
		add(lookup.TriplesForPredicate, 0, p, 0)
		add(lookup.TriplesForSubjectAndPredicate, 0, p, 0)
		if thorough {
			add(lookup.Objects, 1, p, 0)
			add(lookup.TriplesForSubjectAndPredicate, 1, p, 0)
		}
	}
	for _, x := range po {
		add(lookup.Subjects, 0, x[0], x[1])
		add(lookup.TriplesForPredicateAndObject, 0, x[0], x[1])
	}
	for s := range argS {
		add(lookup.PredicatesForSubject, s, 0, 0)
		add(lookup.TriplesForSubject, s, 0, 0)
	}
	for o := range argO {
		add(lookup.PredicatesForObject, 0, 0, o)
		add(lookup.TriplesForObject, 0, 0, o)
	}
	for _, so := range [][2]int{{0, 0}, {0, 1}, {0, 2}, {1, 0}, {1, 2}} {
		add(lookup.PredicatesForSubjectAndObject, so[0], 0, so[1])
	}
	add(lookup.Triples, 0, 0, 0)
	return g
}

// ---- option grid --------------------------------------------------------------

func windows() [][2]*time.Time {
	t0, t1, t2 := t0x, model.T1, t2x
	b := []*time.Time{nil, &t0, &t1, &t2}
	var w [][2]*time.Time
	for _, lo := range b {
		for _, up := range b {
			w = append(w, [2]*time.Time{lo, up})
		}
	}
	return w
}

type filt struct {
	op     filter.Operation
	field  filter.Field
	latest bool
}

// filters defined by the property text.
func filters() []filt {
	f := []filt{{}}
	for _, op := range []filter.Operation{filter.Latest, filter.IsImmutable, filter.IsTemporal} {
		for _, fd := range []filter.Field{filter.PredicateField, filter.ObjectField} {
			f = append(f, filt{op: op, field: fd})
		}
	}
	return append(f, filt{latest: true})
}

// openFilters: option values the property text does not define (latitude: the
// driver may return an error; if it answers, the answer must at least be drawn
// from the window's survivors).
func openFilters() []filt {
	return []filt{
		{op: filter.Latest, field: filter.SubjectField},
		{op: filter.IsImmutable, field: filter.SubjectField},
		{op: filter.IsTemporal, field: filter.SubjectField},
		{op: filter.Latest, field: filter.PredicateField, latest: true},
		{op: filter.IsTemporal, field: filter.ObjectField, latest: true},
		{op: filter.Operation(99), field: filter.PredicateField},
	}
}

func mkOpts(w [2]*time.Time, f filt, n, k int) lookup.Opts {
	return lookup.Opts{Lower: w[0], Upper: w[1], FilterOp: f.op, FilterField: f.field, LatestAnchor: f.latest, MaxElements: n, Offset: k}
}

// ---- states and histories -----------------------------------------------------

var histories = []string{"add-members-one-by-one", "add-all-then-remove-the-rest", "add-members-as-one-reversed-batch"}

func members(u []*triple.Triple, s uint32) []*triple.Triple {
	var ts []*triple.Triple
	for i, t := range u {
		if s&(1<<uint(i)) != 0 {
			ts = append(ts, t)
		}
	}
	return ts
}

// build creates the state on a fresh memory graph; returns the number of writes.
func build(u []*triple.Triple, s uint32, history string) (storage.Graph, int, error) {
	st := memory.NewStore()
	g, err := st.NewGraph(model.Ctx, "?g")
	if err != nil {
		return nil, 0, err
	}
	writes := 0
	switch history {
	case histories[0]:
		for _, t := range members(u, s) {
			if err := g.AddTriples(model.Ctx, []*triple.Triple{t}); err != nil {
				return nil, writes, err
			}
			writes++
		}
	case histories[1]:
		if err := g.AddTriples(model.Ctx, u); err != nil {
			return nil, writes, err
		}
		writes++
		for i := len(u) - 1; i >= 0; i-- {
			if s&(1<<uint(i)) == 0 {
				if err := g.RemoveTriples(model.Ctx, []*triple.Triple{u[i]}); err != nil {
					return nil, writes, err
				}
				writes++
			}
		}
	case histories[2]:
		m := members(u, s)
		for i, j := 0, len(m)-1; i < j; i, j = i+1, j-1 {
			m[i], m[j] = m[j], m[i]
		}
		if err := g.AddTriples(model.Ctx, m); err != nil {
			return nil, writes, err
		}
		writes++
	default:
		return nil, 0, fmt.Errorf("unknown history %q", history)
	}
	return g, writes, nil
}

// ---- the oracle for one (state, query, window, filter) cell --------------------

const (
	classGeneric = "lookup-options"
	classZone    = "filter-in-lookup-whose-query-predicate-is-written-in-another-zone"
	classOpen    = "options-outside-the-property-text"
	shapeZone    = "filter-drops-candidates-whose-predicate-prints-differently"
)

type ccase struct {
	N       int         `json:"universe"`
	State   uint32      `json:"state_bits"`
	History string      `json:"history"`
	Query   qref        `json:"query"`
	Opts    lookup.Opts `json:"options"`
}

type cellStats struct {
	calls, nontrivial, paged, pagedNontrivial, openErr, openAnswered int
	sizes                                                            [16]int
}

// classOf is the input classifier: a predicate over the case alone.
func classOf(q lookup.Query, o lookup.Opts) string {
	if !o.Defined() {
		return classOpen
	}
	if _, fp, _ := q.M.Fixes(); fp && o.FilterActive() && q.P.Type() == predicate.Temporal {
		if a, _ := q.P.TimeAnchor(); a.Location() != time.UTC {
			return classZone
		}
	}
	return classGeneric
}

// checkCell checks the unpaged result of (q, base) and every page in pages
// against it. fail is called once per failing option value.
func checkCell(g storage.Graph, set []*triple.Triple, q lookup.Query, base lookup.Opts, pages [][2]int, st *cellStats, fail func(o lookup.Opts, shape, detail string)) {
	base = base.Unpaged()
	ctx := func() string { return fmt.Sprintf("%v %v\n content=%v", q, base, lookup.KeysOf(set)) }
	u1 := lookup.CallOpts(g, q, base)
	u2 := lookup.CallOpts(g, q, base)
	st.calls += 2
	if !u1.OK() {
		fail(base, u1.Problem(), ctx()+"\n "+u1.String())
		return
	}
	if !u2.OK() || !lookup.SameSeq(u1.Keys, u2.Keys) {
		fail(base, "unpaged-sequence-not-repeatable", fmt.Sprintf("%s\n first =%v\n second=%s", ctx(), u1.Keys, u2))
		return
	}
	want := lookup.Expect(set, q, base, lookup.Hyp{})
	got := lookup.Sorted(u1.Keys)
	if len(got) < len(st.sizes) {
		st.sizes[len(got)]++
	}
	if cands := lookup.Candidates(set, q, lookup.Hyp{}); len(want) > 0 && len(want) < len(cands) {
		st.nontrivial++
	}
	if !lookup.SameSeq(want, got) {
		missing, extra := lookup.DiffMultiset(want, got)
		shape := "extra-results"
		switch {
		case classOf(q, base) == classZone && lookup.SameSeq(got, lookup.Expect(set, q, base, lookup.Hyp{FilterComparesPredicateText: true})):
			shape = shapeZone
		case len(missing) > 0 && len(extra) > 0:
			shape = "missing-and-extra-results"
		case len(missing) > 0:
			shape = "missing-results"
		}
		fail(base, shape, fmt.Sprintf("%s\n want=%v\n got =%v\n missing=%v extra=%v", ctx(), want, got, missing, extra))
		// pages are still judged against the implementation's own sequence
	}
	for _, pg := range pages {
		o := base
		o.MaxElements, o.Offset = pg[0], pg[1]
		r := lookup.CallOpts(g, q, o)
		st.calls++
		st.paged++
		block := lookup.Page(u1.Keys, pg[0], pg[1])
		if len(u1.Keys) > 1 && pg[0] > 0 {
			st.pagedNontrivial++
		}
		if !r.OK() {
			fail(o, r.Problem(), fmt.Sprintf("%v %v\n content=%v\n %s", q, o, lookup.KeysOf(set), r))
			continue
		}
		if !lookup.SameSeq(r.Keys, block) {
			fail(o, "page-differs-from-block-of-unpaged-sequence", fmt.Sprintf("%v %v\n content=%v\n unpaged=%v\n want block=%v\n got       =%v", q, o, lookup.KeysOf(set), u1.Keys, block, r.Keys))
		}
	}
}

// checkOpen: option values outside the property text. An error is accepted; an
// answer must be closed, and drawn from the lookup's candidates inside the window.
func checkOpen(g storage.Graph, set []*triple.Triple, q lookup.Query, o lookup.Opts, st *cellStats, fail func(o lookup.Opts, shape, detail string)) {
	r := lookup.CallOpts(g, q, o)
	st.calls++
	if r.Panic != "" || r.Overflow || !r.Closed {
		fail(o, r.Problem(), fmt.Sprintf("%v %v: %s", q, o, r))
		return
	}
	if r.Err != "" {
		st.openErr++
		return
	}
	st.openAnswered++
	pool := lookup.Project(q.M, lookup.Window(lookup.Candidates(set, q, lookup.Hyp{}), o.Lower, o.Upper))
	if _, extra := lookup.DiffMultiset(pool, r.Keys); len(extra) > 0 {
		fail(o, "answer-not-drawn-from-window-survivors", fmt.Sprintf("%v %v\n content=%v\n survivors=%v\n got=%v", q, o, lookup.KeysOf(set), pool, r.Keys))
	}
}

func allPages() [][2]int {
	var p [][2]int
	for n := 0; n <= 3; n++ {
		for k := 0; k <= 3; k++ {
			if n == 0 && k == 0 {
				continue // that is the unpaged call itself
			}
			p = append(p, [2]int{n, k})
		}
	}
	return p
}

func main() {
	if os.Getenv("GOGC") == "" {
		debug.SetGCPercent(400)
	}
	r := common.Start("C09", "model_checking")
	r.Replayer("options", func(raw json.RawMessage) (bool, string) {
		var c ccase
		if err := json.Unmarshal(raw, &c); err != nil {
			return false, err.Error()
		}
		u := universe(c.N)
		g, _, err := build(u, c.State, c.History)
		if err != nil {
			return false, err.Error()
		}
		var st cellStats
		var msgs []string
		fail := func(o lookup.Opts, shape, detail string) {
			// only the recorded option value counts (the cell also re-checks the unpaged call it needs)
			if o.String() == c.Opts.String() {
				msgs = append(msgs, "shape="+shape+"\n "+detail)
			}
		}
		q := c.Query.query()
		if !c.Opts.Defined() {
			checkOpen(g, members(u, c.State), q, c.Opts, &st, fail)
		} else {
			var pages [][2]int
			if c.Opts.MaxElements != 0 || c.Opts.Offset != 0 {
				pages = [][2]int{{c.Opts.MaxElements, c.Opts.Offset}}
			}
			checkCell(g, members(u, c.State), q, c.Opts, pages, &st, fail)
		}
		if len(msgs) == 0 {
			return true, fmt.Sprintf("state %b via %s: %v %v as defined", c.State, c.History, q, c.Opts)
		}
		return false, fmt.Sprintf("state %b via %s: %s", c.State, c.History, msgs[0])
	})
	r.MaybeReplay()
	if err := lookup.SelfTest(); err != nil {
		common.Machinery("MODEL-INVALID: %v", err)
	}
	lookup.StartWatchdog(3 * time.Minute)
	stopProfile := lookup.MaybeProfile()
	r.Assume("identity and kinds are judged structurally through exported accessors; instants are compared as instants (zone-free)")
	r.Assume("paging is judged against the implementation's own unpaged sequence, which must be the same on two calls and, as a multiset, equal to the model's answer; the order itself is not prescribed")
	r.Assume("latitude: a filter on the subject field, an unknown filter operation, and LatestAnchor together with FilterOptions may return an error; if they answer, the answer must be drawn from the candidates inside the window. MaxElements <= 0 means unpaged whatever Offset says")
	r.Assume("LatestAnchor is read as the latest filter on the predicate field, applied after the window (docs/support_new_filter_function.md order)")
	r.Assume("one memory graph per (state, history) serves all reads of that state: the driver's reads do not write (checked indirectly: the unpaged call is repeated in every cell)")

	n := r.Pick(8, 10)
	u := universe(n)
	qs := grid(r.Thorough())
	ws, fs, ofs, pages := windows(), filters(), openFilters(), allPages()
	nh := r.Pick(2, 3)
	type item struct {
		s uint32
		h int
	}
	var items []item
	for s := uint32(0); s < 1<<uint(n); s++ {
		for h := 0; h < nh; h++ {
			items = append(items, item{s, h})
		}
	}
	var mu sync.Mutex
	var total cellStats
	cells, writes, done := 0, 0, 0
	shards := make([]lookup.Shard, len(items))
	common.ParallelFor(len(items), func(i int) {
		if r.OutOfTime() {
			return
		}
		it := items[i]
		sh := &shards[i]
		g, w, err := build(u, it.s, histories[it.h])
		if err != nil {
			sh.Fail(common.Failure{Check: "options", Class: "write-history", Shape: "operation-error", Case: ccase{N: n, State: it.s, History: histories[it.h]}, Detail: err.Error()})
			return
		}
		set := members(u, it.s)
		var st cellStats
		lc := 0
		for k := range qs {
			q := qs[k].query()
			fail := func(o lookup.Opts, shape, detail string) {
				sh.Fail(common.Failure{Check: "options", Class: classOf(q, o), Shape: shape,
					Case:   ccase{N: n, State: it.s, History: histories[it.h], Query: qs[k], Opts: o},
					Detail: fmt.Sprintf("state %0*b via %s\n %s", n, it.s, histories[it.h], detail)})
			}
			for _, w := range ws {
				for _, f := range fs {
					checkCell(g, set, q, mkOpts(w, f, 0, 0), pages, &st, fail)
					lc++
				}
				for _, f := range ofs {
					checkOpen(g, set, q, mkOpts(w, f, 0, 0), &st, fail)
					checkOpen(g, set, q, mkOpts(w, f, 2, 1), &st, fail)
				}
			}
		}
		mu.Lock()
		total.calls += st.calls
		total.nontrivial += st.nontrivial
		total.paged += st.paged
		total.pagedNontrivial += st.pagedNontrivial
		total.openErr += st.openErr
		total.openAnswered += st.openAnswered
		for j := range st.sizes {
			total.sizes[j] += st.sizes[j]
		}
		cells += lc
		writes += w
		done++
		mu.Unlock()
	})
	stopProfile()
	lookup.Flush(r, shards)
	r.Set("states", 1<<uint(n))
	r.Set("histories_per_state", nh)
	r.Set("traces_validated_against_impl", done)
	r.Set("transitions", writes)
	r.Set("evaluations", total.calls)
	r.Set("cells_state_query_window_filter", cells)
	r.Set("distinct_nontrivial", total.nontrivial)
	r.Set("paged_calls", total.paged)
	r.Set("paged_calls_on_sequences_longer_than_one", total.pagedNontrivial)
	r.Set("open_option_calls_error", total.openErr)
	r.Set("open_option_calls_answered", total.openAnswered)
	r.Set("universe", n)
	r.Set("queries", len(qs))
	r.Set("option_values_defined", len(ws)*len(fs)*16)
	r.Set("option_values_open", len(ws)*len(ofs)*2)
	hist := map[string]int{}
	for j, c := range total.sizes {
		if c > 0 {
			hist[fmt.Sprint(j)] = c
		}
	}
	r.Set("unpaged_result_size_histogram", hist)
	r.Set("rule", "every subset of the universe x write histories x queries x 16 windows x 8 filters x 16 (MaxElements,Offset); nontrivial = the model keeps at least one and drops at least one of the lookup's candidates")
	t1 := model.T1
	r.Sample(ccase{N: n, State: 0b011110, History: histories[1], Query: qs[len(qs)/2], Opts: mkOpts([2]*time.Time{&t1, nil}, fs[1], 2, 1)})
	r.Sample(ccase{N: n, State: 0b111111, History: histories[0], Query: qs[0], Opts: mkOpts([2]*time.Time{nil, &t1}, fs[7], 1, 2)})
	r.Finish()
}
