// c14s — the schedule part of C14, on the vsched engine: planner scenarios
// (two-clause joins with 2 and 3 intermediate rows under 1, 2 and 4 processors;
// ORDER BY with a total order; ORDER BY with a repeated key) explored with a
// deviation bound over thread schedules, select choices AND map-iteration order
// (MapOrderChoice). The row multiset (row sequence under a total ORDER BY) must
// be the specified one (bqlm reference evaluator) in every execution.
//
// Run by cmd/c14 (`c14s <tier> --sub`), which folds the result into C14's evidence.
package main

import (
	"context"
	"encoding/json"
	"fmt"
	"os"
	"sort"
	"strings"
	"time"

	"github.com/google/badwolf/bql/grammar"
	"github.com/google/badwolf/bql/planner"
	"github.com/google/badwolf/bql/semantic"
	"github.com/google/badwolf/storage/memory"
	"github.com/google/badwolf/triple"
	"github.com/google/badwolf/triple/literal"

	"verif/bqlm"
	"verif/common"
	"verif/explore"
	"verif/model"
	"verif/vrt"
)

type scen struct {
	Name    string
	Q       *bqlm.Query
	Data    []*triple.Triple
	Procs   int
	Ordered bool // compare the row sequence, not the multiset
	Chan    int
	Bag     bool // reference = one row per matching triple combination
}

func bt(n string) bqlm.Term  { return bqlm.Term{Kind: bqlm.Bind, Name: n} }
func pc(id string) bqlm.Term { return bqlm.Term{Kind: bqlm.Const, P: model.PI(id)} }

func scenarios() []scen {
	T := model.T
	a, b, c := bqlm.NA, bqlm.NB, bqlm.NC
	p, q := bqlm.PImm, bqlm.QImm
	d2 := []*triple.Triple{T(a, p, model.ON(b)), T(a, p, model.ON(c)), T(b, q, model.OL(bqlm.LInt)), T(c, q, model.OL(bqlm.LText))}
	d3 := append(append([]*triple.Triple{}, d2...), T(a, p, model.ON(a)), T(a, q, model.ON(b)))
	// ties on the first key: the later keys decide
	lint2 := model.L(literal.Int64, int64(2))
	d4 := []*triple.Triple{T(a, p, model.ON(c)), T(b, p, model.ON(c)), T(c, q, model.OL(bqlm.LInt)), T(c, q, model.OL(lint2)), T(a, p, model.ON(b)), T(b, q, model.OL(lint2))}
	join := []bqlm.Clause{{S: bt("?s"), P: bqlm.Term{Kind: bqlm.Const, P: p}, O: bt("?o")}, {S: bt("?o"), P: bqlm.Term{Kind: bqlm.Const, P: q}, O: bt("?x")}}
	sel := func(cs []bqlm.Clause) *bqlm.Query {
		return &bqlm.Query{From: []string{"?g"}, Where: cs, Proj: bqlm.SelectAll(cs)}
	}
	ord := func(cs []bqlm.Clause, keys ...bqlm.Key) *bqlm.Query {
		qq := sel(cs)
		qq.OrderBy = keys
		return qq
	}
	var out []scen
	for _, procs := range []int{1, 2, 4} {
		out = append(out, scen{Name: fmt.Sprintf("join2/procs%d", procs), Q: sel(join), Data: d2, Procs: procs})
		out = append(out, scen{Name: fmt.Sprintf("join3/procs%d", procs), Q: sel(join), Data: d3, Procs: procs})
	}
	out = append(out, scen{Name: "join3/procs2/chan1", Q: sel(join), Data: d3, Procs: 2, Chan: 1})
	out = append(out, scen{Name: "order-total", Q: ord(join, bqlm.Key{Binding: "?o"}, bqlm.Key{Binding: "?x"}, bqlm.Key{Binding: "?s"}), Data: d4, Procs: 2, Ordered: true})
	out = append(out, scen{Name: "order-repeated-key", Q: ord(join, bqlm.Key{Binding: "?o", Desc: true}, bqlm.Key{Binding: "?x"}, bqlm.Key{Binding: "?o", Desc: true}, bqlm.Key{Binding: "?s"}), Data: d4, Procs: 2, Ordered: true})
	// time bounds taken from a binding: per-row lookup options derived concurrently
	ba := bqlm.BoundAliasShapes()[0]
	bg := bqlm.BoundAliasGraphs()[0]["?g"]
	for _, procs := range []int{1, 2} {
		out = append(out, scen{Name: fmt.Sprintf("bound-from-binding/procs%d", procs), Q: sel(ba), Data: bg, Procs: procs, Bag: true})
	}
	// a join whose rows share TWO bindings that only the compatibility check enforces: the anchor and a TYPE alias
	// (the check walks a map of bindings: every order of that walk must give the same answer)
	ta, tb := model.N("/t", "a"), model.N("/t", "b")
	dj := []*triple.Triple{T(a, bqlm.PT1, model.ON(b)), T(ta, bqlm.PT1, model.ON(c)), T(b, bqlm.QT2, model.ON(a)), T(tb, model.PT("q", model.T1), model.ON(c)), T(c, model.PT("q", model.T1), model.ON(a))}
	anchorJoin := []bqlm.Clause{
		{S: bqlm.Term{Kind: bqlm.Bind, Name: "?a", TypeAlias: "?ty"}, P: bqlm.Term{Kind: bqlm.AnchorBind, ID: "p", Name: "?t"}, O: bt("?x")},
		{S: bqlm.Term{Kind: bqlm.Bind, Name: "?b", TypeAlias: "?ty"}, P: bqlm.Term{Kind: bqlm.AnchorBind, ID: "q", Name: "?t"}, O: bt("?y")},
	}
	for _, procs := range []int{1, 2} {
		out = append(out, scen{Name: fmt.Sprintf("join-on-anchor-and-type/procs%d", procs), Q: sel(anchorJoin), Data: dj, Procs: procs})
	}
	one := []bqlm.Clause{{S: bt("?s"), P: bt("?p"), O: bt("?o")}}
	out = append(out, scen{Name: "single-clause-order", Q: ord(one, bqlm.Key{Binding: "?s"}, bqlm.Key{Binding: "?p"}, bqlm.Key{Binding: "?o"}), Data: d2, Procs: 2, Ordered: true})
	return out
}

// expected rows: multiset (sorted) or, for a total order, the unique sorted sequence.
func expected(s scen) []string {
	if s.Bag {
		// an un-aliased time-range term returns one row per matching triple (recorded finding
		// C03-row-per-triple-combination); what this scenario decides is that the rows do not
		// depend on the schedule, so the per-triple bag is the reference here
		return bqlm.Project(bqlm.BagSolutions(s.Q.Where, s.Data, s.Q.GLo, s.Q.GHi), s.Q.Proj)
	}
	rows, err := bqlm.EvalRows(s.Q, s.Data)
	if err != nil {
		common.Machinery("reference evaluator: %v", err)
	}
	cols := s.Q.OutCols()
	if !s.Ordered {
		return bqlm.KeysOfRows(rows, cols)
	}
	idx := func(b string) int {
		for i, c := range cols {
			if c == b {
				return i
			}
		}
		return -1
	}
	sort.SliceStable(rows, func(i, j int) bool {
		seen := map[string]bool{}
		for _, k := range s.Q.OrderBy {
			if seen[k.Binding] {
				continue
			}
			seen[k.Binding] = true
			c := bqlm.CompareVals(rows[i][idx(k.Binding)], rows[j][idx(k.Binding)])
			if k.Desc {
				c = -c
			}
			if c != 0 {
				return c < 0
			}
		}
		return false
	})
	var out []string
	for _, r := range rows {
		out = append(out, r.Key(cols))
	}
	return out
}

func find(name string) *scen {
	for _, s := range scenarios() {
		if s.Name == name {
			s := s
			return &s
		}
	}
	return nil
}

func factory(name string) func() explore.Exec {
	s := find(name)
	if s == nil {
		return nil
	}
	want := expected(*s)
	cols := s.Q.OutCols()
	text := s.Q.Render()
	return func() explore.Exec {
		var got []string
		var errText string
		return explore.Exec{
			Body: func() {
				ctx := context.Background()
				st := memory.NewStore()
				g, err := st.NewGraph(ctx, "?g")
				if err != nil {
					errText = err.Error()
					return
				}
				g.AddTriples(ctx, s.Data)
				p, err := grammar.NewParser(grammar.SemanticBQL())
				if err != nil {
					errText = err.Error()
					return
				}
				stm := &semantic.Statement{}
				if err := p.Parse(grammar.NewLLk(text, 1), stm); err != nil {
					errText = "parse: " + err.Error()
					return
				}
				pln, err := planner.New(ctx, st, stm, s.Chan, 0, nil)
				if err != nil {
					errText = "plan: " + err.Error()
					return
				}
				tbl, err := pln.Execute(ctx)
				if err != nil {
					errText = "execute: " + err.Error()
					return
				}
				got, _ = bqlm.Canon(tbl, cols)
			},
			Check: func(out *vrt.Outcome) ([]explore.Verdict, string) {
				class := "planner-schedule:" + strings.SplitN(s.Name, "/", 2)[0]
				if v := explore.GlobalVerdict(class, out); v != nil {
					return []explore.Verdict{*v}, string(out.Status)
				}
				if errText != "" {
					return []explore.Verdict{{Class: class, Shape: "error:" + clip(errText, 50), Detail: text + "\n " + errText}}, "error"
				}
				g := append([]string{}, got...)
				if !s.Ordered {
					sort.Strings(g)
				}
				oc := strings.Join(g, " | ")
				if strings.Join(g, "\n") != strings.Join(want, "\n") {
					shape := "row-multiset-depends-on-schedule"
					if s.Ordered {
						shape = "row-sequence-depends-on-schedule-or-map-order"
					}
					return []explore.Verdict{{Class: class, Shape: shape, Detail: fmt.Sprintf("%s\n specified: %v\n returned:  %v", text, want, g)}}, oc
				}
				return nil, oc
			},
		}
	}
}

func clip(s string, n int) string {
	if len(s) > n {
		return s[:n]
	}
	return s
}

type schedCase struct {
	Variant string `json:"variant"`
	Bound   int    `json:"bound"`
	Choices []int  `json:"choices"`
	Trace   string `json:"trace,omitempty"`
}

func cfgFor(s *scen) vrt.Config {
	return vrt.Config{Procs: s.Procs, MapOrderChoice: true, MaxTicks: 2000000, MaxSteps: 200000}
}

func main() {
	explore.ServeWorker(factory)
	tier, sub, replay := "quick", false, ""
	for i, a := range os.Args[1:] {
		switch a {
		case "quick", "thorough":
			tier = a
		case "--sub":
			sub = true
		case "--replay-case":
			replay = os.Args[i+2]
		}
	}
	if replay != "" {
		var c schedCase
		json.Unmarshal([]byte(replay), &c)
		s := find(c.Variant)
		if s == nil {
			fmt.Println("unknown variant")
			os.Exit(2)
		}
		cfg := cfgFor(s)
		cfg.Diag = true
		out, vs, oc, bad := explore.Replay(cfg, factory(c.Variant), c.Choices)
		if bad != "" {
			fmt.Println("MACHINERY-ERROR: NONDETERMINISM", bad)
			os.Exit(2)
		}
		for _, v := range vs {
			if !v.Info {
				fmt.Printf("FAILS %s: %s\n%s\n", v.Shape, v.Detail, vrt.FormatTrace(out.Trace))
				os.Exit(1)
			}
		}
		fmt.Println("held:", oc)
		return
	}
	maxB := 2
	budget := 70 * time.Second
	if tier == "thorough" {
		maxB, budget = 3, 12*time.Minute
	}
	deadline := time.Now().Add(budget).UnixMilli()
	cov := map[string]interface{}{}
	totalExec, totalOutcomes := 0, 0
	var per []map[string]interface{}
	rc := 0
	minCompleted := 99
	for _, s := range scenarios() {
		completed := -1
		var acc *explore.Result
		for b := 0; b <= maxB; b++ {
			var jobs []explore.Job
			n := 8
			if b == 0 {
				n = 1
			}
			for sh := 0; sh < n; sh++ {
				jobs = append(jobs, explore.Job{Scenario: s.Name, Opt: explore.Options{Mode: explore.Bounded, Bound: b, OnlyLevel: b > 0, Shard: sh, Shards: n, DeadlineMs: deadline, Cfg: cfgFor(&s)}})
			}
			res, err := explore.RunJobs(jobs, 16)
			if err != nil {
				fmt.Println("MACHINERY-ERROR: worker failed:", err)
				os.Exit(2)
			}
			m := explore.Merge(res)
			if m.Nondet != "" {
				fmt.Println("MACHINERY-ERROR: NONDETERMINISM", s.Name, m.Nondet)
				os.Exit(2)
			}
			if acc == nil {
				acc = m
			} else {
				acc = explore.Merge([]*explore.Result{acc, m})
			}
			if !m.Complete {
				break
			}
			completed = b
		}
		if completed < minCompleted {
			minCompleted = completed
		}
		for _, f := range acc.Failures {
			cf := common.Failure{Check: "sched", Class: f.Class, Shape: f.Shape, Case: schedCase{s.Name, completed, f.Choices, ""}, Detail: fmt.Sprintf("%s schedule %v (%d failing schedules): %s", s.Name, f.Choices, f.Count, f.Detail)}
			b, _ := json.Marshal(cf)
			fmt.Println("SUB-FAIL " + string(b)) // once per class/shape; f.Count schedules fail this way
			rc = 1
		}
		totalExec += acc.Executions
		totalOutcomes += len(acc.Outcomes)
		per = append(per, map[string]interface{}{"scenario": s.Name, "schedules": acc.Executions, "bound_completed": completed, "distinct_outcomes": len(acc.Outcomes), "distinct_partial_orders": acc.DistinctHB, "max_steps": acc.MaxSteps, "threads": acc.MaxThreads})
		fmt.Printf("  c14s %-24s schedules=%-7d bound_completed=%d outcomes=%d max-steps=%d threads=%d failures=%d\n", s.Name, acc.Executions, completed, len(acc.Outcomes), acc.MaxSteps, acc.MaxThreads, len(acc.Failures))
	}
	cov["schedules"] = totalExec
	cov["scenarios"] = per
	cov["deviation_bound_completed_in_every_scenario"] = minCompleted
	cov["distinct_outcomes_total"] = totalOutcomes
	b, _ := json.Marshal(cov)
	fmt.Println("SUB-COV " + string(b))
	if !sub && rc != 0 {
		fmt.Println("VIOLATION property=C14 replay=(run through ./vcheck C14)")
	}
	os.Exit(rc)
}
