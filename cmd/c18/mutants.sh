#!/bin/bash
# Demonstrates detection for C18: applies each deliberate property-breaking change to a COPY of a
# /repo file (go build -overlay; /repo is never touched), runs the quick tier and
# reports caught / missed, and runs the repository's bql tests under the same
# overlay to show the change is one the existing tests do not notice.
# Usage: cmd/c18/mutants.sh [name...]      (scratch: work/syntax/mut-c18/)
cd "$(dirname "$0")/../.." || exit 2
. ./env.sh
W=work/syntax/mut-c18; mkdir -p "$W" work/bin
G=/repo/bql/grammar/grammar.go
P=/repo/bql/grammar/parser.go

# name | file | python replacement (old -> new, must match exactly once)
mutant() {
  local name="$1" file="$2" old="$3" new="$4"
  [ $# -gt 4 ] && shift 4 || shift 4
  if [ -n "$ONLY" ] && ! echo " $ONLY " | grep -q " $name "; then return; fi
  local out="$PWD/$W/$name.go"
  python3 - "$file" "$out" "$old" "$new" <<'PY' || { echo "$name: MUTANT-DID-NOT-APPLY"; return; }
import sys
src=open(sys.argv[1]).read()
old,new=sys.argv[3],sys.argv[4]
if src.count(old)!=1:
    sys.stderr.write("pattern occurs %d times\n"%src.count(old)); sys.exit(1)
open(sys.argv[2],'w').write(src.replace(old,new))
PY
  echo "{\"Replace\":{\"$file\":\"$out\"}}" > "$W/$name.json"
  if ! go build -overlay "$W/$name.json" -o "work/bin/c18-$name" ./cmd/c18 2> "$W/$name.build"; then
    echo "$name: DOES-NOT-COMPILE ($(head -1 "$W/$name.build"))"; return
  fi
  mkdir -p "$W/root"; cp known_findings.json "$W/root/"   # evidence/replays of mutant runs go to scratch
  VERIF_ROOT="$PWD/$W/root" "work/bin/c18-$name" quick > "$W/$name.out" 2>&1; rc=$?
  (cd /repo && go test -overlay "$OLDPWD/$W/$name.json" -vet=off -count=1 ./bql/... > "$OLDPWD/$W/$name.tests" 2>&1); trc=$?
  tests="repo bql tests pass"; [ $trc -ne 0 ] && tests="repo bql tests FAIL ($(grep -c '^--- FAIL' "$W/$name.tests") failing)"
  if [ $rc -eq 1 ]; then echo "$name: CAUGHT (exit 1; $(grep -c 'violation class' "$W/$name.out") violation classes; first: $(grep -m1 'violation class' "$W/$name.out" | cut -c1-160)); $tests"
  elif [ $rc -eq 0 ]; then echo "$name: MISSED (exit 0); $tests"
  else echo "$name: MACHINERY exit $rc: $(tail -1 "$W/$name.out" | cut -c1-200); $tests"; fi
}
ONLY="$*"
K=/repo/bql/grammar/llk.go
H=/repo/bql/semantic/hooks.go

# 1. CanAccept looks at the peeked token instead of the current one
mutant canaccept-peeks "$K" '	return l.tkns[0].Type == tt
}' '	return l.tkns[1].Type == tt
}'
# 2. Consume no longer checks the token kind (any token is taken for the expected one)
mutant consume-any "$K" '	if l.tkns[0].Type != tt {
		return false
	}
	l.tkns = l.tkns[1:]' '	l.tkns = l.tkns[1:]'
# 3. Consume does not advance when the lookahead is the end of input (last real token is never consumed)
mutant consume-stuck-on-last "$K" '	l.tkns = l.tkns[1:]
	appendNextToken(l)
	return true' '	if l.tkns[1].Type != lexer.ItemEOF {
		l.tkns = l.tkns[1:]
		appendNextToken(l)
	}
	return true'
# 4. a missing last token of an alternative is forgiven (statements without the final token accepted)
mutant last-token-optional "$P" '			if !llk.Consume(elem.Token()) {
				return false,' '			if !llk.Consume(elem.Token()) && elem.Token() != lexer.ItemSemicolon {
				return false,'
# 5. no alternative matches and there is no empty one: treated as success
mutant no-alternative-is-ok "$P" '	return false, fmt.Errorf("Parser.consume: could not consume token %s in production %s", llk.Current(), s)' '	_ = fmt.Sprint(llk.Current(), s)
	return true, nil'
# 6. a hook forgets to reset its accumulator: the object hook keeps the last alias keyword
mutant object-hook-keeps-alias-keyword "$H" '			defer func() {
				lastNopToken = nil
			}()
			switch lastNopToken.Type {
			case lexer.ItemAs:
				if c.OAlias != "" {' '			switch lastNopToken.Type {
			case lexer.ItemAs:
				if c.OAlias != "" {'
# 7. graph names accumulate in the hook closure instead of the statement
mutant graph-names-accumulate "$H" 'func graphAccumulator() ElementHook {
	var hook ElementHook
	hook = func(st *Statement, ce ConsumedElement) (ElementHook, error) {
		if ce.IsSymbol() {
			return hook, nil
		}
		tkn := ce.Token()
		switch tkn.Type {
		case lexer.ItemComma:
			return hook, nil
		case lexer.ItemBinding:
			st.AddGraph(strings.TrimSpace(tkn.Text))' 'func graphAccumulator() ElementHook {
	var hook ElementHook
	var names []string
	hook = func(st *Statement, ce ConsumedElement) (ElementHook, error) {
		if ce.IsSymbol() {
			return hook, nil
		}
		tkn := ce.Token()
		switch tkn.Type {
		case lexer.ItemComma:
			return hook, nil
		case lexer.ItemBinding:
			names = append(names, strings.TrimSpace(tkn.Text))
			st.graphNames = names'
# 8. the semantic layer accepts more: a failing hook no longer fails the parse
mutant hook-errors-ignored "$P" '			if _, err := cls.ProcessedElement(st, ce); err != nil {
				return false, err
			}' '			cls.ProcessedElement(st, ce)'
