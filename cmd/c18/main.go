// C18 — the parser accepts exactly whole grammar statements and keeps no state.
//
// Part 1 (acceptance): BFS over parser configurations = viable token prefixes
// over the full token-kind alphabet; every viable prefix and every one-token
// extension of one is rendered to text (one canonical lexeme per kind, re-lexed
// to confirm) and given to the REAL parser; the verdict is compared with the
// independent table-driven Recogniser (verif/recog). Plus every grammar
// statement up to a token length and all its single-token mutations.
// Part 2 (statelessness): a corpus of accepted statements B and, for A, every
// token prefix of every corpus statement and every corpus statement; A then B
// on ONE SemanticBQL parser; B's verdict and Statement must equal B's on a
// fresh parser.
package main

import (
	"encoding/json"
	"fmt"
	"os"
	"runtime"
	"runtime/debug"
	"sort"
	"strings"
	"sync"
	"sync/atomic"
	"time"
	"unsafe"

	"github.com/google/badwolf/bql/grammar"
	"github.com/google/badwolf/bql/lexer"
	"github.com/google/badwolf/bql/semantic"
	bqltable "github.com/google/badwolf/bql/table"
	"github.com/google/badwolf/storage"
	"github.com/google/badwolf/triple/literal"

	"verif/common"
	"verif/model"
	"verif/recog"
)

// ---- running the real parser ------------------------------------------------------

type verdict struct {
	Accepted bool
	Err      string
	Panic    string
}

func (v verdict) String() string {
	switch {
	case v.Panic != "":
		return "PANIC " + v.Panic
	case v.Accepted:
		return "accepted"
	}
	return "rejected (" + v.Err + ")"
}

// drain pulls the remaining tokens through the exported LLk surface so the
// lexer's producer goroutine always runs to its end (no leak in the harness).
func drain(l *grammar.LLk) {
	common.Guard(func() {
		for i := 0; i < 1<<20; i++ {
			t := l.Current().Type
			if t == lexer.ItemEOF || t == lexer.ItemError {
				return
			}
			l.Consume(t)
		}
	})
}

// stall reports parses that do not return (set in main).
var stall *common.StallWatch

func parseOn(p *grammar.Parser, text string) (v verdict, st *semantic.Statement) {
	if stall == nil {
		return parseOn0(p, text)
	}
	stall.Do(func() common.Failure {
		return common.Failure{Check: "sequence", Class: "statement", Case: seqCase{Text: text, Origin: "stall"}, Detail: fmt.Sprintf("lexing / parsing %q has not returned after two minutes", text)}
	}, func() { v, st = parseOn0(p, text) })
	return v, st
}

func parseOn0(p *grammar.Parser, text string) (verdict, *semantic.Statement) {
	return parseInto(p, text, &semantic.Statement{})
}

// parseInto parses text into the statement the caller allocated.
func parseInto(p *grammar.Parser, text string, st *semantic.Statement) (verdict, *semantic.Statement) {
	var v verdict
	var llk *grammar.LLk
	if pn := common.Guard(func() {
		llk = grammar.NewLLk(text, 1)
		if err := p.Parse(llk, st); err != nil {
			v.Err = err.Error()
		} else {
			v.Accepted = true
		}
	}); pn != nil {
		v = verdict{Panic: firstLine(fmt.Sprint(pn))}
	}
	if llk != nil {
		drain(llk)
	}
	return v, st
}

func firstLine(s string) string {
	if i := strings.IndexByte(s, '\n'); i >= 0 {
		s = s[:i]
	}
	return s
}

func newPlain() *grammar.Parser {
	p, err := grammar.NewParser(grammar.BQL())
	if err != nil {
		common.Machinery("NewParser(BQL()): %v", err)
	}
	return p
}

func newSemantic() *grammar.Parser {
	p, err := grammar.NewParser(grammar.SemanticBQL())
	if err != nil {
		common.Machinery("NewParser(SemanticBQL()): %v", err)
	}
	return p
}

var stmtSeen sync.Map // rendered texts of grammar statements evaluated

var plainPool = sync.Pool{New: func() interface{} { return newPlain() }}

// ---- part 3: pumping (repetition counts far beyond the token bounds of parts 1 and 2) ---------------
//
// Every list production of the grammar repeated n = 2^k times in one statement (the statement is derivable
// for every n, so it must be accepted), and n rejected statements followed by an accepted one on one parser
// (the verdict and the extracted meaning must equal those on a fresh parser).

type pumpCase struct {
	Kind string `json:"kind"` // a list production, or "history"
	N    int    `json:"n"`
	A    string `json:"a,omitempty"`    // history: the rejected statement that is repeated
	Then string `json:"then,omitempty"` // history: the statement parsed afterwards
}

var pumpKinds = []string{"create-graphs", "insert-triples", "select-bindings", "where-clauses", "from-graphs", "group-by", "order-by", "having-and", "construct-facts", "reify-pairs"}

func pumped(kind string, n int) (text string, semanticOK bool) {
	var xs []string
	item := func(f string) string {
		xs = xs[:0]
		for i := 0; i < n; i++ {
			xs = append(xs, fmt.Sprintf(f, i))
		}
		return ""
	}
	switch kind {
	case "create-graphs":
		item("?g%d")
		return "create graph " + strings.Join(xs, ", ") + ";", true
	case "insert-triples":
		item(`/u<s%d> "p"@[] /u<o>`)
		return "insert data into ?a {" + strings.Join(xs, " . ") + "};", true
	case "select-bindings":
		item("?s as ?x%d")
		return "select " + strings.Join(xs, ", ") + " from ?a where {?s ?p ?o};", true
	case "where-clauses":
		item(`?s "p%d"@[] ?o`)
		return "select ?s from ?a where {" + strings.Join(xs, " . ") + "};", true
	case "from-graphs":
		item("?g%d")
		return "select ?s from " + strings.Join(xs, ", ") + " where {?s ?p ?o};", true
	case "group-by":
		item("?b%d")
		return "select ?s from ?a where {?s ?p ?o} group by " + strings.Join(xs, ", ") + ";", false
	case "order-by":
		item("?b%d asc")
		return "select ?s from ?a where {?s ?p ?o} order by " + strings.Join(xs, ", ") + ";", false
	case "having-and":
		item("(?s = ?o%d)")
		return "select ?s from ?a where {?s ?p ?o} having " + strings.Join(xs, " and ") + ";", false
	case "construct-facts":
		item(`?s "q%d"@[] ?o`)
		return "construct {" + strings.Join(xs, " . ") + "} into ?b from ?a where {?s ?p ?o};", true
	case "reify-pairs":
		item(`"q%d"@[] ?o`)
		return `construct {?s "q"@[] ?o ; ` + strings.Join(xs, " ; ") + "} into ?b from ?a where {?s ?p ?o};", true
	}
	return "", false
}

var pumpRejected = []string{";", "select from ?a where {?s ?p ?o};", "create graph ;", "show;", "select ?s from ?a where {?s ?p};", "select ?zz from ?a where {?s ?p ?o};", "create graph ?a ?b;"}
var pumpThen = []string{"show graphs;", `select ?s from ?a where {?s "p"@[] ?o};`, `insert data into ?a {/u<s> "p"@[] /u<o>};`}

func checkPump(c pumpCase) (ok bool, shape, detail string) {
	if c.Kind == "history" {
		want := observe(newSemantic(), c.Then)
		p := newSemantic()
		for i := 0; i < c.N; i++ {
			parseOn(p, c.A)
		}
		got := observe(p, c.Then)
		switch {
		case got.V.Panic != "":
			return false, "statement-after-rejected-ones-panics", fmt.Sprintf("after %d times %q the statement %q: %s", c.N, c.A, c.Then, got.V)
		case got.V.Accepted != want.V.Accepted:
			return false, "verdict-changes-after-rejected-statements", fmt.Sprintf("after %d times %q the statement %q is %s; on a fresh parser it is %s", c.N, c.A, c.Then, got.V, want.V)
		case got.Dump != want.Dump:
			return false, "meaning-changes-after-rejected-statements", fmt.Sprintf("after %d times %q the statement %q yields\n%s", c.N, c.A, c.Then, diffLines(got.Dump, want.Dump))
		}
		return true, "", ""
	}
	text, sem := pumped(c.Kind, c.N)
	v, _ := parseOn(newPlain(), text)
	if v.Panic != "" {
		return false, "derivable-statement-panics", fmt.Sprintf("%s with %d elements: %s", c.Kind, c.N, v)
	}
	if !v.Accepted {
		return false, "parser-rejects-a-derivable-statement", fmt.Sprintf("%s with %d elements is derivable (the list production repeats) but the BQL() parser says: %s", c.Kind, c.N, v)
	}
	if sem {
		if v, _ := parseOn(newSemantic(), text); !v.Accepted {
			return false, "semantic-parser-rejects-a-long-list", fmt.Sprintf("%s with %d elements: the SemanticBQL() parser says: %s (the same statement with 2 elements is accepted)", c.Kind, c.N, v)
		}
	}
	return true, "", ""
}

func pumpPass(r *common.Run) int {
	var cases []pumpCase
	maxN := r.Pick(4096, 16384)
	for n := 1; n <= maxN; n *= 2 {
		for _, k := range pumpKinds {
			cases = append(cases, pumpCase{Kind: k, N: n})
		}
		for _, a := range pumpRejected {
			for _, b := range pumpThen {
				cases = append(cases, pumpCase{Kind: "history", N: n, A: a, Then: b})
			}
		}
	}
	// the 2-element forms must be accepted by the semantic parser where pumped() says so: otherwise the
	// pumped statement itself is malformed (machinery error, not a finding)
	for _, k := range pumpKinds {
		text, sem := pumped(k, 2)
		if v, _ := parseOn(newPlain(), text); !v.Accepted {
			common.Machinery("pumped statement %s is not accepted with 2 elements: %s: %s", k, text, v)
		}
		if sem {
			if v, _ := parseOn(newSemantic(), text); !v.Accepted {
				common.Machinery("pumped statement %s is not accepted by the semantic parser with 2 elements: %s: %s", k, text, v)
			}
		}
	}
	common.ParallelFor(len(cases), func(i int) {
		c := cases[i]
		if ok, shape, d := checkPump(c); !ok {
			class := "pumped:" + c.Kind
			if c.Kind == "history" {
				class = "pumped-history:" + histClass(c.A, c.Then)
			}
			r.Fail(common.Failure{Check: "pump", Class: class, Shape: shape, Case: c, Detail: d})
		}
	})
	r.Set("pump_max_repetitions", maxN)
	r.Set("pump_cases", len(cases))
	return len(cases)
}

// ---- part 1: acceptance against the Recogniser --------------------------------------

type seqCase struct {
	Tokens []string `json:"tokens"`
	Text   string   `json:"text"`
	Origin string   `json:"origin,omitempty"`
}

var (
	table   *recog.Table
	byName  = map[string]recog.Kind{}
	allKind []recog.Kind
)

func kindsFromNames(names []string) []recog.Kind {
	var ks []recog.Kind
	for _, n := range names {
		ks = append(ks, byName[n])
	}
	return ks
}

// classify is the input classifier of a token sequence (from the tokens alone,
// through the Recogniser): what kind of non-statement / statement it is.
func classify(ks []recog.Kind) (class string, v recog.Verdict) {
	v, err := table.Recognise(ks)
	if err != nil {
		common.Machinery("recogniser: %v", err)
	}
	switch {
	case v.Greedy:
		return "statement", v
	case v.Derivable:
		return "statement-derivable-only-with-a-skipped-optional", v
	}
	for n := len(ks) - 1; n > 0; n-- {
		if pv, _ := table.Recognise(ks[:n]); pv.Derivable {
			return "statement-followed-by-extra-tokens", v
		}
	}
	if v.Viable {
		return "incomplete-statement", v
	}
	return "not-a-statement-prefix", v
}

type seqOutcome struct {
	fails     []common.Failure
	rendered  bool
	accepted  bool
	latitude  bool
	semAccept bool
}

// evalSeq renders ks, runs the plain and the semantic parser and compares with
// the Recogniser.
func evalSeq(ks []recog.Kind, origin string, fresh bool) (o seqOutcome) {
	text, ok := recog.Render(ks)
	if !ok {
		return o
	}
	o.rendered = true
	class, rv := classify(ks)
	if rv.Derivable {
		stmtSeen.Store(text, true)
	}
	c := seqCase{recog.KindNames(ks), text, origin}
	var p *grammar.Parser
	if fresh {
		p = newPlain()
	} else {
		p = plainPool.Get().(*grammar.Parser)
		defer plainPool.Put(p)
	}
	v, _ := parseOn(p, text)
	fail := func(shape, detail string) {
		o.fails = append(o.fails, common.Failure{Check: "sequence", Class: class, Shape: shape, Case: c, Detail: detail})
	}
	switch {
	case v.Panic != "":
		fail("parser-panics:"+panicSite(v.Panic), fmt.Sprintf("%q (%s): plain parser %s", text, class, v))
	case v.Accepted && !rv.Derivable:
		fail("parser-accepts-what-the-grammar-does-not-derive", fmt.Sprintf("%q is %s, yet the plain parser accepts it", text, class))
	case !v.Accepted && rv.Greedy:
		fail("parser-rejects-a-derivable-statement", fmt.Sprintf("%q is a grammar statement (every optional part present when its first token is next), yet the plain parser %s", text, v))
	}
	o.accepted = v.Accepted
	o.latitude = rv.Derivable && !rv.Greedy
	// the semantic layer may reject more, never accept more
	sv, _ := parseOn(newSemantic(), text)
	o.semAccept = sv.Accepted
	switch {
	case sv.Panic != "":
		fail("semantic-parser-panics:"+panicSite(sv.Panic), fmt.Sprintf("%q (%s): semantic parser %s", text, class, sv))
	case sv.Accepted && !v.Accepted && v.Panic == "":
		fail("semantic-parser-accepts-more-than-plain-parser", fmt.Sprintf("%q: SemanticBQL accepts, BQL %s", text, v))
	}
	return o
}

func panicSite(p string) string {
	p = firstLine(p)
	if len(p) > 80 {
		p = p[:80]
	}
	return p
}

// ---- part 2: statelessness ---------------------------------------------------------------

var corpus = []string{
	`create graph ?a;`,
	`create graph ?a, ?b, ?c;`,
	`drop graph ?a;`,
	`drop graph ?a, ?b;`,
	`show graphs;`,
	`insert data into ?a {/_<foo> "bar"@[] /_<foo>};`,
	`insert data into ?a, ?b {/u<joe> "follows"@[2006-01-02T15:04:05.999999999Z] /u<mary> . /u<joe> "age"@[] "33"^^type:int64};`,
	`insert data into ?a {/_<foo> "bar"@[] "yeah"^^type:text . /_<foo> "bar"@[] "p"@[]};`,
	`delete data from ?a {/_<foo> "bar"@[] /_<foo>};`,
	`delete data from ?a, ?b {/u<joe> "follows"@[2006-01-02T15:04:05.999999999Z] /u<mary> . /u<joe> "age"@[] "33"^^type:int64};`,
	`select ?s from ?g where {?s ?p ?o};`,
	`select ?s, ?p, ?o from ?g, ?h where {?s ?p ?o};`,
	`select ?s as ?x, ?o as ?y from ?g where {?s ?p ?o};`,
	`select ?n from ?g where {/u<joe> as ?n "parent_of"@[] ?o};`,
	`select ?x, ?y, ?z from ?g where {?s as ?x type ?y id ?z ?p ?o};`,
	`select ?x, ?y, ?z from ?g where {?s as ?x id ?y type ?z ?p ?o};`,
	`select ?x, ?y from ?g where {?s type ?x id ?y ?p ?o};`,
	`select ?x, ?y, ?z from ?g where {?s ?p as ?x id ?y at ?z ?o};`,
	`select ?x, ?y, ?z, ?t from ?g where {?s ?p ?o as ?x type ?y id ?z at ?t};`,
	`select ?x from ?g where {?s ?p ?o at ?x};`,
	`select ?x from ?g where {?s "foo"@[,] as ?x ?o};`,
	`select ?x, ?z from ?g where {?s "foo"@[2006-01-02T15:04:05Z,2007-01-02T15:04:05Z] as ?x id ?y at ?z ?o};`,
	`select ?o from ?g where {?s "foo"@[?t] ?o};`,
	`select ?x from ?g where {?s ?p "foo"@[,] as ?x id ?z at ?t};`,
	`select ?s from ?g where {?s ?p ?o . ?o ?q /u<mary>};`,
	`select ?s from ?g where {?s ?p ?o . optional {?o ?q ?r}};`,
	`select ?s from ?g where {?s ?p ?o . };`,
	`select ?s, count(?o) as ?n from ?g where {?s ?p ?o} group by ?s;`,
	`select ?s, count(distinct ?o) as ?n, sum(?o) as ?t from ?g where {?s ?p ?o} group by ?s;`,
	`select ?s, ?o from ?g where {?s ?p ?o} order by ?s asc, ?o desc;`,
	`select ?s from ?g where {?s ?p ?o} order by ?s;`,
	`select ?s as ?a, ?p as ?b, ?o as ?c from ?g where {?s ?p ?o} order by ?a asc, ?b desc, ?a asc, ?c;`,
	`select ?s, ?p, ?o from ?g where {?s ?p ?o} order by ?o desc, ?s, ?o desc, ?p, ?s;`,
	`select ?s, ?o from ?g where {?s ?p ?o} having ?o > "10"^^type:int64;`,
	`select ?s, ?o from ?g where {?s ?p ?o} having (?o > "10"^^type:int64) and not (?s = ?o);`,
	`select ?s, ?t from ?g where {?s ?p ?o at ?t} having ?t < 2014-03-10T00:00:00-08:00;`,
	// HAVING expressions that differ only in the letter case of an operand (operands are case sensitive): as first and
	// as second statement of the history pairs, they must keep their own meaning
	`select ?s, ?o from ?g where {?s ?p ?o} having ?o = "Alice"^^type:text;`,
	`select ?s, ?o from ?g where {?s ?p ?o} having ?o = "alice"^^type:text;`,
	`select ?s, ?o from ?g where {?s ?p ?o} having ?s = /u<Joe>;`,
	`select ?s, ?o from ?g where {?s ?p ?o} having ?s = /u<joe>;`,
	`select ?s from ?g where {?s ?p ?o} before 2006-01-01T15:04:05.999999999Z;`,
	`select ?s from ?g where {?s ?p ?o} after 2006-02-03T15:04:05.999999999Z;`,
	`select ?s from ?g where {?s ?p ?o} between 2006-01-01T15:04:05.999999999Z, 2006-02-03T15:04:05.999999999Z;`,
	`select ?s from ?g where {?s ?p ?o} limit "10"^^type:int64;`,
	`select ?s, count(?o) as ?n from ?g where {?s ?p ?o} group by ?s order by ?n desc having ?n > "1"^^type:int64 before 2016-01-01T00:00:00Z limit "5"^^type:int64;`,
	`select ?p from ?g where {?s ?p ?o . filter latest(?p)};`,
	`select ?p from ?g where {?s ?p ?o . filter isTemporal(?p) . filter latest(?o) .};`,
	`construct {?s "new"@[] ?o} into ?a from ?b where {?s "old"@[,] ?o} having ?s = ?o;`,
	`construct {?s ?p ?o . _:v "_subject"@[] ?s . _:v "_predicate"@[] ?p} into ?a, ?c from ?b where {?s ?p ?o};`,
	`construct {?s "p1"@[] ?o1 ; "p2"@[2006-01-02T15:04:05Z] ?o2 . /u<x> "p3"@[] "1"^^type:int64} into ?a from ?b where {?s "old1"@[,] ?o1 . ?s "old2"@[,] ?o2};`,
	`deconstruct {?s "new"@[] ?o} in ?a from ?b where {?s "old"@[,] ?o};`,
	`deconstruct {?s ?p ?o . ?n "_subject"@[] ?s} in ?a, ?b from ?c, ?d where {?n "_subject"@[] ?s . ?n "_predicate"@[] ?p . ?n "_object"@[] ?o} having ?s = ?o;`,
	`SELECT ?a FROM ?b WHERE {?a ?p ?o} HAVING ?a = "foo"@[2016-04-01T00:00:00-08:00];`,
	`select ?s from ?g where {/u<joe> "follows"@[2006-01-02T15:04:05Z] ?s};`,
}

// extra first statements: accepted by the grammar, rejected by the semantic layer.
var extraFirst = []string{
	`insert data into ?a {/u<z> "p"@[] };`,
	`select ?unknown from ?g where {?s ?p ?o};`,
	`select ?s from ?g where {?s ?p ?o} limit "x"^^type:text;`,
	`select ?s from ?g where {?s ?p ?o} order by ?zz;`,
	`select ?s from ?g where {?s ?p ?o} between 2007-01-01T00:00:00Z, 2006-01-01T00:00:00Z;`,
	`select ?p from ?g where {?s ?p ?o . filter nosuch(?p)};`,
	`construct {?s "new"@[] ?zz} into ?a from ?b where {?s "old"@[,] ?o};`,
}

// rejectedSeconds: statements the grammar derives and the semantic layer rejects, one minimal fault per semantic
// check (and per projection position for the aggregation checks). As SECOND statements they must stay rejected
// whatever was parsed before on the same parser.
var rejectedSeconds = []string{
	`select count(?s) as ?n from ?g where {?s ?p ?o};`,
	`select ?s, count(?o) as ?n from ?g where {?s ?p ?o};`,
	`select ?s, ?p, count(?o) as ?n from ?g where {?s ?p ?o} group by ?s;`,
	`select ?s, ?o from ?g where {?s ?p ?o} group by ?o;`,
	`select ?o, ?s from ?g where {?s ?p ?o} group by ?o;`,
	`select ?s, ?p, ?o from ?g where {?s ?p ?o} group by ?s, ?p;`,
	`select ?s from ?g where {?s ?p ?o} group by ?zz;`,
	`select sum(?o) as ?t, ?s from ?g where {?s ?p ?o} group by ?o;`,
	`select ?unknown from ?g where {?s ?p ?o};`,
	`select ?s, ?unknown from ?g where {?s ?p ?o};`,
	`select ?s from ?g where {?s ?p ?o} order by ?zz;`,
	`select ?s from ?g where {?s ?p ?o} order by ?s asc, ?s desc;`,
	`select ?s from ?g where {?s ?p ?o} limit "x"^^type:text;`,
	`select ?s from ?g where {?s ?p ?o} between 2007-01-01T00:00:00Z, 2006-01-01T00:00:00Z;`,
	`select ?p from ?g where {?s ?p ?o . filter nosuch(?p)};`,
	`select ?p from ?g where {?s ?p ?o . filter latest(?zz)};`,
	`construct {?s "new"@[] ?zz} into ?a from ?b where {?s "old"@[,] ?o};`,
	`deconstruct {?zz "new"@[] ?o} in ?a from ?b where {?s "old"@[,] ?o};`,
	`insert data into ?a {/u<z> "p"@[] };`,
}

func ts(t *time.Time) string {
	if t == nil {
		return "-"
	}
	return t.UTC().Format(time.RFC3339Nano)
}

func str(x fmt.Stringer, isNil bool) string {
	if isNil {
		return "-"
	}
	return x.String()
}

// dump is the canonical form of a Statement through its exported accessors.
func dump(st *semantic.Statement) string {
	var b strings.Builder
	fmt.Fprintf(&b, "type=%s\n", st.Type())
	fmt.Fprintf(&b, "graphs=%q in=%q out=%q\n", st.GraphNames(), st.InputGraphNames(), st.OutputGraphNames())
	for _, t := range st.Data() {
		fmt.Fprintf(&b, "data %s\n", t.String())
	}
	for _, c := range st.GraphPatternClauses() {
		if c == nil {
			b.WriteString("clause nil\n")
			continue
		}
		fmt.Fprintf(&b, "clause opt=%v S=%s SB=%q SA=%q ST=%q SI=%q | P=%s PID=%q PB=%q PA=%q PIA=%q PAB=%q PAA=%q PLB=%s PUB=%s PLBA=%q PUBA=%q PT=%v | O=%s OB=%q OA=%q OID=%q OTA=%q OIA=%q OAB=%q OAA=%q OLB=%s OUB=%s OLBA=%q OUBA=%q OT=%v\n",
			c.Optional, str(c.S, c.S == nil), c.SBinding, c.SAlias, c.STypeAlias, c.SIDAlias,
			str(c.P, c.P == nil), c.PID, c.PBinding, c.PAlias, c.PIDAlias, c.PAnchorBinding, c.PAnchorAlias, ts(c.PLowerBound), ts(c.PUpperBound), c.PLowerBoundAlias, c.PUpperBoundAlias, c.PTemporal,
			str(c.O, c.O == nil), c.OBinding, c.OAlias, c.OID, c.OTypeAlias, c.OIDAlias, c.OAnchorBinding, c.OAnchorAlias, ts(c.OLowerBound), ts(c.OUpperBound), c.OLowerBoundAlias, c.OUpperBoundAlias, c.OTemporal)
	}
	for _, f := range st.FilterClauses() {
		if f == nil {
			b.WriteString("filter nil\n")
			continue
		}
		fmt.Fprintf(&b, "filter op=%v binding=%q value=%q\n", f.Operation, f.Binding, f.Value)
	}
	for _, p := range st.Projections() {
		fmt.Fprintf(&b, "projection binding=%q alias=%q op=%s mod=%s\n", p.Binding, p.Alias, p.OP, p.Modifier)
	}
	fmt.Fprintf(&b, "groupby=%q\n", st.GroupByBindings())
	fmt.Fprintf(&b, "orderby=%v\n", st.OrderByConfig())
	fmt.Fprintf(&b, "having=%v evaluator=%v:", st.HasHavingClause(), st.HavingEvaluator() != nil)
	for _, ce := range st.HavingExpression() {
		if ce.IsSymbol() {
			fmt.Fprintf(&b, " <%s>", ce.Symbol())
		} else {
			fmt.Fprintf(&b, " %s(%q)", ce.Token().Type, ce.Token().Text)
		}
	}
	b.WriteString("\n")
	// what the evaluator built for the expression does, not only the tokens it was built from: its verdicts on probe
	// rows that give every binding of the expression the same cell
	if ev := st.HavingEvaluator(); ev != nil {
		var bs []string
		for _, ce := range st.HavingExpression() {
			if !ce.IsSymbol() && ce.Token().Type == lexer.ItemBinding {
				bs = append(bs, ce.Token().Text)
			}
		}
		for pi, cell := range havingProbes {
			row := bqltable.Row{}
			for _, bn := range bs {
				row[bn] = cell
			}
			var ok bool
			var err error
			if pn := common.Guard(func() { ok, err = ev.Evaluate(row) }); pn != nil {
				fmt.Fprintf(&b, "  having on probe %d: panic\n", pi)
			} else {
				fmt.Fprintf(&b, "  having on probe %d: %v err=%v\n", pi, ok, err != nil)
			}
		}
	}
	fmt.Fprintf(&b, "limit set=%v n=%d\n", st.IsLimitSet(), st.Limit())
	lo := st.GlobalLookupOptions()
	fmt.Fprintf(&b, "bounds lower=%s upper=%s max=%d latest=%v offset=%d filter=%v\n", ts(lo.LowerAnchor), ts(lo.UpperAnchor), lo.MaxElements, lo.LatestAnchor, lo.Offset, lo.FilterOptions)
	for _, c := range st.ConstructClauses() {
		fmt.Fprintf(&b, "construct S=%s SB=%q\n", str(c.S, c.S == nil), c.SBinding)
		for _, p := range c.PredicateObjectPairs() {
			fmt.Fprintf(&b, "  pair P=%s PB=%q PID=%q PAB=%q PT=%v O=%s OB=%q OID=%q OAB=%q OT=%v\n",
				str(p.P, p.P == nil), p.PBinding, p.PID, p.PAnchorBinding, p.PTemporal, str(p.O, p.O == nil), p.OBinding, p.OID, p.OAnchorBinding, p.OTemporal)
		}
	}
	fmt.Fprintf(&b, "in-bindings=%q out-bindings=%q\n", st.InputBindings(), st.OutputBindings())
	return b.String()
}

var _ = storage.DefaultLookup

type obs struct {
	V    verdict
	Dump string
}

func observe(p *grammar.Parser, text string) obs {
	v, st := parseOn(p, text)
	o := obs{V: v}
	if v.Accepted {
		if pn := common.Guard(func() { o.Dump = dump(st) }); pn != nil {
			o.Dump = "DUMP-PANIC " + firstLine(fmt.Sprint(pn))
		}
	}
	return o
}

type histCase struct {
	History []string `json:"history"`                                             // statements parsed first, in order, on the same parser
	GC      bool     `json:"collect_garbage_before_the_last_statement,omitempty"` // the history's statements are dropped and a collection runs: the next statement may be allocated where an earlier one was
	Then    string   `json:"then"`
}

// histClass is the input classifier of a (history, then) case, computed from
// the texts alone: what the last statement of the history is (complete, or
// where it is cut) and whether `then` has the part that could be affected.
func histClass(a, b string) string {
	ks, clean := recog.LexKinds(a)
	bk, _ := recog.LexKinds(b)
	has := func(ks []recog.Kind, want ...recog.Kind) bool {
		for _, k := range ks {
			for _, w := range want {
				if k == w {
					return true
				}
			}
		}
		return false
	}
	then := func(feature string, present bool) string {
		if present {
			return ";then:statement-with-" + feature
		}
		return ";then:statement-without-" + feature
	}
	bData := len(bk) > 0 && (bk[0] == lexer.ItemInsert || bk[0] == lexer.ItemDelete)
	bWhere := has(bk, lexer.ItemWhere)
	bBound := has(bk, lexer.ItemBefore, lexer.ItemAfter, lexer.ItemBetween)
	if len(ks) == 0 {
		return "after:empty-input"
	}
	v, _ := table.Recognise(ks)
	head := ks[0]
	if clean && v.Derivable {
		if has(ks, lexer.ItemBetween) {
			return "after:complete-statement-with-BETWEEN" + then("global-time-bound", bBound)
		}
		return "after:complete-statement"
	}
	last := ks[len(ks)-1]
	if head == lexer.ItemInsert || head == lexer.ItemDelete {
		// data tokens (NODE/PREDICATE/LITERAL) after the opening bracket
		n, in := 0, false
		for _, k := range ks {
			if k == lexer.ItemLBracket {
				in = true
				continue
			}
			if in && (k == lexer.ItemNode || k == lexer.ItemPredicate || k == lexer.ItemLiteral) {
				n++
			}
		}
		if n%3 != 0 {
			return "after:data-statement-cut-inside-a-triple" + then("data-block", bData)
		}
		return "after:data-statement-cut-between-triples"
	}
	switch last {
	case lexer.ItemAs, lexer.ItemType, lexer.ItemID, lexer.ItemAt:
		if has(ks, lexer.ItemWhere) {
			return "after:statement-cut-after-alias-keyword-in-where-clause" + then("where-clause", bWhere)
		}
	}
	if has(ks, lexer.ItemBefore, lexer.ItemAfter, lexer.ItemBetween) {
		return "after:statement-cut-at-or-after-global-time-bound-keyword" + then("global-time-bound", bBound)
	}
	return "after:statement-cut-or-rejected-elsewhere"
}

// histClassMulti classifies a longer history: hook state survives statements
// that do not touch that hook, so the class is that of the latest history
// element that pairs with a feature `then` actually has; otherwise the class
// of the last element.
func histClassMulti(history []string, then string) string {
	for i := len(history) - 1; i >= 0; i-- {
		if c := histClass(history[i], then); strings.Contains(c, ";then:statement-with-") {
			return c
		}
	}
	return histClass(history[len(history)-1], then)
}

var addressesReused int64

// probe cells for HAVING evaluators (see dump): texts, nodes and numbers in two spellings each
var havingProbes = func() []*bqltable.Cell {
	var out []*bqltable.Cell
	for _, v := range []string{"Alice", "alice", "10", "11"} {
		out = append(out, &bqltable.Cell{L: model.L(literal.Text, v)})
	}
	for _, v := range []int64{10, 11, 1, 2} {
		out = append(out, &bqltable.Cell{L: model.L(literal.Int64, v)})
	}
	for _, id := range []string{"Joe", "joe"} {
		out = append(out, &bqltable.Cell{N: model.N("/u", id)})
	}
	t := time.Date(2014, 3, 10, 0, 0, 0, 0, time.UTC)
	out = append(out, &bqltable.Cell{T: &t})
	return out
}()

// statementAt allocates statements until one lies at addr (the others are kept alive meanwhile, so every try is a new
// address) and returns it; after 20000 tries it returns a statement somewhere else.
func statementAt(addr uintptr) (*semantic.Statement, bool) {
	var keep []*semantic.Statement
	for i := 0; i < 20000 && addr != 0; i++ {
		st := &semantic.Statement{}
		if uintptr(unsafe.Pointer(st)) == addr {
			return st, true
		}
		keep = append(keep, st)
	}
	runtime.KeepAlive(keep)
	return &semantic.Statement{}, false
}

// checkHistory parses the history then `then` on one semantic parser and
// compares `then` with a fresh parser.
func checkHistory(c histCase, want obs) (ok bool, shape, detail string) {
	p := newSemantic()
	for i, a := range c.History {
		if c.GC && i == len(c.History)-1 {
			break // parsed below, where its address is taken
		}
		parseOn(p, a)
	}
	var got obs
	if c.GC {
		// the allocator is free to hand out the address of a statement that is gone: that choice is taken here (fresh
		// statements are allocated until one lies where the last statement of the history did, up to a bound)
		var addr uintptr
		if n := len(c.History); n > 0 {
			_, st := parseOn(p, c.History[n-1])
			addr = uintptr(unsafe.Pointer(st))
		}
		runtime.GC()
		runtime.GC()
		st, reused := statementAt(addr)
		if reused {
			atomic.AddInt64(&addressesReused, 1)
		}
		v, _ := parseInto(p, c.Then, st)
		got = obs{V: v}
		if v.Accepted {
			if pn := common.Guard(func() { got.Dump = dump(st) }); pn != nil {
				got.Dump = "DUMP-PANIC " + firstLine(fmt.Sprint(pn))
			}
		}
	} else {
		got = observe(p, c.Then)
	}
	switch {
	case got.V.Panic != "":
		return false, "second-statement-panics", fmt.Sprintf("after %q the statement %q: %s (fresh parser: %s)", c.History, c.Then, got.V, want.V)
	case got.V.Accepted != want.V.Accepted:
		return false, "second-statement-verdict-changes", fmt.Sprintf("after %q the statement %q is %s; on a fresh parser it is %s", c.History, c.Then, got.V, want.V)
	case got.Dump != want.Dump:
		return false, "second-statement-meaning-changes", fmt.Sprintf("after %q the statement %q yields\n%s\non a fresh parser\n%s", c.History, c.Then, diffLines(got.Dump, want.Dump), "")
	}
	return true, "", ""
}

func diffLines(got, want string) string {
	g, w := strings.Split(got, "\n"), strings.Split(want, "\n")
	var b strings.Builder
	for i := 0; i < len(g) || i < len(w); i++ {
		var x, y string
		if i < len(g) {
			x = g[i]
		}
		if i < len(w) {
			y = w[i]
		}
		if x != y {
			fmt.Fprintf(&b, "  shared parser: %s\n  fresh parser : %s\n", x, y)
		}
	}
	return b.String()
}

// prefixes returns every proper token prefix of the statement, as text cut at
// token boundaries (including the empty prefix).
func prefixes(text string) []string {
	toks := recog.Lex(text)
	var out []string
	pos := 0
	out = append(out, "")
	for i, t := range toks {
		if t.Type == lexer.ItemEOF || t.Type == lexer.ItemError {
			break
		}
		idx := strings.Index(text[pos:], t.Text)
		if idx < 0 {
			common.Machinery("token %q of corpus statement %q not found", t.Text, text)
		}
		pos += idx + len(t.Text)
		if i < len(toks)-2 {
			out = append(out, text[:pos])
		}
	}
	return out
}

// ---- main ---------------------------------------------------------------------------------

func validateRecogniser(r *common.Run) {
	path := "/repo/bql/grammar/grammar_test.go"
	acc, err := recog.ExtractStringTable(path, "TestAcceptByParse")
	if err != nil {
		common.Machinery("cannot read the accept table: %v", err)
	}
	rej, err := recog.ExtractStringTable(path, "TestRejectByParse")
	if err != nil {
		common.Machinery("cannot read the reject table: %v", err)
	}
	if len(acc) < 50 || len(rej) < 50 {
		common.Machinery("accept/reject tables suspiciously small: %d / %d", len(acc), len(rej))
	}
	for _, s := range acc {
		ks, clean := recog.LexKinds(s)
		v, err := table.Recognise(ks)
		tr := table.GreedyTrace(ks)
		if err != nil || !clean || !v.Derivable || !v.Greedy || !tr.Accepted {
			common.Machinery("MODEL-INVALID: Recogniser rejects %q from TestAcceptByParse (clean=%v %+v trace=%v %s err=%v)", s, clean, v, tr.Accepted, tr.Why, err)
		}
	}
	for _, s := range rej {
		ks, clean := recog.LexKinds(s)
		v, _ := table.Recognise(ks)
		tr := table.GreedyTrace(ks)
		if clean && (v.Derivable || tr.Accepted) {
			common.Machinery("MODEL-INVALID: Recogniser accepts %q from TestRejectByParse (%+v)", s, v)
		}
	}
	r.Set("recogniser_validated_on_accept_table", len(acc))
	r.Set("recogniser_validated_on_reject_table", len(rej))
}

func main() {
	debug.SetGCPercent(400)
	r := common.Start("C18", "model_checking")
	table = recog.FromGrammar(grammar.BQL()).Prepare()
	allKind = recog.Kinds()
	for _, k := range allKind {
		byName[k.String()] = k
	}

	r.Replayer("sequence", func(raw json.RawMessage) (bool, string) {
		var c seqCase
		json.Unmarshal(raw, &c)
		o := evalSeq(kindsFromNames(c.Tokens), c.Origin, true)
		if !o.rendered {
			return true, "the token sequence no longer renders to text"
		}
		if len(o.fails) > 0 {
			return false, o.fails[0].Detail
		}
		return true, fmt.Sprintf("%q: parser and recogniser agree (accepted=%v)", c.Text, o.accepted)
	})
	r.Replayer("pump", func(raw json.RawMessage) (bool, string) {
		var c pumpCase
		if err := json.Unmarshal(raw, &c); err != nil {
			common.Machinery("bad case: %v", err)
		}
		ok, shape, d := checkPump(c)
		if ok {
			return true, fmt.Sprintf("%s n=%d behaves as on a fresh parser / is accepted", c.Kind, c.N)
		}
		return false, shape + ": " + d
	})
	r.Replayer("history", func(raw json.RawMessage) (bool, string) {
		var c histCase
		json.Unmarshal(raw, &c)
		want := observe(newSemantic(), c.Then)
		ok, _, d := checkHistory(c, want)
		if ok {
			d = fmt.Sprintf("%q means the same after %q", c.Then, c.History)
		}
		return ok, d
	})
	r.MaybeReplay()
	stall = common.NewStallWatch(r, 2*time.Minute)

	an := table.Analyse()
	if len(an.Undefined) > 0 || len(an.LeftRecursive) > 0 {
		common.Machinery("grammar table not analysable (undefined=%v left-recursive=%v): see C17", an.Undefined, an.LeftRecursive)
	}
	for _, s := range table.Syms {
		if !an.Productive[s] {
			common.Machinery("symbol %s is not productive: viable-prefix reasoning would be unsound (see C17)", s)
		}
	}
	validateRecogniser(r)
	r.Assume("oracle = verif/recog: CFG membership by exhaustive derivation over the exported grammar table (must-reject side) and the same with greedy optionals (must-accept side); statements derivable only by skipping an optional part whose first token is next are latitude (counted, either verdict allowed)")
	r.Assume("token sequences reach the parser as text: one canonical lexeme per kind (PREDICATE_BOUND after BETWEEN uses the two-timestamp form), re-lexed by the real lexer to confirm; sequences that text cannot produce this way are counted and skipped")
	r.Assume("the Statement is compared through a canonical dump of its exported accessors; blank-node labels are taken from the text, so dumps are deterministic; two corpus statements repeat ORDER BY keys: the extracted key list must be the same on every parse")
	r.Assume("the recogniser is validated at start against the accept/reject tables extracted from bql/grammar/grammar_test.go; disagreement is a machinery error")

	fresh := map[string]obs{}
	usable := corpus[:0:0]
	for _, b := range corpus {
		o := observe(newSemantic(), b)
		if !o.V.Accepted {
			// The corpus is valid BQL (docs, grammar tests) and accepted on the tree it
			// was written against. If the PLAIN parser rejects a statement the
			// recogniser derives, that is the property failing, not the corpus.
			ks, clean := recog.LexKinds(b)
			if pv, _ := parseOn(newPlain(), b); clean && !pv.Accepted {
				if rv, _ := table.Recognise(ks); rv.Greedy {
					r.Fail(common.Failure{Check: "sequence", Class: "statement", Shape: "parser-rejects-a-derivable-statement",
						Case: seqCase{Tokens: recog.KindNames(ks), Text: b, Origin: "corpus"}, Detail: fmt.Sprintf("corpus statement %q is a grammar statement, yet the plain parser %s", b, pv)})
					continue
				}
			}
			common.Machinery("corpus statement not accepted by a fresh SemanticBQL parser (the plain parser accepts it): %q: %s", b, o.V)
		}
		usable = append(usable, b)
		// the meaning is determined by the text alone: several fresh parsers must extract the same statement
		// (eight parses: whatever an implementation leaves to map iteration order shows with probability > 0.99)
		same := true
		for k := 0; k < 8 && same; k++ {
			if o2 := observe(newSemantic(), b); o2.Dump != o.Dump {
				same = false
				r.Fail(common.Failure{Check: "history", Class: "fresh-parsers-only", Shape: "fresh-parsers-extract-different-meanings", Case: histCase{History: []string{}, Then: b},
					Detail: fmt.Sprintf("the statement %q parsed by two fresh SemanticBQL parsers yields different statements:\n%s", b, diffLines(o.Dump, o2.Dump))})
			}
		}
		fresh[b] = o
	}

	// --- part 1a: BFS over viable prefixes.
	maxLen := r.Pick(12, 14)
	if s := os.Getenv("C18_LEN"); s != "" {
		fmt.Sscanf(s, "%d", &maxLen)
	}
	var evaluated, rendered, skipped, accepted, latitude, semAcc, viableTotal, completeTotal int64
	frontier := [][]recog.Kind{{}}
	completed := 0
	perLevel := []map[string]int{}
	for l := 1; l <= maxLen && len(frontier) > 0; l++ {
		if r.OutOfTime() {
			break
		}
		next := make([][][]recog.Kind, len(frontier))
		var lv, lc, le int64
		common.ParallelFor(len(frontier), func(i int) {
			p := frontier[i]
			for _, k := range allKind {
				q := append(append(make([]recog.Kind, 0, len(p)+1), p...), k)
				atomic.AddInt64(&evaluated, 1)
				atomic.AddInt64(&le, 1)
				o := evalSeq(q, "bfs", false)
				if !o.rendered {
					atomic.AddInt64(&skipped, 1)
				} else {
					atomic.AddInt64(&rendered, 1)
					if o.accepted {
						atomic.AddInt64(&accepted, 1)
					}
					if o.latitude {
						atomic.AddInt64(&latitude, 1)
					}
					if o.semAccept {
						atomic.AddInt64(&semAcc, 1)
					}
					for _, f := range o.fails {
						r.Fail(f)
					}
				}
				v, _ := table.Recognise(q)
				if v.Derivable {
					atomic.AddInt64(&lc, 1)
				}
				if v.Viable {
					next[i] = append(next[i], q)
					atomic.AddInt64(&lv, 1)
				}
			}
		})
		var nf [][]recog.Kind
		for _, n := range next {
			nf = append(nf, n...)
		}
		frontier = nf
		completed = l
		viableTotal += lv
		completeTotal += lc
		perLevel = append(perLevel, map[string]int{"length": l, "sequences": int(le), "viable_prefixes": int(lv), "statements": int(lc)})
	}
	r.Set("bfs_length_completed", completed)
	r.Set("bfs_per_length", perLevel)
	r.Set("bfs_sequences", int(evaluated))
	r.Set("bfs_viable_prefixes", int(viableTotal))
	r.Set("bfs_statements", int(completeTotal))
	if completed < maxLen {
		r.SetCapped()
	}

	// --- part 1b: every grammar statement up to a length, and its single-token mutations.
	sentLen := r.Pick(14, 15) // statements enumerated (accept side)
	mutLen := r.Pick(12, 14)  // statements whose single-token mutations are all tried
	if s := os.Getenv("C18_SENT"); s != "" {
		fmt.Sscanf(s, "%d", &sentLen)
		mutLen = sentLen
	}
	var sentences [][]recog.Kind
	table.Sentences(sentLen, func(ks []recog.Kind) bool {
		sentences = append(sentences, append([]recog.Kind{}, ks...))
		return true
	})
	var mutEval, mutRendered, sentRendered, mutated int64
	common.ParallelFor(len(sentences), func(i int) {
		if r.OutOfTime() {
			return
		}
		s := sentences[i]
		o := evalSeq(s, "sentence", false)
		if o.rendered {
			atomic.AddInt64(&sentRendered, 1)
			if o.accepted {
				atomic.AddInt64(&accepted, 1)
			}
			if o.semAccept {
				atomic.AddInt64(&semAcc, 1)
			}
		}
		for _, f := range o.fails {
			r.Fail(f)
		}
		try := func(q []recog.Kind, origin string) {
			atomic.AddInt64(&mutEval, 1)
			o := evalSeq(q, origin, false)
			if o.rendered {
				atomic.AddInt64(&mutRendered, 1)
				if o.latitude {
					atomic.AddInt64(&latitude, 1)
				}
			}
			for _, f := range o.fails {
				r.Fail(f)
			}
		}
		if len(s) > mutLen {
			return
		}
		atomic.AddInt64(&mutated, 1)
		for pos := 0; pos <= len(s); pos++ {
			if pos < len(s) {
				// deletion
				q := append(append([]recog.Kind{}, s[:pos]...), s[pos+1:]...)
				try(q, "sentence-deletion")
			}
			for _, k := range allKind {
				// insertion before pos (pos == len(s): appended after the statement)
				q := append(append(append([]recog.Kind{}, s[:pos]...), k), s[pos:]...)
				try(q, "sentence-insertion")
				if pos < len(s) && k != s[pos] {
					q := append([]recog.Kind{}, s...)
					q[pos] = k
					try(q, "sentence-substitution")
				}
			}
		}
	})
	r.Set("sentences_max_length", sentLen)
	r.Set("sentences_mutated_max_length", mutLen)
	r.Set("sentences_mutated", int(mutated))
	r.Set("sentences", len(sentences))
	r.Set("sentences_rendered", int(sentRendered))
	r.Set("sentence_mutations", int(mutEval))
	r.Set("sentence_mutations_rendered", int(mutRendered))
	r.Set("sequences_not_expressible_as_text_skipped", int(skipped)+int(mutEval-mutRendered)+len(sentences)-int(sentRendered))
	r.Set("sequences_accepted_by_plain_parser", int(accepted))
	r.Set("sequences_accepted_by_semantic_parser", int(semAcc))
	r.Set("latitude_statements_derivable_only_by_skipping_an_optional", int(latitude))

	// --- part 2: statelessness (fresh observations of the corpus were taken at start).
	firstSet := map[string]bool{}
	var firsts []string
	addFirst := func(a string) {
		if !firstSet[a] {
			firstSet[a] = true
			firsts = append(firsts, a)
		}
	}
	kindsCovered := map[string]bool{}
	for _, b := range usable {
		ks, _ := recog.LexKinds(b)
		kindsCovered[ks[0].String()] = true
		addFirst(b)
		for _, p := range prefixes(b) {
			addFirst(p)
		}
	}
	for _, a := range extraFirst {
		addFirst(a)
	}
	if len(kindsCovered) != 8 && len(usable) == len(corpus) {
		common.Machinery("corpus covers %d statement kinds, want 8", len(kindsCovered))
	}
	if len(usable) == 0 {
		r.SetCapped()
		r.Set("rule", "part 2 not run: the parser rejects every corpus statement")
		r.Finish()
	}
	var pairs, firstRejected int64
	for _, a := range firsts {
		if v, _ := parseOn(newSemantic(), a); !v.Accepted {
			firstRejected++
		}
	}
	seconds := append(append([]string{}, usable...), rejectedSeconds...)
	for _, b := range rejectedSeconds {
		fresh[b] = observe(newSemantic(), b)
	}
	// the same pairs with a garbage collection between the two statements, on this goroutine alone: nothing refers to
	// the first statement any more, so the second one may be allocated at its address (identity of a statement is not
	// its address). Every first statement with three (thorough: twelve) of the seconds.
	var gcPairs int
	for i, a := range firsts {
		if r.OutOfTime() {
			break
		}
		n := 3
		if r.Thorough() {
			n = 12
		}
		if n > len(seconds) {
			n = len(seconds)
		}
		for k := 0; k < n; k++ {
			b := seconds[(i+k*7)%len(seconds)]
			gcPairs++
			c := histCase{History: []string{a}, Then: b, GC: true}
			if ok, shape, d := checkHistory(c, fresh[b]); !ok {
				r.Fail(common.Failure{Check: "history", Class: histClass(a, b), Shape: shape, Case: c, Detail: d})
			}
		}
	}
	r.Set("stateless_pairs_with_a_collection_in_between", gcPairs)
	r.Set("stateless_pairs_second_statement_allocated_at_the_address_of_the_first", int(atomic.LoadInt64(&addressesReused)))
	common.ParallelFor(len(firsts), func(i int) {
		a := firsts[i]
		for _, b := range seconds {
			if r.OutOfTime() {
				return
			}
			atomic.AddInt64(&pairs, 1)
			c := histCase{History: []string{a}, Then: b}
			if ok, shape, d := checkHistory(c, fresh[b]); !ok {
				r.Fail(common.Failure{Check: "history", Class: histClass(a, b), Shape: shape, Case: c, Detail: d})
			}
		}
	})
	r.Set("stateless_first_statements", len(firsts))
	r.Set("stateless_first_statements_rejected", int(firstRejected))
	r.Set("stateless_second_statements", len(seconds))
	nrej := 0
	for _, b := range rejectedSeconds {
		if !fresh[b].V.Accepted {
			nrej++
		}
	}
	r.Set("stateless_second_statements_rejected_on_a_fresh_parser", nrej)
	r.Set("stateless_pairs", int(pairs))
	triples := 0
	if r.Thorough() {
		// A;B;C over a sub-corpus: one statement per kind plus the shortest cut prefixes
		var sub []string
		seen := map[string]bool{}
		for _, a := range firsts {
			c := histClass(a, usable[6%len(usable)]) + "|" + histClass(a, usable[10%len(usable)]) + "|" + histClass(a, usable[34%len(usable)])
			if len(sub) < 40 && !seen[c] {
				seen[c] = true
				sub = append(sub, a)
			}
		}
		sort.Strings(sub)
		var cs []string
		seenB := map[string]bool{}
		for _, b := range usable {
			bk, _ := recog.LexKinds(b)
			if c := bk[0].String(); !seenB[c] {
				seenB[c] = true
				cs = append(cs, b)
			}
		}
		type tr struct{ a, b, c string }
		var trs []tr
		for _, a := range sub {
			for _, b := range sub {
				for _, c := range cs {
					trs = append(trs, tr{a, b, c})
				}
			}
		}
		common.ParallelFor(len(trs), func(i int) {
			t := trs[i]
			c := histCase{History: []string{t.a, t.b}, Then: t.c}
			if ok, shape, d := checkHistory(c, fresh[t.c]); !ok {
				r.Fail(common.Failure{Check: "history", Class: histClassMulti([]string{t.a, t.b}, t.c), Shape: shape, Case: c, Detail: d})
			}
		})
		triples = len(trs)
	}
	r.Set("stateless_triples", triples)
	pumps := pumpPass(r)
	// text the lexer cannot scan (it ends the token stream with an ERROR token, which no rule derives), after every
	// corpus statement and inside it at every token boundary: both parsers must reject the whole input
	junk := []string{"foo", "/u<joe", "\"x\"", "_:", "\"abc", "@", "?", "#"}
	type jcase struct{ text, where string }
	var jcases []jcase
	for _, b := range usable {
		for _, j := range junk {
			jcases = append(jcases, jcase{b + " " + j, "after-the-statement"})
			for _, p := range prefixes(b) {
				if p != "" {
					jcases = append(jcases, jcase{p + " " + j + " " + b[len(p):], "inside-the-statement"})
				}
			}
		}
	}
	var junkAccepted int64
	common.ParallelFor(len(jcases), func(i int) {
		c := jcases[i]
		ks, clean := recog.LexKinds(c.text)
		if clean {
			return // the inserted text happened to lex (e.g. it merged with a neighbour): not a case of this pass
		}
		for _, mk := range []struct {
			name string
			p    *grammar.Parser
		}{{"BQL", newPlain()}, {"SemanticBQL", newSemantic()}} {
			if v, _ := parseOn(mk.p, c.text); v.Accepted || v.Panic != "" {
				atomic.AddInt64(&junkAccepted, 1)
				shape := "parser-accepts-text-the-lexer-cannot-scan"
				if v.Panic != "" {
					shape = "panic-on-text-the-lexer-cannot-scan"
				}
				r.Fail(common.Failure{Check: "sequence", Class: "unscannable-text-" + c.where, Shape: shape,
					Case: seqCase{Tokens: recog.KindNames(ks), Text: c.text, Origin: "junk"}, Detail: fmt.Sprintf("the %s parser on %q: %s; the lexer ends this input with an ERROR token, so it is not a statement", mk.name, c.text, v)})
			}
		}
	})
	r.Set("unscannable_text_cases", len(jcases))
	pumps += len(jcases)

	r.Set("states", int(viableTotal)+1)
	r.Set("transitions", int(evaluated))
	r.Set("traces_validated_against_impl", int(rendered)+int(mutRendered)+int(sentRendered)+int(pairs)+triples+pumps)
	r.Set("evaluations", int(evaluated)+int(mutEval)+len(sentences)+int(pairs)+triples+pumps)
	nStmt := 0
	stmtSeen.Range(func(_, _ interface{}) bool { nStmt++; return true })
	r.Set("distinct_nontrivial", nStmt)
	r.Set("rule", fmt.Sprintf("BFS: every viable token prefix of length < %d extended by each of the %d token kinds; statements: every derivable statement of at most %d tokens, and for those of at most %d tokens every single-token deletion, insertion and substitution; statelessness: every token prefix of every corpus statement, every corpus statement and %d semantically rejected statements, each followed by each of %d corpus statements on one SemanticBQL parser; pumping: every list production with 2^k elements and 2^k rejected statements before an accepted one; distinct_nontrivial = distinct token sequences evaluated that are grammar statements (accept side)", completed+1, len(allKind), sentLen, mutLen, len(extraFirst), len(usable)))
	r.Sample(seqCase{Tokens: recog.KindNames(sentences[len(sentences)/2]), Text: func() string { s, _ := recog.Render(sentences[len(sentences)/2]); return s }(), Origin: "sentence"})
	r.Sample(histCase{History: []string{firsts[len(firsts)/3]}, Then: usable[6%len(usable)]})
	r.Sample(histCase{History: []string{extraFirst[0]}, Then: usable[5%len(usable)]})
	r.Finish()
}
