package main

import (
	"bufio"
	"encoding/json"
	"fmt"
	"os"
	"os/exec"
	"sync"

	"verif/explore"
)

// A pool of worker processes that each explore a stream of jobs (executions
// are strictly sequential inside a process: the runtime is a process-wide
// singleton). Same division of labour as explore.RunJobs, but a worker serves
// many plans: the corpus has hundreds of small explorations and a process per
// exploration costs more than the exploration itself.

const poolEnv = "C20_POOL_WORKER"

// servePool turns the process into a pool worker: one Job per input line, one Result per output line.
func servePool() {
	if os.Getenv(poolEnv) == "" {
		return
	}
	in := bufio.NewReaderSize(os.Stdin, 1<<20)
	out := bufio.NewWriter(os.Stdout)
	for {
		line, err := in.ReadBytes('\n')
		if len(line) > 1 {
			var j explore.Job
			if e := json.Unmarshal(line, &j); e != nil {
				fmt.Fprintf(os.Stderr, "c20 worker: bad job: %v\n", e)
				os.Exit(2)
			}
			mk := factory(j.Scenario)
			if mk == nil {
				fmt.Fprintf(os.Stderr, "c20 worker: unknown scenario %q\n", j.Scenario)
				os.Exit(2)
			}
			res := explore.Explore(j.Scenario, j.Opt, mk)
			b, _ := json.Marshal(res)
			out.Write(b)
			out.WriteByte('\n')
			out.Flush()
		}
		if err != nil {
			break
		}
	}
	os.Exit(0)
}

// runJobs explores every job on a pool of par worker processes and returns the results in job order.
func runJobs(jobs []explore.Job, par int) ([]*explore.Result, error) {
	exe, err := os.Executable()
	if err != nil {
		return nil, err
	}
	if par > len(jobs) {
		par = len(jobs)
	}
	res := make([]*explore.Result, len(jobs))
	next := make(chan int, len(jobs))
	for i := range jobs {
		next <- i
	}
	close(next)
	var wg sync.WaitGroup
	var mu sync.Mutex
	var firstErr error
	fail := func(e error) {
		mu.Lock()
		if firstErr == nil {
			firstErr = e
		}
		mu.Unlock()
	}
	for w := 0; w < par; w++ {
		wg.Add(1)
		go func() {
			defer wg.Done()
			cmd := exec.Command(exe)
			cmd.Env = append(os.Environ(), poolEnv+"=1", "GOMAXPROCS=2")
			stdin, _ := cmd.StdinPipe()
			stdout, _ := cmd.StdoutPipe()
			cmd.Stderr = os.Stderr
			if err := cmd.Start(); err != nil {
				fail(err)
				return
			}
			rd := bufio.NewReaderSize(stdout, 1<<20)
			for i := range next {
				b, _ := json.Marshal(jobs[i])
				if _, err := stdin.Write(append(b, '\n')); err != nil {
					fail(fmt.Errorf("worker for %s: %v", jobs[i].Scenario, err))
					break
				}
				line, err := rd.ReadBytes('\n')
				if err != nil {
					fail(fmt.Errorf("worker for %s died: %v", jobs[i].Scenario, err))
					break
				}
				var r explore.Result
				if err := json.Unmarshal(line, &r); err != nil {
					fail(fmt.Errorf("worker for %s: unreadable result: %v", jobs[i].Scenario, err))
					break
				}
				res[i] = &r
			}
			stdin.Close()
			cmd.Wait()
		}()
	}
	wg.Wait()
	return res, firstErr
}
