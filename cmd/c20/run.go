package main

import (
	"encoding/json"
	"fmt"
	"os"
	"path/filepath"
	"sort"
	"strings"
	"time"

	"github.com/google/badwolf/storage"
	"github.com/google/badwolf/triple"

	"verif/common"
	"verif/explore"
	"verif/vrt"
)

func nameOf(sc *stmt, faults []fault) string {
	b, _ := json.Marshal(scenarioName{Stmt: sc.ID, Faults: faults})
	return string(b)
}

func factory(name string) func() explore.Exec {
	var sn scenarioName
	if json.Unmarshal([]byte(name), &sn) != nil {
		return nil
	}
	sc := findStmt(sn.Stmt)
	if sc == nil {
		return nil
	}
	return mkExec(sc, sn.Faults, nil)
}

// faultCase is the replayable case of a failure.
type faultCase struct {
	Stmt     stmt    `json:"statement"`
	Faults   []fault `json:"faults"`
	Bound    int     `json:"deviation_bound"`
	Choices  []int   `json:"choices"`
	Schedule string  `json:"schedule"`
	Trace    string  `json:"trace,omitempty"`
}

// baseline runs the statement without faults on the default schedule and lists its driver calls.
func baseline(sc *stmt) (*hx, *vrt.Outcome) {
	var h *hx
	ex := mkExec(sc, nil, &h)()
	out := vrt.Run(sc.cfg(), vrt.DefaultChooser{}, ex.Body)
	return h, out
}

// modesOf lists the failure modes of one driver call of the fault-free run.
func modesOf(c callRec) []string {
	switch c.Kind {
	case "read", "graphnames":
		ms := []string{"before"}
		for j := 1; j <= c.N; j++ {
			ms = append(ms, fmt.Sprintf("after:%d", j))
		}
		return ms
	}
	return []string{"error"}
}

type plan struct {
	sc     *stmt
	faults []fault
}

type stmtReport struct {
	ID           string         `json:"id"`
	Text         string         `json:"text"`
	Class        string         `json:"class"`
	ChanSize     int            `json:"chan_size"`
	BulkSize     int            `json:"bulk_size"`
	DriverCalls  []callRec      `json:"driver_calls_fault_free"`
	BaselineRet  string         `json:"fault_free_outcome"`
	Steps        int            `json:"fault_free_steps"`
	Ticks        int            `json:"fault_free_ticks"`
	Threads      int            `json:"fault_free_threads"`
	FaultPoints  int            `json:"fault_points"`
	FaultPairs   int            `json:"fault_pairs"`
	Executions   map[string]int `json:"executions_by_phase"`
	Complete     map[string]int `json:"plans_completed_by_phase"`
	Outcomes     map[string]int `json:"outcomes"`
	NotReached   int            `json:"executions_where_no_planned_fault_was_reached"`
	FailedShapes []string       `json:"failures,omitempty"`
}

func main() {
	explore.ServeWorker(factory)
	servePool()
	r := common.Start("C20", "fault_enumeration")
	r.Replayer("fault", func(raw json.RawMessage) (bool, string) {
		var c faultCase
		if err := json.Unmarshal(raw, &c); err != nil {
			return false, err.Error()
		}
		sc := findStmt(c.Stmt.ID)
		if sc == nil || sc.Text != c.Stmt.Text {
			sc = &c.Stmt // a statement that is no longer in the corpus replays from its recorded text
		}
		cfg := sc.cfg()
		var h *hx
		out, vs, oc, bad := explore.Replay(cfg, mkExec(sc, c.Faults, &h), c.Choices)
		if bad != "" {
			common.Machinery("NONDETERMINISM replay does not fit the program: %s", bad)
		}
		var msgs []string
		for _, v := range vs {
			if !v.Info {
				msgs = append(msgs, v.Shape+": "+v.Detail)
			}
		}
		if len(msgs) > 0 {
			return false, fmt.Sprintf("%s\nschedule %v\n%s\ntrace: %s", h.describe(c.Faults), c.Choices, strings.Join(msgs, "\n"), clipS(vrt.FormatTrace(out.Trace), 1200))
		}
		return true, fmt.Sprintf("%s\nschedule %v: %s", h.describe(c.Faults), c.Choices, oc)
	})
	r.MaybeReplay()
	if !instrumented() {
		common.Machinery("cmd/c20 was built without the vsched overlay (use ./vcheck C20 or cmd/c20/build.sh)")
	}
	r.Assume("the statement is parsed natively (first half of run.BQL, no driver involved) before the controlled execution starts; planner.New and Execute run under the scheduler")
	r.Assume("the faulty driver answers from a snapshot of the wrapped memory graph (the wrapped call completes into a private buffer, then the elements are streamed): a legal driver; the memory store's own streaming under its read lock is C07's subject")
	r.Assume("scheduling points at synchronisation operations (mutex, rwmutex, waitgroup, channel, select, go) suffice; RWMutex / channel / WaitGroup semantics are the runtime's transcription of Go's (self-tests: go test ./explore)")
	r.Assume("a thread still parked when nothing can run any more after Execute returned is a leak; threads that finish on their own after the return are not")
	r.Assume("driver calls are named (method, arguments incl. lookup options, occurrence#); blank-node ids in written batches are replaced by their order of appearance and a batch is named as a set")

	// ---- fault-free runs: the driver calls of every statement -------------------------------------
	var reports []*stmtReport
	repOf := map[string]*stmtReport{}
	var singles, pairs []plan
	totalCalls := 0
	callKinds := map[string]int{}
	methods := map[string]int{}
	for i := range corpus {
		sc := &corpus[i]
		h1, o1 := baseline(sc)
		h2, o2 := baseline(sc)
		if h1.planErr != nil {
			common.Machinery("corpus statement %s does not parse/plan: %v", sc.ID, h1.planErr)
		}
		if fmt.Sprint(h1.calls) != fmt.Sprint(h2.calls) || o1.Steps != o2.Steps {
			common.Machinery("NONDETERMINISM fault-free run of %s differs between two runs:\n%v\n%v", sc.ID, h1.calls, h2.calls)
		}
		okStatus := o1.Status == vrt.StOK || (sc.BaselineErr && o1.Status == vrt.StLeak)
		if !okStatus || !h1.returned || (h1.err != nil) != sc.BaselineErr {
			common.Machinery("corpus statement %s does not behave as declared without faults: status %s %s returned=%v err=%v", sc.ID, o1.Status, o1.Detail, h1.returned, h1.err)
		}
		rows := -1
		if h1.tbl != nil {
			rows = h1.tbl.NumRows()
		}
		sr := &stmtReport{ID: sc.ID, Text: sc.Text, Class: sc.class(), ChanSize: sc.Chan, BulkSize: sc.Bulk, DriverCalls: h1.calls,
			BaselineRet: fmt.Sprintf("status=%s err=%v rows=%d", o1.Status, h1.err, rows), Steps: o1.Steps, Ticks: o1.Ticks, Threads: o1.Threads,
			Executions: map[string]int{}, Complete: map[string]int{}, Outcomes: map[string]int{}}
		reports = append(reports, sr)
		repOf[sc.ID] = sr
		var fs []fault
		for _, c := range h1.calls {
			totalCalls++
			callKinds[c.Kind]++
			methods[c.Name[:strings.Index(c.Name, "(")]]++
			for _, m := range modesOf(c) {
				fs = append(fs, fault{Call: c.Name, Mode: m})
			}
		}
		sr.FaultPoints = len(fs)
		for _, f := range fs {
			singles = append(singles, plan{sc, []fault{f}})
		}
		for a := 0; a < len(fs); a++ {
			for b := a + 1; b < len(fs); b++ {
				if fs[a].Call == fs[b].Call {
					continue
				}
				pairs = append(pairs, plan{sc, []fault{fs[a], fs[b]}})
				sr.FaultPairs++
			}
		}
	}
	if os.Getenv("C20_LIST") != "" {
		for _, sr := range reports {
			fmt.Printf("%s  %s\n   %s steps=%d ticks=%d threads=%d fault-points=%d pairs=%d\n", sr.ID, sr.Text, sr.BaselineRet, sr.Steps, sr.Ticks, sr.Threads, sr.FaultPoints, sr.FaultPairs)
			for _, c := range sr.DriverCalls {
				fmt.Printf("     %-12s n=%-2d %s\n", c.Kind, c.N, c.Name)
			}
		}
	}

	// ---- exploration ----------------------------------------------------------------------------
	budget := time.Duration(r.Pick(90, 780)) * time.Second
	start := time.Now()
	deadline := start.Add(budget).UnixMilli()
	totalExec, totalSteps, totalHB, judged, notReached, faultFree := 0, int64(0), 0, 0, 0, 0
	outcomes := map[string]int{}
	type phaseRep struct {
		Phase      string `json:"phase"`
		Plans      int    `json:"plans"`
		Completed  int    `json:"plans_completed"`
		Executions int    `json:"executions"`
		WallMs     int64  `json:"wall_ms"`
	}
	var phases []phaseRep
	allComplete := true

	runPhase := func(phase string, plans []plan, bound int, onlyLevel bool, shards int) {
		if len(plans) == 0 {
			return
		}
		t0 := time.Now()
		var jobs []explore.Job
		owner := []int{}
		for pi, p := range plans {
			n := shards
			if bound == 0 || n < 1 {
				n = 1
			}
			for s := 0; s < n; s++ {
				jobs = append(jobs, explore.Job{Scenario: nameOf(p.sc, p.faults), Opt: explore.Options{Mode: explore.Bounded, Bound: bound, OnlyLevel: onlyLevel,
					Shard: s, Shards: n, DeadlineMs: deadline, Cfg: p.sc.cfg(), Confirm: 2}})
				owner = append(owner, pi)
			}
		}
		res, err := runJobs(jobs, 16)
		if err != nil {
			common.Machinery("worker failed: %v", err)
		}
		byPlan := make([][]*explore.Result, len(plans))
		for i, rs := range res {
			byPlan[owner[i]] = append(byPlan[owner[i]], rs)
		}
		pr := phaseRep{Phase: phase, Plans: len(plans)}
		for pi, p := range plans {
			m := explore.Merge(byPlan[pi])
			if m.Nondet != "" {
				common.Machinery("NONDETERMINISM %s %v: %s", p.sc.ID, p.faults, m.Nondet)
			}
			sr := repOf[p.sc.ID]
			sr.Executions[phase] += m.Executions
			pr.Executions += m.Executions
			if m.Complete {
				sr.Complete[phase]++
				pr.Completed++
			} else {
				allComplete = false
			}
			totalExec += m.Executions
			totalSteps += m.TotalSteps
			totalHB += m.DistinctHB
			for oc, n := range m.Outcomes {
				outcomes[oc] += n
				sr.Outcomes[oc] += n
				switch {
				case strings.HasPrefix(oc, "fired=0/0 "):
					faultFree += n
				case strings.HasPrefix(oc, "fired=0/"):
					notReached += n
					sr.NotReached += n
				default:
					judged += n
				}
			}
			if bound == 0 && len(p.faults) == 1 && m.Complete {
				for oc := range m.Outcomes {
					if strings.HasPrefix(oc, "fired=0/") {
						common.Machinery("the planned fault %v of %s was not reached on the default schedule (%s): the call names are not stable", p.faults, p.sc.ID, oc)
					}
				}
			}
			for _, f := range m.Failures {
				sr.FailedShapes = append(sr.FailedShapes, fmt.Sprintf("%s|%s x%d", f.Class, f.Shape, f.Count))
				sched := "default schedule"
				if len(f.Choices) > 0 {
					sched = fmt.Sprintf("choices %v (%d deviation(s))", f.Choices, countDev(f.Choices))
				}
				for i := 0; i < f.Count; i++ {
					r.Fail(common.Failure{Check: "fault", Class: f.Class, Shape: f.Shape,
						Case:   faultCase{Stmt: *p.sc, Faults: p.faults, Bound: bound, Choices: f.Choices, Schedule: sched, Trace: clipS(f.Trace, 1500)},
						Detail: fmt.Sprintf("[%s, %s]\n%s\n%s", phase, sched, f.Detail, blockedText(&f.Outcome))})
				}
			}
			for _, f := range m.Infos {
				sr.FailedShapes = append(sr.FailedShapes, fmt.Sprintf("info %s|%s x%d", f.Class, f.Shape, f.Count))
			}
		}
		pr.WallMs = time.Since(t0).Milliseconds()
		phases = append(phases, pr)
		fmt.Printf("  phase %-26s plans=%-5d completed=%-5d executions=%-8d wall=%.1fs\n", phase, pr.Plans, pr.Completed, pr.Executions, float64(pr.WallMs)/1000)
	}

	var nofault []plan
	for i := range corpus {
		nofault = append(nofault, plan{&corpus[i], nil})
	}
	// every single fault on the default schedule, then with one scheduling deviation
	runPhase("single-fault/bound0", singles, 0, false, 1)
	runPhase("no-fault/bound<=1", nofault, 1, false, 1)
	runPhase("single-fault/bound1", singles, 1, true, 1)
	// every pair of faults (on different calls) on the default schedule
	runPhase("fault-pair/bound0", pairs, 0, false, 1)
	if r.Thorough() {
		runPhase("fault-pair/bound1", pairs, 1, true, 1)
		// cheapest statements first: what the budget cuts off is the tail of the most expensive plans
		byCost := append([]plan(nil), singles...)
		sort.SliceStable(byCost, func(i, j int) bool { return repOf[byCost[i].sc.ID].Steps < repOf[byCost[j].sc.ID].Steps })
		runPhase("single-fault/bound2", byCost, 2, true, 8)
	}
	if !allComplete {
		r.SetCapped()
	}

	// ---- evidence ----------------------------------------------------------------------------------
	sort.Slice(reports, func(i, j int) bool { return reports[i].ID < reports[j].ID })
	r.Set("statements", len(corpus))
	r.Set("driver_calls", totalCalls)
	r.Set("driver_calls_by_kind", callKinds)
	r.Set("driver_calls_by_method", methods)
	r.Set("fault_points", len(singles))
	r.Set("fault_pairs", len(pairs))
	r.Set("schedules", totalExec)
	r.Set("evaluations", judged)
	// distinct non-trivial cases: the distinct fault plans (statement, failing call(s), mode) explored, each reaching its fault
	r.Set("distinct_nontrivial", len(singles)+len(pairs))
	r.Set("executions_where_no_planned_fault_was_reached", notReached)
	r.Set("fault_free_executions", faultFree)
	r.Set("transitions", int(totalSteps))
	r.Set("states", totalHB)
	r.Set("traces_validated_against_impl", totalExec)
	r.Set("distinct_outcomes", len(outcomes))
	r.Set("outcomes", outcomes)
	r.Set("phases", phases)
	r.Set("per_statement", reports)
	r.Set("rule", "per statement of the corpus: a fault-free run lists the driver calls (method, arguments, occurrence#) and result sizes; plans = every call x every mode (streamed reads / GraphNames: before any element, after j elements for j = 1..n; every other call: error); quick: every plan on the default schedule and on every schedule with exactly one deviation, every pair of faults on different calls on the default schedule, the fault-free statement with <= 1 deviation; thorough adds: every plan with two deviations, every pair with one deviation, fault-free with two deviations (as far as the budget allows: see phases); states = distinct happens-before partial orders summed over plans; evaluations = executions in which at least one planned fault fired (the oracle's antecedent)")
	if b, err := os.ReadFile(filepath.Join(common.Root(), "work/instr/c20/inventory.json")); err == nil {
		var inv map[string]interface{}
		if json.Unmarshal(b, &inv) == nil {
			r.Set("instrumentation_inventory", inv)
		}
	}
	for _, id := range []string{"Q16", "C03", "G01"} {
		if sr := repOf[id]; sr != nil {
			r.Sample(map[string]interface{}{"statement": sr.Text, "driver_calls_fault_free": sr.DriverCalls, "fault_points": sr.FaultPoints})
		}
	}
	r.Finish()
}

func countDev(ch []int) int {
	n := 0
	for _, c := range ch {
		if c != 0 {
			n++
		}
	}
	return n
}

func blockedText(o *vrt.Outcome) string {
	var b strings.Builder
	for _, t := range o.Blocked {
		fmt.Fprintf(&b, "  thread %d %q parked in %s at %s\n", t.Tid, t.Name, t.Pending, t.Site)
	}
	return b.String()
}

func clipS(s string, n int) string {
	if len(s) > n {
		return s[:n] + "…"
	}
	return s
}

// instrumented reports whether storage/memory was compiled from the rewritten
// sources: under the scheduler a lookup must produce scheduling events.
func instrumented() bool {
	n := 0
	out := vrt.Run(vrt.Config{}, vrt.DefaultChooser{}, func() {
		st := freshStore()
		g, _ := st.Graph(ctx, "?h")
		ch := vrt.MakeChan[*triple.Triple](4)
		g.Triples(ctx, storage.DefaultLookup, ch)
		for range vrt.Range(ch) {
			n++
		}
	})
	return out.Status == vrt.StOK && n == 2 && out.Steps >= 4
}
