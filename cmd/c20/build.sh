#!/bin/bash
# cmd/c20/build.sh <output-binary>
# Instruments the CURRENT /repo working tree (or $VSCHED_REPO: a scratch worktree with a
# candidate fix or a deliberate property-breaking change) and builds the C20 harness
# against the rewritten copies through an overlay.
set -e
out="$1"
here="$(cd "$(dirname "$0")/../.." && pwd)"
cd "$here"
. ./env.sh
case "$out" in /*) ;; *) out="$here/$out" ;; esac
idir="${VSCHED_INSTR_DIR:-work/instr/c20}"
mkdir -p work/bin work/instr
go build -o work/bin/instr-c20 ./instr
work/bin/instr-c20 -q -out "$idir" -repo "${VSCHED_REPO:-/repo}" -overlay-root /repo \
  -pkgs ./storage/...,./bql/...,./triple/...,./io/... \
  -exclude github.com/google/badwolf/triple/node,github.com/google/badwolf/bql/planner/tracer
go build -overlay "$idir/overlay.json" -o "$out" ./cmd/c20
