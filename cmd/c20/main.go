// C20 — storage driver failures surface as errors: never success, hang or leak.
//
// Fault enumeration on the vsched engine. The real (AST-instrumented) planner,
// table, semantic and memory-store code runs under the cooperative scheduler;
// the store handed to the planner is a fault-injecting storage.Store /
// storage.Graph wrapper (this file) around a fresh, populated memory store. The
// wrapper honours the driver contract (it closes the result channel before it
// returns) and consults an explicit fault plan at every driver call: a call is
// named (method, arguments, occurrence#) — a name that does not depend on the
// schedule — and the plan maps names to failure modes.
//
// For every statement of the corpus a fault-free run lists its driver calls
// and the size of every streamed result; from the list the single-fault plans
// (every call x every mode) and the fault pairs are generated and each plan is
// explored with deviation-bounded scheduling (cmd/c20/run.go).
package main

import (
	"context"
	"crypto/sha1"
	"encoding/hex"
	"errors"
	"fmt"
	"regexp"
	"sort"
	"strconv"
	"strings"

	"github.com/google/badwolf/bql/grammar"
	"github.com/google/badwolf/bql/planner"
	"github.com/google/badwolf/bql/semantic"
	"github.com/google/badwolf/bql/table"
	"github.com/google/badwolf/storage"
	"github.com/google/badwolf/storage/memoization"
	"github.com/google/badwolf/storage/memory"
	"github.com/google/badwolf/triple"
	"github.com/google/badwolf/triple/literal"
	"github.com/google/badwolf/triple/node"
	"github.com/google/badwolf/triple/predicate"

	"verif/explore"
	"verif/vrt"
)

var ctx = context.Background()

// ---- the populated store ---------------------------------------------------------------------

const (
	dataG = `/u<joe> "parent_of"@[] /u<mary>
/u<joe> "parent_of"@[] /u<peter>
/u<mary> "parent_of"@[] /u<amy>
/u<peter> "parent_of"@[] /u<eve>
/u<amy> "parent_of"@[] /u<zoe>
/u<mary> "height"@[] "151"^^type:int64
/u<peter> "height"@[] "174"^^type:int64
/u<joe> "bought"@[2016-01-01T00:00:00-08:00] /c<mini>
/u<joe> "bought"@[2016-02-01T00:00:00-08:00] /c<tesla>
/u<bob> "likes"@[] /u<amy>
/u<ann> "parent_of"@[] /u<mary>
/u<ann> "parent_of"@[] /u<peter>
/u<bob> "weight"@[] "80"^^type:int64`
	dataH = `/u<amy> "parent_of"@[] /u<zoe>
/u<zoe> "height"@[] "99"^^type:int64`
	dataDest = `/u<x> "knows"@[] /u<y>`
)

var storeContent = map[string][]*triple.Triple{}
var graphOrder = []string{"?g", "?h", "?dest"}

func init() {
	for name, text := range map[string]string{"?g": dataG, "?h": dataH, "?dest": dataDest} {
		for _, line := range strings.Split(text, "\n") {
			t, err := triple.Parse(strings.TrimSpace(line), literal.DefaultBuilder())
			if err != nil {
				panic(fmt.Sprintf("corpus data %q: %v", line, err))
			}
			storeContent[name] = append(storeContent[name], t)
		}
	}
}

// freshStore builds the populated memory store (under the scheduler: plain
// uncontended operations of the root thread, no branching).
func freshStore() storage.Store {
	ms := memory.NewStore()
	for _, name := range graphOrder {
		g, err := ms.NewGraph(ctx, name)
		if err != nil {
			panic(err)
		}
		if err := g.AddTriples(ctx, storeContent[name]); err != nil {
			panic(err)
		}
	}
	return ms
}

// ---- the corpus ------------------------------------------------------------------------------

type stmt struct {
	ID   string `json:"id"`
	Kind string `json:"kind"` // select insert delete construct deconstruct show create drop
	Text string `json:"text"`
	Chan int    `json:"chan_size"`
	Bulk int    `json:"bulk_size"`
	// Procs is what runtime.GOMAXPROCS(0) answers inside the planner (weight of the
	// semaphore in front of the per-row lookups); 0 = 2.
	Procs int `json:"procs,omitempty"`
	// Memo: the faulty store is additionally wrapped by storage/memoization (an
	// anchor of the property): planner -> memoizer -> faulty driver -> memory.
	Memo bool `json:"memoized,omitempty"`
	// Tag refines the input class (e.g. "template-error").
	Tag string `json:"tag,omitempty"`
	// BaselineErr: the statement fails without any fault (a CONSTRUCT template
	// that cannot be built from the second row on); only its leak/hang/return
	// behaviour under faults is judged.
	BaselineErr bool `json:"baseline_error,omitempty"`
}

func (s *stmt) class() string {
	c := s.Kind + "-statement"
	if s.Tag != "" {
		c += "(" + s.Tag + ")"
	}
	if s.Memo {
		c += "(memoized)"
	}
	return c
}

var corpus = []stmt{
	// SELECT, one clause: every driver-call kind of simpleFetch / simpleExist
	{ID: "Q01", Kind: "select", Text: `select ?o from ?g where {/u<joe> "parent_of"@[] ?o};`},                                // SP  Objects
	{ID: "Q02", Kind: "select", Text: `select ?s from ?g where {?s "parent_of"@[] /u<zoe>};`},                                // PO  Subjects
	{ID: "Q03", Kind: "select", Text: `select ?p from ?g where {/u<joe> ?p /u<mary>};`},                                      // SO  PredicatesForSubjectAndObject
	{ID: "Q04", Kind: "select", Text: `select ?p, ?o from ?g where {/u<mary> ?p ?o};`},                                       // S   TriplesForSubject
	{ID: "Q05", Kind: "select", Text: `select ?s, ?o from ?g where {?s "height"@[] ?o};`},                                    // P   TriplesForPredicate
	{ID: "Q06", Kind: "select", Text: `select ?s, ?p from ?g where {?s ?p /u<zoe>};`},                                        // O   TriplesForObject
	{ID: "Q07", Kind: "select", Text: `select ?s, ?p, ?o from ?h where {?s ?p ?o};`},                                         // ?s ?p ?o  Triples
	{ID: "Q08", Kind: "select", Text: `select ?s, ?p, ?o from ?g where {?s ?p ?o} limit "2"^^type:int64;`},                   // Triples with the LIMIT handed to the driver
	{ID: "Q09", Kind: "select", Text: `select ?x from ?g where {/u<joe> as ?x "parent_of"@[] /u<mary>};`},                    // fully specified: Exist
	{ID: "Q10", Kind: "select", Text: `select ?o, ?t from ?g where {/u<joe> "bought"@[?t] ?o};`},                             // anchor binding: TriplesForSubject + filtering
	{ID: "Q11", Kind: "select", Text: `select ?s, ?o from ?g, ?h where {?s "height"@[] ?o};`, Chan: 1},                       // two input graphs, buffered result channel
	{ID: "Q12", Kind: "select", Text: `select ?o from ?g where {/u<joe> "parent_of"@[] ?o} limit "1"^^type:int64;`, Chan: 2}, // LIMIT applied by the planner
	{ID: "Q13", Kind: "select", Text: `select ?s, ?o from ?g where {?s "parent_of"@[] ?o} order by ?o desc;`},                // ORDER BY
	{ID: "Q14", Kind: "select", Text: `select ?s, count(?o) as ?n from ?g where {?s "parent_of"@[] ?o} group by ?s;`},        // GROUP BY
	{ID: "Q15", Kind: "select", Text: `select ?s, ?o from ?g where {?s "height"@[] ?o} having ?o > "160"^^type:int64;`},      // HAVING
	// SELECT, two and three clauses: specifyClauseWithTable (errgroup + semaphore), joins
	{ID: "Q16", Kind: "select", Text: `select ?o, ?c from ?g where {/u<joe> "parent_of"@[] ?o . ?o "parent_of"@[] ?c};`},
	{ID: "Q17", Kind: "select", Text: `select ?o, ?c, ?z from ?g where {/u<joe> "parent_of"@[] ?o . ?o "parent_of"@[] ?c . ?c "parent_of"@[] ?z};`},
	{ID: "Q18", Kind: "select", Text: `select ?s, ?p, ?o from ?g where {?s "height"@[] ?n . ?s ?p ?o};`},
	{ID: "Q19", Kind: "select", Text: `select ?o, ?n from ?g where {/u<joe> "parent_of"@[] ?o . ?x "height"@[] ?n};`},                 // disjoint bindings: dot product
	{ID: "Q20", Kind: "select", Text: `select ?o from ?g where {/u<joe> "parent_of"@[] ?o . /u<mary> "parent_of"@[] /u<amy>};`},       // Exist as a later clause
	{ID: "Q21", Kind: "select", Text: `select ?o, ?n from ?g where {/u<joe> "parent_of"@[] ?o . optional {?o "height"@[] ?n}};`},      // OPTIONAL sharing a binding
	{ID: "Q22", Kind: "select", Text: `select ?o, ?n from ?g where {/u<joe> "parent_of"@[] ?o . optional {/u<zoe> "height"@[] ?n}};`}, // OPTIONAL, disjoint
	{ID: "Q23", Kind: "select", Text: `select ?o, count(?c) as ?n from ?g where {/u<joe> "parent_of"@[] ?o . ?o "parent_of"@[] ?c} group by ?o order by ?o having ?n > "0"^^type:int64 limit "5"^^type:int64;`},
	// the same two-clause query through the memoization layer (miss path, context cancellation by the errgroup)
	{ID: "Q24", Kind: "select", Text: `select ?s, ?p, ?o from ?g where {?s "height"@[] ?n . ?s ?p ?o};`, Memo: true},
	{ID: "Q25", Kind: "select", Text: `select ?o, ?c from ?g where {/u<joe> "parent_of"@[] ?o . ?o "parent_of"@[] ?c};`, Memo: true, Chan: 1},
	// every other per-row lookup kind through the memoization layer (each lookup method of the
	// layer has its own copy of the cancellation / drain code): PO Subjects, SO
	// PredicatesForSubjectAndObject, O TriplesForObject, P+anchor binding TriplesForSubject
	{ID: "Q28", Kind: "select", Text: `select ?o, ?u from ?g where {/u<joe> "parent_of"@[] ?o . ?u "parent_of"@[] ?o};`, Memo: true},
	{ID: "Q29", Kind: "select", Text: `select ?o, ?p from ?g where {/u<joe> "parent_of"@[] ?o . /u<joe> ?p ?o};`, Memo: true},
	{ID: "Q30", Kind: "select", Text: `select ?o, ?x, ?p from ?g where {/u<joe> "parent_of"@[] ?o . ?x ?p ?o};`, Memo: true, Chan: 1},
	{ID: "Q31", Kind: "select", Text: `select ?s, ?n, ?o from ?g where {?s "height"@[] ?n . ?o "parent_of"@[] ?s};`, Memo: true, Procs: 4},
	// the per-row lookups behind a semaphore of weight 1 (Acquire blocks and is released by cancellation) and with buffered result channels
	{ID: "Q26", Kind: "select", Text: `select ?s, ?p, ?o from ?g where {?s "height"@[] ?n . ?s ?p ?o};`, Procs: 1},
	{ID: "Q27", Kind: "select", Text: `select ?o, ?c from ?g where {/u<joe> "parent_of"@[] ?o . ?o "parent_of"@[] ?c};`, Chan: 2, Procs: 4},
	// INSERT / DELETE
	{ID: "U01", Kind: "insert", Text: `insert data into ?g {/u<a> "p"@[] /u<b>};`},
	{ID: "U02", Kind: "insert", Text: `insert data into ?g, ?h {/u<a> "p"@[] /u<b> . /u<a> "p"@[] /u<c>};`},
	{ID: "U03", Kind: "delete", Text: `delete data from ?g {/u<joe> "parent_of"@[] /u<mary>};`},
	{ID: "U04", Kind: "delete", Text: `delete data from ?g, ?h {/u<amy> "parent_of"@[] /u<zoe>};`},
	// CONSTRUCT / DECONSTRUCT: bulk sizes 1 and 1000, reification template, one and two output graphs
	{ID: "C01", Kind: "construct", Bulk: 1, Text: `construct {?s "grandparent_of"@[] ?c} into ?dest from ?g where {?s "parent_of"@[] ?o . ?o "parent_of"@[] ?c};`},
	{ID: "C02", Kind: "construct", Bulk: 1000, Text: `construct {?s "grandparent_of"@[] ?c} into ?dest from ?g where {?s "parent_of"@[] ?o . ?o "parent_of"@[] ?c};`},
	{ID: "C03", Kind: "construct", Bulk: 1, Text: `construct {?s "measured"@[] ?o; "unit"@[] "cm"^^type:text} into ?dest from ?g where {?s "height"@[] ?o};`},
	{ID: "C04", Kind: "construct", Bulk: 1000, Text: `construct {?s "measured"@[] ?o; "unit"@[] "cm"^^type:text} into ?dest from ?g where {?s "height"@[] ?o};`},
	{ID: "C05", Kind: "construct", Bulk: 1, Text: `construct {?s "tall"@[] ?o} into ?dest, ?h from ?g where {?s "height"@[] ?o};`},
	{ID: "C06", Kind: "construct", Bulk: 1, Tag: "template-error", BaselineErr: true, Text: `construct {?o "liked_by"@[] /u<bob>} into ?dest from ?g where {/u<bob> ?p ?o};`},
	{ID: "C07", Kind: "construct", Bulk: 1, Memo: true, Text: `construct {?s "tall"@[] ?o} into ?dest from ?g where {?s "height"@[] ?o};`},
	{ID: "D01", Kind: "deconstruct", Bulk: 1, Text: `deconstruct {?s "parent_of"@[] ?o} in ?h from ?g where {?s "parent_of"@[] ?o};`},
	{ID: "D02", Kind: "deconstruct", Bulk: 1000, Text: `deconstruct {?s "parent_of"@[] ?o} in ?h, ?dest from ?g where {?s "parent_of"@[] ?o};`},
	// SHOW / CREATE / DROP
	{ID: "G01", Kind: "show", Text: `show graphs;`},
	{ID: "G02", Kind: "create", Text: `create graph ?new;`},
	{ID: "G03", Kind: "create", Text: `create graph ?n1, ?n2;`},
	{ID: "G04", Kind: "drop", Text: `drop graph ?h;`},
	{ID: "G05", Kind: "drop", Text: `drop graph ?h, ?dest;`},
}

func findStmt(id string) *stmt {
	for i := range corpus {
		if corpus[i].ID == id {
			return &corpus[i]
		}
	}
	return nil
}

// parse is the first half of tools/vcli/bw/run.BQL. It runs natively (outside
// the scheduler): no driver is involved before planner.New.
func parse(text string) (*semantic.Statement, error) {
	p, err := grammar.NewParser(grammar.SemanticBQL())
	if err != nil {
		return nil, err
	}
	stm := &semantic.Statement{}
	if err := p.Parse(grammar.NewLLk(text, 1), stm); err != nil {
		return nil, err
	}
	return stm, nil
}

// ---- fault plan ------------------------------------------------------------------------------

// fault = one planned failure: the driver call with this name fails in this mode.
//
//	modes of a streamed read / GraphNames:  "before" (nothing delivered), "after:j" (j elements delivered, j = 1..n;
//	                                        j = n: everything delivered, then the error)
//	modes of every other call:              "error"
type fault struct {
	Call string `json:"call"`
	Mode string `json:"mode"`
}

// scenarioName is what travels to the worker processes.
type scenarioName struct {
	Stmt   string  `json:"s"`
	Faults []fault `json:"f"`
}

var errInjected = errors.New("injected driver failure")

type callRec struct {
	Name string `json:"call"`
	Kind string `json:"kind"` // handle newgraph deletegraph graphnames read exist write
	N    int    `json:"result_size"`
}

// hx is the per-execution harness state. Logical threads run one at a time
// (baton passing), so plain fields are fine.
type hx struct {
	sc    *stmt
	plan  map[string]string
	occ   map[string]int
	calls []callRec
	fired []string

	planErr       error
	tbl           *table.Table
	err           error
	returned      bool
	firedAtReturn int
	// streamed driver calls that had been entered and not yet returned when Execute returned, and calls entered
	// after it returned (the statement is over: nothing started for it may still be using the store)
	inflight         map[string]bool
	inflightAtReturn []string
	enteredAfter     []string

	// memoized SELECTs: the same statement executed once more, without faults,
	// on the same store after the faulted execution returned
	again     bool
	againRows []string
	againErr  error
	wantRows  []string
}

func (h *hx) enter(base, kind string) (name, mode string) {
	k := h.occ[base]
	h.occ[base] = k + 1
	name = base + "#" + strconv.Itoa(k)
	return name, h.plan[name]
}

func (h *hx) log(name, kind string, n int) { h.calls = append(h.calls, callRec{name, kind, n}) }

func (h *hx) fire(name, mode string) error {
	h.fired = append(h.fired, name+" "+mode)
	return fmt.Errorf("%w: %s failed (%s)", errInjected, name, mode)
}

// ---- the fault-injecting driver ----------------------------------------------------------------

type fStore struct {
	inner storage.Store
	h     *hx
}

func (s *fStore) Name(c context.Context) string    { return s.inner.Name(c) }
func (s *fStore) Version(c context.Context) string { return s.inner.Version(c) }

func (s *fStore) NewGraph(c context.Context, id string) (storage.Graph, error) {
	name, mode := s.h.enter("Store.NewGraph("+id+")", "newgraph")
	s.h.log(name, "newgraph", 0)
	if mode != "" {
		return nil, s.h.fire(name, mode)
	}
	g, err := s.inner.NewGraph(c, id)
	if err != nil {
		return nil, err
	}
	return &fGraph{inner: g, h: s.h, id: id}, nil
}

func (s *fStore) Graph(c context.Context, id string) (storage.Graph, error) {
	name, mode := s.h.enter("Store.Graph("+id+")", "handle")
	s.h.log(name, "handle", 0)
	if mode != "" {
		return nil, s.h.fire(name, mode)
	}
	g, err := s.inner.Graph(c, id)
	if err != nil {
		return nil, err
	}
	return &fGraph{inner: g, h: s.h, id: id}, nil
}

func (s *fStore) DeleteGraph(c context.Context, id string) error {
	name, mode := s.h.enter("Store.DeleteGraph("+id+")", "deletegraph")
	s.h.log(name, "deletegraph", 0)
	if mode != "" {
		return s.h.fire(name, mode)
	}
	return s.inner.DeleteGraph(c, id)
}

func (s *fStore) GraphNames(c context.Context, names chan<- string) error {
	return stream(s.h, "Store.GraphNames()", "graphnames", names, func(ch chan<- string) error { return s.inner.GraphNames(c, ch) })
}

const snapshotCap = 64

// stream is the common body of every call that delivers its result through a
// channel. The wrapped driver's answer is taken as a snapshot (the wrapped
// call runs to completion into a private buffered channel), then delivered
// element by element; out is closed before returning in every mode.
func stream[T any](h *hx, base, kind string, out chan<- T, call func(chan<- T) error) error {
	name, mode := h.enter(base, kind)
	if h.inflight == nil {
		h.inflight = map[string]bool{}
	}
	h.inflight[name] = true
	defer delete(h.inflight, name)
	if h.returned && !h.again {
		h.enteredAfter = append(h.enteredAfter, name)
	}
	if mode == "before" {
		h.log(name, kind, -1)
		closeThenReturn(out)
		return h.fire(name, mode)
	}
	buf := vrt.MakeChan[T](snapshotCap)
	err := call(buf)
	var elems []T
	for e := range vrt.Range(buf) {
		elems = append(elems, e)
	}
	if len(elems) >= snapshotCap {
		panic("c20 harness: result does not fit the snapshot buffer")
	}
	h.log(name, kind, len(elems))
	if err != nil {
		closeThenReturn(out)
		return err
	}
	n := len(elems)
	if strings.HasPrefix(mode, "after:") {
		j, _ := strconv.Atoi(mode[6:])
		if j < n {
			n = j
		}
		err = h.fire(name, mode)
	} else if mode != "" {
		panic("c20 harness: mode " + mode + " planned for streamed call " + name)
	}
	for _, e := range elems[:n] {
		vrt.Send(out, e)
	}
	closeThenReturn(out)
	return err
}

// closeThenReturn closes the result channel; the call itself returns (with its
// error) only later: a scheduling point separates the two, so a consumer that
// has seen the channel closed can run before the driver call has returned.
func closeThenReturn[T any](out chan<- T) {
	vrt.Close(out)
	vrt.Yield()
}

type fGraph struct {
	inner storage.Graph
	h     *hx
	id    string
}

func (g *fGraph) ID(c context.Context) string { return g.inner.ID(c) }

var blankRe = regexp.MustCompile(`/_<[^>]*>`)

// canonTriples names a batch: blank-node ids (random) are replaced by their
// order of appearance, the batch is a set (sorted).
func canonTriples(ts []*triple.Triple) string {
	ss := make([]string, len(ts))
	seen := map[string]string{}
	for i, t := range ts {
		ss[i] = blankRe.ReplaceAllStringFunc(t.String(), func(m string) string {
			if _, ok := seen[m]; !ok {
				seen[m] = fmt.Sprintf("/_<b%d>", len(seen))
			}
			return seen[m]
		})
	}
	sort.Strings(ss)
	s := strings.ReplaceAll(strings.Join(ss, " | "), "\t", " ")
	if len(s) > 120 {
		h := sha1.Sum([]byte(s))
		s = s[:100] + "…" + hex.EncodeToString(h[:4])
	}
	return fmt.Sprintf("%d: %s", len(ts), s)
}

func (g *fGraph) AddTriples(c context.Context, ts []*triple.Triple) error {
	name, mode := g.h.enter("AddTriples("+g.id+"; "+canonTriples(ts)+")", "write")
	g.h.log(name, "write", len(ts))
	if mode != "" {
		return g.h.fire(name, mode)
	}
	return g.inner.AddTriples(c, ts)
}

func (g *fGraph) RemoveTriples(c context.Context, ts []*triple.Triple) error {
	name, mode := g.h.enter("RemoveTriples("+g.id+"; "+canonTriples(ts)+")", "write")
	g.h.log(name, "write", len(ts))
	if mode != "" {
		return g.h.fire(name, mode)
	}
	return g.inner.RemoveTriples(c, ts)
}

func (g *fGraph) Exist(c context.Context, t *triple.Triple) (bool, error) {
	name, mode := g.h.enter("Exist("+g.id+"; "+strings.ReplaceAll(t.String(), "\t", " ")+")", "exist")
	g.h.log(name, "exist", 0)
	if mode != "" {
		return false, g.h.fire(name, mode)
	}
	return g.inner.Exist(c, t)
}

func (g *fGraph) base(method string, lo *storage.LookupOptions, args ...fmt.Stringer) string {
	var ss []string
	for _, a := range args {
		ss = append(ss, a.String())
	}
	return method + "(" + g.id + "; " + strings.Join(ss, "; ") + "; " + lo.String() + ")"
}

func (g *fGraph) Objects(c context.Context, s *node.Node, p *predicate.Predicate, lo *storage.LookupOptions, out chan<- *triple.Object) error {
	return stream(g.h, g.base("Objects", lo, s, p), "read", out, func(ch chan<- *triple.Object) error { return g.inner.Objects(c, s, p, lo, ch) })
}

func (g *fGraph) Subjects(c context.Context, p *predicate.Predicate, o *triple.Object, lo *storage.LookupOptions, out chan<- *node.Node) error {
	return stream(g.h, g.base("Subjects", lo, p, o), "read", out, func(ch chan<- *node.Node) error { return g.inner.Subjects(c, p, o, lo, ch) })
}

func (g *fGraph) PredicatesForSubject(c context.Context, s *node.Node, lo *storage.LookupOptions, out chan<- *predicate.Predicate) error {
	return stream(g.h, g.base("PredicatesForSubject", lo, s), "read", out, func(ch chan<- *predicate.Predicate) error { return g.inner.PredicatesForSubject(c, s, lo, ch) })
}

func (g *fGraph) PredicatesForObject(c context.Context, o *triple.Object, lo *storage.LookupOptions, out chan<- *predicate.Predicate) error {
	return stream(g.h, g.base("PredicatesForObject", lo, o), "read", out, func(ch chan<- *predicate.Predicate) error { return g.inner.PredicatesForObject(c, o, lo, ch) })
}

func (g *fGraph) PredicatesForSubjectAndObject(c context.Context, s *node.Node, o *triple.Object, lo *storage.LookupOptions, out chan<- *predicate.Predicate) error {
	return stream(g.h, g.base("PredicatesForSubjectAndObject", lo, s, o), "read", out, func(ch chan<- *predicate.Predicate) error {
		return g.inner.PredicatesForSubjectAndObject(c, s, o, lo, ch)
	})
}

func (g *fGraph) TriplesForSubject(c context.Context, s *node.Node, lo *storage.LookupOptions, out chan<- *triple.Triple) error {
	return stream(g.h, g.base("TriplesForSubject", lo, s), "read", out, func(ch chan<- *triple.Triple) error { return g.inner.TriplesForSubject(c, s, lo, ch) })
}

func (g *fGraph) TriplesForPredicate(c context.Context, p *predicate.Predicate, lo *storage.LookupOptions, out chan<- *triple.Triple) error {
	return stream(g.h, g.base("TriplesForPredicate", lo, p), "read", out, func(ch chan<- *triple.Triple) error { return g.inner.TriplesForPredicate(c, p, lo, ch) })
}

func (g *fGraph) TriplesForObject(c context.Context, o *triple.Object, lo *storage.LookupOptions, out chan<- *triple.Triple) error {
	return stream(g.h, g.base("TriplesForObject", lo, o), "read", out, func(ch chan<- *triple.Triple) error { return g.inner.TriplesForObject(c, o, lo, ch) })
}

func (g *fGraph) TriplesForSubjectAndPredicate(c context.Context, s *node.Node, p *predicate.Predicate, lo *storage.LookupOptions, out chan<- *triple.Triple) error {
	return stream(g.h, g.base("TriplesForSubjectAndPredicate", lo, s, p), "read", out, func(ch chan<- *triple.Triple) error {
		return g.inner.TriplesForSubjectAndPredicate(c, s, p, lo, ch)
	})
}

func (g *fGraph) TriplesForPredicateAndObject(c context.Context, p *predicate.Predicate, o *triple.Object, lo *storage.LookupOptions, out chan<- *triple.Triple) error {
	return stream(g.h, g.base("TriplesForPredicateAndObject", lo, p, o), "read", out, func(ch chan<- *triple.Triple) error {
		return g.inner.TriplesForPredicateAndObject(c, p, o, lo, ch)
	})
}

func (g *fGraph) Triples(c context.Context, lo *storage.LookupOptions, out chan<- *triple.Triple) error {
	return stream(g.h, g.base("Triples", lo), "read", out, func(ch chan<- *triple.Triple) error { return g.inner.Triples(c, lo, ch) })
}

// ---- one execution -----------------------------------------------------------------------------

// horizon: the longest fault-free statement of the corpus needs < 2000 steps and
// < 60000 ticks (measured, see evidence); a run beyond these budgets is a hang.
// Diag: the call sites of pending operations are recorded (about 25% slower) so
// that a leak / deadlock shape names the function a thread is parked in.
var execCfg = vrt.Config{MaxSteps: 20000, MaxTicks: 600000, Procs: 2, Diag: true}

func (s *stmt) cfg() vrt.Config {
	c := execCfg
	if s.Procs > 0 {
		c.Procs = s.Procs
	}
	return c
}

// mkExec builds the factory of fresh executions of one statement under one fault plan.
func mkExec(sc *stmt, faults []fault, keep **hx) func() explore.Exec {
	return func() explore.Exec {
		h := &hx{sc: sc, plan: map[string]string{}, occ: map[string]int{}}
		for _, f := range faults {
			h.plan[f.Call] = f.Mode
		}
		if keep != nil {
			*keep = h
		}
		stm, perr := parse(sc.Text) // natively, before the controlled execution starts
		var stm2 *semantic.Statement
		if sc.Memo && sc.Kind == "select" && len(faults) > 0 && perr == nil {
			stm2, _ = parse(sc.Text)
			h.wantRows = faultFreeRows(sc)
		}
		return explore.Exec{
			Body: func() {
				if perr != nil {
					h.planErr = fmt.Errorf("parse: %v", perr)
					return
				}
				var st storage.Store = &fStore{inner: freshStore(), h: h}
				if sc.Memo {
					st = memoization.New(st)
				}
				// second half of run.BQL
				pln, err := planner.New(ctx, st, stm, sc.Chan, sc.Bulk, nil)
				if err != nil {
					h.planErr = fmt.Errorf("planner.New: %v", err)
					return
				}
				h.tbl, h.err = pln.Execute(ctx)
				h.returned = true
				h.firedAtReturn = len(h.fired)
				for n := range h.inflight {
					h.inflightAtReturn = append(h.inflightAtReturn, n)
				}
				sort.Strings(h.inflightAtReturn)
				vrt.MarkReturned()
				if stm2 != nil {
					// The driver has recovered: no call fails any more. The memoizing layer
					// lives as long as the store, so what it kept from the failed calls is
					// what the next statement is answered with.
					h.plan = nil
					h.again = true
					pln2, err := planner.New(ctx, st, stm2, sc.Chan, sc.Bulk, nil)
					if err != nil {
						h.againErr = err
						return
					}
					t2, err := pln2.Execute(ctx)
					h.againErr = err
					if err == nil {
						h.againRows = canonRows(t2)
					}
				}
			},
			Check: func(out *vrt.Outcome) ([]explore.Verdict, string) { return h.check(faults, out) },
		}
	}
}

// canonRows renders a table as a sorted list of rows.
func canonRows(t *table.Table) []string {
	if t == nil {
		return nil
	}
	bs := append([]string(nil), t.Bindings()...)
	sort.Strings(bs)
	var rows []string
	for _, r := range t.Rows() {
		var cs []string
		for _, b := range bs {
			c := "<nil>"
			if r[b] != nil {
				c = r[b].String()
			}
			cs = append(cs, b+"="+c)
		}
		rows = append(rows, strings.Join(cs, " "))
	}
	sort.Strings(rows)
	return rows
}

var wantCache = map[string][]string{}

// faultFreeRows is the result of the statement without faults (one controlled
// run on the default schedule per process, made between executions).
func faultFreeRows(sc *stmt) []string {
	if rows, ok := wantCache[sc.ID]; ok {
		return rows
	}
	var h *hx
	ex := mkExec(sc, nil, &h)()
	vrt.Run(sc.cfg(), vrt.DefaultChooser{}, ex.Body)
	rows := canonRows(h.tbl)
	if h.err != nil || h.tbl == nil {
		rows = []string{"<fault-free run failed: " + fmt.Sprint(h.err) + ">"}
	}
	wantCache[sc.ID] = rows
	return rows
}

// faultKind is the part of the input class contributed by one planned fault.
func faultKind(f fault) string {
	k := "read-fault"
	switch {
	case strings.HasPrefix(f.Call, "Store.Graph("):
		return "graph-handle-fault"
	case strings.HasPrefix(f.Call, "Store.NewGraph("):
		return "newgraph-fault"
	case strings.HasPrefix(f.Call, "Store.DeleteGraph("):
		return "deletegraph-fault"
	case strings.HasPrefix(f.Call, "Store.GraphNames("):
		k = "graphnames-fault"
	case strings.HasPrefix(f.Call, "AddTriples("), strings.HasPrefix(f.Call, "RemoveTriples("):
		return "write-fault"
	case strings.HasPrefix(f.Call, "Exist("):
		return "exist-fault"
	}
	if f.Mode == "before" {
		return k + "-before-any-element"
	}
	return k + "-after-some-elements"
}

// classOf is the input classifier, computed from the case alone: a feature list
// (see common.matchKnown, "has:") of two entries,
//
//	<statement kind>-statement[(tags)]:<set of fault kinds planned>      e.g. construct-statement:write-fault
//	<statement family>[(tags)]:<fault family>                            e.g. construct-or-deconstruct:graph-handle-or-write-faults
//
// the second being the coarser view: CONSTRUCT and DECONSTRUCT are one
// executor, and the fault kinds are grouped by the planner code that makes the
// call (update(): Store.Graph + AddTriples/RemoveTriples; pattern matching:
// streamed reads + Exist; SHOW: GraphNames; CREATE/DROP: NewGraph/DeleteGraph).
func classOf(sc *stmt, faults []fault) string {
	if len(faults) == 0 {
		return sc.class() + ":no-fault"
	}
	// the set of fault kinds planned (a pair of two write faults has the class of one)
	seen := map[string]bool{}
	var ks []string
	fam := map[string]bool{}
	for _, f := range faults {
		k := faultKind(f)
		if !seen[k] {
			seen[k] = true
			ks = append(ks, k)
		}
		switch {
		case k == "graph-handle-fault" || k == "write-fault":
			fam["graph-handle-or-write-faults"] = true
		case strings.HasPrefix(k, "read-fault") || k == "exist-fault":
			fam["read-faults"] = true
		case strings.HasPrefix(k, "graphnames-fault"):
			fam["graphnames-fault"] = true
		default:
			fam["newgraph-or-deletegraph-faults"] = true
		}
	}
	sort.Strings(ks)
	family := sc.Kind
	if sc.Kind == "construct" || sc.Kind == "deconstruct" {
		family = "construct-or-deconstruct"
	}
	if sc.Tag != "" {
		family += "(" + sc.Tag + ")"
	}
	if sc.Memo {
		family += "(memoized)"
	}
	ff := "mixed-faults"
	if len(fam) == 1 {
		for k := range fam {
			ff = k
		}
	}
	return sc.class() + ":" + strings.Join(ks, "+") + "," + family + ":" + ff
}

var siteRe = regexp.MustCompile(`^([A-Za-z0-9_.()*]+)`)

// blockedShape names the threads left behind by the function they are parked in
// (needs Config.Diag; falls back to the pending operation).
func blockedShape(out *vrt.Outcome) string {
	var ks []string
	for _, b := range out.Blocked {
		op := b.Pending
		if i := strings.IndexAny(op, " #{"); i > 0 {
			op = op[:i]
		}
		where := b.Name
		if m := siteRe.FindString(b.Site); m != "" {
			where = m
		}
		switch {
		case strings.HasPrefix(where, "planner.(*constructPlan).Execute.func1"):
			where = "construct-bulk-writer" // the goroutine of constructPlan.Execute that batches and writes the triples
		case strings.HasPrefix(where, "main.stream"):
			where = "driver-call-streaming-its-result" // a driver call whose consumer went away
		case where == "":
			where = "?"
		}
		ks = append(ks, where+"="+op)
	}
	sort.Strings(ks)
	return strings.Join(ks, ",")
}

func (h *hx) check(faults []fault, out *vrt.Outcome) ([]explore.Verdict, string) {
	class := classOf(h.sc, faults)
	var vs []explore.Verdict
	ret := "not-returned"
	if h.returned {
		t, e := "nil", "nil"
		if h.tbl != nil {
			t = "table"
		}
		if h.err != nil {
			e = "error"
			if errors.Is(h.err, errInjected) || strings.Contains(h.err.Error(), errInjected.Error()) {
				e = "error(injected)"
			}
		}
		ret = "(" + t + "," + e + ")"
	}
	oc := fmt.Sprintf("fired=%d/%d before-return=%d ret=%s status=%s", len(h.fired), len(faults), h.firedAtReturn, ret, out.Status)
	if h.planErr != nil {
		vs = append(vs, explore.Verdict{Class: class, Shape: "statement-not-planned", Detail: h.planErr.Error()})
		return vs, "plan-error"
	}
	nofault := len(h.fired) == 0
	if gv := explore.GlobalVerdict(class, out); gv != nil {
		switch out.Status {
		case vrt.StLeak, vrt.StDeadlock:
			gv.Shape = string(out.Status) + ":" + blockedShape(out)
		}
		// Without a failed driver call the antecedent of the property does not hold:
		// what is seen is recorded as information (C08 owns fault-free executions).
		gv.Info = nofault
		if nofault {
			gv.Class = h.sc.class() + ":no-fault-fired"
		}
		gv.Detail = fmt.Sprintf("%s\nfaults fired: %v\n%s", h.describe(faults), h.fired, gv.Detail)
		vs = append(vs, *gv)
		oc += ":" + gv.Shape
	}
	if h.returned && h.firedAtReturn > 0 && h.err == nil {
		shape := "success-reported"
		what := "a table and a nil error"
		if h.tbl == nil {
			shape, what = "nil-nil", "(nil, nil)"
		}
		vs = append(vs, explore.Verdict{Class: class, Shape: shape,
			Detail: fmt.Sprintf("%s\nExecute returned %s although %d driver call(s) had returned an error before it returned: %v", h.describe(faults), what, h.firedAtReturn, h.fired[:h.firedAtReturn])})
	}
	if len(h.inflightAtReturn) > 0 || len(h.enteredAfter) > 0 {
		vs = append(vs, explore.Verdict{Class: class, Shape: "driver-calls-outlive-the-statement",
			Detail: fmt.Sprintf("%s\nfaults fired: %v; Execute returned %s while %d streamed driver call(s) started for it had not returned %v, and %d more were entered afterwards %v", h.describe(faults), h.fired, ret, len(h.inflightAtReturn), h.inflightAtReturn, len(h.enteredAfter), h.enteredAfter)})
		oc += " outlive"
	}
	if h.again && len(h.fired) > 0 {
		got := "error: " + fmt.Sprint(h.againErr)
		if h.againErr == nil {
			got = strings.Join(h.againRows, " | ")
		}
		if want := strings.Join(h.wantRows, " | "); got != want {
			vs = append(vs, explore.Verdict{Class: class, Shape: "later-statement-answered-from-partial-results",
				Detail: fmt.Sprintf("%s\nfaults fired: %v; Execute returned %s.\nThe same statement executed again on the same store, now without any failing call, returns\n  %s\ninstead of\n  %s", h.describe(faults), h.fired, ret, got, want)})
			oc += " again=differs"
		} else {
			oc += " again=same"
		}
	}
	return vs, oc
}

func (h *hx) describe(faults []fault) string {
	var fs []string
	for _, f := range faults {
		fs = append(fs, fmt.Sprintf("%s -> %s", f.Call, f.Mode))
	}
	return fmt.Sprintf("statement %s (chanSize %d, bulkSize %d, memoized %v): %s\nplanned faults: %s", h.sc.ID, h.sc.Chan, h.sc.Bulk, h.sc.Memo, h.sc.Text, strings.Join(fs, " ; "))
}
