// C07 — concurrent use of a store: linearizable, deadlock-free, (race-free).
//
// The real storage/memory code (instrumented by verif/instr, built through
// cmd/c07/build.sh) is executed under the vsched runtime; every interleaving of
// its synchronisation operations inside the stated bound is enumerated and each
// complete execution is checked: no panic / deadlock / leak / horizon; the
// recorded call/return history is linearizable (porcupine) against the set
// model; batches are observed atomically; channels are closed exactly once,
// also on error paths; lookup options are left alone.
package main

import (
	"context"
	"fmt"
	"os"
	"sort"
	"strings"
	"time"

	"github.com/anishathalye/porcupine"
	"github.com/google/badwolf/bql/grammar"
	"github.com/google/badwolf/bql/planner"
	"github.com/google/badwolf/bql/planner/filter"
	"github.com/google/badwolf/bql/semantic"
	"github.com/google/badwolf/storage"
	"github.com/google/badwolf/storage/memory"
	"github.com/google/badwolf/triple"

	"verif/explore"
	"verif/model"
	"verif/vrt"
	"verif/vsync"
)

// ---- universe: four triples that share subject (idxS), two of them also predicate+anchor (idxP, idxSP) ---

var (
	uS  = model.N("/u", "s")
	uO1 = model.ON(model.N("/u", "o1"))
	uO2 = model.ON(model.N("/u", "o2"))
	uP1 = model.PT("p", model.T1)
	uP2 = model.PT("p", model.T2)
	uQ  = model.PI("q")
	uR1 = model.PT("r", model.T1)
	U   = []*triple.Triple{
		model.T(uS, uP1, uO1), // t0
		model.T(uS, uP1, uO2), // t1  same subject, same predicate and anchor: same idxS/idxP/idxSP buckets as t0
		model.T(uS, uP2, uO1), // t2  same partial predicate, later anchor (LatestAnchor keeps only this one)
		model.T(uS, uQ, uO1),  // t3  immutable
		model.T(uS, uR1, uO1), // t4  temporal predicate with another id: a LatestAnchor lookup keeps it next to the latest "p" (two results: the consumer looks at the options while the driver is parked on the second send)
	}
	uKey = map[string]int{}
	ctx  = context.Background()
)

func init() {
	for i, t := range U {
		uKey[model.TripleKey(t)] = i
	}
}

func pick(mask uint8) []*triple.Triple {
	var ts []*triple.Triple
	for i, t := range U {
		if mask&(1<<uint(i)) != 0 {
			ts = append(ts, t)
		}
	}
	return ts
}

func maskStr(m uint8) string {
	var s []string
	for i := range U {
		if m&(1<<uint(i)) != 0 {
			s = append(s, fmt.Sprintf("t%d", i))
		}
	}
	return "{" + strings.Join(s, ",") + "}"
}

// ---- the reference model of lookups (validated against the real store at start-up) ---------------

const (
	lkTFS     = "TriplesForSubject(s)"
	lkObjects = "Objects(s,p@T1)"
	lkTriples = "Triples"
)

func modelLookup(lk, opt string, state uint8) uint8 {
	set := state
	if lk == lkObjects {
		set &= 0b0011 // subject s, predicate "p" anchored at T1
	}
	switch opt {
	case "latest":
		// temporal triples only; per predicate id the latest anchor
		set &= 0b10111
		if set&0b0100 != 0 {
			set &^= 0b0011
		}
	case "isTemporal":
		set &= 0b10111
	case "isImmutable":
		set &= 0b01000
	}
	return set
}

func optionsFor(opt string) *storage.LookupOptions {
	switch opt {
	case "latest":
		return &storage.LookupOptions{LatestAnchor: true}
	case "isTemporal":
		return &storage.LookupOptions{FilterOptions: &filter.StorageOptions{Operation: filter.IsTemporal, Field: filter.PredicateField}}
	case "isImmutable":
		return &storage.LookupOptions{FilterOptions: &filter.StorageOptions{Operation: filter.IsImmutable, Field: filter.PredicateField}}
	}
	return &storage.LookupOptions{}
}

type loSnap struct {
	Max, Off     int
	Lower, Upper *time.Time
	Latest       bool
	Filter       *filter.StorageOptions
	FilterVal    filter.StorageOptions
}

func snap(lo *storage.LookupOptions) loSnap {
	s := loSnap{Max: lo.MaxElements, Off: lo.Offset, Lower: lo.LowerAnchor, Upper: lo.UpperAnchor, Latest: lo.LatestAnchor, Filter: lo.FilterOptions}
	if lo.FilterOptions != nil {
		s.FilterVal = *lo.FilterOptions
	}
	return s
}

func (s loSnap) String() string {
	f := "nil"
	if s.Filter != nil {
		f = fmt.Sprintf("&{%v %v %q}", s.FilterVal.Operation, s.FilterVal.Field, s.FilterVal.Value)
	}
	return fmt.Sprintf("{Max:%d Off:%d Lower:%v Upper:%v Latest:%v Filter:%s}", s.Max, s.Off, s.Lower, s.Upper, s.Latest, f)
}

// ---- history ---------------------------------------------------------------------------------

type gin struct {
	Kind string // add | rem | exist | lookup | new | del | names
	Mask uint8
	LK   string
	Opt  string
}

type gout struct {
	Mask uint8
	OK   bool
	Err  bool
}

func (i gin) String() string {
	switch i.Kind {
	case "lookup":
		return fmt.Sprintf("%s[%s]", i.LK, i.Opt)
	case "new", "del", "names":
		return i.Kind
	}
	return i.Kind + maskStr(i.Mask)
}

var graphModel = porcupine.Model{
	Init: func() interface{} { return uint8(0) },
	Step: func(st, in, out interface{}) (bool, interface{}) {
		s, i, o := st.(uint8), in.(gin), out.(gout)
		switch i.Kind {
		case "init":
			return true, i.Mask
		case "add":
			return !o.Err, s | i.Mask
		case "rem":
			return !o.Err, s &^ i.Mask
		case "exist":
			return !o.Err && o.OK == (s&i.Mask != 0), s
		case "lookup":
			return !o.Err && o.Mask == modelLookup(i.LK, i.Opt, s), s
		}
		return false, s
	},
	DescribeOperation: func(in, out interface{}) string { return fmt.Sprintf("%v -> %+v", in, out) },
}

// store level: state = does graph "?x" exist
var storeModel = porcupine.Model{
	Init: func() interface{} { return false },
	Step: func(st, in, out interface{}) (bool, interface{}) {
		s, i, o := st.(bool), in.(gin), out.(gout)
		switch i.Kind {
		case "new":
			if s {
				return o.Err, s
			}
			return !o.Err, true
		case "del":
			if s {
				return !o.Err, false
			}
			return o.Err, s
		case "get":
			return o.Err == !s, s
		case "names":
			want := uint8(0)
			if s {
				want = 1
			}
			return !o.Err && o.Mask == want, s
		}
		return false, s
	},
}

// ---- per-execution harness context ---------------------------------------------------------------

type lookupRec struct {
	name      string
	in        gin
	lo        *storage.LookupOptions
	loBefore  loSnap
	loAfter   loSnap
	call, ret int64
	err       error
	got       []string // element keys in arrival order
	loSeen    []loSnap // options as seen by the consumer at each receive
	closed    bool
	nilChan   bool
	wantErr   bool
	noModel   bool // result elements are not put through the sequential model
	visible   uint8
}

type hctx struct {
	native                 bool
	clock                  int64
	ops                    []porcupine.Operation
	looks                  []*lookupRec
	wg                     vsync.WaitGroup
	nested                 int // informational S7 variant: consumer issues a read between receives
	bqlIns, bqlSel, bqlFin bqlResult

	pendingNames []pendingNames
}

// visibleClock (thorough tier; inherited by the worker processes through the environment)
// makes the call / return instants of the recorded history scheduling-visible events. In the
// quick tier the sleep-set runs keep one representative per trace of the synchronisation
// operations only; the unreduced bounded runs next to them do not depend on this.
var visibleClock = os.Getenv("C07_VISIBLE_CLOCK") != ""

func (h *hctx) tick() int64 {
	if h.native {
		// free-running companion: no history (a shared clock would order the calls
		// for the race detector and hide races between them)
		return 0
	}
	// call / return instants are VISIBLE events: they conflict with each other, so the
	// sleep-set reduction keeps one representative per real-time order of the calls (the
	// linearizability oracle depends on that order, not only on the order of the
	// synchronisation operations)
	if visibleClock && vrt.Active() {
		vrt.Access("c07-clock")
	}
	h.clock++
	return h.clock
}

func (h *hctx) record(client int, in gin, call, ret int64, out gout) {
	if h.native {
		return
	}
	h.ops = append(h.ops, porcupine.Operation{ClientId: client, Input: in, Call: call, Output: out, Return: ret})
}

// spawnUpdate runs an add / remove batch in its own thread.
func (h *hctx) spawnUpdate(client int, g storage.Graph, kind string, mask uint8) {
	h.wg.Add(1)
	vrt.GoNamed(kind, func() {
		defer h.wg.Done()
		c := h.tick()
		var err error
		if kind == "add" {
			err = g.AddTriples(ctx, pick(mask))
		} else {
			err = g.RemoveTriples(ctx, pick(mask))
		}
		r := h.tick()
		if kind == "add" {
			// one atomic operation
			h.record(client, gin{Kind: "add", Mask: mask}, c, r, gout{Err: err != nil})
			return
		}
		// each removed triple its own operation inside the call's interval
		for i := range U {
			if mask&(1<<uint(i)) != 0 {
				h.record(client, gin{Kind: "rem", Mask: 1 << uint(i)}, c, r, gout{Err: err != nil})
			}
		}
	})
}

func (h *hctx) spawnExist(client int, g storage.Graph, idx int) {
	h.wg.Add(1)
	vrt.GoNamed("exist", func() {
		defer h.wg.Done()
		c := h.tick()
		ok, err := g.Exist(ctx, U[idx])
		r := h.tick()
		h.record(client, gin{Kind: "exist", Mask: 1 << uint(idx)}, c, r, gout{OK: ok, Err: err != nil})
	})
}

// spawnLookup runs a lookup in one thread and its consumer in another.
func (h *hctx) spawnLookup(name string, g storage.Graph, lk, opt string, lo *storage.LookupOptions, capacity int, nilChan bool, nested func()) *lookupRec {
	rec := &lookupRec{name: name, in: gin{Kind: "lookup", LK: lk, Opt: opt}, lo: lo, nilChan: nilChan, visible: 0b1111}
	if !h.native {
		// (the free-running companion must not read the options itself: the race
		// detector would pair the harness's read with the driver's write)
		rec.loBefore = snap(lo)
	}
	if lk == lkObjects {
		rec.visible = 0b0011
	}
	h.looks = append(h.looks, rec)
	h.wg.Add(1)
	switch lk {
	case lkObjects:
		var ch chan *triple.Object
		if !nilChan {
			ch = vrt.MakeChan[*triple.Object](capacity)
			h.wg.Add(1)
			vrt.GoNamed(name+"-consumer", func() {
				defer h.wg.Done()
				for o := range vrt.Range(ch) {
					rec.got = append(rec.got, model.ObjKey(o))
					if !h.native {
						rec.loSeen = append(rec.loSeen, snap(lo))
					}
					if nested != nil {
						nested()
					}
				}
				rec.closed = true
			})
		}
		vrt.GoNamed(name, func() {
			defer h.wg.Done()
			rec.call = h.tick()
			rec.err = g.Objects(ctx, uS, uP1, lo, ch)
			rec.ret = h.tick()
			if !h.native {
				rec.loAfter = snap(lo)
			}
		})
	default:
		var ch chan *triple.Triple
		if !nilChan {
			ch = vrt.MakeChan[*triple.Triple](capacity)
			h.wg.Add(1)
			vrt.GoNamed(name+"-consumer", func() {
				defer h.wg.Done()
				for t := range vrt.Range(ch) {
					rec.got = append(rec.got, model.TripleKey(t))
					if !h.native {
						rec.loSeen = append(rec.loSeen, snap(lo))
					}
					if nested != nil {
						nested()
					}
				}
				rec.closed = true
			})
		}
		vrt.GoNamed(name, func() {
			defer h.wg.Done()
			rec.call = h.tick()
			if lk == lkTFS {
				rec.err = g.TriplesForSubject(ctx, uS, lo, ch)
			} else {
				rec.err = g.Triples(ctx, lo, ch)
			}
			rec.ret = h.tick()
			if !h.native {
				rec.loAfter = snap(lo)
			}
		})
	}
	return rec
}

// resultMask maps the received elements to universe indices.
func (rec *lookupRec) resultMask() (uint8, string) {
	var m uint8
	for _, k := range rec.got {
		idx := -1
		if rec.in.LK == lkObjects {
			switch k {
			case model.ObjKey(uO1):
				idx = 0
			case model.ObjKey(uO2):
				idx = 1
			}
		} else if i, ok := uKey[k]; ok {
			idx = i
		}
		if idx < 0 {
			return m, "unknown element " + k
		}
		if m&(1<<uint(idx)) != 0 {
			return m, "duplicate element " + k
		}
		m |= 1 << uint(idx)
	}
	return m, ""
}

// freshGraph builds a new store with graph "?g" holding the initial triples
// (natively: the scheduler is not active yet for the root's setup? it is — but
// no other thread exists, so these are plain uncontended operations).
func freshGraph(initial uint8) (storage.Store, storage.Graph) {
	st := memory.NewStore()
	g, err := st.NewGraph(ctx, "?g")
	if err != nil {
		panic(err)
	}
	if initial != 0 {
		if err := g.AddTriples(ctx, pick(initial)); err != nil {
			panic(err)
		}
	}
	return st, g
}

// ---- scenarios -------------------------------------------------------------------------------------

type scenario struct {
	Name    string
	Class   string
	Mode    explore.Mode // primary mode
	Hedge   bool         // additionally a bounded run without reduction
	Initial uint8
	Batches []uint8 // add batches whose atomicity is checked
	Store   bool    // store-level history (S4)
	Info    bool    // informational only (S7 nested-read variant)
	Body    func(h *hctx, capacity int)
	// Custom replaces the history oracle (S6: statement level)
	Custom func(h *hctx, add func(shape, detail string)) string
	Cfg    vrt.Config
	OneCap bool // the result-channel capacity is not a parameter of this scenario
	Pools  bool // sync.Pool modelled (vsync.ModelPools): LIFO hand-out, scheduling points at Get / Put / after Put
	BoundQ int  // bounded mode: largest bound attempted on the quick / thorough tier
	BoundT int
}

var scenarios = []scenario{
	{Name: "S1", Class: "S1:AddBatch|TriplesForSubject|Exist", Mode: explore.SleepSets, Hedge: true, Batches: []uint8{0b0011},
		Body: func(h *hctx, c int) {
			_, g := freshGraph(0)
			h.spawnUpdate(0, g, "add", 0b0011)
			h.spawnLookup("lookup", g, lkTFS, "", storage.DefaultLookup, c, false, nil)
			h.spawnExist(2, g, 0)
		}},
	// the scratch buffers the identity functions take from sync.Pools: with the pools modelled, a thread that still
	// uses a buffer it has put back meets the other thread's bytes in it
	{Name: "S8", Class: "S8:Add|Exist-of-another-triple;Exist (pools modelled)", Mode: explore.SleepSets, Hedge: true, OneCap: true, Pools: true,
		Body: func(h *hctx, c int) {
			_, g := freshGraph(0)
			h.spawnUpdate(0, g, "add", 0b0001)
			h.spawnExist(1, g, 1)
			h.wg.Wait()
			h.spawnExist(2, g, 0)
		}},
	// removing what was never there (a fresh graph: no subject is known to it) next to a reader and a writer: every
	// early way out of the removal must leave the graph usable
	{Name: "S9", Class: "S9:Remove-of-triples-never-stored|Exist|Add", Mode: explore.SleepSets, Hedge: true, OneCap: true,
		Body: func(h *hctx, c int) {
			_, g := freshGraph(0)
			h.spawnUpdate(0, g, "rem", 0b0011)
			h.spawnExist(1, g, 0)
			h.spawnUpdate(2, g, "add", 0b0100)
		}},
	{Name: "S2", Class: "S2:RemoveBatch|Objects|Add", Mode: explore.SleepSets, Hedge: true, Initial: 0b0011,
		Body: func(h *hctx, c int) {
			_, g := freshGraph(0b0011)
			h.spawnUpdate(0, g, "rem", 0b0011)
			h.spawnLookup("lookup", g, lkObjects, "", storage.DefaultLookup, c, false, nil)
			h.spawnUpdate(2, g, "add", 0b0001)
		}},
	{Name: "S3", Class: "S3:two-lookups-sharing-one-LookupOptions-with-LatestAnchor", Mode: explore.Bounded, Initial: 0b1011, BoundQ: 3, BoundT: 4,
		Body: func(h *hctx, c int) {
			_, g := freshGraph(0b1011)
			shared := optionsFor("latest")
			h.spawnLookup("lookupA", g, lkTFS, "latest", shared, c, false, nil)
			h.spawnLookup("lookupB", g, lkTriples, "latest", shared, c, false, nil)
			h.spawnLookup("lookupC", g, lkTFS, "isTemporal", optionsFor("isTemporal"), c, false, nil)
		}},
	{Name: "S3a", Class: "S3a:one-lookup-with-LatestAnchor", Mode: explore.SleepSets, Initial: 0b1011,
		Body: func(h *hctx, c int) {
			_, g := freshGraph(0b1011)
			h.spawnLookup("lookupA", g, lkTFS, "latest", optionsFor("latest"), c, false, nil)
		}},
	{Name: "S4", Class: "S4:NewGraph|NewGraph|DeleteGraph|GraphNames", Mode: explore.SleepSets, Hedge: true, Store: true,
		Body: func(h *hctx, c int) {
			st := memory.NewStore()
			for i := 0; i < 2; i++ {
				h.wg.Add(1)
				vrt.GoNamed("new", func() {
					defer h.wg.Done()
					cl := h.tick()
					g, err := st.NewGraph(ctx, "?x")
					r := h.tick()
					h.record(i, gin{Kind: "new"}, cl, r, gout{Err: err != nil, OK: g != nil})
				})
			}
			h.wg.Add(1)
			vrt.GoNamed("del", func() {
				defer h.wg.Done()
				cl := h.tick()
				err := st.DeleteGraph(ctx, "?x")
				r := h.tick()
				h.record(2, gin{Kind: "del"}, cl, r, gout{Err: err != nil})
			})
			names := vrt.MakeChan[string](c)
			var got []string
			h.wg.Add(2)
			vrt.GoNamed("names-consumer", func() {
				defer h.wg.Done()
				for n := range vrt.Range(names) {
					got = append(got, n)
				}
			})
			vrt.GoNamed("names", func() {
				defer h.wg.Done()
				cl := h.tick()
				err := st.GraphNames(ctx, names)
				r := h.tick()
				if !h.native {
					h.pendingNames = append(h.pendingNames, pendingNames{cl, r, err, &got})
				}
			})
		}},
	{Name: "S5a", Class: "S5a:nil-channel|LatestAnchor+FilterOptions|Add|Exist", Mode: explore.SleepSets, Hedge: true, Initial: 0b0100,
		Body: func(h *hctx, c int) {
			_, g := freshGraph(0b0100)
			h.spawnUpdate(0, g, "add", 0b0011)
			r1 := h.spawnLookup("nilchan", g, lkTFS, "", storage.DefaultLookup, c, true, nil)
			r1.wantErr = true
			both := optionsFor("isTemporal")
			both.LatestAnchor = true
			r2 := h.spawnLookup("latest+filter", g, lkTriples, "", both, c, false, nil)
			r2.wantErr = true
			h.spawnExist(3, g, 1)
		}},
	{Name: "S5b", Class: "S5b:invalid-filter-field|Add|Exist", Mode: explore.SleepSets, Hedge: true, Initial: 0b0100,
		Body: func(h *hctx, c int) {
			_, g := freshGraph(0b0100)
			h.spawnUpdate(0, g, "add", 0b0011)
			bad := &storage.LookupOptions{FilterOptions: &filter.StorageOptions{Operation: filter.IsImmutable, Field: filter.SubjectField}}
			r3 := h.spawnLookup("badfield", g, lkObjects, "", bad, c, false, nil)
			r3.wantErr = true
			h.spawnExist(3, g, 1)
		}},
	{Name: "S7", Class: "S7:reader-on-slow-consumer|writer|second-reader", Mode: explore.SleepSets, Hedge: true, Initial: 0b0011, Batches: []uint8{0b1100},
		Body: func(h *hctx, c int) {
			_, g := freshGraph(0b0011)
			h.spawnLookup("reader1", g, lkTFS, "", storage.DefaultLookup, c, false, nil)
			h.spawnUpdate(1, g, "add", 0b1100)
			h.spawnLookup("reader2", g, lkTriples, "", storage.DefaultLookup, c, false, nil)
		}},
	{Name: "S7n", Class: "S7n:consumer-issues-nested-read", Mode: explore.SleepSets, Initial: 0b0011, Info: true,
		Body: func(h *hctx, c int) {
			_, g := freshGraph(0b0011)
			h.spawnLookup("reader1", g, lkTFS, "", storage.DefaultLookup, c, false, func() {
				h.nested++
				g.Exist(ctx, U[0])
			})
			h.spawnUpdate(1, g, "add", 0b0100)
		}},
}

type bqlResult struct {
	rows []string
	err  error
}

// runBQL is tools/vcli/bw/run.BQL (parse, plan, execute) without the CLI around it.
func runBQL(st storage.Store, text string, chanSize, bulkSize int) bqlResult {
	p, err := grammar.NewParser(grammar.SemanticBQL())
	if err != nil {
		return bqlResult{err: err}
	}
	stm := &semantic.Statement{}
	if err := p.Parse(grammar.NewLLk(text, 1), stm); err != nil {
		return bqlResult{err: fmt.Errorf("parse: %v", err)}
	}
	pln, err := planner.New(ctx, st, stm, chanSize, bulkSize, nil)
	if err != nil {
		return bqlResult{err: fmt.Errorf("plan: %v", err)}
	}
	tbl, err := pln.Execute(ctx)
	if err != nil {
		return bqlResult{err: fmt.Errorf("execute: %v", err)}
	}
	var rows []string
	bs := tbl.Bindings()
	sort.Strings(bs)
	for _, r := range tbl.Rows() {
		var cs []string
		for _, b := range bs {
			c := "<nil>"
			if r[b] != nil {
				c = r[b].String()
			}
			cs = append(cs, b+"="+c)
		}
		rows = append(rows, strings.Join(cs, " "))
	}
	sort.Strings(rows)
	return bqlResult{rows: rows}
}

const (
	s6Insert = `insert data into ?g {/u<s> "p"@[] /u<o1> . /u<o1> "q"@[] /u<x1>};`
	s6Select = `select ?o, ?x from ?g where {/u<s> "p"@[] ?o . ?o "q"@[] ?x};`
	s6Row0   = "?o=/u<o0> ?x=/u<x0>"
	s6Row1   = "?o=/u<o1> ?x=/u<x1>"
)

var s6Scenario = scenario{Name: "S6", Class: "S6:BQL-INSERT|BQL-2-clause-SELECT", Mode: explore.Bounded, OneCap: true, Cfg: vrt.Config{Procs: 2}, BoundQ: 1, BoundT: 2,
	Body: func(h *hctx, c int) {
		st := memory.NewStore()
		g, err := st.NewGraph(ctx, "?g")
		if err != nil {
			panic(err)
		}
		o0 := model.N("/u", "o0")
		if err := g.AddTriples(ctx, []*triple.Triple{model.T(uS, model.PI("p"), model.ON(o0)), model.T(o0, model.PI("q"), model.ON(model.N("/u", "x0")))}); err != nil {
			panic(err)
		}
		h.wg.Add(2)
		vrt.GoNamed("insert", func() {
			defer h.wg.Done()
			h.bqlIns = runBQL(st, s6Insert, 0, 1)
		})
		vrt.GoNamed("select", func() {
			defer h.wg.Done()
			h.bqlSel = runBQL(st, s6Select, c, 1)
		})
		h.wg.Wait()
		vrt.MarkReturned()
		// what the store holds afterwards, sequentially
		h.bqlFin = runBQL(st, s6Select, 0, 1)
	},
	Custom: func(h *hctx, add func(shape, detail string)) string {
		ins, sel, fin := h.bqlIns, h.bqlSel, h.bqlFin
		if ins.err != nil {
			add("insert-returned-error", ins.err.Error())
		}
		if sel.err != nil {
			add("select-returned-error", sel.err.Error())
		}
		got := strings.Join(sel.rows, " | ")
		// the INSERT adds its two triples in one batch: every lookup of the SELECT sees
		// both or neither, later lookups see at least what earlier ones saw
		if sel.err == nil && got != s6Row0 && got != s6Row0+" | "+s6Row1 {
			add("select-result-not-explained-by-any-order", fmt.Sprintf("SELECT returned [%s]; with the INSERT before, between or after its lookups only [%s] or [%s | %s] are possible", got, s6Row0, s6Row0, s6Row1))
		}
		if f := strings.Join(fin.rows, " | "); fin.err != nil || f != s6Row0+" | "+s6Row1 {
			add("final-content-wrong", fmt.Sprintf("after both statements returned a sequential SELECT gives [%s] err=%v", f, fin.err))
		}
		return fmt.Sprintf("select=[%s] insertErr=%v", got, ins.err != nil)
	}}

func init() { scenarios = append(scenarios, s6Scenario) }

type pendingNames struct {
	call, ret int64
	err       error
	got       *[]string
}

// mk builds the factory of fresh executions of a scenario variant.
func (sc *scenario) mk(capacity int, native bool) func() explore.Exec {
	return func() explore.Exec {
		if vsync.ModelPools != sc.Pools {
			vsync.ModelPools = sc.Pools // between executions, never during one
		}
		h := &hctx{native: native}
		return explore.Exec{
			Body: func() {
				sc.Body(h, capacity)
				h.wg.Wait()
			},
			Check: func(out *vrt.Outcome) ([]explore.Verdict, string) { return sc.check(h, out) },
		}
	}
}

func (sc *scenario) check(h *hctx, out *vrt.Outcome) ([]explore.Verdict, string) {
	var vs []explore.Verdict
	add := func(shape, detail string) {
		vs = append(vs, explore.Verdict{Class: sc.Class, Shape: shape, Detail: detail, Info: sc.Info})
	}
	if v := explore.GlobalVerdict(sc.Class, out); v != nil {
		v.Info = sc.Info
		vs = append(vs, *v)
		return vs, string(out.Status) + ":" + v.Shape
	}
	if sc.Custom != nil {
		oc := sc.Custom(h, add)
		return vs, oc
	}
	var oc []string
	ops := append([]porcupine.Operation(nil), h.ops...)
	for _, rec := range h.looks {
		m, bad := rec.resultMask()
		if rec.noModel || rec.wantErr {
			oc = append(oc, fmt.Sprintf("%s=%d elements, %d option snapshots err=%v", rec.name, len(rec.got), len(rec.loSeen), rec.err != nil))
		} else {
			oc = append(oc, fmt.Sprintf("%s=%s err=%v", rec.name, maskStr(m), rec.err != nil))
		}
		if rec.wantErr {
			if rec.err == nil {
				add("error-path-returned-nil:"+rec.name, fmt.Sprintf("%s: expected an error, got nil (elements %v)", rec.name, rec.got))
			}
			if !rec.nilChan && (!rec.closed || len(rec.got) != 0) {
				add("error-path-channel:"+rec.name, fmt.Sprintf("%s: closed=%v elements=%v", rec.name, rec.closed, rec.got))
			}
		} else if rec.noModel {
			if rec.err != nil {
				add("lookup-returned-error:"+errShape(rec.err), fmt.Sprintf("%s with options %v returned error %q", rec.name, rec.loBefore, rec.err))
			}
			if !rec.closed {
				add("channel-not-closed", rec.name)
			}
		} else {
			if rec.err != nil {
				add("lookup-returned-error:"+errShape(rec.err), fmt.Sprintf("%s %v with options %v returned error %q although every lookup of the scenario is valid on its own", rec.name, rec.in, rec.loBefore, rec.err))
			}
			if bad != "" {
				add("malformed-result", fmt.Sprintf("%s %v: %s (got %v)", rec.name, rec.in, bad, rec.got))
			}
			if !rec.closed {
				add("channel-not-closed", rec.name)
			}
			for _, b := range sc.Batches {
				vis := b & rec.visible
				if rec.in.Opt == "" && m&vis != 0 && m&vis != vis {
					add("partial-batch-observed", fmt.Sprintf("%s %v returned %s: only part of the batch %s added by one AddTriples call", rec.name, rec.in, maskStr(m), maskStr(b)))
				}
			}
			if rec.err == nil && bad == "" {
				ops = append(ops, porcupine.Operation{ClientId: 10 + len(ops), Input: rec.in, Call: rec.call, Output: gout{Mask: m}, Return: rec.ret})
			}
		}
		if rec.loAfter.String() != rec.loBefore.String() || rec.loAfter.Filter != rec.loBefore.Filter {
			add("options-modified-at-return", fmt.Sprintf("%s: options before %v, after return %v", rec.name, rec.loBefore, rec.loAfter))
		}
		for _, s := range rec.loSeen {
			if s.String() != rec.loBefore.String() {
				add("options-modified-during-call", fmt.Sprintf("%s: the caller's LookupOptions were %v before the call; while the lookup was streaming its consumer saw %v", rec.name, rec.loBefore, s))
				break
			}
		}
	}
	mdl := graphModel
	if sc.Store {
		mdl = storeModel
		for _, p := range h.pendingNames {
			var m uint8
			for _, n := range *p.got {
				if n == "?x" && m == 0 {
					m = 1
				} else {
					add("malformed-result", fmt.Sprintf("GraphNames produced %v", *p.got))
				}
			}
			oc = append(oc, fmt.Sprintf("names=%v", *p.got))
			ops = append(ops, porcupine.Operation{ClientId: 9, Input: gin{Kind: "names"}, Call: p.call, Output: gout{Mask: m, Err: p.err != nil}, Return: p.ret})
		}
	} else {
		// the initial content is an operation that precedes everything
		ops = append(ops, porcupine.Operation{ClientId: 99, Input: gin{Kind: "init", Mask: sc.Initial}, Call: -1, Output: gout{}, Return: 0})
	}
	for _, o := range h.ops {
		oc = append(oc, fmt.Sprintf("%v->%+v", o.Input, o.Output))
	}
	if !porcupine.CheckOperations(mdl, ops) {
		add("not-linearizable", "no sequential order of the operations consistent with real time explains the results:\n"+describe(ops))
	}
	sort.Strings(oc)
	return vs, strings.Join(oc, "; ")
}

func errShape(err error) string {
	s := err.Error()
	switch {
	case strings.Contains(s, "LatestAnchor and FilterOptions"):
		return "LatestAnchor-and-FilterOptions"
	case strings.Contains(s, "invalid field"):
		return "invalid-field"
	}
	if len(s) > 40 {
		s = s[:40]
	}
	return s
}

func describe(ops []porcupine.Operation) string {
	sort.Slice(ops, func(i, j int) bool { return ops[i].Call < ops[j].Call })
	var b strings.Builder
	for _, o := range ops {
		fmt.Fprintf(&b, "  [%d,%d] %v -> %+v\n", o.Call, o.Return, o.Input, o.Output)
	}
	return b.String()
}
