package main

import (
	"bytes"
	"encoding/json"
	"fmt"
	"os"
	"os/exec"
	"path/filepath"
	"regexp"
	"sort"
	"strings"
	"time"

	"github.com/google/badwolf/storage"
	"github.com/google/badwolf/triple"

	"verif/common"
	"verif/explore"
	"verif/model"
	"verif/vrt"
)

// variant name = scenario + "/cap" + capacity
func variants() []string {
	var vs []string
	for _, sc := range scenarios {
		for _, c := range []int{0, 1} {
			if c == 1 && sc.OneCap {
				continue
			}
			vs = append(vs, fmt.Sprintf("%s/cap%d", sc.Name, c))
		}
	}
	return vs
}

func resolve(name string) (*scenario, int) {
	parts := strings.Split(name, "/cap")
	if len(parts) != 2 {
		return nil, 0
	}
	for i := range scenarios {
		if scenarios[i].Name == parts[0] {
			c := 0
			fmt.Sscan(parts[1], &c)
			return &scenarios[i], c
		}
	}
	return nil, 0
}

func factory(name string) func() explore.Exec {
	sc, c := resolve(name)
	if sc == nil {
		return nil
	}
	return sc.mk(c, false)
}

// validateModel: the lookup model must agree with the real store, sequentially,
// for every content of the universe and every (lookup, options) pair used.
func validateModel(r *common.Run) {
	var where string
	if p := common.Guard(func() { validateModelInner(&where) }); p != nil {
		r.Fail(common.Failure{Check: "seq", Class: "sequential:" + where, Shape: "panic:" + clipS(fmt.Sprint(p), 60),
			Case: map[string]string{"where": where}, Detail: fmt.Sprintf("a plain sequential lookup (%s) panics: %v", where, p)})
	}
}

func validateModelInner(where *string) {
	for st := 0; st < 1<<uint(len(U)); st++ {
		_, g := freshGraph(uint8(st))
		for _, lk := range []string{lkTFS, lkObjects, lkTriples} {
			for _, opt := range []string{"", "latest", "isTemporal", "isImmutable"} {
				rec := &lookupRec{in: gin{LK: lk, Opt: opt}}
				*where = fmt.Sprintf("%s[%s] on %s", lk, opt, maskStr(uint8(st)))
				lo := optionsFor(opt)
				var err error
				if lk == lkObjects {
					ch := make(chan *triple.Object, 16)
					err = g.Objects(ctx, uS, uP1, lo, ch)
					for o := range ch {
						rec.got = append(rec.got, model.ObjKey(o))
					}
				} else {
					ch := make(chan *triple.Triple, 16)
					if lk == lkTFS {
						err = g.TriplesForSubject(ctx, uS, lo, ch)
					} else {
						err = g.Triples(ctx, lo, ch)
					}
					for t := range ch {
						rec.got = append(rec.got, model.TripleKey(t))
					}
				}
				m, bad := rec.resultMask()
				if err != nil || bad != "" || m != modelLookup(lk, opt, uint8(st)) {
					common.Machinery("MODEL-INVALID: sequential %s[%s] on %s: real store %s err=%v %s, model %s", lk, opt, maskStr(uint8(st)), maskStr(m), err, bad, maskStr(modelLookup(lk, opt, uint8(st))))
				}
			}
		}
	}
}

type scenReport struct {
	Variant        string         `json:"variant"`
	Mode           string         `json:"mode"`
	Exhaustive     bool           `json:"exhaustive"`
	BoundCompleted int            `json:"bound_completed"`
	Executions     int            `json:"executions"`
	Reexecutions   int            `json:"reexecutions"`
	Pruned         int            `json:"pruned_partial_runs"`
	DistinctHB     int            `json:"distinct_partial_orders"`
	Outcomes       int            `json:"distinct_outcomes"`
	MaxSteps       int            `json:"max_steps"`
	MaxThreads     int            `json:"max_threads"`
	Statuses       map[string]int `json:"statuses"`
	Failures       []string       `json:"failures,omitempty"`
	Infos          []string       `json:"informational,omitempty"`
	WallMs         int64          `json:"wall_ms"`
}

type schedCase struct {
	Clock   bool   `json:"visible_clock,omitempty"` // recorded with call/return instants as visible events (thorough tier)
	Variant string `json:"variant"`
	Mode    string `json:"mode"`
	Bound   int    `json:"bound"`
	Choices []int  `json:"choices"`
	Trace   string `json:"trace,omitempty"`
}

func main() {
	explore.ServeWorker(factory)
	if len(os.Args) > 1 && os.Args[1] == "--companion" {
		companion()
		return
	}
	r := common.Start("C07", "model_checking")
	r.Replayer("sched", func(raw json.RawMessage) (bool, string) {
		var c schedCase
		json.Unmarshal(raw, &c)
		visibleClock = c.Clock
		mk := factory(c.Variant)
		if mk == nil {
			return false, "unknown scenario variant " + c.Variant
		}
		sc0, _ := resolve(c.Variant)
		cfg := sc0.Cfg
		cfg.Diag = true
		out, vs, oc, bad := explore.Replay(cfg, mk, c.Choices)
		if bad != "" {
			common.Machinery("NONDETERMINISM replay does not fit the program: %s", bad)
		}
		var msgs []string
		for _, v := range vs {
			if !v.Info {
				msgs = append(msgs, v.Shape+": "+v.Detail)
			}
		}
		if len(msgs) > 0 {
			return false, fmt.Sprintf("%s schedule %v: %s\ntrace: %s", c.Variant, c.Choices, strings.Join(msgs, "\n"), vrt.FormatTrace(out.Trace))
		}
		return true, fmt.Sprintf("%s schedule %v: status %s, outcome %s", c.Variant, c.Choices, out.Status, oc)
	})
	r.Replayer("seq", func(raw json.RawMessage) (bool, string) {
		var where string
		if p := common.Guard(func() { validateModelInner(&where) }); p != nil {
			return false, fmt.Sprintf("sequential lookup %s panics: %v", where, p)
		}
		return true, "sequential lookups agree with the model"
	})
	r.Replayer("race", func(raw json.RawMessage) (bool, string) {
		var c struct{ Variant string }
		json.Unmarshal(raw, &c)
		rep := runCompanion(c.Variant, 200)
		if rep.Err != "" {
			common.Machinery("race companion: %s", rep.Err)
		}
		if len(rep.Races) > 0 {
			return false, fmt.Sprintf("free-running %s under the race detector: %s %v\n%s", c.Variant, rep.Shape, rep.Races, rep.Excerpt)
		}
		return true, "no race reported"
	})
	if r.Thorough() {
		os.Setenv("C07_VISIBLE_CLOCK", "1")
		visibleClock = true
	}
	r.MaybeReplay()
	if !vrt.Active() && os.Getenv("VSCHED_INSTRUMENTED") == "" {
		// the binary must have been built through build.sh (overlay); detect the plain build
		if !instrumented() {
			common.Machinery("cmd/c07 was built without the vsched overlay (use ./vcheck C07 or cmd/c07/build.sh)")
		}
	}
	validateModel(r)
	r.Assume("scheduling points at synchronisation operations (mutex, rwmutex, waitgroup, channel, select, go) suffice: code between two such operations is treated as atomic; validated, not decided, by the free-running -race companion")
	r.Assume("RWMutex writer preference, channel and WaitGroup semantics are the runtime's transcription of Go's documented behaviour (self-tests: go test ./explore)")
	r.Assume("linearizability is judged by porcupine against the set model: an AddTriples batch is one atomic operation, each removed triple its own operation inside the call's interval, a lookup one operation returning its whole result")

	var reports []scenReport
	totalExec, totalSteps, totalHB, totalOutcomes, historyChecked := 0, int64(0), 0, 0, 0
	var samples []map[string]interface{}
	shards := 8
	budget := time.Duration(r.Pick(140, 780)) * time.Second
	startAll := time.Now()
	deadline := startAll.Add(budget / 2).UnixMilli() // bounded phase: first half at most; then the sleep-set phase gets the rest

	type plan struct {
		variant string
		sc      *scenario
	}
	var plans []plan
	for _, v := range variants() {
		sc, _ := resolve(v)
		plans = append(plans, plan{v, sc})
	}
	// the per-lookup scenarios (S3c, S5c, S5d) are small: they go first so that a loaded machine cuts the
	// budget of the large scenarios, never theirs
	sort.SliceStable(plans, func(i, j int) bool {
		small := func(p plan) bool {
			return strings.HasPrefix(p.sc.Name, "S3c-") || strings.HasPrefix(p.sc.Name, "S5c-") || strings.HasPrefix(p.sc.Name, "S5d-")
		}
		return small(plans[i]) && !small(plans[j])
	})
	// phase 1: the primary mode of every variant, all shards of all variants in one pool
	run := func(mkJobs func(p plan) []explore.Job) map[string]*explore.Result {
		var jobs []explore.Job
		idx := map[string][]int{}
		for _, p := range plans {
			for _, j := range mkJobs(p) {
				idx[p.variant] = append(idx[p.variant], len(jobs))
				jobs = append(jobs, j)
			}
		}
		res, err := explore.RunJobs(jobs, 16)
		if err != nil {
			common.Machinery("worker failed: %v", err)
		}
		out := map[string]*explore.Result{}
		for v, is := range idx {
			var rs []*explore.Result
			for _, i := range is {
				rs = append(rs, res[i])
			}
			out[v] = explore.Merge(rs)
			if out[v].Nondet != "" {
				common.Machinery("NONDETERMINISM %s: %s", v, out[v].Nondet)
			}
		}
		return out
	}
	report := func(p plan, m *explore.Result, mode string, exhaustive bool, bound int) {
		sr := scenReport{Variant: p.variant, Mode: mode, Exhaustive: exhaustive, BoundCompleted: bound, Executions: m.Executions,
			Reexecutions: m.Reexecutions, Pruned: m.Pruned, DistinctHB: m.DistinctHB, Outcomes: len(m.Outcomes), MaxSteps: m.MaxSteps,
			MaxThreads: m.MaxThreads, Statuses: m.Statuses, WallMs: m.WallMs}
		for _, f := range m.Failures {
			sr.Failures = append(sr.Failures, fmt.Sprintf("%s x%d", f.Shape, f.Count))
			for i := 0; i < f.Count; i++ {
				r.Fail(common.Failure{Check: "sched", Class: f.Class, Shape: f.Shape,
					Case:   schedCase{Clock: visibleClock, Variant: p.variant, Mode: mode, Bound: bound, Choices: f.Choices, Trace: f.Trace},
					Detail: fmt.Sprintf("%s [%s], schedule %v (%d steps):\n%s", p.variant, mode, f.Choices, f.Outcome.Steps, f.Detail)})
			}
		}
		for _, f := range m.Infos {
			sr.Infos = append(sr.Infos, fmt.Sprintf("%s x%d (first schedule %v): %s", f.Shape, f.Count, f.Choices, firstLine(f.Detail)))
		}
		reports = append(reports, sr)
		totalExec += m.Executions
		historyChecked += m.Statuses["ok"]
		if len(samples) < 4 && m.SampleTrace != "" && mode == string(explore.SleepSets) {
			samples = append(samples, map[string]interface{}{"variant": p.variant, "mode": mode, "sample_op_trace": m.SampleTrace})
		}
		totalSteps += m.TotalSteps
		totalHB += m.DistinctHB
		totalOutcomes += len(m.Outcomes)
		if !exhaustive && mode == string(explore.SleepSets) {
			r.SetCapped()
		}
	}

	// bounded runs without reduction: primary for S3, hedge for the others; iterate the bound
	maxB := r.Pick(3, 4)
	alive := map[string]bool{}
	completed := map[string]int{}
	last := map[string]*explore.Result{}
	acc := map[string]*explore.Result{}
	for _, p := range plans {
		if p.sc.Mode == explore.Bounded || p.sc.Hedge {
			alive[p.variant] = true
			completed[p.variant] = -1
		}
	}
	for b := 0; b <= maxB; b++ {
		if time.Now().UnixMilli() > deadline {
			break
		}
		res := run(func(p plan) []explore.Job {
			if !alive[p.variant] {
				return nil
			}
			lim := r.Pick(2, 3) // hedge next to the sleep-set run
			if p.sc.Mode == explore.Bounded {
				lim = r.Pick(p.sc.BoundQ, p.sc.BoundT)
			}
			if b > lim {
				return nil
			}
			var js []explore.Job
			n := shards
			if b == 0 {
				n = 1
			}
			for s := 0; s < n; s++ {
				js = append(js, explore.Job{Scenario: p.variant, Opt: explore.Options{Mode: explore.Bounded, Bound: b, OnlyLevel: b > 0,
					Shard: s, Shards: n, DeadlineMs: deadline, KeepHB: 400000, Cfg: p.sc.Cfg}})
			}
			return js
		})
		for v, m := range res {
			if m.Complete {
				completed[v] = b
			} else {
				alive[v] = false
			}
			last[v] = m
			if acc[v] == nil {
				acc[v] = m
			} else {
				acc[v] = explore.Merge([]*explore.Result{acc[v], m})
			}
		}
	}
	minBound := 1 << 30
	for _, p := range plans {
		if m := acc[p.variant]; m != nil {
			report(p, m, string(explore.Bounded), false, completed[p.variant])
			if p.sc.Name == "S3" && completed[p.variant] < minBound {
				minBound = completed[p.variant]
			}
		}
	}
	// sleep-set exhaustive runs
	deadline = startAll.Add(budget).UnixMilli()
	ss := run(func(p plan) []explore.Job {
		if p.sc.Mode != explore.SleepSets {
			return nil
		}
		var js []explore.Job
		for s := 0; s < shards; s++ {
			js = append(js, explore.Job{Scenario: p.variant, Opt: explore.Options{Mode: explore.SleepSets, Shard: s, Shards: shards, SplitAt: 6, Cfg: p.sc.Cfg,
				DeadlineMs: deadline, KeepHB: 400000}})
		}
		return js
	})
	for _, p := range plans {
		if m := ss[p.variant]; m != nil {
			report(p, m, string(explore.SleepSets), m.Complete, -1)
		}
	}
	sort.Slice(reports, func(i, j int) bool {
		if reports[i].Variant != reports[j].Variant {
			return reports[i].Variant < reports[j].Variant
		}
		return reports[i].Mode > reports[j].Mode
	})

	// free-running companion under the race detector (validation of the assumption, not a verdict of this family)
	comp := map[string]interface{}{}
	iters := r.Pick(150, 1500)
	clean := 0
	reps := make([]compReport, len(plans))
	common.ParallelFor(len(plans), func(i int) {
		if plans[i].sc.Info {
			reps[i] = compReport{Err: "informational scenario (deadlocks by design when free-running)"}
			return
		}
		reps[i] = runCompanion(plans[i].variant, iters)
	})
	for i, p := range plans {
		rep := reps[i]
		if rep.Err != "" {
			comp[p.variant] = "not run: " + rep.Err
			continue
		}
		if rep.Harness > 0 {
			common.Machinery("the harness of %s races with itself under -race (%d accesses in package main)", p.variant, rep.Harness)
		}
		if len(rep.Races) == 0 {
			clean++
			comp[p.variant] = fmt.Sprintf("%d free runs, no race reported", rep.Runs)
			continue
		}
		comp[p.variant] = map[string]interface{}{"runs": rep.Runs, "racing_functions": rep.Races, "shape": rep.Shape}
		r.Fail(common.Failure{Check: "race", Class: p.sc.Class, Shape: rep.Shape,
			Case:   map[string]string{"Variant": p.variant},
			Detail: fmt.Sprintf("free-running %s (real sync, no scheduler) under the Go race detector reports data races in %v\n%s", p.variant, rep.Races, rep.Excerpt)})
	}
	r.Set("race_companion", comp)
	r.Set("race_companion_clean_variants", clean)

	r.Set("scenarios", reports)
	r.Set("schedules", totalExec)                          // complete executions evaluated
	r.Set("transitions", int(totalSteps))                  // scheduled operations over all of them
	r.Set("traces_validated_against_impl", historyChecked) // executions that ended normally and whose recorded history went through the model oracle
	r.Set("states", totalHB)                               // distinct happens-before partial orders of the op traces (per variant and mode, summed)
	r.Set("distinct_outcomes", totalOutcomes)
	if minBound == 1<<30 {
		minBound = -1
	}
	r.Set("bound_completed_S3", minBound)
	r.Set("bound_completed_S6", completed["S6/cap0"])
	r.Set("rule", "per scenario variant (S1,S2,S4,S4b,S3c, S5c and S5d x each of the eleven lookups, S5a,S5b,S7 x result-channel capacity 0/1): every Mazurkiewicz trace of the synchronisation operations (sleep sets, unbounded) plus every schedule with <= bound-1 deviations without reduction; S3 (shared LookupOptions, racy by design) and S6 (BQL INSERT || 2-clause SELECT, 25 threads): every schedule with <= bound deviations, no reduction")
	if b, err := os.ReadFile(filepath.Join(common.Root(), "work/instr/c07/inventory.json")); err == nil {
		var inv map[string]interface{}
		if json.Unmarshal(b, &inv) == nil {
			r.Set("instrumentation_inventory", inv)
		}
	}
	r.Sample(map[string]interface{}{"variant": "S1/cap0", "threads": "root, add{t0,t1}, lookup TriplesForSubject + consumer, exist(t0)", "event": "t<thread>:<op>#<object>/<alternative>"})
	for _, sm := range samples {
		r.Sample(sm)
	}
	for _, sr := range reports {
		st, _ := json.Marshal(sr.Statuses)
		fmt.Printf("  %-9s %-9s exhaustive=%-5v bound=%2d executions=%-7d partial-orders=%-7d outcomes=%-4d max-steps=%-3d threads=%d pruned=%d %s %v %v\n",
			sr.Variant, sr.Mode, sr.Exhaustive, sr.BoundCompleted, sr.Executions, sr.DistinctHB, sr.Outcomes, sr.MaxSteps, sr.MaxThreads, sr.Pruned, st, sr.Failures, sr.Infos)
	}
	r.Finish()
}

func firstLine(s string) string {
	if i := strings.Index(s, "\n"); i >= 0 {
		return s[:i]
	}
	return s
}

// instrumented reports whether storage/memory was compiled from the rewritten
// sources: under the scheduler a lookup must produce scheduling events.
func instrumented() bool {
	n := 0
	out := vrt.Run(vrt.Config{}, vrt.DefaultChooser{}, func() {
		_, g := freshGraph(1)
		ch := vrt.MakeChan[*triple.Triple](4)
		g.Triples(ctx, storage.DefaultLookup, ch)
		for range vrt.Range(ch) {
			n++
		}
	})
	return out.Status == vrt.StOK && n == 1 && out.Steps >= 4
}

// ---- free-running companion -------------------------------------------------------------------------

type compReport struct {
	Harness int
	Shape   string
	Runs    int
	Races   []string
	Excerpt string
	Err     string
}

var lookupFn = regexp.MustCompile(`^memory\.\(\*memory\)\.(Objects|Subjects|Predicates\w*|Triples\w*)(\.func\d+)?$`)

var fatalRe = regexp.MustCompile(`(?m)^fatal error: (.*)$`)

var accessHdr = regexp.MustCompile(`^(?:Previous )?(?:[Ww]rite|[Rr]ead) at 0x[0-9a-f]+ by `)

// raceSites returns, for every access of every race report, the innermost
// frame that is not the Go runtime or the vsched runtime.
func raceSites(stderr string) []string {
	var out []string
	lines := strings.Split(stderr, "\n")
	for i := 0; i < len(lines); i++ {
		if !accessHdr.MatchString(lines[i]) {
			continue
		}
		for j := i + 1; j < len(lines) && strings.TrimSpace(lines[j]) != ""; j++ {
			l := lines[j]
			if !strings.HasPrefix(l, "  ") || strings.HasPrefix(l, "      ") {
				continue // file:line rows
			}
			fn := strings.TrimSpace(l)
			if k := strings.LastIndex(fn, "("); k > 0 {
				fn = fn[:k]
			}
			if strings.HasPrefix(fn, "runtime.") || strings.HasPrefix(fn, "verif/vrt.") || strings.HasPrefix(fn, "verif/vsync.") || strings.HasPrefix(fn, "internal/") || strings.HasPrefix(fn, "sync.") {
				continue
			}
			if strings.Contains(fn, ".MapRange[") || strings.Contains(fn, ".Range[") {
				continue // the runtime's iterator inlined into its caller
			}
			if k := strings.LastIndex(fn, "/"); k >= 0 {
				fn = fn[k+1:]
			}
			out = append(out, fn)
			break
		}
	}
	return out
}

// runCompanion executes `<binary>-race --companion <variant> <n>`: the same
// scenario bodies, natively (real sync, real goroutines), under -race.
func runCompanion(variant string, n int) compReport {
	exe, err := os.Executable()
	if err != nil {
		return compReport{Err: err.Error()}
	}
	race := exe + "-race"
	if _, err := os.Stat(race); err != nil {
		return compReport{Err: "no -race build next to the check binary (" + race + ")"}
	}
	cmd := exec.Command(race, "--companion", variant, fmt.Sprint(n))
	cmd.Env = append(os.Environ(), "GORACE=halt_on_error=0 exitcode=0")
	var out, eb bytes.Buffer
	cmd.Stdout, cmd.Stderr = &out, &eb
	runErr := cmd.Run()
	rep := compReport{Runs: n}
	seen := map[string]bool{}
	for _, fn := range raceSites(eb.String()) {
		if strings.HasPrefix(fn, "main.") {
			rep.Harness++ // an access of the harness itself: a bug of this check, not of badwolf
			continue
		}
		if !seen[fn] {
			seen[fn] = true
			rep.Races = append(rep.Races, fn)
		}
	}
	if m := fatalRe.FindStringSubmatch(eb.String()); m != nil {
		// the Go runtime itself aborted the free run (e.g. "concurrent map writes")
		rep.Races = append(rep.Races, "runtime-fatal:"+strings.ReplaceAll(m[1], " ", "-"))
	} else if runErr != nil && len(rep.Races) == 0 {
		return compReport{Err: fmt.Sprintf("%v: %s", runErr, clipS(eb.String(), 800))}
	}
	sort.Strings(rep.Races)
	if len(rep.Races) > 0 {
		rep.Excerpt = clipS(eb.String(), 2500)
		// shape: which kind of code races with which
		onlyLookups := true
		for _, fn := range rep.Races {
			if !lookupFn.MatchString(fn) {
				onlyLookups = false
			}
		}
		if onlyLookups {
			rep.Shape = "data-race:memory-lookup-vs-memory-lookup"
		} else {
			rep.Shape = "data-race:" + strings.Join(rep.Races, ",")
		}
	}
	return rep
}

func clipS(s string, n int) string {
	if len(s) > n {
		return s[:n] + "…"
	}
	return s
}

func companion() {
	if len(os.Args) < 4 {
		os.Exit(2)
	}
	sc, c := resolve(os.Args[2])
	n := 0
	fmt.Sscan(os.Args[3], &n)
	if sc == nil || n <= 0 {
		os.Exit(2)
	}
	done := make(chan struct{})
	go func() {
		for i := 0; i < n; i++ {
			ex := sc.mk(c, true)()
			ex.Body()
		}
		close(done)
	}()
	select {
	case <-done:
	case <-time.After(120 * time.Second):
		fmt.Fprintln(os.Stderr, "companion: free run did not terminate")
		os.Exit(3)
	}
	fmt.Println("companion done")
}
