package main

// S5c: the error paths of EVERY lookup of the driver. Each of the eleven lookups is called with
// options the driver rejects (LatestAnchor together with FilterOptions) and with a nil channel,
// next to a concurrent AddTriples: it must return an error, close its channel exactly
// once without delivering anything (a channel left open parks its consumer: deadlock verdict),
// and leave the options untouched.

import (
	"fmt"
	"sort"
	"strings"

	"github.com/google/badwolf/storage"
	"github.com/google/badwolf/storage/memory"
	"github.com/google/badwolf/triple"
	"github.com/google/badwolf/triple/node"
	"github.com/google/badwolf/triple/predicate"

	"verif/explore"
	"verif/model"
	"verif/vrt"
)

// spawnErrLookup runs one lookup that must fail in its own thread, its consumer in another.
func spawnErrLookup[T any](h *hctx, name string, lo *storage.LookupOptions, capacity int, nilChan bool, call func(ch chan T) error) {
	spawnAnyLookup(h, name, lo, capacity, nilChan, true, call)
}

// spawnAnyLookup: wantErr=false is a lookup that must succeed; its elements are not put through the
// sequential model (noModel): closure, error and the caller's options (before, at every receive, after).
func spawnAnyLookup[T any](h *hctx, name string, lo *storage.LookupOptions, capacity int, nilChan, wantErr bool, call func(ch chan T) error) {
	rec := &lookupRec{name: name, in: gin{Kind: "lookup", LK: name}, lo: lo, nilChan: nilChan, wantErr: wantErr, noModel: !wantErr}
	if !h.native {
		rec.loBefore = snap(lo)
	}
	h.looks = append(h.looks, rec)
	h.wg.Add(1)
	var ch chan T
	if !nilChan {
		ch = vrt.MakeChan[T](capacity)
		h.wg.Add(1)
		vrt.GoNamed(name+"-consumer", func() {
			defer h.wg.Done()
			for e := range vrt.Range(ch) {
				rec.got = append(rec.got, fmt.Sprint(e))
				if !h.native {
					rec.loSeen = append(rec.loSeen, snap(lo))
				}
			}
			rec.closed = true
		})
	}
	vrt.GoNamed(name, func() {
		defer h.wg.Done()
		rec.call = h.tick()
		rec.err = call(ch)
		rec.ret = h.tick()
		if !h.native {
			rec.loAfter = snap(lo)
		}
	})
}

type errLookup struct {
	name  string
	spawn func(h *hctx, g storage.Graph, name string, lo *storage.LookupOptions, c int, nilChan, wantErr bool)
}

func errLookups() []errLookup {
	tr := func(call func(g storage.Graph, lo *storage.LookupOptions, ch chan *triple.Triple) error) func(*hctx, storage.Graph, string, *storage.LookupOptions, int, bool, bool) {
		return func(h *hctx, g storage.Graph, name string, lo *storage.LookupOptions, c int, nilChan, wantErr bool) {
			spawnAnyLookup(h, name, lo, c, nilChan, wantErr, func(ch chan *triple.Triple) error { return call(g, lo, ch) })
		}
	}
	pr := func(call func(g storage.Graph, lo *storage.LookupOptions, ch chan *predicate.Predicate) error) func(*hctx, storage.Graph, string, *storage.LookupOptions, int, bool, bool) {
		return func(h *hctx, g storage.Graph, name string, lo *storage.LookupOptions, c int, nilChan, wantErr bool) {
			spawnAnyLookup(h, name, lo, c, nilChan, wantErr, func(ch chan *predicate.Predicate) error { return call(g, lo, ch) })
		}
	}
	return []errLookup{
		{"Objects", func(h *hctx, g storage.Graph, name string, lo *storage.LookupOptions, c int, nilChan, wantErr bool) {
			spawnAnyLookup(h, name, lo, c, nilChan, wantErr, func(ch chan *triple.Object) error { return g.Objects(ctx, uS, uP1, lo, ch) })
		}},
		{"Subjects", func(h *hctx, g storage.Graph, name string, lo *storage.LookupOptions, c int, nilChan, wantErr bool) {
			spawnAnyLookup(h, name, lo, c, nilChan, wantErr, func(ch chan *node.Node) error { return g.Subjects(ctx, uP1, uO1, lo, ch) })
		}},
		{"PredicatesForSubjectAndObject", pr(func(g storage.Graph, lo *storage.LookupOptions, ch chan *predicate.Predicate) error {
			return g.PredicatesForSubjectAndObject(ctx, uS, uO1, lo, ch)
		})},
		{"PredicatesForSubject", pr(func(g storage.Graph, lo *storage.LookupOptions, ch chan *predicate.Predicate) error {
			return g.PredicatesForSubject(ctx, uS, lo, ch)
		})},
		{"PredicatesForObject", pr(func(g storage.Graph, lo *storage.LookupOptions, ch chan *predicate.Predicate) error {
			return g.PredicatesForObject(ctx, uO1, lo, ch)
		})},
		{"TriplesForSubject", tr(func(g storage.Graph, lo *storage.LookupOptions, ch chan *triple.Triple) error {
			return g.TriplesForSubject(ctx, uS, lo, ch)
		})},
		{"TriplesForPredicate", tr(func(g storage.Graph, lo *storage.LookupOptions, ch chan *triple.Triple) error {
			return g.TriplesForPredicate(ctx, uP1, lo, ch)
		})},
		{"TriplesForObject", tr(func(g storage.Graph, lo *storage.LookupOptions, ch chan *triple.Triple) error {
			return g.TriplesForObject(ctx, uO1, lo, ch)
		})},
		{"TriplesForSubjectAndPredicate", tr(func(g storage.Graph, lo *storage.LookupOptions, ch chan *triple.Triple) error {
			return g.TriplesForSubjectAndPredicate(ctx, uS, uP1, lo, ch)
		})},
		{"TriplesForPredicateAndObject", tr(func(g storage.Graph, lo *storage.LookupOptions, ch chan *triple.Triple) error {
			return g.TriplesForPredicateAndObject(ctx, uP1, uO1, lo, ch)
		})},
		{"Triples", tr(func(g storage.Graph, lo *storage.LookupOptions, ch chan *triple.Triple) error {
			return g.Triples(ctx, lo, ch)
		})},
	}
}

func init() {
	for _, el := range errLookups() {
		el := el
		scenarios = append(scenarios, scenario{
			Name: "S5c-" + el.name, Class: "S5c:rejected-options|Add:" + el.name,
			Mode: explore.SleepSets, Initial: 0b0100,
			Body: func(h *hctx, c int) {
				_, g := freshGraph(0b0100)
				h.spawnUpdate(0, g, "add", 0b0011)
				both := optionsFor("isTemporal")
				both.LatestAnchor = true
				el.spawn(h, g, el.name+"/latest+filter", both, c, false, true)
			}})
		scenarios = append(scenarios, scenario{
			Name: "S5d-" + el.name, Class: "S5d:nil-channel|Add:" + el.name,
			Mode: explore.SleepSets, Initial: 0b0100, OneCap: true,
			Body: func(h *hctx, c int) {
				_, g := freshGraph(0b0100)
				h.spawnUpdate(0, g, "add", 0b0011)
				el.spawn(h, g, el.name+"/nilchan", optionsFor(""), c, true, true)
			}})
		// S3c: the lookup with LatestAnchor (the driver synthesizes a filter for it) next to a writer: it succeeds,
		// closes, and the caller's options are the same before, at every receive and after
		scenarios = append(scenarios, scenario{
			Name: "S3c-" + el.name, Class: "S3c:LatestAnchor-options-untouched|Add:" + el.name,
			// the graph holds two temporal predicate ids, so that lookups by subject or object deliver two results: the
			// consumer looks at the options after the first one, while the driver is parked on the second send (plain
			// code that follows the LAST send runs before the next scheduling point and cannot be interleaved here)
			Mode: explore.SleepSets, Hedge: true, Initial: 0b11011,
			Body: func(h *hctx, c int) {
				_, g := freshGraph(0b11011)
				h.spawnUpdate(0, g, "add", 0b0100)
				el.spawn(h, g, el.name+"/latest", optionsFor("latest"), c, false, false)
			}})
	}
}

// S4b: writes and reads through handles while the graph is dropped and re-created. One thread adds through a handle
// obtained before, one fetches a handle and adds through it (what a BQL INSERT does), one drops the graph, one
// creates it again. No panic, no deadlock; the store-level operations are linearizable; what the handle operations
// return is not judged (a write through a stale handle is lost, as C01 states for the sequential case).
func init() {
	scenarios = append(scenarios, scenario{
		Name: "S4b", Class: "S4b:Add-through-handle|Graph+Add|DeleteGraph|NewGraph", Mode: explore.SleepSets, Hedge: true, Store: true, OneCap: true,
		Body: func(h *hctx, c int) {
			st := memory.NewStore()
			g0, err := st.NewGraph(ctx, "?x")
			if err != nil {
				panic(err)
			}
			h.record(9, gin{Kind: "new"}, -1, 0, gout{OK: true})
			h.wg.Add(4)
			vrt.GoNamed("add-old-handle", func() {
				defer h.wg.Done()
				g0.AddTriples(ctx, pick(0b0001))
				g0.Exist(ctx, U[0])
			})
			vrt.GoNamed("get+add", func() {
				defer h.wg.Done()
				cl := h.tick()
				g, err := st.Graph(ctx, "?x")
				r := h.tick()
				h.record(1, gin{Kind: "get"}, cl, r, gout{Err: err != nil, OK: g != nil})
				if err == nil {
					g.AddTriples(ctx, pick(0b0010))
					g.RemoveTriples(ctx, pick(0b0010))
				}
			})
			vrt.GoNamed("del", func() {
				defer h.wg.Done()
				cl := h.tick()
				err := st.DeleteGraph(ctx, "?x")
				r := h.tick()
				h.record(2, gin{Kind: "del"}, cl, r, gout{Err: err != nil})
			})
			vrt.GoNamed("new", func() {
				defer h.wg.Done()
				cl := h.tick()
				g, err := st.NewGraph(ctx, "?x")
				r := h.tick()
				h.record(3, gin{Kind: "new"}, cl, r, gout{Err: err != nil, OK: g != nil})
				if err == nil {
					g.AddTriples(ctx, pick(0b0100))
				}
			})
		}})
}

// S6b: a BQL CONSTRUCT (bulk size 1, five solutions) next to a BQL DROP GRAPH of its output graph: both statements
// return (a table or an error); the writer of the CONSTRUCT and its producer never park each other.
func init() {
	scenarios = append(scenarios, scenario{
		Name: "S6b", Class: "S6b:BQL-CONSTRUCT|BQL-DROP-of-its-output-graph", Mode: explore.Bounded, OneCap: true, Cfg: vrt.Config{Procs: 2}, BoundQ: 1, BoundT: 2,
		Body: func(h *hctx, c int) {
			st := memory.NewStore()
			g, err := st.NewGraph(ctx, "?g")
			if err != nil {
				panic(err)
			}
			if _, err := st.NewGraph(ctx, "?d"); err != nil {
				panic(err)
			}
			var ts []*triple.Triple
			for i := 0; i < 5; i++ {
				ts = append(ts, model.T(uS, model.PI("p"), model.ON(model.N("/u", fmt.Sprintf("o%d", i)))))
			}
			if err := g.AddTriples(ctx, ts); err != nil {
				panic(err)
			}
			h.wg.Add(2)
			vrt.GoNamed("construct", func() {
				defer h.wg.Done()
				h.bqlIns = runBQL(st, `construct {?s "q"@[] ?o} into ?d from ?g where {?s "p"@[] ?o};`, 0, 1)
			})
			vrt.GoNamed("drop", func() {
				defer h.wg.Done()
				h.bqlSel = runBQL(st, `drop graph ?d;`, 0, 1)
			})
			h.wg.Wait()
			vrt.MarkReturned()
		},
		Custom: func(h *hctx, add func(shape, detail string)) string {
			if h.bqlSel.err != nil {
				add("drop-returned-error", h.bqlSel.err.Error())
			}
			// the CONSTRUCT may finish before the drop (success) or lose its graph on the way (an error): both are answers
			return fmt.Sprintf("constructErr=%v", h.bqlIns.err != nil)
		}})
}

// S6c: a BQL SHOW GRAPHS next to a BQL CREATE GRAPH and a BQL DROP GRAPH on a store that holds two graphs: the driver
// streams the names while it holds the store's lock for reading, and whatever the statement does per name must not
// wait behind a writer that waits for that stream. All three statements return; SHOW lists each graph at most once,
// always the graph nobody touches, and nothing that never existed.
func init() {
	scenarios = append(scenarios, scenario{
		Name: "S6c", Class: "S6c:BQL-SHOW-GRAPHS|BQL-CREATE-GRAPH|BQL-DROP-GRAPH", Mode: explore.Bounded, OneCap: true, Cfg: vrt.Config{Procs: 2}, BoundQ: 2, BoundT: 3,
		Body: func(h *hctx, c int) {
			st := memory.NewStore()
			for _, n := range []string{"?g", "?d"} {
				if _, err := st.NewGraph(ctx, n); err != nil {
					panic(err)
				}
			}
			h.wg.Add(3)
			vrt.GoNamed("show", func() {
				defer h.wg.Done()
				h.bqlSel = runBQL(st, `show graphs;`, 0, 1)
			})
			vrt.GoNamed("create", func() {
				defer h.wg.Done()
				h.bqlIns = runBQL(st, `create graph ?x;`, 0, 1)
			})
			var drop bqlResult
			vrt.GoNamed("drop", func() {
				defer h.wg.Done()
				drop = runBQL(st, `drop graph ?d;`, 0, 1)
				if drop.err != nil {
					h.bqlIns.err = drop.err
				}
			})
			h.wg.Wait()
			vrt.MarkReturned()
		},
		Custom: func(h *hctx, add func(shape, detail string)) string {
			if h.bqlIns.err != nil {
				add("create-or-drop-returned-error", h.bqlIns.err.Error())
			}
			if h.bqlSel.err != nil {
				add("show-returned-error", h.bqlSel.err.Error())
				return "show failed"
			}
			seen := map[string]int{}
			for _, row := range h.bqlSel.rows {
				seen[row]++
			}
			var names []string
			for n, k := range seen {
				names = append(names, n)
				if k > 1 {
					add("show-lists-a-graph-twice", fmt.Sprint(h.bqlSel.rows))
				}
			}
			sort.Strings(names)
			oc := strings.Join(names, ",")
			if !strings.Contains(oc, "?g") {
				add("show-misses-a-graph-nobody-touches", oc)
			}
			for _, n := range names {
				if !strings.Contains(n, "?g") && !strings.Contains(n, "?d") && !strings.Contains(n, "?x") {
					add("show-lists-a-graph-that-never-existed", oc)
				}
			}
			return oc
		}})
}
