#!/bin/bash
# cmd/c07/build.sh <output-binary>
# Instruments the CURRENT /repo working tree and builds the C07 harness (and its
# free-running -race companion) against the rewritten copies through an overlay.
set -e
out="$1"
here="$(cd "$(dirname "$0")/../.." && pwd)"
cd "$here"
. ./env.sh
case "$out" in /*) ;; *) out="$here/$out" ;; esac
mkdir -p work/bin work/instr
go build -o work/bin/instr ./instr
# VSCHED_REPO: instrument another checkout (a scratch worktree with a candidate fix or a
# deliberate property-breaking change) while still building against /repo through the overlay.
work/bin/instr -q -out work/instr/c07 -repo "${VSCHED_REPO:-/repo}" -overlay-root /repo \
  -pkgs ./storage/...,./bql/...,./triple/...,./io/... \
  -exclude github.com/google/badwolf/triple/node,github.com/google/badwolf/bql/planner/tracer
ov=work/instr/c07/overlay.json
go build -overlay "$ov" -o "$out" ./cmd/c07 &
p1=$!
CGO_ENABLED=1 go build -race -overlay "$ov" -o "$out-race" ./cmd/c07 &
p2=$!
wait $p1
wait $p2 || { echo "note: -race companion build failed; the check runs without it" >&2; rm -f "$out-race"; }
