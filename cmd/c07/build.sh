#!/bin/bash
# cmd/c07/build.sh <output-binary>
# Instruments the CURRENT /repo working tree and builds the C07 harness (and its
# free-running -race companion) against the rewritten copies through an overlay.
set -e
out="$1"
here="$(cd "$(dirname "$0")/../.." && pwd)"
cd "$here"
. ./env.sh
case "$out" in /*) ;; *) out="$here/$out" ;; esac
mkdir -p work/bin work/instr
go build -o work/bin/instr ./instr
work/bin/instr -q -out work/instr/c07 \
  -pkgs ./storage/...,./bql/...,./triple/...,./io/... \
  -exclude github.com/google/badwolf/triple/node,github.com/google/badwolf/bql/planner/tracer
ov=work/instr/c07/overlay.json
if [ -n "$VSCHED_EXTRA_OVERLAY" ]; then
  # demonstrations: a modified /repo file (itself instrumented from a scratch copy) replaces the generated one
  python3 - "$ov" "$VSCHED_EXTRA_OVERLAY" <<'PY'
import json,sys
a=json.load(open(sys.argv[1])); b=json.load(open(sys.argv[2]))
a["Replace"].update(b["Replace"]); json.dump(a,open(sys.argv[1],"w"),indent=1)
PY
fi
go build -overlay "$ov" -o "$out" ./cmd/c07 &
p1=$!
CGO_ENABLED=1 go build -race -overlay "$ov" -o "$out-race" ./cmd/c07 &
p2=$!
wait $p1
wait $p2 || { echo "note: -race companion build failed; the check runs without it" >&2; rm -f "$out-race"; }
