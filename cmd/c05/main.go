// C05 — printed nodes, predicates, literals, triples and graphs parse back to
// equal values.
//
// Bounded-exhaustive enumeration (no sampling): every value of a finite
// universe built from delimiter-heavy alphabets and numeric boundary sets is
// printed with String(), parsed back with the matching parser, compared
// structurally (anchors: same instant AND same offset) and printed again.
// Graphs: every subset up to a size bound of a triple universe is written with
// io.WriteGraph and read into an empty graph with io.ReadIntoGraph.
package main

import (
	"bytes"
	"encoding/json"
	"fmt"
	"math"
	"os"
	"runtime/debug"
	"runtime/pprof"
	"sort"
	"strconv"
	"strings"
	"sync"
	"sync/atomic"
	"time"

	bwio "github.com/google/badwolf/io"
	"github.com/google/badwolf/storage"
	"github.com/google/badwolf/storage/memory"
	"github.com/google/badwolf/triple"
	"github.com/google/badwolf/triple/literal"
	"github.com/google/badwolf/triple/node"
	"github.com/google/badwolf/triple/predicate"

	"verif/common"
	"verif/model"
	"verif/vals"
)

// ---- input classifier: hazards of a value (a predicate over the case alone) ----

const (
	// printed form `"<id>"@[…]` contains a `"@[` before the real one
	hzPredDelim = "predicate-id-starts-with-at-bracket-or-contains-quote-at-bracket"
	// printed form `"<text>"^^type:text` contains a `"^^type:` before the real one …
	hzTextDelim = "text-literal-contains-quote-caret-caret-type"
	// … or the opening quote itself forms it
	hzTextStart = "text-literal-starts-with-caret-caret-type"
	// ParseObject tries the literal parser before the predicate parser
	hzPredObjType = "predicate-object-id-contains-quote-caret-caret-type"
	hzTextLF      = "graph-text-literal-contains-line-feed"
	hzLongLine    = "graph-line-longer-than-64KiB"
)

// longLine is the printed-line length (newline included) above which a triple
// is tagged hzLongLine: bufio.MaxScanTokenSize.
const longLine = 64 * 1024

// hazards tags the value with the input classes of the defects recorded in
// known_findings.json / fixes (a predicate over the case alone).
func hazards(s *vals.Spec, inGraph, asObject bool, set map[string]bool) {
	switch s.K {
	case "pred":
		id := string(s.ID)
		if strings.HasPrefix(id, "@[") || strings.Contains(id, `"@[`) {
			set[hzPredDelim] = true
		}
		if asObject && strings.Contains(id, `"^^type:`) {
			set[hzPredObjType] = true
		}
	case "lit":
		if s.T == "text" {
			switch {
			case strings.HasPrefix(string(s.V), "^^type:"):
				set[hzTextStart] = true
			case strings.Contains(string(s.V), `"^^type:`):
				set[hzTextDelim] = true
			}
			if inGraph && strings.Contains(string(s.V), "\n") {
				set[hzTextLF] = true
			}
		}
		if inGraph && (s.T == "text" || s.T == "blob") && len(s.V) > longLine/8 {
			// the exact line length is decided by the caller (needs the other parts)
			set["?long"] = true
		}
	case "obj":
		hazards(s.O, inGraph, true, set)
	case "triple":
		hazards(s.S, inGraph, false, set)
		hazards(s.P, inGraph, false, set)
		hazards(s.O, inGraph, false, set)
	}
}

func classOf(hz map[string]bool, fallback string) string {
	var tags []string
	for t := range hz {
		if t != "?long" {
			tags = append(tags, t)
		}
	}
	if len(tags) == 0 {
		return "in-domain:" + fallback
	}
	sort.Strings(tags)
	return strings.Join(tags, "+")
}

func kindOf(s *vals.Spec) string {
	switch s.K {
	case "lit":
		return "literal-" + s.T
	case "obj":
		return "object-" + kindOf(s.O)
	}
	return s.K
}

// ---- the round trip of one value -----------------------------------------------

type vcase struct {
	Value *vals.Spec `json:"value"`
	Via   string     `json:"via"` // which parser reads the printed form
}

var bounded = literal.NewBoundedBuilder(1 << 20)

// bounded8 accepts text and blobs of at most 8 bytes (and every number): what it can build it must read back
var bounded8 = literal.NewBoundedBuilder(8)

// stall reports calls that do not return (set in main)
var stall *common.StallWatch

// parseVia parses text with the named parser; returns the parsed value's
// offset-aware structural key, its printed form, and nil-ness.
func parseVia(via, text string) (key, reprint string, isNil bool, err error) {
	switch via {
	case "node.Parse":
		n, e := node.Parse(text)
		if e != nil || n == nil {
			return "", "", n == nil, e
		}
		return model.NodeKey(n), n.String(), false, nil
	case "predicate.Parse":
		p, e := predicate.Parse(text)
		if e != nil || p == nil {
			return "", "", p == nil, e
		}
		return vals.PredKey(p, true), p.String(), false, nil
	case "literal.Parse", "literal.BoundedParse", "literal.BoundedParse8":
		b := literal.DefaultBuilder()
		if via == "literal.BoundedParse" {
			b = bounded
		}
		if via == "literal.BoundedParse8" {
			b = bounded8
		}
		l, e := b.Parse(text)
		if e != nil || l == nil {
			return "", "", l == nil, e
		}
		return model.LitKey(l), l.String(), false, nil
	case "triple.ParseObject":
		o, e := triple.ParseObject(text, literal.DefaultBuilder())
		if e != nil || o == nil {
			return "", "", o == nil, e
		}
		if vals.ObjKind(o) == "invalid" {
			return "", "", true, nil
		}
		return vals.ObjKey(o, true), o.String(), false, nil
	case "triple.Parse":
		t, e := triple.Parse(text, literal.DefaultBuilder())
		if e != nil || t == nil {
			return "", "", t == nil, e
		}
		if t.Subject() == nil || t.Predicate() == nil || vals.ObjKind(t.Object()) == "invalid" || vals.ObjKind(t.Object()) == "nil" {
			return "", "", true, nil
		}
		return vals.TripleKey(t, true), t.String(), false, nil
	}
	common.Machinery("unknown parser %q", via)
	return
}

func printed(v *vals.Value) string {
	switch {
	case v.N != nil:
		return v.N.String()
	case v.P != nil:
		return v.P.String()
	case v.L != nil:
		return v.L.String()
	case v.O != nil:
		return v.O.String()
	default:
		return v.T.String()
	}
}

// roundtrip is the oracle for one value: returns ok or (shape, detail).
func roundtrip(v *vals.Value, via string) (ok bool, shape, detail string) {
	var text string
	if p := vals.Guard(func() { text = printed(v) }); p != nil {
		return false, "panic-in-String:" + p.Kind + "@" + p.Site, p.Msg
	}
	var key, reprint string
	var isNil bool
	var err error
	if p := vals.Guard(func() { key, reprint, isNil, err = parseVia(via, text) }); p != nil {
		return false, "panic-on-own-output:" + p.Kind + "@" + p.Site, fmt.Sprintf("%s(%q) panics: %s", via, text, p.Msg)
	}
	if err != nil {
		return false, "parse-error-on-own-output", fmt.Sprintf("%s(%q) = error %v", via, text, err)
	}
	if isNil {
		return false, "nil-nil-on-own-output", fmt.Sprintf("%s(%q) = (nothing, nil error)", via, text)
	}
	if want := v.Key(true); key != want {
		return false, "parsed-value-differs", fmt.Sprintf("%s(%q): want %s got %s", via, text, want, key)
	}
	if reprint != text {
		return false, "reprint-differs", fmt.Sprintf("%s(%q) prints again as %q", via, text, reprint)
	}
	return true, "", ""
}

func checkValue(s *vals.Spec, via string) (ok bool, class, shape, detail string) {
	v, err := vals.Build(s)
	if err != nil {
		common.Machinery("universe value %s not constructible: %v", s.Short(), err)
	}
	ok, shape, detail = roundtrip(v, via)
	if ok {
		return true, "", "", ""
	}
	hz := map[string]bool{}
	hazards(s, false, false, hz)
	return false, classOf(hz, kindOf(s)), shape, s.Short() + ": " + detail
}

// ---- universes -------------------------------------------------------------------

// "n" after the backslash: the two characters an escaping scheme for line feeds would claim
var idAlpha = []string{"a", "/", `"`, "@", "[", "]", `\`, "n", "^", ":", "é", "%"}

func anchors(thorough bool) []time.Time {
	walls := [][6]int{{2006, 1, 2, 15, 4, 5}, {1, 1, 1, 0, 0, 0}, {1677, 9, 21, 0, 12, 43}, {1970, 1, 1, 0, 0, 0},
		{2262, 4, 11, 23, 47, 17}, {9999, 12, 31, 23, 59, 59}, {2016, 2, 29, 12, 0, 0}}
	zones := []int{0, 3600, -8 * 3600, 5*3600 + 45*60, 14 * 3600, -12 * 3600}
	nanos := []int{0, 1, 999999999, 500000000, 120000000, 1000}
	if !thorough {
		walls, zones, nanos = walls[:5], zones[:4], nanos[:5]
	}
	var out []time.Time
	for _, w := range walls {
		for _, z := range zones {
			loc := time.UTC
			if z != 0 {
				loc = time.FixedZone("", z)
			}
			for _, ns := range nanos {
				out = append(out, time.Date(w[0], time.Month(w[1]), w[2], w[3], w[4], w[5], ns, loc))
			}
		}
	}
	return out
}

// coreAnchors: {UTC, +01:00, -08:00} x {0 ns, 1 ns, 999999999 ns, 500 ms} at one wall clock.
func coreAnchors() []time.Time {
	var out []time.Time
	for _, z := range []int{0, 3600, -8 * 3600} {
		loc := time.UTC
		if z != 0 {
			loc = time.FixedZone("", z)
		}
		for _, ns := range []int{0, 1, 999999999, 500000000} {
			out = append(out, time.Date(2006, 1, 2, 15, 4, 5, ns, loc))
		}
	}
	return out
}

func textValues(thorough bool) []string {
	alpha := append(append([]string{}, idAlpha...), " ", "\t", "\n")
	max := 3
	if thorough {
		alpha = append(alpha, "<", ">", "\r", "日")
		max = 4
	}
	out := vals.StringsUpTo(alpha, 0, max)
	out = append(out, `"^^type:`, `a"^^type:`, `"^^type:text`, `"^^type:bool`, `x"^^type:int64`, `"^^type:"^^type:`,
		`"@[`, `"@[]`, `^^type:`, `^^type:text`, `"^^`, "some random string", "true", "0", "[]", "[1 2]", "/t<a>", `"p"@[]`,
		"100%s", "%d%%", "%!v(", " leading", "trailing ", "tab\tinside", "two\nlines", "\n", "ends with quote\"", "日本語", " nbsp ",
		// texts that already look escaped: a printed form must not read them as the escape
		`C:\new\table.txt`, `\t`, `\r`, `\\n`, `\"`, `\u00e9`, `\x41`, `\0`, "a\\\nb", `&quot;`, `%0A`, `\\`)
	return out
}

func blobValues(thorough bool) [][]byte {
	bs := []byte{0, 1, 10, 32, 127, 128, 255}
	max := 2
	if thorough {
		bs = append(bs, 9, 13, 34, 91, 93)
		max = 3
	}
	out := [][]byte{{}}
	level := [][]byte{{}}
	for l := 1; l <= max; l++ {
		var next [][]byte
		for _, p := range level {
			for _, b := range bs {
				next = append(next, append(append([]byte{}, p...), b))
			}
		}
		out = append(out, next...)
		level = next
	}
	return out
}

// ---- which cases are non-trivial ------------------------------------------------------

func plain(b string) bool {
	for i := 0; i < len(b); i++ {
		c := b[i]
		if !(c == '_' || c >= '0' && c <= '9' || c >= 'a' && c <= 'z' || c >= 'A' && c <= 'Z') {
			return false
		}
	}
	return true
}

// nontrivial: the printed form exercises more than plain alphanumerics — an id
// or text/blob payload with a character outside [A-Za-z0-9_], a number outside
// [-1000,1000] or not an integer, an anchor with a zone offset or a sub-second part.
func nontrivial(s *vals.Spec) bool {
	switch s.K {
	case "node":
		return !plain(string(s.ID)) || !plain(strings.ReplaceAll(s.T, "/", ""))
	case "pred":
		return !plain(string(s.ID)) || (s.A != nil && (s.A.Off != 0 || s.A.Nsec != 0))
	case "lit":
		switch s.T {
		case "bool":
			return false
		case "int64":
			return len(s.V) > 4
		case "float64":
			u, _ := strconv.ParseUint(string(s.V), 16, 64)
			f := math.Float64frombits(u)
			return f != math.Trunc(f) || math.Abs(f) > 1000 || (f == 0 && math.Signbit(f))
		case "blob":
			return len(s.V) > 0
		}
		return !plain(string(s.V))
	case "obj":
		return nontrivial(s.O)
	case "triple":
		return nontrivial(s.S) || nontrivial(s.P) || nontrivial(s.O)
	}
	return false
}

func uniq(in []string) []string {
	seen := map[string]bool{}
	var out []string
	for _, s := range in {
		if !seen[s] {
			seen[s] = true
			out = append(out, s)
		}
	}
	return out
}

// ---- level 1: single values --------------------------------------------------------

func runSpecs(r *common.Run, name string, n int, gen func(i int) []*vals.Spec, vias []string) {
	var cases, values, nontriv int64
	stopped := int32(0)
	common.ParallelFor(n, func(i int) {
		if i%64 == 0 && r.OutOfTime() {
			atomic.StoreInt32(&stopped, 1)
		}
		if atomic.LoadInt32(&stopped) == 1 {
			return
		}
		local, lv, ln := int64(0), int64(0), int64(0)
		for _, s := range gen(i) {
			lv++
			if nontrivial(s) {
				ln++
			}
			for _, via := range vias {
				local++
				var ok bool
				var c, sh, d string
				stall.Do(func() common.Failure {
					return common.Failure{Check: "value", Class: "in-domain:" + kindOf(s), Case: vcase{s, via}, Detail: s.Short() + ": printing or parsing through " + via + " has not returned after a minute"}
				}, func() { ok, c, sh, d = checkValue(s, via) })
				if !ok {
					r.Fail(common.Failure{Check: "value", Class: c, Shape: sh, Case: vcase{s, via}, Detail: d})
				}
			}
		}
		atomic.AddInt64(&cases, local)
		atomic.AddInt64(&values, lv)
		atomic.AddInt64(&nontriv, ln)
	})
	r.Add("evaluations", int(cases))
	r.Add("states", int(values))
	r.Add("distinct_nontrivial", int(nontriv))
	r.Set("values_"+name, int(values))
}

func levelValues(r *common.Run) {
	th := r.Thorough()
	// nodes
	types := []string{"/t", "/t/u", "/_"}
	nAlpha := append([]string{}, idAlpha...)
	nMax := 3
	if th {
		types = append(types, "/é", "/a.b-c", `/"@[`, "/]", "/t/u/v")
		nAlpha = append(nAlpha, "_", ",", "日")
		nMax = 4
	}
	nodeIDs := vals.StringsUpTo(nAlpha, 1, nMax)
	nodeIDs = append(nodeIDs, "United States of America", "Google", "a b", "_:x", "immutable")
	nodeIDs = uniq(nodeIDs)
	r.Set("node_ids", len(nodeIDs))
	runSpecs(r, "nodes", len(nodeIDs), func(i int) []*vals.Spec {
		var out []*vals.Spec
		for _, t := range types {
			out = append(out, vals.NodeSpec(t, nodeIDs[i]))
		}
		return out
	}, []string{"node.Parse"})
	runSpecs(r, "node_objects", len(nodeIDs), func(i int) []*vals.Spec {
		var out []*vals.Spec
		for _, t := range types {
			out = append(out, vals.ObjSpec(vals.NodeSpec(t, nodeIDs[i])))
		}
		return out
	}, []string{"triple.ParseObject"})

	// predicates
	pAlpha := append(append([]string{}, idAlpha...), "<", ">")
	pMax := 4
	if th {
		pAlpha = append(pAlpha, "日")
		pMax = 5
	}
	predIDs := vals.StringsUpTo(pAlpha, 1, pMax)
	predIDs = append(predIDs, "color_of_eyes", "met", `a"@[b"@[c`, `"@["@[`, `x"@[2006-01-02T15:04:05Z]`, `"^^type:text`, "a b", "\u0085", "\x7f")
	predIDs = uniq(predIDs)
	r.Set("predicate_ids", len(predIDs))
	core := coreAnchors()
	r.Set("anchors_per_predicate_id", len(core))
	predGen := func(i int) []*vals.Spec {
		out := []*vals.Spec{vals.ImmSpec(predIDs[i])}
		for _, a := range core {
			out = append(out, vals.TempSpec(predIDs[i], a))
		}
		return out
	}
	runSpecs(r, "predicates", len(predIDs), predGen, []string{"predicate.Parse"})
	runSpecs(r, "predicate_objects", len(predIDs), func(i int) []*vals.Spec {
		var out []*vals.Spec
		for _, s := range predGen(i) {
			out = append(out, vals.ObjSpec(s))
		}
		return out
	}, []string{"triple.ParseObject"})
	// the full anchor grid on a few ids
	all := anchors(th)
	r.Set("anchor_grid", len(all))
	gridIDs := []string{"met", `"`, `a]`, "é", `\`}
	runSpecs(r, "predicates_anchor_grid", len(all), func(i int) []*vals.Spec {
		var out []*vals.Spec
		for _, id := range gridIDs {
			out = append(out, vals.TempSpec(id, all[i]))
		}
		return out
	}, []string{"predicate.Parse"})

	// literals
	var lits []*vals.Spec
	lits = append(lits, vals.BoolSpec(true), vals.BoolSpec(false))
	ints := vals.Int64Boundaries()
	for _, v := range ints {
		lits = append(lits, vals.IntSpec(v))
	}
	floats := vals.Float64Boundaries()
	for _, v := range floats {
		lits = append(lits, vals.FloatSpec(v))
	}
	texts := uniq(textValues(th))
	for _, v := range texts {
		lits = append(lits, vals.TextSpec(v))
	}
	blobs := blobValues(th)
	for _, v := range blobs {
		lits = append(lits, vals.BlobSpec(v))
	}
	r.Set("int64_boundary_values", len(ints))
	r.Set("float64_boundary_values", len(floats))
	r.Set("text_values", len(texts))
	r.Set("blob_values", len(blobs))
	runSpecs(r, "literals", len(lits), func(i int) []*vals.Spec { return []*vals.Spec{lits[i]} },
		[]string{"literal.Parse", "literal.BoundedParse"})
	// what a builder bounded at 8 bytes can hold: numbers, bools, texts and blobs of at most 8 bytes (blobs of 8 bytes
	// with three-digit values print four characters per byte)
	var small []*vals.Spec
	for _, l := range lits {
		if (l.T != "text" && l.T != "blob") || len(l.V) <= 8 {
			small = append(small, l)
		}
	}
	small = append(small, vals.BlobSpec([]byte{255, 254, 253, 252, 251, 250, 249, 248}), vals.BlobSpec([]byte{128, 128, 128, 128, 128, 128, 128}), vals.TextSpec("12345678"))
	runSpecs(r, "literals_bounded8", len(small), func(i int) []*vals.Spec { return []*vals.Spec{small[i]} }, []string{"literal.BoundedParse8"})
	runSpecs(r, "literal_objects", len(lits), func(i int) []*vals.Spec { return []*vals.Spec{vals.ObjSpec(lits[i])} },
		[]string{"triple.ParseObject"})
	r.Sample(map[string]interface{}{"value": vals.TempSpec(`a"]`, core[5]), "via": "predicate.Parse"})
	r.Sample(map[string]interface{}{"value": lits[len(lits)/2], "via": "literal.Parse"})
}

// ---- level 2: triples ----------------------------------------------------------------

// tripleParts returns clean subjects / predicates / objects and the hazard
// values (each combined only with clean partners: one hazard per triple).
func tripleParts(thorough bool) (subs, preds, objs, hzPreds, hzObjs []*vals.Spec) {
	z1, z8 := time.FixedZone("", 3600), time.FixedZone("", -8*3600)
	subs = []*vals.Spec{
		vals.NodeSpec("/t", "a"), vals.NodeSpec("/t/u", `"@[`), vals.NodeSpec("/_", "b]"),
		vals.NodeSpec("/t", `a"`), vals.NodeSpec("/t", "é/:^"), vals.NodeSpec("/t/u", `\`),
	}
	preds = []*vals.Spec{
		vals.ImmSpec("p"), vals.TempSpec("p", model.T1), vals.TempSpec("p", time.Date(2006, 1, 2, 15, 4, 5, 999999999, z1)),
		vals.ImmSpec(`"`), vals.ImmSpec("a]"), vals.TempSpec(`>"<`, time.Date(2006, 1, 2, 15, 4, 5, 1, z8)),
		vals.ImmSpec(`\@[é`), vals.TempSpec("]", time.Date(1, 1, 1, 0, 0, 0, 500000000, time.UTC)),
	}
	objs = []*vals.Spec{
		vals.ObjSpec(vals.NodeSpec("/t", "b")), vals.ObjSpec(vals.NodeSpec("/_", `]"`)),
		vals.ObjSpec(vals.BoolSpec(true)), vals.ObjSpec(vals.IntSpec(-9223372036854775808)),
		vals.ObjSpec(vals.FloatSpec(math.Copysign(0, -1))), vals.ObjSpec(vals.FloatSpec(1e21)),
		vals.ObjSpec(vals.TextSpec("")), vals.ObjSpec(vals.TextSpec("some random string")),
		vals.ObjSpec(vals.TextSpec("] /t<x>\t\"p\"@[]\t\"")), vals.ObjSpec(vals.BlobSpec([]byte{})),
		vals.ObjSpec(vals.BlobSpec([]byte{0, 255})), vals.ObjSpec(vals.TempSpec("q]", time.Date(2006, 1, 2, 15, 4, 5, 120000000, z8))),
	}
	if thorough {
		subs = append(subs, vals.NodeSpec("/t", "Google"), vals.NodeSpec("/é", "]"), vals.NodeSpec(`/"@[`, "a"),
			vals.NodeSpec("/t", "^^type:text"), vals.NodeSpec("/t", `"p"@[]`), vals.NodeSpec("/_", "日"))
		preds = append(preds, vals.ImmSpec("<"), vals.ImmSpec(">"), vals.ImmSpec(`^^type:text`), vals.ImmSpec(`/t<a>`),
			vals.TempSpec(`\"`, time.Date(9999, 12, 31, 23, 59, 59, 999999999, z1)), vals.TempSpec("日", model.T0),
			vals.ImmSpec(`"@`), vals.ImmSpec(`a@[`))
		for _, f := range []float64{0.1, 5e-324, 1.7976931348623157e308} {
			objs = append(objs, vals.ObjSpec(vals.FloatSpec(f)), vals.ObjSpec(vals.FloatSpec(-f)))
		}
		objs = append(objs, vals.ObjSpec(vals.IntSpec(9223372036854775807)), vals.ObjSpec(vals.BoolSpec(false)),
			vals.ObjSpec(vals.TextSpec("two\nlines")), vals.ObjSpec(vals.TextSpec(" \t ")), vals.ObjSpec(vals.TextSpec(`"@[`)),
			vals.ObjSpec(vals.TextSpec("^type:")), vals.ObjSpec(vals.ImmSpec("p")), vals.ObjSpec(vals.ImmSpec(`"`)),
			vals.ObjSpec(vals.NodeSpec("/t/u", "a\u00a0b")), vals.ObjSpec(vals.BlobSpec([]byte("abc"))),
			vals.ObjSpec(vals.TextSpec("日本語")), vals.ObjSpec(vals.TextSpec(`\`)))
	}
	hzPreds = []*vals.Spec{vals.ImmSpec(`a"@[b`), vals.TempSpec(`"@[`, model.T1)}
	hzPreds = append(hzPreds, vals.ImmSpec("@[a"))
	hzObjs = []*vals.Spec{
		vals.ObjSpec(vals.TextSpec(`"^^type:`)), vals.ObjSpec(vals.TextSpec(`a"^^type:text`)),
		vals.ObjSpec(vals.TextSpec(`^^type:`)), vals.ObjSpec(vals.TextSpec(`^^type:text`)),
		vals.ObjSpec(vals.ImmSpec(`a"@[b`)), vals.ObjSpec(vals.ImmSpec(`@[`)),
		vals.ObjSpec(vals.ImmSpec(`a"^^type:text`)), vals.ObjSpec(vals.TempSpec(`"^^type:`, model.T1)),
	}
	return
}

func tripleUniverse(thorough bool) []*vals.Spec {
	subs, preds, objs, hzP, hzO := tripleParts(thorough)
	var out []*vals.Spec
	for _, s := range subs {
		for _, p := range preds {
			for _, o := range objs {
				out = append(out, vals.TripleSpec(s, p, o))
			}
		}
	}
	for _, s := range subs {
		for _, p := range hzP {
			for _, o := range objs {
				out = append(out, vals.TripleSpec(s, p, o))
			}
		}
		for _, p := range preds {
			for _, o := range hzO {
				out = append(out, vals.TripleSpec(s, p, o))
			}
		}
	}
	return out
}

func levelTriples(r *common.Run) {
	u := tripleUniverse(r.Thorough())
	runSpecs(r, "triples", len(u), func(i int) []*vals.Spec { return []*vals.Spec{u[i]} }, []string{"triple.Parse"})
	r.Sample(map[string]interface{}{"value": u[len(u)/3], "via": "triple.Parse"})
}

// ---- level 3: graphs -------------------------------------------------------------------

type gcase struct {
	Triples []*vals.Spec `json:"triples"`
}

// graphUniverse: triples free of UUID collisions (those are C01/C06's subject)
// covering every object kind, zones, nanoseconds, delimiter characters.
func graphUniverse(n int) []*vals.Spec {
	z1, z8 := time.FixedZone("", 3600), time.FixedZone("", -8*3600)
	a, b := vals.NodeSpec("/t", "a"), vals.NodeSpec("/t/u", `b"@[`)
	u := []*vals.Spec{
		vals.TripleSpec(a, vals.ImmSpec("p"), vals.ObjSpec(b)),
		vals.TripleSpec(a, vals.TempSpec("p", time.Date(2006, 1, 2, 15, 4, 5, 999999999, z1)), vals.ObjSpec(b)),
		vals.TripleSpec(a, vals.TempSpec("p", time.Date(2006, 1, 2, 15, 4, 5, 1, z8)), vals.ObjSpec(b)),
		vals.TripleSpec(b, vals.ImmSpec(`q"]`), vals.ObjSpec(vals.TextSpec("some random string"))),
		vals.TripleSpec(b, vals.ImmSpec(`q"]`), vals.ObjSpec(vals.TextSpec(""))),
		vals.TripleSpec(a, vals.ImmSpec("p"), vals.ObjSpec(vals.IntSpec(-9223372036854775808))),
		vals.TripleSpec(a, vals.ImmSpec("p"), vals.ObjSpec(vals.FloatSpec(math.Copysign(0, -1)))),
		vals.TripleSpec(a, vals.ImmSpec("p"), vals.ObjSpec(vals.BoolSpec(true))),
		vals.TripleSpec(a, vals.ImmSpec("p"), vals.ObjSpec(vals.BlobSpec([]byte{0, 10, 255}))),
		vals.TripleSpec(a, vals.ImmSpec("p"), vals.ObjSpec(vals.TempSpec("r", model.T1))),
		vals.TripleSpec(vals.NodeSpec("/_", "é]"), vals.ImmSpec(`\`), vals.ObjSpec(vals.TextSpec("] /t<x>\t\"p\"@[]\t\""))),
		vals.TripleSpec(a, vals.ImmSpec("p"), vals.ObjSpec(vals.TextSpec(" \ttrailing\r"))),
		vals.TripleSpec(a, vals.ImmSpec("p"), vals.ObjSpec(vals.FloatSpec(5e-324))),
		vals.TripleSpec(a, vals.ImmSpec("p"), vals.ObjSpec(vals.BlobSpec([]byte{}))),
		vals.TripleSpec(a, vals.ImmSpec("p"), vals.ObjSpec(vals.ImmSpec("p"))),
		vals.TripleSpec(a, vals.TempSpec("é", time.Date(1, 1, 1, 0, 0, 0, 0, time.UTC)), vals.ObjSpec(a)),
		vals.TripleSpec(a, vals.ImmSpec("p"), vals.ObjSpec(vals.IntSpec(9223372036854775807))),
		vals.TripleSpec(a, vals.ImmSpec("p"), vals.ObjSpec(vals.TextSpec("true"))),
	}
	if n > len(u) {
		n = len(u)
	}
	return u[:n]
}

func graphHazardTriples() []*vals.Spec {
	a := vals.NodeSpec("/t", "a")
	return []*vals.Spec{
		vals.TripleSpec(a, vals.ImmSpec(`x"@[y`), vals.ObjSpec(a)),
		vals.TripleSpec(a, vals.ImmSpec("p"), vals.ObjSpec(vals.ImmSpec(`x"@[y`))),
		vals.TripleSpec(a, vals.ImmSpec("p"), vals.ObjSpec(vals.TextSpec(`x"^^type:`))),
		vals.TripleSpec(a, vals.ImmSpec("p"), vals.ObjSpec(vals.TextSpec("two\nlines"))),
		vals.TripleSpec(a, vals.ImmSpec("p"), vals.ObjSpec(vals.TextSpec("ends with LF\n"))),
		vals.TripleSpec(a, vals.ImmSpec("@[x"), vals.ObjSpec(a)),
		vals.TripleSpec(a, vals.ImmSpec("p"), vals.ObjSpec(vals.TextSpec(`^^type:x`))),
		vals.TripleSpec(a, vals.ImmSpec("p"), vals.ObjSpec(vals.ImmSpec(`x"^^type:y`))),
	}
}

// longTriples: text/blob literals sized so that the printed line (newline
// included) is exactly at, just below and just above 64 KiB.
func longTriples() []*vals.Spec {
	a := vals.NodeSpec("/t", "a")
	base := vals.MustBuild(vals.TripleSpec(a, vals.ImmSpec("long"), vals.ObjSpec(vals.TextSpec("")))).T.String()
	var out []*vals.Spec
	for _, total := range []int{longLine - 2, longLine - 1, longLine, longLine + 1, longLine + 2, 3 * longLine, 1<<20 - 1, 1 << 20, 1<<20 + 1, 3 << 20} {
		n := total - (len(base) + 1)
		out = append(out, vals.TripleSpec(a, vals.ImmSpec("long"), vals.ObjSpec(vals.TextSpec(strings.Repeat("x", n)))))
	}
	// a blob whose printed form "[1 1 1 …]" crosses the limit
	out = append(out, vals.TripleSpec(a, vals.ImmSpec("long"), vals.ObjSpec(vals.BlobSpec(bytes.Repeat([]byte{1}, longLine/2+64)))))
	return out
}

func listKeys(g storage.Graph) ([]string, error) {
	ts, err := model.ListTriples(g, storage.DefaultLookup)
	if err != nil {
		return nil, err
	}
	ks := make([]string, 0, len(ts))
	for _, t := range ts {
		ks = append(ks, vals.TripleKey(t, true))
	}
	sort.Strings(ks)
	return ks, nil
}

// checkGraph: write the graph, read the text into an empty graph, compare.
func checkGraph(specs []*vals.Spec) (ok bool, class, shape, detail string) {
	hz := map[string]bool{}
	var ts []*triple.Triple
	for _, s := range specs {
		hazards(s, true, false, hz)
		t := vals.MustBuild(s).T
		if hz["?long"] && len(t.String())+1 > longLine {
			hz[hzLongLine] = true
		}
		ts = append(ts, t)
	}
	class = classOf(hz, "graph")
	fail := func(sh, d string) (bool, string, string, string) {
		return false, class, sh, fmt.Sprintf("graph of %d triples: %s", len(specs), d)
	}
	st := memory.NewStore()
	src, err := st.NewGraph(model.Ctx, "?src")
	if err != nil {
		common.Machinery("NewGraph: %v", err)
	}
	dst, _ := st.NewGraph(model.Ctx, "?dst")
	if err := src.AddTriples(model.Ctx, ts); err != nil {
		common.Machinery("AddTriples: %v", err)
	}
	want, err := listKeys(src)
	if err != nil {
		common.Machinery("listing source graph: %v", err)
	}
	if len(want) != len(specs) {
		common.Machinery("graph universe has colliding triples: %d specs, %d stored", len(specs), len(want))
	}
	var buf bytes.Buffer
	var wn int
	var werr error
	if p := vals.Guard(func() { wn, werr = bwio.WriteGraph(model.Ctx, &buf, src) }); p != nil {
		return fail("panic-in-WriteGraph:"+p.Kind+"@"+p.Site, p.Msg)
	}
	if werr != nil {
		return fail("write-error", werr.Error())
	}
	if wn != len(want) {
		return fail("write-count-differs", fmt.Sprintf("WriteGraph reported %d, graph holds %d", wn, len(want)))
	}
	text := buf.String()
	var rn int
	var rerr error
	if p := vals.Guard(func() {
		rn, rerr = bwio.ReadIntoGraph(model.Ctx, dst, strings.NewReader(text), literal.DefaultBuilder())
	}); p != nil {
		return fail("panic-in-ReadIntoGraph:"+p.Kind+"@"+p.Site, fmt.Sprintf("%s; text=%s", p.Msg, clip(text)))
	}
	if rerr != nil {
		return fail("read-error-on-own-output", fmt.Sprintf("ReadIntoGraph = (%d, %v); text=%s", rn, rerr, clip(text)))
	}
	got, err := listKeys(dst)
	if err != nil {
		return fail("listing-error", err.Error())
	}
	if !model.SameStrings(want, got) {
		return fail("triple-set-differs-without-error", fmt.Sprintf("ReadIntoGraph = (%d, nil)\n want %s\n got  %s\n text=%s", rn, clip(strings.Join(want, " | ")), clip(strings.Join(got, " | ")), clip(text)))
	}
	if rn != len(want) {
		return fail("read-count-differs", fmt.Sprintf("ReadIntoGraph reported %d, graph holds %d", rn, len(want)))
	}
	return true, "", "", ""
}

func clip(s string) string {
	if len(s) > 400 {
		return fmt.Sprintf("%q…(%d bytes)", s[:400], len(s))
	}
	return fmt.Sprintf("%q", s)
}

func subsets(n, maxSize int) [][]int {
	var out [][]int
	var rec func(start int, cur []int)
	rec = func(start int, cur []int) {
		out = append(out, append([]int{}, cur...))
		if len(cur) == maxSize {
			return
		}
		for i := start; i < n; i++ {
			rec(i+1, append(cur, i))
		}
	}
	rec(0, nil)
	sort.SliceStable(out, func(i, j int) bool { return len(out[i]) < len(out[j]) })
	return out
}

func levelGraphs(r *common.Run) {
	u := graphUniverse(r.Pick(14, 18))
	size := r.Pick(4, 5)
	var graphs [][]*vals.Spec
	for _, idx := range subsets(len(u), size) {
		var g []*vals.Spec
		for _, i := range idx {
			g = append(g, u[i])
		}
		graphs = append(graphs, g)
	}
	nClean := len(graphs)
	// one hazard triple + every subset of size <= 2 of the first 4 clean triples
	hzs := append(graphHazardTriples(), longTriples()...)
	for _, h := range hzs {
		for _, idx := range subsets(4, 2) {
			g := []*vals.Spec{h}
			for _, i := range idx {
				g = append(g, u[i])
			}
			graphs = append(graphs, g)
		}
	}
	// every value of the text universe, and every node / predicate id up to length 2, written and read as a
	// graph of one triple (the writer and the reader see every letter of the alphabets, not only the 18 triples)
	nSingles := len(graphs)
	a0 := vals.NodeSpec("/t", "a")
	for _, tv := range textValues(r.Thorough()) {
		graphs = append(graphs, []*vals.Spec{vals.TripleSpec(a0, vals.ImmSpec("p"), vals.ObjSpec(vals.TextSpec(tv)))})
	}
	for _, id := range vals.StringsUpTo(append(append([]string{}, idAlpha...), "<", ">"), 1, r.Pick(2, 3)) {
		graphs = append(graphs, []*vals.Spec{vals.TripleSpec(a0, vals.ImmSpec(id), vals.ObjSpec(vals.TempSpec(id, model.T1)))})
		if !strings.ContainsAny(id, "<>") {
			graphs = append(graphs, []*vals.Spec{vals.TripleSpec(vals.NodeSpec("/t", id), vals.ImmSpec("p"), vals.ObjSpec(vals.NodeSpec("/t/u", id)))})
		}
	}
	nSingles = len(graphs) - nSingles
	r.Set("graphs_of_one_triple_per_value", nSingles)
	var mu sync.Mutex
	done, multi := 0, 0
	common.ParallelFor(len(graphs), func(i int) {
		if r.OutOfTime() {
			return
		}
		var ok bool
		var c, sh, d string
		stall.Do(func() common.Failure {
			return common.Failure{Check: "graph", Class: "in-domain:graph", Case: gcase{graphs[i]}, Detail: "WriteGraph / ReadIntoGraph has not returned after a minute"}
		}, func() { ok, c, sh, d = checkGraph(graphs[i]) })
		if !ok {
			r.Fail(common.Failure{Check: "graph", Class: c, Shape: sh, Case: gcase{graphs[i]}, Detail: d})
		}
		mu.Lock()
		done++
		if len(graphs[i]) >= 2 {
			multi++
		}
		mu.Unlock()
	})
	r.Set("graph_universe", len(u))
	r.Set("graph_max_size", size)
	r.Set("graphs_clean_subsets", nClean)
	r.Set("graphs_with_one_special_triple", len(graphs)-nClean-nSingles)
	r.Add("evaluations", done)
	r.Add("states", done)
	r.Add("distinct_nontrivial", multi)
	r.Set("graphs_roundtripped", done)
	r.Sample(map[string]interface{}{"graph": graphs[nClean/2]})
}

func main() {
	debug.SetGCPercent(400)
	if f := os.Getenv("VERIF_CPUPROF"); f != "" {
		w, _ := os.Create(f)
		pprof.StartCPUProfile(w)
		defer pprof.StopCPUProfile()
	}
	r := common.Start("C05", "model_checking")
	r.Replayer("value", func(raw json.RawMessage) (bool, string) {
		var c vcase
		if err := json.Unmarshal(raw, &c); err != nil {
			common.Machinery("bad case: %v", err)
		}
		ok, _, sh, d := checkValue(c.Value, c.Via)
		if ok {
			return true, c.Value.Short() + " round-trips through " + c.Via
		}
		return ok, sh + ": " + d
	})
	r.Replayer("graph", func(raw json.RawMessage) (bool, string) {
		var c gcase
		if err := json.Unmarshal(raw, &c); err != nil {
			common.Machinery("bad case: %v", err)
		}
		ok, _, sh, d := checkGraph(c.Triples)
		if ok {
			return true, fmt.Sprintf("graph of %d triples round-trips through WriteGraph/ReadIntoGraph", len(c.Triples))
		}
		return ok, sh + ": " + d
	})
	r.MaybeReplay()
	stall = common.NewStallWatch(r, time.Minute)
	r.Assume("domain = docs/temporal_graph_modeling.md: node types are '/'-separated paths without whitespace, '<' or '>'; node ids are non-empty UTF-8 without space/tab/LF/CR and without '<' '>'; predicate ids are non-empty UTF-8 without space/tab/LF/CR (quotes, brackets, backslashes, '<' '>' and non-ASCII allowed); anchors are those RFC3339Nano can express (whole-minute offsets, local year 0001-9999); text and blob literals are arbitrary (docs: 'elements of arbitrary length'); NaN excluded (not equal to itself)")
	r.Assume("equality is structural via exported accessors: (type,id); (id, kind, instant AND zone offset); (literal type, value; float64 by IEEE bits so -0 differs from +0); object kind + boxed value")
	r.Assume("each triple carries at most one value from the listed defect classes (a predicate id containing \"@[ or a text literal containing \"^^type:), so that one failure is attributable to one cause; triples combining two of them are not explored")
	r.Assume("graph universe avoids triples whose UUIDs collide (C01/C06 cover those); the memory driver is the graph implementation")
	levelValues(r)
	levelTriples(r)
	levelGraphs(r)
	r.Set("rule", "every value of the universe: String -> Parse (same-kind parser, and ParseObject for objects) -> structural equality incl. anchor offset -> String again identical; every subset of the triple universe up to the size bound: WriteGraph -> ReadIntoGraph into an empty graph -> same set, both counts = set size. states = distinct values + graphs of the universe (distinct by construction); transitions = print->parse round trips executed on the real code (a value is read by one or two parsers); distinct_nontrivial = values whose printed form is more than plain alphanumerics (an id/text/blob byte outside [A-Za-z0-9_], a number outside [-1000,1000] or fractional or -0, an anchor with zone offset or sub-second part) + graphs of at least 2 triples")
	r.Set("transitions", r.Get("evaluations"))
	r.Set("traces_validated_against_impl", r.Get("evaluations"))
	pprof.StopCPUProfile()
	r.Finish()
}
