// C03 — SELECT returns exactly the solutions of its graph pattern.
//
// Exhaustive enumeration of query shapes (all one-clause shapes x all sharing
// patterns of binding names x every single extraction modifier x global bounds
// x all 64 subsets of a 6-triple universe; all two-clause shapes x designed
// graphs) run through the real pipeline and compared with the reference
// evaluator bqlm.Solutions.
package main

import (
	"encoding/json"
	"fmt"
	"strings"
	"sync"
	"sync/atomic"
	"time"

	"github.com/google/badwolf/storage"
	"github.com/google/badwolf/triple"

	"verif/bqlm"
	"verif/common"
	"verif/model"
)

// kase is a replayable case: the query and the data per graph.
type kase struct {
	Text   string                      `json:"statement"`
	Graphs map[string][]string         `json:"graphs"` // graph -> triples in text form (informational)
	Q      *bqlm.Query                 `json:"-"`
	Data   map[string][]*triple.Triple `json:"-"`
	// replay key: how to regenerate Q and Data
	Gen string `json:"gen"`
}

type stats struct {
	evals, accepted, nontrivial int64
	outcomes                    sync.Map
}

func (s *stats) note(v bqlm.Verdict) {
	atomic.AddInt64(&s.evals, 1)
	if v.Accepted {
		atomic.AddInt64(&s.accepted, 1)
	}
	if v.Nontrivial && v.Accepted {
		atomic.AddInt64(&s.nontrivial, 1)
	}
	s.outcomes.Store(v.Outcome, true)
}

func report(r *common.Run, st *stats, check, gen string, q *bqlm.Query, data map[string][]*triple.Triple, v bqlm.Verdict) {
	st.note(v)
	if v.Ok {
		return
	}
	gs := map[string][]string{}
	for g, ts := range data {
		for _, t := range ts {
			gs[g] = append(gs[g], t.String())
		}
	}
	r.Fail(common.Failure{Check: check, Class: v.Class, Shape: v.Shape, Case: kase{Text: q.Render(), Graphs: gs, Gen: gen}, Detail: v.Detail})
}

// ---- one-clause exploration -----------------------------------------------------

func oneClauseQueries(pairs bool) []*bqlm.Query {
	var qs []*bqlm.Query
	t1, t2, t3 := model.T1, model.T2, model.T3
	globals := []struct {
		kind   string
		lo, hi *time.Time
	}{{"", nil, nil}, {"before", nil, &t1}, {"after", &t2, nil}, {"between", &t1, &t2}, {"after", &t1, nil}, {"between", &t2, &t3}}
	for _, base := range bqlm.BaseClauses() {
		for _, named := range bqlm.Namings([]bqlm.Clause{base}) {
			c := named[0]
			variants := []bqlm.Clause{c}
			mods := bqlm.ModifiersFor(c)
			for _, m := range mods {
				variants = append(variants, bqlm.WithModifier(c, m, "?m0"))
			}
			// an alias that takes the name of a binding the clause already has: the extraction and the binding must agree
			for _, m := range mods {
				for _, b := range c.Bindings() {
					variants = append(variants, bqlm.WithModifier(c, m, b))
				}
			}
			if pairs {
				for i := 0; i < len(mods); i++ {
					for j := i + 1; j < len(mods); j++ {
						if mods[i].Pos == mods[j].Pos && mods[i].Kind == mods[j].Kind {
							continue
						}
						variants = append(variants, bqlm.WithModifier(bqlm.WithModifier(c, mods[i], "?m0"), mods[j], "?m1"))
						// the same alias name twice: both extractions must agree
						variants = append(variants, bqlm.WithModifier(bqlm.WithModifier(c, mods[i], "?m0"), mods[j], "?m0"))
					}
				}
			}
			for _, vc := range variants {
				if len(vc.Bindings()) == 0 {
					continue // SELECT needs at least one binding
				}
				for gi, g := range globals {
					if gi > 0 && vc != c {
						continue // global bounds are combined with the shapes without modifiers
					}
					q := &bqlm.Query{From: []string{"?g"}, Where: []bqlm.Clause{vc}, GlobalKind: g.kind, GLo: g.lo, GHi: g.hi}
					q.Proj = bqlm.SelectAll(q.Where)
					qs = append(qs, q)
				}
			}
		}
	}
	return qs
}

func runOneClause(r *common.Run, st *stats) {
	qs := oneClauseQueries(r.Thorough())
	u := bqlm.Universe8()
	r.Set("one_clause_shapes", len(qs))
	masks := bqlm.Masks(len(u), r.Thorough())
	r.Set("one_clause_data_subsets", len(masks))
	common.ParallelFor(len(masks), func(mi int) {
		mask := masks[mi]
		if r.OutOfTime() {
			return
		}
		data := map[string][]*triple.Triple{"?g": bqlm.Subset(u, mask)}
		store := bqlm.NewStore(data)
		for i, q := range qs {
			v := bqlm.Compare(q, store, data, 0)
			report(r, st, "one", fmt.Sprintf("one:%d:%d", i, mask), q, data, v)
		}
	})
	// several FROM graphs: every assignment of the universe's triples to 2 graphs
	// (disjoint split) and a fixed overlapping pair, for the shapes without modifiers.
	var plain []*bqlm.Query
	for _, q := range qs {
		c := q.Where[0]
		if q.GlobalKind == "" && c.S.As+c.S.IDAlias+c.S.TypeAlias+c.P.As+c.P.IDAlias+c.P.AtAlias+c.O.As+c.O.IDAlias+c.O.TypeAlias+c.O.AtAlias == "" {
			plain = append(plain, q)
		}
	}
	// fully specified clauses (selectable through one alias) and every shape with a single
	// modifier also go through the several-graphs exploration: the existence check of a
	// constant clause must look at every FROM graph
	for _, q := range qs {
		c := q.Where[0]
		if q.GlobalKind == "" && c.S.Kind == bqlm.Const && c.P.Kind == bqlm.Const && c.O.Kind == bqlm.Const {
			plain = append(plain, q)
		}
	}
	r.Set("multi_graph_shapes", len(plain))
	common.ParallelFor(len(masks), func(mi int) {
		mask := masks[mi]
		if r.OutOfTime() {
			return
		}
		var a, b []*triple.Triple
		for i, t := range u {
			if mask&(1<<uint(i)) != 0 {
				a = append(a, t)
			} else {
				b = append(b, t)
			}
		}
		for variant, data := range []map[string][]*triple.Triple{
			{"?g": a, "?h": b}, // disjoint split of the whole universe
			{"?g": a, "?h": append(append([]*triple.Triple{}, b...), a...)}, // ?h overlaps ?g
		} {
			store := bqlm.NewStore(data)
			for i, q0 := range plain {
				q := *q0
				q.From = []string{"?g", "?h"}
				v := bqlm.Compare(&q, store, data, 0)
				report(r, st, "multi", fmt.Sprintf("multi:%d:%d:%d", i, mask, variant), &q, data, v)
			}
		}
	})
}

// ---- two-clause exploration -----------------------------------------------------

func twoClauseGraphs() []map[string][]*triple.Triple {
	T := model.T
	a, b, c := bqlm.NA, bqlm.NB, bqlm.NC
	p, p1, p2, q := bqlm.PImm, bqlm.PT1, bqlm.PT2, bqlm.QImm
	gs := [][]*triple.Triple{
		{},
		{T(a, p, model.ON(b))},
		{T(a, p, model.ON(b)), T(b, p, model.ON(c)), T(c, p, model.ON(a))},                                                                                           // cycle
		{T(a, p, model.ON(b)), T(a, p1, model.ON(b)), T(a, p2, model.ON(b)), T(b, bqlm.PT1Z, model.ON(c)), T(a, bqlm.QT2, model.ON(b)), T(b, bqlm.QT2, model.ON(c))}, // same id in three kinds, other id temporal
		{T(a, p, model.OL(bqlm.LInt)), T(a, q, model.OL(bqlm.LInt)), T(c, p, model.OL(bqlm.LText))},                                                                  // literals shared as objects
		{T(a, q, model.OP(bqlm.PT1Z)), T(a, p1, model.ON(b)), T(c, q, model.OP(p)), T(a, p, model.ON(c))},                                                            // predicate-valued objects equal to real predicates
		{T(a, p, model.ON(a)), T(c, p, model.ON(c)), T(a, p1, model.ON(c))},                                                                                          // self loops
		{T(a, p, model.ON(b)), T(a, p, model.OL(bqlm.LInt)), T(a, p, model.OP(p1)), T(b, p1, model.OP(p2))},                                                          // mixed object kinds in one column
		{T(a, p1, model.OP(p1)), T(c, p2, model.OP(p2)), T(a, p2, model.OP(p1))},                                                                                     // anchors equal across P and O
		bqlm.Universe8(),
	}
	var out []map[string][]*triple.Triple
	for _, g := range gs {
		out = append(out, map[string][]*triple.Triple{"?g": g})
	}
	return out
}

func runTwoClause(r *common.Run, st *stats) {
	base := bqlm.BaseClauses()
	graphs := twoClauseGraphs()
	stores := make([]storage.Store, len(graphs))
	for i, g := range graphs {
		stores[i] = bqlm.NewStore(g)
	}
	var shapes int64
	common.ParallelFor(len(base), func(i int) {
		for j := range base {
			if r.OutOfTime() {
				return
			}
			for k, named := range bqlm.Namings([]bqlm.Clause{base[i], base[j]}) {
				if len(bqlm.AllBindings(named)) == 0 {
					continue
				}
				q := &bqlm.Query{From: []string{"?g"}, Where: named}
				q.Proj = bqlm.SelectAll(named)
				atomic.AddInt64(&shapes, 1)
				for gi := range graphs {
					v := bqlm.Compare(q, stores[gi], graphs[gi], 0)
					report(r, st, "two", fmt.Sprintf("two:%d:%d:%d:%d", i, j, k, gi), q, graphs[gi], v)
				}
			}
		}
	})
	// a reduced set of two-clause shapes over TWO FROM graphs, each designed graph split in
	// both directions (first clause's triples may live in the first or in the last graph)
	ac := aliasClauses()
	full := []bqlm.Clause{
		{S: bqlm.Term{Kind: bqlm.Const, N: bqlm.NA}, P: bqlm.Term{Kind: bqlm.Const, P: bqlm.PImm}, O: bqlm.Term{Kind: bqlm.Const, N: bqlm.NB}},
		{S: bqlm.Term{Kind: bqlm.Const, N: bqlm.NA}, P: bqlm.Term{Kind: bqlm.Const, P: bqlm.PT1}, O: bqlm.Term{Kind: bqlm.Const, N: bqlm.NB}},
		{S: bqlm.Term{Kind: bqlm.Const, N: bqlm.NC}, P: bqlm.Term{Kind: bqlm.Const, P: bqlm.PImm}, O: bqlm.Term{Kind: bqlm.Const, N: bqlm.NC}},
	}
	ac = append(ac, full...)
	type splitT struct {
		data  map[string][]*triple.Triple
		store storage.Store
	}
	splits := make([][2]splitT, len(graphs))
	for gi := range graphs {
		for half := 0; half < 2; half++ {
			var a, b []*triple.Triple
			for ti, t := range graphs[gi]["?g"] {
				if (ti%2 == 0) == (half == 0) {
					a = append(a, t)
				} else {
					b = append(b, t)
				}
			}
			d := map[string][]*triple.Triple{"?g": a, "?h": b}
			splits[gi][half] = splitT{d, bqlm.NewStore(d)}
		}
	}
	var splitShapes int64
	common.ParallelFor(len(ac), func(i int) {
		for j := range ac {
			for k, named := range bqlm.Namings([]bqlm.Clause{ac[i], ac[j]}) {
				if len(bqlm.AllBindings(named)) == 0 {
					continue
				}
				atomic.AddInt64(&splitShapes, 1)
				for gi := range graphs {
					for half := 0; half < 2; half++ {
						sp := splits[gi][half]
						q := &bqlm.Query{From: []string{"?g", "?h"}, Where: named, Proj: bqlm.SelectAll(named)}
						v := bqlm.Compare(q, sp.store, sp.data, 0)
						report(r, st, "two-split", fmt.Sprintf("twosplit:%d:%d:%d:%d:%d", i, j, k, gi, half), q, sp.data, v)
					}
					if !r.Thorough() && gi >= 3 {
						break
					}
				}
			}
		}
	})
	r.Set("two_clause_two_graph_shapes", int(splitShapes))
	r.Set("two_clause_shapes", int(shapes))
	r.Set("two_clause_graphs", len(graphs))
}

// ---- three-clause exploration ---------------------------------------------------

// threeClauseVocab: constants or bindings in every position with at most two binding slots per
// clause, plus the anchor binding next to a constant; every ordered triple of them under every
// sharing pattern of names (<= 6 slots: at most 203 patterns per triple).
func threeClauseVocab() []bqlm.Clause {
	cs, cp, co := bqlm.Term{Kind: bqlm.Const, N: bqlm.NA}, bqlm.Term{Kind: bqlm.Const, P: bqlm.PImm}, bqlm.Term{Kind: bqlm.Const, N: bqlm.NB}
	b := bqlm.Term{Kind: bqlm.Bind}
	an := bqlm.Term{Kind: bqlm.AnchorBind, ID: "p"}
	return []bqlm.Clause{
		{S: b, P: cp, O: b}, {S: cs, P: cp, O: b}, {S: b, P: cp, O: co}, {S: cs, P: b, O: b}, {S: b, P: b, O: co},
		{S: cs, P: b, O: co}, {S: cs, P: cp, O: co}, {S: cs, P: an, O: b}, {S: b, P: an, O: co},
	}
}

// indices into twoClauseGraphs()
func threeClauseGraphs(all bool) []int {
	if all {
		return []int{1, 2, 3, 4, 5, 6, 7, 8, 9}
	}
	return []int{2, 3, 6, 7}
}

func runThreeClause(r *common.Run, st *stats) {
	voc := threeClauseVocab()
	gidx := threeClauseGraphs(r.Thorough())
	var graphs []map[string][]*triple.Triple
	for _, gi := range gidx {
		graphs = append(graphs, twoClauseGraphs()[gi])
	}
	stores := make([]storage.Store, len(graphs))
	for i, g := range graphs {
		stores[i] = bqlm.NewStore(g)
	}
	n := len(voc)
	var shapes int64
	common.ParallelFor(n*n*n, func(x int) {
		i, j, l := x/(n*n), (x/n)%n, x%n
		if r.OutOfTime() {
			return
		}
		for k, named := range bqlm.Namings([]bqlm.Clause{voc[i], voc[j], voc[l]}) {
			if len(bqlm.AllBindings(named)) == 0 {
				continue
			}
			q := &bqlm.Query{From: []string{"?g"}, Where: named, Proj: bqlm.SelectAll(named)}
			atomic.AddInt64(&shapes, 1)
			for gi := range graphs {
				v := bqlm.Compare(q, stores[gi], graphs[gi], 0)
				report(r, st, "three", fmt.Sprintf("three:%d:%d:%d:%d:%d", i, j, l, k, gidx[gi]), q, graphs[gi], v)
			}
		}
	})
	r.Set("three_clause_shapes", int(shapes))
	r.Set("three_clause_graphs", len(graphs))
}

// ---- time bounds taken from bindings of an earlier clause ---------------------------------

func runBoundAliases(r *common.Run, st *stats) {
	shapes := bqlm.BoundAliasShapes()
	graphs := bqlm.BoundAliasGraphs()
	for gi := range graphs {
		store := bqlm.NewStore(graphs[gi])
		for si, cs := range shapes {
			for _, cSize := range []int{0, 2} {
				q := &bqlm.Query{From: []string{"?g"}, Where: cs, Proj: bqlm.SelectAll(cs)}
				v := bqlm.Compare(q, store, graphs[gi], cSize)
				report(r, st, "boundalias", fmt.Sprintf("boundalias:%d:%d", si, gi), q, graphs[gi], v)
			}
		}
	}
	r.Set("bound_alias_shapes", len(shapes))
}

// ---- two clauses with extraction aliases shared across clauses ---------------------------

// aliasClauses: a small clause vocabulary for the alias exploration.
func aliasClauses() []bqlm.Clause {
	ss := []bqlm.Term{{Kind: bqlm.Const, N: bqlm.NA}, {Kind: bqlm.Bind}}
	ps := []bqlm.Term{{Kind: bqlm.Const, P: bqlm.PImm}, {Kind: bqlm.AnchorBind, ID: "p"}, {Kind: bqlm.Bind}}
	os := []bqlm.Term{{Kind: bqlm.Const, N: bqlm.NB}, {Kind: bqlm.Bind}}
	var out []bqlm.Clause
	for _, s := range ss {
		for _, p := range ps {
			for _, o := range os {
				out = append(out, bqlm.Clause{S: s, P: p, O: o})
			}
		}
	}
	return out
}

func aliasGraphs() []map[string][]*triple.Triple {
	T := model.T
	a, b, c := bqlm.NA, bqlm.NB, bqlm.NC
	p, p1, p2 := bqlm.PImm, bqlm.PT1, bqlm.PT2
	gs := [][]*triple.Triple{
		{T(a, p, model.ON(b)), T(b, p, model.ON(a)), T(a, p, model.ON(a))},                                                // symmetric pair + loop: ids agree and disagree
		{T(a, p, model.ON(b)), T(a, p1, model.ON(b)), T(b, p1, model.ON(c)), T(c, p2, model.ON(b)), T(b, p, model.ON(b))}, // anchors shared / not shared
		{T(a, p, model.ON(b)), T(c, p, model.ON(b)), T(a, p1, model.OP(p1)), T(a, p, model.OL(bqlm.LInt))},                // same object, different subjects; non-node objects
	}
	var out []map[string][]*triple.Triple
	for _, g := range gs {
		out = append(out, map[string][]*triple.Triple{"?g": g})
	}
	return out
}

// aliasShapes enumerates, for a pair of named clauses, every way of putting one
// modifier on the second clause (and optionally one on the first) whose alias
// NAME is shared with a binding or alias of the other clause.
func aliasShapes(named []bqlm.Clause, all bool) [][]bqlm.Clause {
	var out [][]bqlm.Clause
	firsts := []bqlm.Clause{named[0]}
	for mi, m := range bqlm.ModifiersFor(named[0]) {
		if !all && mi%3 != 1 {
			continue // quick: every third modifier on the first clause (S TYPE, P ID, O ...); thorough: all
		}
		firsts = append(firsts, bqlm.WithModifier(named[0], m, "?m0"))
	}
	for fi, f := range firsts {
		// everything the first clause binds, its alias included - but not a name the
		// second clause itself uses: naming an extraction like a binding of its own
		// clause ("?gc ID ?gc") is a form the repository's compliance stories use
		// with the extraction winning, so it is left out (see DESIGN.md, C03)
		own := map[string]bool{}
		for _, b := range named[1].Bindings() {
			own[b] = true
		}
		var names []string
		for _, b := range f.Bindings() {
			if !own[b] {
				names = append(names, b)
			}
		}
		if fi == 0 {
			names = append(names, "?m1") // a fresh alias as control
		}
		for _, m := range bqlm.ModifiersFor(named[1]) {
			seen := map[string]bool{}
			for _, n := range names {
				if seen[n] {
					continue
				}
				seen[n] = true
				out = append(out, []bqlm.Clause{f, bqlm.WithModifier(named[1], m, n)})
			}
		}
	}
	return out
}

func runTwoClauseAliases(r *common.Run, st *stats) {
	base := aliasClauses()
	graphs := aliasGraphs()
	stores := make([]storage.Store, len(graphs))
	for i, g := range graphs {
		stores[i] = bqlm.NewStore(g)
	}
	var shapes int64
	common.ParallelFor(len(base), func(i int) {
		for j := range base {
			if r.OutOfTime() {
				return
			}
			for k, named := range bqlm.Namings([]bqlm.Clause{base[i], base[j]}) {
				for ai, cs := range aliasShapes(named, r.Thorough()) {
					q := &bqlm.Query{From: []string{"?g"}, Where: cs, Proj: bqlm.SelectAll(cs)}
					atomic.AddInt64(&shapes, 1)
					for gi := range graphs {
						if !r.Thorough() && gi == 2 {
							continue
						}
						v := bqlm.Compare(q, stores[gi], graphs[gi], 0)
						report(r, st, "alias", fmt.Sprintf("alias:%d:%d:%d:%d:%d", i, j, k, ai, gi), q, graphs[gi], v)
					}
				}
			}
		}
	})
	r.Set("two_clause_shared_alias_shapes", int(shapes))
}

// ---- replay -----------------------------------------------------------------------

func replay(raw json.RawMessage) (bool, string) {
	var k kase
	json.Unmarshal(raw, &k)
	var kind string
	var n [4]int
	parts := strings.Split(k.Gen, ":")
	kind = parts[0]
	for i := 1; i < len(parts) && i <= 4; i++ {
		fmt.Sscan(parts[i], &n[i-1])
	}
	switch kind {
	case "one":
		qs := oneClauseQueries(true)
		if n[0] >= len(qs) || qs[n[0]].Render() != k.Text {
			qs = oneClauseQueries(false)
		}
		q := qs[n[0]]
		data := map[string][]*triple.Triple{"?g": bqlm.Subset(bqlm.Universe8(), n[1])}
		v := bqlm.Compare(q, bqlm.NewStore(data), data, 0)
		return v.Ok, v.Detail
	case "boundalias":
		cs := bqlm.BoundAliasShapes()[n[0]]
		g := bqlm.BoundAliasGraphs()[n[1]]
		q := &bqlm.Query{From: []string{"?g"}, Where: cs, Proj: bqlm.SelectAll(cs)}
		v := bqlm.Compare(q, bqlm.NewStore(g), g, 0)
		return v.Ok, v.Detail
	case "alias":
		base := aliasClauses()
		named := bqlm.Namings([]bqlm.Clause{base[n[0]], base[n[1]]})[n[2]]
		var n3, n4 int
		fmt.Sscan(parts[4], &n3)
		fmt.Sscan(parts[5], &n4)
		shapes := aliasShapes(named, true)
		if n3 >= len(shapes) || (&bqlm.Query{From: []string{"?g"}, Where: shapes[n3], Proj: bqlm.SelectAll(shapes[n3])}).Render() != k.Text {
			shapes = aliasShapes(named, false)
		}
		cs := shapes[n3]
		q := &bqlm.Query{From: []string{"?g"}, Where: cs, Proj: bqlm.SelectAll(cs)}
		g := aliasGraphs()[n4]
		v := bqlm.Compare(q, bqlm.NewStore(g), g, 0)
		return v.Ok, v.Detail
	case "three":
		voc := threeClauseVocab()
		var n4 int
		fmt.Sscan(parts[5], &n4)
		named := bqlm.Namings([]bqlm.Clause{voc[n[0]], voc[n[1]], voc[n[2]]})[n[3]]
		q := &bqlm.Query{From: []string{"?g"}, Where: named, Proj: bqlm.SelectAll(named)}
		g := twoClauseGraphs()[n4]
		v := bqlm.Compare(q, bqlm.NewStore(g), g, 0)
		return v.Ok, v.Detail
	case "two":
		base := bqlm.BaseClauses()
		named := bqlm.Namings([]bqlm.Clause{base[n[0]], base[n[1]]})[n[2]]
		q := &bqlm.Query{From: []string{"?g"}, Where: named, Proj: bqlm.SelectAll(named)}
		g := twoClauseGraphs()[n[3]]
		v := bqlm.Compare(q, bqlm.NewStore(g), g, 0)
		return v.Ok, v.Detail
	}
	return false, "replay of " + kind + " cases: re-run the statement in the file against the listed graphs"
}

func main() {
	r := common.Start("C03", "model_checking")
	r.Replayer("one", replay)
	r.Replayer("two", replay)
	r.Replayer("multi", replay)
	r.Replayer("alias", replay)
	r.Replayer("two-split", replay)
	r.Replayer("boundalias", replay)
	r.Replayer("three", replay)
	r.MaybeReplay()
	// validate the oracle itself against the maintainers' compliance stories
	nOK, nSkip, verr := bqlm.ValidateAgainstStories("/repo/examples/compliance")
	if verr != nil {
		common.Machinery("MODEL-INVALID: the reference evaluator disagrees with a compliance story: %v", verr)
	}
	r.Set("compliance_story_assertions_reproduced_by_reference_evaluator", nOK)
	r.Set("compliance_story_assertions_outside_the_model", nSkip)
	st := &stats{}
	runOneClause(r, st)
	runTwoClause(r, st)
	runTwoClauseAliases(r, st)
	runBoundAliases(r, st)
	runThreeClause(r, st)
	r.Set("evaluations", int(st.evals))
	r.Set("accepted_by_parser", int(st.accepted))
	r.Set("distinct_nontrivial", int(st.nontrivial))
	n := 0
	st.outcomes.Range(func(k, v interface{}) bool { n++; return true })
	r.Set("distinct_outcomes", n)
	r.Set("states", r.Get("one_clause_data_subsets")+r.Get("two_clause_graphs"))
	r.Set("transitions", int(st.evals))
	r.Set("traces_validated_against_impl", int(st.evals))
	r.Set("rule", "every (query shape, graph content) pair is one evaluation; non-trivial = accepted by the parser and the reference result has at least one row and fewer rows than the full product")
	r.Sample(map[string]interface{}{"statement": oneClauseQueries(false)[1234].Render(), "data": "subset mask of bqlm.Universe6"})
	r.Assume("reference evaluator bqlm.Solutions: nested-loop matching with structural value identity, one row per distinct assignment of all pattern bindings")
	r.Assume("time-valued bindings and predicates are joined as instants: two designed graphs store one instant in two zones")
	r.Finish()
}
