// C03 — SELECT returns exactly the solutions of its graph pattern.
//
// Exhaustive enumeration of query shapes (all one-clause shapes x all sharing
// patterns of binding names x every single extraction modifier x global bounds
// x all 64 subsets of a 6-triple universe; all two-clause shapes x designed
// graphs) run through the real pipeline and compared with the reference
// evaluator bqlm.Solutions.
package main

import (
	"encoding/json"
	"fmt"
	"sort"
	"strings"
	"sync"
	"sync/atomic"

	"github.com/google/badwolf/storage"
	"github.com/google/badwolf/triple"

	"verif/bqlm"
	"verif/common"
	"verif/model"
)

// kase is a replayable case: the query and the data per graph.
type kase struct {
	Text   string                      `json:"statement"`
	Graphs map[string][]string         `json:"graphs"` // graph -> triples in text form (informational)
	Q      *bqlm.Query                 `json:"-"`
	Data   map[string][]*triple.Triple `json:"-"`
	// replay key: how to regenerate Q and Data
	Gen string `json:"gen"`
}

func union(data map[string][]*triple.Triple, from []string) (all []*triple.Triple, overlap bool) {
	seen := map[string]int{}
	for _, g := range from {
		for _, t := range data[g] {
			k := model.TripleKey(t)
			seen[k]++
			if seen[k] > 1 {
				overlap = true
			} else {
				all = append(all, t)
			}
		}
	}
	return
}

type verdict struct {
	ok         bool
	class      string
	shape      string
	detail     string
	accepted   bool
	nontrivial bool
	outcome    string
}

func support(rows []string) map[string]int {
	m := map[string]int{}
	for _, r := range rows {
		m[r]++
	}
	return m
}

// compare runs q on st and compares with the reference evaluator.
func compare(q *bqlm.Query, st storage.Store, data map[string][]*triple.Triple, chanSize int) verdict {
	text := q.Render()
	all, overlap := union(data, q.From)
	sols := bqlm.Solutions(q.Where, all, q.GLo, q.GHi)
	want := bqlm.Project(sols, q.Proj)
	var cols []string
	for _, p := range q.Proj {
		cols = append(cols, p.Out())
	}
	res := bqlm.Exec(st, text, chanSize, 0, cols)
	v := verdict{class: classify(q, all)}
	v.nontrivial = len(want) > 0 && len(want) < len(all)*max(1, len(all))
	switch res.Stage {
	case "parse":
		v.ok, v.outcome = true, "rejected-at-parse"
		return v
	case "plan":
		v.ok, v.outcome = true, "rejected-at-plan"
		return v
	case "execute":
		v.accepted = true
		v.shape = "execute-error:" + normErr(res.Err)
		v.detail = fmt.Sprintf("%s\n data=%v\n want %d rows %v\n got error: %s", text, fmtData(data, q.From), len(want), want, res.Err)
		v.outcome = "execute-error"
		return v
	case "panic", "hang":
		v.accepted = true
		v.shape = res.Stage + ":" + normErr(res.Err)
		v.detail = fmt.Sprintf("%s\n data=%v\n %s: %s", text, fmtData(data, q.From), res.Stage, res.Err)
		v.outcome = res.Stage
		return v
	}
	v.accepted = true
	if res.NilBoth {
		v.shape = "nil-table-nil-error"
		v.detail = text
		return v
	}
	got := res.Sorted()
	v.outcome = fmt.Sprintf("rows=%d", len(got))
	if overlap {
		// multiplicities are left open: equal support, count between max and sum
		ws, gs := support(want), support(got)
		ok := len(ws) == len(gs)
		for k := range ws {
			if gs[k] < 1 {
				ok = false
			}
		}
		if ok {
			v.ok = true
			return v
		}
	} else if model.SameStrings(want, got) {
		v.ok = true
		return v
	}
	// Precise shapes for the recorded findings: the result is exactly what a
	// named deviation predicts. Anything else falls through to the generic shapes.
	if !overlap {
		if model.SameStrings(bqlm.Project(bqlm.BagSolutions(q.Where, all, q.GLo, q.GHi), q.Proj), got) {
			v.shape = "one-row-per-matching-triple-combination-instead-of-per-assignment"
			v.detail = fmt.Sprintf("%s\n data=%v\n want %d rows %v\n got  %d rows %v", text, fmtData(data, q.From), len(want), want, len(got), got)
			return v
		}
		var kept []bqlm.Clause
		for _, c := range q.Where {
			if len(c.Bindings()) > 0 {
				kept = append(kept, c)
			}
		}
		if len(kept) < len(q.Where) {
			if len(got) == 0 {
				v.shape = "clause-without-bindings-empties-the-result"
			} else if model.SameStrings(bqlm.Project(bqlm.BagSolutions(kept, all, q.GLo, q.GHi), q.Proj), got) {
				v.shape = "clause-without-bindings-is-ignored"
			}
			if v.shape != "" {
				v.detail = fmt.Sprintf("%s\n data=%v\n want %d rows %v\n got  %d rows %v", text, fmtData(data, q.From), len(want), want, len(got), got)
				return v
			}
		}
	}
	ws, gs := support(want), support(got)
	missing, extra := 0, 0
	for k, n := range ws {
		if gs[k] < n {
			missing += n - gs[k]
		}
	}
	for k, n := range gs {
		if ws[k] < n {
			extra += n - ws[k]
		}
	}
	switch {
	case missing > 0 && extra > 0:
		v.shape = "rows-missing-and-extra"
	case missing > 0:
		v.shape = "rows-missing"
	default:
		v.shape = "rows-extra"
	}
	v.detail = fmt.Sprintf("%s\n data=%v\n want %d rows %v\n got  %d rows %v", text, fmtData(data, q.From), len(want), want, len(got), got)
	return v
}

func fmtData(data map[string][]*triple.Triple, from []string) string {
	var sb strings.Builder
	for _, g := range from {
		sb.WriteString(g + ":{")
		for i, t := range data[g] {
			if i > 0 {
				sb.WriteString(" | ")
			}
			sb.WriteString(strings.ReplaceAll(t.String(), "\t", " "))
		}
		sb.WriteString("} ")
	}
	return sb.String()
}

func normErr(e string) string {
	// keep the stable head of the message, drop values
	for _, cut := range []string{"AppendTable can only append", "runtime error: index out of range", "invalid memory address", "does not box a predicate", "does not box", "DotProduct operations requires disjoint", "cannot project against unknown binding"} {
		if strings.Contains(e, cut) {
			return cut
		}
	}
	if len(e) > 60 {
		e = e[:60]
	}
	return e
}

// classify computes the input classifier from the case alone.
func classify(q *bqlm.Query, data []*triple.Triple) string {
	var fs []string
	add := func(s string) {
		for _, f := range fs {
			if f == s {
				return
			}
		}
		fs = append(fs, s)
	}
	hasLitObj, hasPredObj := false, false
	for _, t := range data {
		if _, err := t.Object().Literal(); err == nil {
			hasLitObj = true
		}
		if _, err := t.Object().Predicate(); err == nil {
			hasPredObj = true
		}
	}
	_ = hasPredObj
	spec := func(c bqlm.Clause) int {
		n := 0
		if c.S.Kind == bqlm.Const {
			n++
		}
		if c.P.Kind == bqlm.Const {
			n++
		}
		if c.O.Kind == bqlm.Const {
			n++
		}
		return n
	}
	// where each binding is used
	use := map[string]map[string]bool{}
	note := func(b, pos string) {
		if b == "" {
			return
		}
		if use[b] == nil {
			use[b] = map[string]bool{}
		}
		use[b][pos] = true
	}
	for i, c := range q.Where {
		if spec(c) == 3 && i > 0 {
			add("fully-specified-clause-not-first")
		}
		if spec(c) < 3 && len(c.Bindings()) == 0 {
			add("clause-without-bindings")
		}
		if (c.P.Kind == bqlm.Bound && c.P.As == "") || (c.O.Kind == bqlm.Bound && c.O.As == "") {
			add("time-range-term-without-alias")
		}
		if c.O.IDAlias != "" && c.O.Kind == bqlm.Bind && hasLitObj {
			add("object-binding-ID-alias-over-literal-objects")
		}
		if c.S.Kind == bqlm.Bind {
			note(c.S.Name, "S")
		}
		if c.P.Kind == bqlm.Bind {
			note(c.P.Name, "P")
		}
		if c.P.Kind == bqlm.AnchorBind {
			note(c.P.Name, "pa")
		}
		if c.O.Kind == bqlm.Bind {
			note(c.O.Name, "O")
		}
		if c.O.Kind == bqlm.AnchorBind {
			note(c.O.Name, "oa")
		}
		for _, t := range []bqlm.Term{c.S, c.P, c.O} {
			note(t.As, "as")
			note(t.IDAlias, "id")
			note(t.TypeAlias, "type")
			note(t.AtAlias, "at")
		}
	}
	var bs []string
	for b := range use {
		bs = append(bs, b)
	}
	sort.Strings(bs)
	for _, b := range bs {
		var ps []string
		for p := range use[b] {
			ps = append(ps, p)
		}
		if len(ps) > 1 {
			sort.Strings(ps)
			add("binding-shared:" + strings.Join(ps, "+"))
		}
	}
	if len(fs) == 0 {
		return "plain"
	}
	sort.Strings(fs)
	return strings.Join(fs, ",")
}

func max(a, b int) int {
	if a > b {
		return a
	}
	return b
}

type stats struct {
	evals, accepted, nontrivial int64
	outcomes                    sync.Map
}

func (s *stats) note(v verdict) {
	atomic.AddInt64(&s.evals, 1)
	if v.accepted {
		atomic.AddInt64(&s.accepted, 1)
	}
	if v.nontrivial && v.accepted {
		atomic.AddInt64(&s.nontrivial, 1)
	}
	s.outcomes.Store(v.outcome, true)
}

func report(r *common.Run, st *stats, check, gen string, q *bqlm.Query, data map[string][]*triple.Triple, v verdict) {
	st.note(v)
	if v.ok {
		return
	}
	gs := map[string][]string{}
	for g, ts := range data {
		for _, t := range ts {
			gs[g] = append(gs[g], t.String())
		}
	}
	r.Fail(common.Failure{Check: check, Class: v.class, Shape: v.shape, Case: kase{Text: q.Render(), Graphs: gs, Gen: gen}, Detail: v.detail})
}

// ---- one-clause exploration -----------------------------------------------------

func oneClauseQueries(pairs bool) []*bqlm.Query {
	var qs []*bqlm.Query
	globals := []struct {
		kind   string
		lo, hi bool
	}{{"", false, false}, {"before", false, true}, {"after", true, false}, {"between", true, true}}
	for _, base := range bqlm.BaseClauses() {
		for _, named := range bqlm.Namings([]bqlm.Clause{base}) {
			c := named[0]
			variants := []bqlm.Clause{c}
			mods := bqlm.ModifiersFor(c)
			for _, m := range mods {
				variants = append(variants, bqlm.WithModifier(c, m, "?m0"))
			}
			if pairs {
				for i := 0; i < len(mods); i++ {
					for j := i + 1; j < len(mods); j++ {
						if mods[i].Pos == mods[j].Pos && mods[i].Kind == mods[j].Kind {
							continue
						}
						variants = append(variants, bqlm.WithModifier(bqlm.WithModifier(c, mods[i], "?m0"), mods[j], "?m1"))
						// the same alias name twice: both extractions must agree
						variants = append(variants, bqlm.WithModifier(bqlm.WithModifier(c, mods[i], "?m0"), mods[j], "?m0"))
					}
				}
			}
			for _, vc := range variants {
				if len(vc.Bindings()) == 0 {
					continue // SELECT needs at least one binding
				}
				for _, g := range globals {
					q := &bqlm.Query{From: []string{"?g"}, Where: []bqlm.Clause{vc}, GlobalKind: g.kind}
					q.Proj = bqlm.SelectAll(q.Where)
					t1, t2 := model.T1, model.T2
					if g.lo {
						q.GLo = &t1
					}
					if g.hi {
						q.GHi = &t2
						if g.kind == "before" {
							q.GHi = &t1
						}
					}
					qs = append(qs, q)
				}
			}
		}
	}
	return qs
}

func runOneClause(r *common.Run, st *stats) {
	qs := oneClauseQueries(r.Thorough())
	u := bqlm.Universe6()
	r.Set("one_clause_shapes", len(qs))
	r.Set("one_clause_data_subsets", 1<<uint(len(u)))
	common.ParallelFor(1<<uint(len(u)), func(mask int) {
		if r.OutOfTime() {
			return
		}
		data := map[string][]*triple.Triple{"?g": bqlm.Subset(u, mask)}
		store := bqlm.NewStore(data)
		for i, q := range qs {
			v := compare(q, store, data, 0)
			report(r, st, "one", fmt.Sprintf("one:%d:%d", i, mask), q, data, v)
		}
	})
	// several FROM graphs: every assignment of the universe's triples to 2 graphs
	// (disjoint split) and a fixed overlapping pair, for the shapes without modifiers.
	var plain []*bqlm.Query
	for _, q := range qs {
		c := q.Where[0]
		if q.GlobalKind == "" && c.S.As+c.S.IDAlias+c.S.TypeAlias+c.P.As+c.P.IDAlias+c.P.AtAlias+c.O.As+c.O.IDAlias+c.O.TypeAlias+c.O.AtAlias == "" {
			plain = append(plain, q)
		}
	}
	r.Set("multi_graph_shapes", len(plain))
	common.ParallelFor(1<<uint(len(u)), func(mask int) {
		if r.OutOfTime() {
			return
		}
		var a, b []*triple.Triple
		for i, t := range u {
			if mask&(1<<uint(i)) != 0 {
				a = append(a, t)
			} else {
				b = append(b, t)
			}
		}
		for variant, data := range []map[string][]*triple.Triple{
			{"?g": a, "?h": b}, // disjoint split of the whole universe
			{"?g": a, "?h": append(append([]*triple.Triple{}, b...), a...)}, // ?h overlaps ?g
		} {
			store := bqlm.NewStore(data)
			for i, q0 := range plain {
				q := *q0
				q.From = []string{"?g", "?h"}
				v := compare(&q, store, data, 0)
				report(r, st, "multi", fmt.Sprintf("multi:%d:%d:%d", i, mask, variant), &q, data, v)
			}
		}
	})
}

// ---- two-clause exploration -----------------------------------------------------

func twoClauseGraphs() []map[string][]*triple.Triple {
	T := model.T
	a, b, c := bqlm.NA, bqlm.NB, bqlm.NC
	p, p1, p2, q := bqlm.PImm, bqlm.PT1, bqlm.PT2, bqlm.QImm
	gs := [][]*triple.Triple{
		{},
		{T(a, p, model.ON(b))},
		{T(a, p, model.ON(b)), T(b, p, model.ON(c)), T(c, p, model.ON(a))},                                  // cycle
		{T(a, p, model.ON(b)), T(a, p1, model.ON(b)), T(a, p2, model.ON(b)), T(b, p1, model.ON(c))},         // same id, three kinds
		{T(a, p, model.OL(bqlm.LInt)), T(a, q, model.OL(bqlm.LInt)), T(c, p, model.OL(bqlm.LText))},         // literals shared as objects
		{T(a, q, model.OP(p1)), T(a, p1, model.ON(b)), T(c, q, model.OP(p)), T(a, p, model.ON(c))},          // predicate-valued objects equal to real predicates
		{T(a, p, model.ON(a)), T(c, p, model.ON(c)), T(a, p1, model.ON(c))},                                 // self loops
		{T(a, p, model.ON(b)), T(a, p, model.OL(bqlm.LInt)), T(a, p, model.OP(p1)), T(b, p1, model.OP(p2))}, // mixed object kinds in one column
		{T(a, p1, model.OP(p1)), T(c, p2, model.OP(p2)), T(a, p2, model.OP(p1))},                            // anchors equal across P and O
		bqlm.Universe6(),
	}
	var out []map[string][]*triple.Triple
	for _, g := range gs {
		out = append(out, map[string][]*triple.Triple{"?g": g})
	}
	return out
}

func runTwoClause(r *common.Run, st *stats) {
	base := bqlm.BaseClauses()
	graphs := twoClauseGraphs()
	stores := make([]storage.Store, len(graphs))
	for i, g := range graphs {
		stores[i] = bqlm.NewStore(g)
	}
	var shapes int64
	common.ParallelFor(len(base), func(i int) {
		for j := range base {
			if r.OutOfTime() {
				return
			}
			for k, named := range bqlm.Namings([]bqlm.Clause{base[i], base[j]}) {
				if len(bqlm.AllBindings(named)) == 0 {
					continue
				}
				q := &bqlm.Query{From: []string{"?g"}, Where: named}
				q.Proj = bqlm.SelectAll(named)
				atomic.AddInt64(&shapes, 1)
				for gi := range graphs {
					v := compare(q, stores[gi], graphs[gi], 0)
					report(r, st, "two", fmt.Sprintf("two:%d:%d:%d:%d", i, j, k, gi), q, graphs[gi], v)
				}
			}
		}
	})
	r.Set("two_clause_shapes", int(shapes))
	r.Set("two_clause_graphs", len(graphs))
}

// ---- replay -----------------------------------------------------------------------

func replay(raw json.RawMessage) (bool, string) {
	var k kase
	json.Unmarshal(raw, &k)
	var kind string
	var n [4]int
	parts := strings.Split(k.Gen, ":")
	kind = parts[0]
	for i := 1; i < len(parts) && i <= 4; i++ {
		fmt.Sscan(parts[i], &n[i-1])
	}
	switch kind {
	case "one":
		qs := oneClauseQueries(true)
		if n[0] >= len(qs) || qs[n[0]].Render() != k.Text {
			qs = oneClauseQueries(false)
		}
		q := qs[n[0]]
		data := map[string][]*triple.Triple{"?g": bqlm.Subset(bqlm.Universe6(), n[1])}
		v := compare(q, bqlm.NewStore(data), data, 0)
		return v.ok, v.detail
	case "two":
		base := bqlm.BaseClauses()
		named := bqlm.Namings([]bqlm.Clause{base[n[0]], base[n[1]]})[n[2]]
		q := &bqlm.Query{From: []string{"?g"}, Where: named, Proj: bqlm.SelectAll(named)}
		g := twoClauseGraphs()[n[3]]
		v := compare(q, bqlm.NewStore(g), g, 0)
		return v.ok, v.detail
	}
	return false, "replay of " + kind + " cases: re-run the statement in the file against the listed graphs"
}

func main() {
	r := common.Start("C03", "model_checking")
	r.Replayer("one", replay)
	r.Replayer("two", replay)
	r.Replayer("multi", replay)
	r.MaybeReplay()
	st := &stats{}
	runOneClause(r, st)
	runTwoClause(r, st)
	r.Set("evaluations", int(st.evals))
	r.Set("accepted_by_parser", int(st.accepted))
	r.Set("distinct_nontrivial", int(st.nontrivial))
	n := 0
	st.outcomes.Range(func(k, v interface{}) bool { n++; return true })
	r.Set("distinct_outcomes", n)
	r.Set("states", r.Get("one_clause_data_subsets")+r.Get("two_clause_graphs"))
	r.Set("transitions", int(st.evals))
	r.Set("traces_validated_against_impl", int(st.evals))
	r.Set("rule", "every (query shape, graph content) pair is one evaluation; non-trivial = accepted by the parser and the reference result has at least one row and fewer rows than the full product")
	r.Sample(map[string]interface{}{"statement": oneClauseQueries(false)[1234].Render(), "data": "subset mask of bqlm.Universe6"})
	r.Assume("reference evaluator bqlm.Solutions: nested-loop matching with structural value identity, one row per distinct assignment of all pattern bindings")
	r.Assume("time-valued bindings are joined as instants; all data anchors are in UTC")
	r.Finish()
}
