// C11 — GROUP BY yields one row per group with correct count, distinct count and sum.
//
// Exhaustive enumeration: patterns whose columns mix value kinds x every choice
// of 1-2 grouping bindings (with and without aliases) x every combination of
// count / count distinct / sum over the remaining bindings x every subset of a
// triple universe (so: empty results, singleton groups, all group shapes).
// Oracle: bqlm.EvalRows (grouping by structural value identity).
package main

import (
	"encoding/json"
	"fmt"
	"math"
	"strings"
	"sync"
	"sync/atomic"
	"time"

	"github.com/google/badwolf/triple"
	"github.com/google/badwolf/triple/literal"

	"verif/bqlm"
	"verif/common"
	"verif/model"
)

var (
	W = model.PI("w")
	F = model.PI("f")
)

func il(v int64) *triple.Object   { return model.OL(model.L(literal.Int64, v)) }
func fl(v float64) *triple.Object { return model.OL(model.L(literal.Float64, v)) }
func tx(s string) *triple.Object  { return model.OL(model.L(literal.Text, s)) }

var zt = time.Date(2016, 1, 1, 0, 0, 0, 500000000, time.UTC)

func universe(n int) []*triple.Triple {
	a, b, c := bqlm.NA, bqlm.NB, bqlm.NC
	p := bqlm.PImm
	u := []*triple.Triple{
		model.T(a, p, model.ON(b)),
		model.T(a, p, il(1)),
		model.T(b, p, il(1)),
		model.T(a, p, model.OP(bqlm.PT1)),
		model.T(b, p, model.ON(c)),
		// one group sums to exactly the largest int64; the other values are negative, so no order of additions overflows
		model.T(a, W, il(-2)),
		model.T(a, W, il(-3)),
		model.T(b, W, il(math.MaxInt64)),
		// two float64 values closer than any fixed number of decimals keeps apart: two groups, two distinct values
		model.T(a, F, fl(-0.5)),
		model.T(b, F, fl(-0.5000001)),
		// the same instant written in two zones: one predicate value, hence one group / one distinct value
		model.T(a, model.PT("t", zt.In(time.FixedZone("", 3600))), il(1)),
		model.T(b, model.PT("t", zt.In(time.UTC)), il(1)),
		model.T(c, p, tx("1")),
		model.T(c, W, il(-7)),
		model.T(a, F, fl(2.0)),
		model.T(c, p, model.ON(b)),
	}
	return u[:n]
}

func bindT(n string) bqlm.Term { return bqlm.Term{Kind: bqlm.Bind, Name: n} }
func predT(p interface{ String() string }) bqlm.Term {
	return bqlm.Term{}
}

func patterns() [][]bqlm.Clause {
	cp := func(pr *bqlm.Term) bqlm.Term { return *pr }
	P := bqlm.Term{Kind: bqlm.Const, P: bqlm.PImm}
	Wt := bqlm.Term{Kind: bqlm.Const, P: W}
	Ft := bqlm.Term{Kind: bqlm.Const, P: F}
	_ = cp
	return [][]bqlm.Clause{
		{{S: bindT("?s"), P: P, O: bindT("?o")}},
		{{S: bindT("?s"), P: Wt, O: bindT("?n")}},
		{{S: bindT("?s"), P: Ft, O: bindT("?x")}},
		{{S: bindT("?s"), P: bindT("?p"), O: bindT("?o")}},
		{{S: bindT("?s"), P: P, O: bindT("?o")}, {S: bindT("?s"), P: Wt, O: bindT("?n")}},
		{{S: bindT("?s"), P: P, O: bindT("?o")}, {S: bindT("?o"), P: P, O: bindT("?z")}},
		{{S: bindT("?s"), P: P, O: bqlm.Term{Kind: bqlm.Bind, Name: "?o", TypeAlias: "?t"}}},
		{{S: bindT("?s"), P: bqlm.Term{Kind: bqlm.AnchorBind, ID: "t", Name: "?at"}, O: bindT("?o")}},
	}
}

// queries enumerates every grouping / aggregate combination for a pattern.
func queries(cs []bqlm.Clause) []*bqlm.Query {
	bs := bqlm.AllBindings(cs)
	var out []*bqlm.Query
	n := len(bs)
	for gmask := 1; gmask < 1<<uint(n); gmask++ {
		var keys, rest []string
		for i, b := range bs {
			if gmask&(1<<uint(i)) != 0 {
				keys = append(keys, b)
			} else {
				rest = append(rest, b)
			}
		}
		if len(keys) > 2 {
			continue
		}
		// aggregates: for each remaining binding one of none,count,count distinct,sum; plus
		// the pair (count, count distinct) on the same binding.
		aggs := [][]bqlm.Proj{{}}
		for _, b := range rest {
			var next [][]bqlm.Proj
			opts := [][]bqlm.Proj{
				{},
				{{Binding: b, Op: "count", Alias: "?c_" + b[1:]}},
				{{Binding: b, Op: "count", Distinct: true, Alias: "?d_" + b[1:]}},
				{{Binding: b, Op: "sum", Alias: "?sum_" + b[1:]}},
				{{Binding: b, Op: "count", Alias: "?c_" + b[1:]}, {Binding: b, Op: "count", Distinct: true, Alias: "?d_" + b[1:]}},
			}
			for _, a := range aggs {
				for _, o := range opts {
					next = append(next, append(append([]bqlm.Proj{}, a...), o...))
				}
			}
			aggs = next
		}
		for _, ag := range aggs {
			for _, aliasKeys := range []bool{false, true} {
				q := &bqlm.Query{From: []string{"?g"}, Where: cs}
				for _, k := range keys {
					pr := bqlm.Proj{Binding: k}
					if aliasKeys {
						pr.Alias = "?k_" + k[1:]
					}
					q.Proj = append(q.Proj, pr)
					q.GroupBy = append(q.GroupBy, pr.Out())
				}
				q.Proj = append(q.Proj, ag...)
				out = append(out, q)
				if aliasKeys || len(keys) > 1 {
					continue
				}
				// the order of the SELECT list is free: aggregates written before the grouping column
				if len(ag) == 1 || len(ag) == 2 && ag[0].Binding == ag[1].Binding {
					r := &bqlm.Query{From: q.From, Where: cs, GroupBy: q.GroupBy}
					r.Proj = append(append([]bqlm.Proj{}, ag...), q.Proj[:len(keys)]...)
					out = append(out, r)
				}
				// the grouping binding itself aggregated, before and after its plain projection
				if len(ag) == 0 || len(ag) == 1 && ag[0].Op == "sum" {
					k := keys[0]
					for _, ka := range []bqlm.Proj{{Binding: k, Op: "count", Alias: "?c_" + k[1:]}, {Binding: k, Op: "count", Distinct: true, Alias: "?d_" + k[1:]}} {
						a := &bqlm.Query{From: q.From, Where: cs, GroupBy: q.GroupBy}
						a.Proj = append(append([]bqlm.Proj{ka}, q.Proj[:1]...), ag...)
						b := &bqlm.Query{From: q.From, Where: cs, GroupBy: q.GroupBy}
						b.Proj = append(append(append([]bqlm.Proj{}, q.Proj[:1]...), ag...), ka)
						out = append(out, a, b)
					}
				}
			}
		}
	}
	return out
}

type kase struct {
	Text string   `json:"statement"`
	Data []string `json:"graph"`
	Gen  string   `json:"gen"`
}

type stats struct {
	evals, nontrivial, unspecified, rejected, merged int64
	outcomes                                         sync.Map
}

func classify(q *bqlm.Query, data []*triple.Triple) string {
	var fs []string
	sols := bqlm.Solutions(q.Where, data, nil, nil)
	if len(sols) == 0 {
		fs = append(fs, "no-solutions")
	}
	// does a grouping column mix value kinds?
	for _, p := range q.Proj {
		if p.Op != "" {
			continue
		}
		kinds := map[string]bool{}
		for _, a := range sols {
			kinds[bqlm.SortKind(a[p.Binding])] = true
		}
		if len(kinds) > 1 {
			fs = append(fs, "grouping-column-mixes-kinds")
			break
		}
	}
	for _, p := range q.Proj {
		if p.Op == "sum" {
			fs = append(fs, "sum")
			break
		}
	}
	if len(fs) == 0 {
		return "plain"
	}
	return strings.Join(fs, ",")
}

func check(q *bqlm.Query, data []*triple.Triple) (ok bool, class, shape, detail, outcome string, nontrivial bool) {
	class = classify(q, data)
	graphs := map[string][]*triple.Triple{"?g": data}
	want, err := bqlm.EvalRows(q, data)
	if err == bqlm.ErrUnspecified || !bqlm.SumColumnsUniform(q, data) {
		return true, class, "", "", "unspecified", false
	}
	if err != nil {
		common.Machinery("reference evaluator failed on %s: %v", q.Render(), err)
	}
	cols := q.OutCols()
	wk := bqlm.KeysOfRows(want, cols)
	res := bqlm.Exec(bqlm.NewStore(graphs), q.Render(), 0, 0, cols)
	text := q.Render()
	switch res.Stage {
	case "parse", "plan":
		return true, class, "", "", "rejected:" + res.Stage, false
	case "execute", "panic", "hang":
		e := res.Err
		for _, cut := range []string{"index out of range", "can only sum int64 and float64"} {
			if strings.Contains(e, cut) {
				e = cut
			}
		}
		if len(e) > 60 {
			e = e[:60]
		}
		return false, class, res.Stage + ":" + e, fmt.Sprintf("%s\n data=%s\n want %d rows %v\n got %s: %s", text, bqlm.FmtData(graphs, q.From), len(wk), wk, res.Stage, res.Err), res.Stage, false
	}
	if res.NilBoth {
		return false, class, "nil-table-nil-error", text, "nil", false
	}
	got := res.Sorted()
	outcome = fmt.Sprintf("groups=%d", len(got))
	if model.SameStrings(wk, got) {
		return true, class, "", "", outcome, len(wk) > 0
	}
	shape = "groups-differ"
	// precise shape: the same group appears in several rows (groups split)
	keyOf := func(row string) string {
		var ks []string
		for _, part := range strings.Split(row, ";") {
			for _, g := range q.GroupBy {
				if strings.HasPrefix(part, g+"=") {
					ks = append(ks, part)
				}
			}
		}
		return strings.Join(ks, ";")
	}
	seen := map[string]int{}
	for _, r := range got {
		seen[keyOf(r)]++
	}
	for _, n := range seen {
		if n > 1 {
			shape = "group-split-into-several-rows"
		}
	}
	return false, class, shape, fmt.Sprintf("%s\n data=%s\n want %d rows %v\n got  %d rows %v", text, bqlm.FmtData(graphs, q.From), len(wk), wk, len(got), got), outcome, true
}

func main() {
	r := common.Start("C11", "model_checking")
	r.Replayer("group", func(raw json.RawMessage) (bool, string) {
		var k kase
		json.Unmarshal(raw, &k)
		var pi, qi, mask, n int
		fmt.Sscanf(k.Gen, "%d:%d:%d:%d", &pi, &qi, &mask, &n)
		q := queries(patterns()[pi])[qi]
		ok, _, _, d, _, _ := check(q, bqlm.Subset(universe(n), mask))
		return ok, d
	})
	r.MaybeReplay()
	n := r.Pick(12, 14)
	u := universe(n)
	pats := patterns()
	var allQ [][]*bqlm.Query
	total := 0
	for _, p := range pats {
		qs := queries(p)
		allQ = append(allQ, qs)
		total += len(qs)
	}
	r.Set("queries", total)
	r.Set("universe", n)
	masks := bqlm.Masks(n, r.Thorough())
	if !r.Thorough() {
		// quick: all subsets of <= 3 triples, the full universe, and every subset of the first 8
		seen := map[int]bool{}
		for _, m := range masks {
			seen[m] = true
		}
		for m := 0; m < 1<<8; m++ {
			if !seen[m] {
				masks = append(masks, m)
			}
		}
	}
	r.Set("states", len(masks))
	// a pattern whose clauses all name their predicate id cannot see triples with other ids: graph subsets
	// that agree on the triples it can see give the same evaluation, which is done once (for the first such subset)
	visible := make([]int, len(pats)) // per pattern: bit mask of the universe triples some clause can match
	for pi, p := range pats {
		ids := map[string]bool{}
		all := false
		for _, c := range p {
			switch {
			case c.P.Kind == bqlm.Const:
				ids[string(c.P.P.ID())] = true
			case c.P.Kind == bqlm.AnchorBind || c.P.Kind == bqlm.Bound:
				ids[c.P.ID] = true
			default:
				all = true
			}
		}
		for i, t := range u {
			if all || ids[string(t.Predicate().ID())] {
				visible[pi] |= 1 << uint(i)
			}
		}
	}
	firstWith := make([]map[int]int, len(pats))
	for pi := range pats {
		firstWith[pi] = map[int]int{}
		for mi, m := range masks {
			if _, ok := firstWith[pi][m&visible[pi]]; !ok {
				firstWith[pi][m&visible[pi]] = mi
			}
		}
	}
	st := &stats{}
	common.ParallelFor(len(masks), func(mi int) {
		if r.OutOfTime() {
			return
		}
		data := bqlm.Subset(u, masks[mi])
		for pi := range pats {
			if firstWith[pi][masks[mi]&visible[pi]] != mi {
				atomic.AddInt64(&st.merged, int64(len(allQ[pi])))
				continue
			}
			for qi, q := range allQ[pi] {
				ok, class, shape, detail, outcome, nt := check(q, data)
				atomic.AddInt64(&st.evals, 1)
				if nt {
					atomic.AddInt64(&st.nontrivial, 1)
				}
				if outcome == "unspecified" {
					atomic.AddInt64(&st.unspecified, 1)
				}
				if strings.HasPrefix(outcome, "rejected") {
					atomic.AddInt64(&st.rejected, 1)
				}
				st.outcomes.Store(outcome, true)
				if !ok {
					var ds []string
					for _, t := range data {
						ds = append(ds, t.String())
					}
					r.Fail(common.Failure{Check: "group", Class: class, Shape: shape, Case: kase{q.Render(), ds, fmt.Sprintf("%d:%d:%d:%d", pi, qi, masks[mi], n)}, Detail: detail})
				}
			}
		}
	})
	r.Set("evaluations", int(st.evals))
	r.Set("evaluations_merged_same_visible_triples", int(st.merged))
	r.Set("distinct_nontrivial", int(st.nontrivial))
	r.Set("unspecified_sum_cases_skipped", int(st.unspecified))
	r.Set("rejected_by_parser", int(st.rejected))
	no := 0
	st.outcomes.Range(func(k, v interface{}) bool { no++; return true })
	r.Set("distinct_outcomes", no)
	r.Set("transitions", int(st.evals))
	r.Set("traces_validated_against_impl", int(st.evals))
	r.Set("rule", "every (aggregate query, graph subset) pair is one evaluation; non-trivial = accepted, specified, and at least one group")
	r.Sample(map[string]interface{}{"statement": allQ[4][len(allQ[4])/2].Render(), "graph": "every subset of the universe"})
	r.Assume("groups are formed by structural value identity (kind + value); count = number of solutions (distinct assignments) in the group")
	r.Assume("latitude: sum over a column that is not uniformly int64 or uniformly float64 is unspecified and skipped")
	r.Finish()
}
