package main

// Store-level operations through the wrapper: the search above works on one graph that exists throughout. Here the
// graph itself comes and goes: every sequence (up to the depth bound) over
//   new | del | get | add | rem | sweep-first | sweep-last | names
// is applied to a memoizing wrapper over a memory store AND to a plain memory store (the differential reference: "the
// same answer the wrapped store would return"), with the handles the operations hand out kept side by side: `new` and
// `get` append a handle (when they succeed), `add` / `rem` write one triple through the newest handle, the sweeps ask
// every default-option read of the grid (and Exist of every universe triple) through the oldest / newest handle, and
// `names` lists the graphs. After every operation: both sides fail or succeed alike, and every answer is the same.
// A handle to a graph that was deleted (and perhaps created again) stays in the lists: what it answers is whatever the
// wrapped driver answers through its own handle of that age.

import (
	"fmt"
	"sort"
	"strings"
	"sync/atomic"

	"github.com/google/badwolf/storage"
	"github.com/google/badwolf/storage/memoization"
	"github.com/google/badwolf/storage/memory"
	"github.com/google/badwolf/triple"

	"verif/common"
	"verif/model"
)

var storeAlphabet = []string{"new", "del", "get", "add", "rem", "sweep-first", "sweep-last", "names"}

type storeCase struct {
	Ops []string `json:"store_ops"`
}

func graphNames(s storage.Store) (string, error) {
	ch := make(chan string, 16)
	err := s.GraphNames(model.Ctx, ch)
	var ns []string
	for {
		select {
		case n, ok := <-ch:
			if !ok {
				sort.Strings(ns)
				return strings.Join(ns, ","), err
			}
			ns = append(ns, n)
		default:
			sort.Strings(ns)
			return strings.Join(ns, ",") + " [channel left open]", err
		}
	}
}

// runStoreOps returns the number of compared answers and the first difference ("" = none).
func runStoreOps(ops []string, reads []read) (int, string) {
	a, b := memoization.New(memory.NewStore()), memory.NewStore()
	var ha, hb []storage.Graph
	n := 0
	same := func(what string, ea, eb error) string {
		if (ea == nil) != (eb == nil) {
			return fmt.Sprintf("%s: the wrapper says %v, the wrapped driver %v", what, ea, eb)
		}
		return ""
	}
	sweep := func(i int, what string) string {
		for _, rd := range reads {
			if rd.exist == nil && rd.oi != 0 {
				continue
			}
			want, got := doRead(hb[i], rd), doRead(ha[i], rd)
			n++
			if want != got {
				return fmt.Sprintf("%s, %v through handle #%d\n wrapped driver: %s\n wrapper       : %s", what, rd, i+1, want, got)
			}
		}
		return ""
	}
	adds := 0
	for k, o := range ops {
		what := fmt.Sprintf("after %v", ops[:k+1])
		switch o {
		case "new":
			ga, ea := a.NewGraph(model.Ctx, "?g")
			gb, eb := b.NewGraph(model.Ctx, "?g")
			if d := same(what, ea, eb); d != "" {
				return n, d
			}
			if ea == nil {
				ha, hb = append(ha, ga), append(hb, gb)
			}
		case "get":
			ga, ea := a.Graph(model.Ctx, "?g")
			gb, eb := b.Graph(model.Ctx, "?g")
			if d := same(what, ea, eb); d != "" {
				return n, d
			}
			if ea == nil {
				ha, hb = append(ha, ga), append(hb, gb)
			}
		case "del":
			if d := same(what, a.DeleteGraph(model.Ctx, "?g"), b.DeleteGraph(model.Ctx, "?g")); d != "" {
				return n, d
			}
		case "add", "rem":
			if len(ha) == 0 {
				continue
			}
			t := []*triple.Triple{universe[adds%len(universe)]}
			var ea, eb error
			if o == "add" {
				ea, eb = ha[len(ha)-1].AddTriples(model.Ctx, t), hb[len(hb)-1].AddTriples(model.Ctx, t)
				adds++
			} else {
				t = []*triple.Triple{universe[(adds+len(universe)-1)%len(universe)]} // the triple added last
				ea, eb = ha[len(ha)-1].RemoveTriples(model.Ctx, t), hb[len(hb)-1].RemoveTriples(model.Ctx, t)
			}
			if d := same(what, ea, eb); d != "" {
				return n, d
			}
		case "sweep-first", "sweep-last":
			if len(ha) == 0 {
				continue
			}
			i := 0
			if o == "sweep-last" {
				i = len(ha) - 1
			}
			if d := sweep(i, what); d != "" {
				return n, d
			}
		case "names":
			na, ea := graphNames(a)
			nb, eb := graphNames(b)
			n++
			if d := same(what, ea, eb); d != "" {
				return n, d
			}
			if na != nb {
				return n, fmt.Sprintf("%s: GraphNames through the wrapper %q, of the wrapped driver %q", what, na, nb)
			}
		}
	}
	// closing observation: every handle ever handed out
	for i := range ha {
		if d := sweep(i, fmt.Sprintf("after %v (closing sweep)", ops)); d != "" {
			return n, d
		}
	}
	return n, ""
}

func levelStoreOps(r *common.Run, reads []read) {
	depth := r.Pick(5, 6)
	total := 1
	for i := 0; i < depth; i++ {
		total *= len(storeAlphabet)
	}
	var done, answers int64
	const chunk = 512
	nchunks := (total + chunk - 1) / chunk
	fails := make([][]common.Failure, nchunks)
	common.ParallelFor(nchunks, func(ci int) {
		for x := ci * chunk; x < (ci+1)*chunk && x < total; x++ {
			if r.OutOfTime() {
				return
			}
			ops := make([]string, depth)
			for i, v := 0, x; i < depth; i++ {
				ops[i] = storeAlphabet[v%len(storeAlphabet)]
				v /= len(storeAlphabet)
			}
			var n int
			var d string
			if p := common.Guard(func() { n, d = runStoreOps(ops, reads) }); p != nil {
				d = fmt.Sprintf("panic: %v", p)
			}
			atomic.AddInt64(&done, 1)
			atomic.AddInt64(&answers, int64(n))
			if d != "" {
				fails[ci] = append(fails[ci], common.Failure{Check: "store", Class: "store-level-operations", Shape: "answer-differs-from-wrapped-store", Case: storeCase{ops}, Detail: d})
			}
		}
	})
	for _, fs := range fails {
		for _, f := range fs {
			r.Fail(f)
		}
	}
	r.Set("store_level_sequences", int(done))
	if int(done) < total {
		r.SetCapped()
	}
	r.Set("store_level_depth", depth)
	r.Set("store_level_answers_compared", int(answers))
}
