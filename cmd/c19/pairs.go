package main

// Value pairs through the wrapper: the search above asks a hand-made grid of arguments; a memoizer that keys an
// answer on something coarser than the arguments themselves (a UUID, a printed form, a truncated buffer) shows there
// only for those arguments. This pass quantifies over the values: for every unordered pair (x, y) of the
// near-collision universes shared with C01, C02 and C06 and every position of a triple, the two triples tx, ty that
// differ only there go through a fresh memory store under a fresh wrapper
//     add tx | add ty | remove tx          (through handle 1)
// and after each step Exist and every lookup that takes that position as an argument are asked through handle 2 with x, then with y, then with x again
// (the second value meets whatever the first one left in the cache, the third read meets what the second left); every
// answer is compared with the wrapped graph's answer to the same call at that moment. The quick tier asks after the
// first and the last step only (one value stored, the other not, in both roles).

import (
	"fmt"
	"sync/atomic"

	"github.com/google/badwolf/storage"
	"github.com/google/badwolf/storage/memoization"
	"github.com/google/badwolf/storage/memory"
	"github.com/google/badwolf/triple"

	"verif/common"
	"verif/lookup"
	"verif/model"
	"verif/vals"
)

type pairCase struct {
	Pos string     `json:"position"`
	X   *vals.Spec `json:"x"`
	Y   *vals.Spec `json:"y"`
}

func pairTriple(pos string, s *vals.Spec) *triple.Triple {
	fs, fp, fo := vals.NodeSpec("/u", "s0"), vals.ImmSpec("p0"), vals.ObjSpec(vals.NodeSpec("/u", "o0"))
	switch pos {
	case "S":
		fs = s
	case "P":
		fp = s
	default:
		fo = s
	}
	return vals.MustBuild(vals.TripleSpec(fs, fp, fo)).T
}

// runPair returns the number of compared reads and the mismatches (as texts).
func runPair(c pairCase, full bool) (int, []string) {
	tx, ty := pairTriple(c.Pos, c.X), pairTriple(c.Pos, c.Y)
	ms := memory.NewStore()
	w := memoization.New(ms)
	var bad []string
	must := func(what string, err error) bool {
		if err != nil {
			bad = append(bad, what+": "+err.Error())
			return false
		}
		return true
	}
	h1, err := w.NewGraph(model.Ctx, "?g")
	if !must("NewGraph", err) {
		return 0, bad
	}
	h2, err := w.Graph(model.Ctx, "?g")
	if !must("Graph", err) {
		return 0, bad
	}
	raw, err := ms.Graph(model.Ctx, "?g")
	if !must("Graph (wrapped)", err) {
		return 0, bad
	}
	n := 0
	// only the lookups that take the varied position as an argument: for the others the calls with x and with y are
	// one and the same call (repeated identical reads belong to the search above)
	var methods []lookup.Method
	for _, m := range lookup.Ten {
		fs, fp, fo := m.Fixes()
		if (c.Pos == "S" && fs) || (c.Pos == "P" && fp) || (c.Pos == "O" && fo) {
			methods = append(methods, m)
		}
	}
	ask := func(step string) {
		cmp := func(k int, rd read, want string) {
			got := doRead(h2, rd)
			n++
			if want != got {
				bad = append(bad, fmt.Sprintf("after %s, read %d of (x, y, x): %v\n wrapped graph: %s\n memoizer     : %s", step, k+1, rd, want, got))
			}
		}
		for _, m := range methods {
			rx := read{q: lookup.Query{M: m, S: tx.Subject(), P: tx.Predicate(), O: tx.Object()}}
			ry := read{q: lookup.Query{M: m, S: ty.Subject(), P: ty.Predicate(), O: ty.Object()}}
			wx, wy := doRead(raw, rx), doRead(raw, ry)
			cmp(0, rx, wx)
			cmp(1, ry, wy)
			cmp(2, rx, wx)
		}
		rx, ry := read{exist: tx}, read{exist: ty}
		wx, wy := doRead(raw, rx), doRead(raw, ry)
		cmp(0, rx, wx)
		cmp(1, ry, wy)
		cmp(2, rx, wx)
	}
	if must("add x", h1.AddTriples(model.Ctx, []*triple.Triple{tx})) {
		ask("add x")
	}
	if must("add y", h1.AddTriples(model.Ctx, []*triple.Triple{ty})) && full {
		ask("add x, add y")
	}
	if must("remove x", h1.RemoveTriples(model.Ctx, []*triple.Triple{tx})) {
		ask("add x, add y, remove x")
	}
	return n, bad
}

func levelPairs(r *common.Run) {
	th := r.Thorough()
	ns, ps, ls := vals.NearNodes(th), vals.NearPreds(th), vals.NearLits(th)
	var os []*vals.Spec
	for _, fam := range [][]*vals.Spec{ns, ps, ls} {
		for _, s := range fam {
			os = append(os, vals.ObjSpec(s))
		}
	}
	fams := map[string][]*vals.Spec{"S": vals.Dedup(ns), "P": vals.Dedup(ps), "O": vals.Dedup(os)}
	var cases []pairCase
	for _, pos := range []string{"S", "P", "O"} {
		fam := fams[pos]
		for i := range fam {
			for j := i + 1; j < len(fam); j++ {
				cases = append(cases, pairCase{Pos: pos, X: fam[i], Y: fam[j]})
			}
		}
	}
	var done, evals int64
	const chunk = 256
	nchunks := (len(cases) + chunk - 1) / chunk
	shards := make([]lookup.Shard, nchunks)
	common.ParallelFor(nchunks, func(ci int) {
		sh := &shards[ci]
		for i := ci * chunk; i < (ci+1)*chunk && i < len(cases); i++ {
			if r.OutOfTime() {
				return
			}
			c := cases[i]
			var n int
			var bad []string
			if p := common.Guard(func() { n, bad = runPair(c, th) }); p != nil {
				bad = append(bad, fmt.Sprintf("panic: %v", p))
			}
			if len(bad) > 0 {
				sh.Fail(common.Failure{Check: "pair", Class: "value-pair:" + c.Pos, Shape: "answer-differs-from-wrapped-graph", Case: c,
					Detail: fmt.Sprintf("triples differing only in position %s: x=%s y=%s (%d differing reads)\n %s", c.Pos, c.X.Short(), c.Y.Short(), len(bad), bad[0])})
			}
			atomic.AddInt64(&done, 1)
			atomic.AddInt64(&evals, int64(n))
		}
	})
	lookup.Flush(r, shards)
	r.Set("value_pairs", int(done))
	if int(done) < len(cases) {
		r.SetCapped() // the time budget ended before every pair was visited
	}
	r.Set("value_pairs_total", len(cases))
	r.Set("value_pair_reads", int(evals))
}

var _ storage.Graph
