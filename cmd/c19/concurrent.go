package main

import (
	"bytes"
	"encoding/json"
	"fmt"
	"os"
	"os/exec"
	"strings"

	"verif/common"
)

// The CONCURRENT half of C19 ("... also when reads run concurrently with the
// write") lives in cmd/c19c: the real memoization and memory packages,
// instrumented, under the vsched engine. cmd/c19/build.sh builds that binary
// next to this one (<this binary>c); this file starts it, merges its report
// into the one evidence file of the property and forwards its failures and
// replays. A build that has no c19c binary next to it (a plain `go build
// ./cmd/c19`) runs the sequential part only and says so.

type concFailure struct {
	Check  string          `json:"check"`
	Class  string          `json:"class"`
	Shape  string          `json:"shape"`
	Case   json.RawMessage `json:"case"`
	Detail string          `json:"detail"`
	Count  int             `json:"count"`
}

type concReport struct {
	Scenarios   json.RawMessage          `json:"scenarios"`
	Schedules   int                      `json:"schedules"`
	Transitions int                      `json:"transitions"`
	States      int                      `json:"states"`
	Validated   int                      `json:"traces_validated_against_impl"`
	Outcomes    int                      `json:"distinct_outcomes"`
	Exhaustive  bool                     `json:"exhaustive"`
	Rule        string                   `json:"rule"`
	Assumptions []string                 `json:"assumptions"`
	Samples     []map[string]interface{} `json:"samples"`
	Failures    []concFailure            `json:"failures"`
	Inventory   json.RawMessage          `json:"instrumentation_inventory"`
	WallS       float64                  `json:"wall_s"`
}

func concurrentBinary() string {
	if p := os.Getenv("VERIF_C19C_BIN"); p != "" {
		return p
	}
	exe, err := os.Executable()
	if err != nil {
		return ""
	}
	return exe + "c"
}

type concRun struct {
	done chan struct{}
	rep  *concReport
	skip string
}

// startConcurrent launches the concurrent part in the background (it uses
// worker processes of its own); collect waits for it.
func startConcurrent(r *common.Run) *concRun {
	c := &concRun{done: make(chan struct{})}
	bin := concurrentBinary()
	if _, err := os.Stat(bin); bin == "" || err != nil {
		c.skip = "no c19c binary next to this one (" + bin + "): built without cmd/c19/build.sh"
		close(c.done)
		return c
	}
	go func() {
		defer close(c.done)
		cmd := exec.Command(bin, "--part", r.Tier)
		var out bytes.Buffer
		cmd.Stdout, cmd.Stderr = &out, os.Stderr
		if err := cmd.Run(); err != nil {
			if fl := firstLineOf(out.String()); strings.Contains(fl, "NONDETERMINISM") {
				// the code under test keeps state in package-level variables that survives between executions of
				// one process: schedules cannot be replayed, so this part cannot explore it. The sequential part
				// (fresh store per case, same process) still gives its verdict; the run is reported as capped.
				c.skip = "not explorable on this tree: executions are not reproducible (" + fl[:min(len(fl), 160)] + ")"
				r.SetCapped()
				return
			}
			common.Machinery("concurrent part (%s): %v: %s", bin, err, firstLineOf(out.String()))
		}
		var rep concReport
		if err := json.Unmarshal(out.Bytes(), &rep); err != nil {
			common.Machinery("concurrent part (%s): unreadable report: %v", bin, err)
		}
		c.rep = &rep
	}()
	return c
}

func firstLineOf(s string) string {
	if i := strings.Index(s, "\n"); i >= 0 {
		s = s[:i]
	}
	if len(s) > 500 {
		s = s[:500]
	}
	return s
}

// collect merges the concurrent part into the run (coverage, assumptions, samples, failures).
func (c *concRun) collect(r *common.Run) {
	<-c.done
	if c.skip != "" {
		fmt.Println("note: CONCURRENT part of C19 not run: " + c.skip)
		r.Set("concurrent_part", "not run: "+c.skip)
		r.Assume("CONCURRENT part not run by this build: " + c.skip)
		r.SetCapped()
		return
	}
	rep := c.rep
	for _, a := range rep.Assumptions {
		r.Assume(a)
	}
	for _, s := range rep.Samples {
		r.Sample(s)
	}
	for _, f := range rep.Failures {
		for i := 0; i < f.Count; i++ {
			r.Fail(common.Failure{Check: "sched", Class: f.Class, Shape: f.Shape, Case: f.Case, Detail: f.Detail})
		}
	}
	if !rep.Exhaustive {
		r.SetCapped()
	}
	r.Set("concurrent_part", map[string]interface{}{
		"engine": "vsched (cmd/c19c)", "scenarios": rep.Scenarios, "schedules": rep.Schedules, "transitions": rep.Transitions,
		"distinct_partial_orders": rep.States, "traces_validated_against_impl": rep.Validated, "distinct_outcomes": rep.Outcomes,
		"exhaustive": rep.Exhaustive, "rule": rep.Rule, "wall_s": rep.WallS, "instrumentation_inventory": rep.Inventory,
	})
	r.Set("concurrent_schedules", rep.Schedules)
	r.Set("concurrent_distinct_partial_orders", rep.States)
}

// replayConcurrent re-executes a recorded schedule through the c19c binary.
func replayConcurrent(raw json.RawMessage) (bool, string) {
	bin := concurrentBinary()
	if _, err := os.Stat(bin); bin == "" || err != nil {
		common.Machinery("replay of a concurrent case needs the c19c binary (use ./vcheck C19 --replay ...)")
	}
	cmd := exec.Command(bin, "--replay-case")
	cmd.Stdin = bytes.NewReader(raw)
	var out bytes.Buffer
	cmd.Stdout, cmd.Stderr = &out, os.Stderr
	if err := cmd.Run(); err != nil {
		common.Machinery("concurrent replay: %v: %s", err, firstLineOf(out.String()))
	}
	var res struct {
		Held    bool   `json:"held"`
		Message string `json:"message"`
	}
	if err := json.Unmarshal(out.Bytes(), &res); err != nil {
		common.Machinery("concurrent replay: unreadable answer: %v", err)
	}
	return res.Held, res.Message
}
