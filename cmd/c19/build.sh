#!/bin/bash
# cmd/c19/build.sh <output-binary>
# C19 has two halves: the sequential explicit-state check (this directory, plain build)
# and the concurrent one on the vsched engine (cmd/c19c, instrumented build), which the
# sequential binary starts and whose report it merges into evidence/C19.json.
set -e
out="$1"
here="$(cd "$(dirname "$0")/../.." && pwd)"
cd "$here"
. ./env.sh
case "$out" in /*) ;; *) out="$here/$out" ;; esac
go build ${SEED_OVERLAY:+-overlay "$SEED_OVERLAY"} -o "$out" ./cmd/c19 &   # SEED_OVERLAY: trial builds against a changed copy of /repo (tools/seedcheck.py)
p1=$!
cmd/c19c/build.sh "${out}c"
wait $p1
