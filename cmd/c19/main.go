// C19 — the memoizing store is observationally identical to the store it wraps
// (SEQUENTIAL part; the concurrent interleavings are explored by cmd/c19c on the
// vsched engine, started and merged by concurrent.go).
//
// Three handles of one graph are obtained through memoization.New(memory store):
// h1 = NewGraph, h2 and h3 = Graph. Operations: add/remove one of three triples
// through any handle; a "sweep" = every read of the grid (all ten lookups, the
// listing, Exist; 6-8 option values incl. MaxElements=1 with Offset 0,1,2, a
// window, latest) through one handle in forward or reverse grid order; single
// priming reads.
//
// Explicit-state BFS over the model state (content, per handle the
// cache-filling events since its last write) with canonical-state
// deduplication. EVERY transition out of every state is replayed on a fresh
// memory store + wrapper + handles (BFS-shortest path to the state, then the
// operation) and then observed: by a sweep through each of the three handles
// when the target state is new, by a sweep through the handle written through
// when the target is already known (the model forgets that handle's cache on a
// write; the implementation has to be seen doing so in every such transition).
// Every read executed must equal the same call on the wrapped memory graph at
// that moment.
package main

import (
	"encoding/json"
	"fmt"
	"os"
	"runtime/debug"
	"strconv"
	"strings"
	"sync"
	"time"

	"github.com/google/badwolf/bql/planner/filter"
	"github.com/google/badwolf/storage"
	"github.com/google/badwolf/storage/memoization"
	"github.com/google/badwolf/storage/memory"
	"github.com/google/badwolf/triple"
	"github.com/google/badwolf/triple/node"
	"github.com/google/badwolf/triple/predicate"

	"verif/common"
	"verif/lookup"
	"verif/model"
)

var (
	na, nb, nc, nz = model.N("/u", "a"), model.N("/u", "b"), model.N("/u", "c"), model.N("/u", "z")
	pT1, pT2       = model.PT("p", model.T1), model.PT("p", model.T2)
	universe       = []*triple.Triple{
		model.T(na, pT1, model.ON(nb)), // 0
		model.T(na, pT1, model.ON(nc)), // 1 same subject+predicate: paged Objects/TriplesFor* have two elements
		model.T(na, pT2, model.ON(nb)), // 2 later anchor: window and latest select
	}
	absent = model.T(na, model.PI("p"), model.ON(nb)) // never stored (Exist must stay false)
)

// ---- the read grid -------------------------------------------------------------

type read struct {
	exist *triple.Triple // Exist(t) when non-nil
	q     lookup.Query
	o     lookup.Opts
	qi    int // index of the query (reads of one query differ only in options)
	oi    int
}

func (r read) String() string {
	if r.exist != nil {
		return "Exist(" + r.exist.String() + ")"
	}
	return fmt.Sprintf("%v %v", r.q, r.o)
}

func queries() []lookup.Query {
	var qs []lookup.Query
	add := func(m lookup.Method, s *node.Node, p *predicate.Predicate, o *triple.Object) {
		qs = append(qs, lookup.Query{M: m, S: s, P: p, O: o})
	}
	ob, oc := model.ON(nb), model.ON(nc)
	add(lookup.Objects, na, pT1, nil)
	add(lookup.Objects, na, pT2, nil)
	add(lookup.Objects, nz, pT1, nil)
	add(lookup.Subjects, nil, pT1, ob)
	add(lookup.Subjects, nil, pT2, ob)
	add(lookup.Subjects, nil, pT1, oc)
	add(lookup.PredicatesForSubject, na, nil, nil)
	add(lookup.PredicatesForSubject, nz, nil, nil)
	add(lookup.PredicatesForObject, nil, nil, ob)
	add(lookup.PredicatesForObject, nil, nil, oc)
	add(lookup.PredicatesForSubjectAndObject, na, nil, ob)
	add(lookup.PredicatesForSubjectAndObject, na, nil, oc)
	add(lookup.TriplesForSubject, na, nil, nil)
	add(lookup.TriplesForSubject, nz, nil, nil)
	add(lookup.TriplesForPredicate, nil, pT1, nil)
	add(lookup.TriplesForPredicate, nil, pT2, nil)
	add(lookup.TriplesForObject, nil, nil, ob)
	add(lookup.TriplesForObject, nil, nil, oc)
	add(lookup.TriplesForSubjectAndPredicate, na, pT1, nil)
	add(lookup.TriplesForSubjectAndPredicate, na, pT2, nil)
	add(lookup.TriplesForPredicateAndObject, nil, pT1, ob)
	add(lookup.TriplesForPredicateAndObject, nil, pT2, ob)
	// the same node in the other role: a key that confused the roles would collide
	add(lookup.TriplesForSubject, nb, nil, nil)
	add(lookup.PredicatesForSubject, nb, nil, nil)
	add(lookup.TriplesForObject, nil, nil, model.ON(na))
	add(lookup.PredicatesForObject, nil, nil, model.ON(na))
	add(lookup.Triples, nil, nil, nil)
	return qs
}

func options(n int) []lookup.Opts {
	t1, t2 := model.T1, model.T2
	t1h := model.T1.Add(500 * time.Millisecond)
	lf := func(o lookup.Opts) lookup.Opts {
		o.FilterOp, o.FilterField = filter.Latest, filter.PredicateField
		return o
	}
	// the default, every single non-default field, and pairs of them (two option values that differ in one
	// field while another one is set must still be different keys)
	o := []lookup.Opts{
		{},
		{MaxElements: 1, Offset: 0},
		{MaxElements: 1, Offset: 1},
		{MaxElements: 1, Offset: 2},
		{Upper: &t1},
		lf(lookup.Opts{}),
		{LatestAnchor: true},
		{MaxElements: 2, Offset: 1},
		// two windows whose bounds fall in one wall-clock second (T1 and T1 + 500 ms): the first keeps the triples
		// anchored at T1, the second does not
		{Lower: &t1},
		{Lower: &t1h},
		{LatestAnchor: true, Upper: &t1},
		{Lower: &t2},
		{Lower: &t1, Upper: &t1},
		lf(lookup.Opts{Upper: &t1}),
		{LatestAnchor: true, Lower: &t2},
		{MaxElements: 1, Upper: &t1},
		{MaxElements: 1, LatestAnchor: true},
		lf(lookup.Opts{MaxElements: 1}),
		lf(lookup.Opts{Lower: &t2}),
		{MaxElements: 1, Lower: &t2},
	}
	if n > len(o) {
		n = len(o)
	}
	return o[:n]
}

func grid(nopts int) []read {
	var g []read
	for qi, q := range queries() {
		for oi, o := range options(nopts) {
			g = append(g, read{q: q, o: o, qi: qi, oi: oi})
		}
	}
	for i, t := range append(append([]*triple.Triple{}, universe...), absent) {
		g = append(g, read{exist: t, qi: 1000 + i})
	}
	return g
}

// answer of one read, comparable.
func doRead(g storage.Graph, r read) string { return doReadWith(g, r, nil) }

// doReadWith: when lo is given, the caller's ONE options value is filled in place with the options of this read
// (a caller that keeps a LookupOptions value and changes its fields between lookups, e.g. a paging loop).
func doReadWith(g storage.Graph, r read, lo *storage.LookupOptions) string {
	if r.exist != nil {
		var ok bool
		var err error
		if p := common.Guard(func() { ok, err = g.Exist(model.Ctx, r.exist) }); p != nil {
			return fmt.Sprintf("panic: %v", p)
		}
		if err != nil {
			return "error: " + err.Error()
		}
		return fmt.Sprint(ok)
	}
	var res lookup.Result
	if lo != nil {
		*lo = *r.o.Storage()
		res = lookup.Call(g, r.q, lo)
	} else {
		res = lookup.CallOpts(g, r.q, r.o)
	}
	if !res.OK() {
		return "[" + res.Problem() + "] " + res.String()
	}
	return strings.Join(res.Keys, " | ")
}

// ---- operations ------------------------------------------------------------------

type op struct {
	Kind string `json:"kind"` // add remove sweep sweep-rev read cancel
	H    int    `json:"handle"`
	T    int    `json:"triple,omitempty"`
	R    int    `json:"read,omitempty"`
}

func (o op) String() string {
	switch o.Kind {
	case "add", "remove":
		return fmt.Sprintf("%s(t%d)@h%d", o.Kind, o.T, o.H+1)
	case "read":
		return fmt.Sprintf("read(#%d)@h%d", o.R, o.H+1)
	}
	return fmt.Sprintf("%s@h%d", o.Kind, o.H+1)
}

func (o op) isWrite() bool { return o.Kind == "add" || o.Kind == "remove" }

// readsOf lists the grid indexes an op reads, in execution order.
func readsOf(o op, nreads int) []int {
	switch o.Kind {
	case "sweep":
		x := make([]int, nreads)
		for i := range x {
			x[i] = i
		}
		return x
	case "sweep-rev":
		x := make([]int, nreads)
		for i := range x {
			x[i] = nreads - 1 - i
		}
		return x
	case "read":
		return []int{o.R}
	}
	return nil
}

// ---- model state (for deduplication only) ------------------------------------------

type event struct {
	kind    int // -1 sweep, -2 sweep-rev, >= 0 single read index
	content uint8
}

type mstate struct {
	content uint8
	ev      [3][]event // per handle: cache-filling events since its last write
}

func (m mstate) clone() mstate {
	c := m
	for h := range m.ev {
		c.ev[h] = append([]event(nil), m.ev[h]...)
	}
	return c
}

func (m *mstate) apply(o op) {
	switch o.Kind {
	case "add":
		m.content |= 1 << uint(o.T)
		m.ev[o.H] = nil
	case "remove":
		m.content &^= 1 << uint(o.T)
		m.ev[o.H] = nil
	case "sweep", "sweep-rev":
		for _, e := range m.ev[o.H] {
			if e.kind < 0 {
				return // everything is filled already
			}
		}
		k := -1
		if o.Kind == "sweep-rev" {
			k = -2
		}
		m.ev[o.H] = append(m.ev[o.H], event{k, m.content})
	case "read":
		for _, e := range m.ev[o.H] {
			if e.kind < 0 || e.kind == o.R {
				return
			}
		}
		m.ev[o.H] = append(m.ev[o.H], event{o.R, m.content})
	case "cancel":
		// reads given up after their first result: whatever they leave behind is part of the state (an event of its
		// own kind, recorded once per handle and content)
		for _, e := range m.ev[o.H] {
			if e.kind == -3 && e.content == m.content {
				return
			}
		}
		m.ev[o.H] = append(m.ev[o.H], event{-3, m.content})
	}
}

func (m mstate) handleCanon() []string {
	hs := make([]string, 3)
	for h := range m.ev {
		var b strings.Builder
		for _, e := range m.ev[h] {
			fmt.Fprintf(&b, "%d@%d,", e.kind, e.content)
		}
		hs[h] = b.String()
	}
	return hs
}

func (m mstate) canon() string {
	hs := m.handleCanon()
	// h2 and h3 are interchangeable (both come from Store.Graph)
	if hs[2] < hs[1] {
		hs[1], hs[2] = hs[2], hs[1]
	}
	return fmt.Sprintf("%d|%s|%s|%s", m.content, hs[0], hs[1], hs[2])
}

// ---- replay on the real code --------------------------------------------------------

type instance struct {
	h     [3]storage.Graph
	raw   storage.Graph
	reads []read
	// answers of the wrapped graph since the last write (reads do not write)
	rawAns   []string
	rawKnown []bool
	content  uint8
	lo       storage.LookupOptions // the one options value every read through a handle reuses
}

func newInstance(reads []read) (*instance, error) {
	ms := memory.NewStore()
	w := memoization.New(ms)
	in := &instance{reads: reads, rawAns: make([]string, len(reads)), rawKnown: make([]bool, len(reads))}
	var err error
	if in.h[0], err = w.NewGraph(model.Ctx, "?g"); err != nil {
		return nil, err
	}
	if in.h[1], err = w.Graph(model.Ctx, "?g"); err != nil {
		return nil, err
	}
	if in.h[2], err = w.Graph(model.Ctx, "?g"); err != nil {
		return nil, err
	}
	if in.raw, err = ms.Graph(model.Ctx, "?g"); err != nil {
		return nil, err
	}
	return in, nil
}

func (in *instance) rawAnswer(i int) string {
	if !in.rawKnown[i] {
		in.rawAns[i] = doRead(in.raw, in.reads[i])
		in.rawKnown[i] = true
	}
	return in.rawAns[i]
}

type mismatch struct {
	opIdx, readIdx int
	want, got      string
}

// exec runs one op; every read is compared with the wrapped graph.
func (in *instance) exec(o op, opIdx int, out *[]mismatch, nreadsDone *int) error {
	if o.isWrite() {
		ts := []*triple.Triple{universe[o.T]}
		var err error
		if o.Kind == "add" {
			err = in.h[o.H].AddTriples(model.Ctx, ts)
			in.content |= 1 << uint(o.T)
		} else {
			err = in.h[o.H].RemoveTriples(model.Ctx, ts)
			in.content &^= 1 << uint(o.T)
		}
		for i := range in.rawKnown {
			in.rawKnown[i] = false
		}
		return err
	}
	if o.Kind == "cancel" {
		// every lookup of the grid under default options, given up after its first result: the consumer takes one
		// element, cancels the context of the call and receives nothing more. The call must return, what it delivered
		// must be a result of the wrapped graph, and (checked by the reads that follow) nothing of it may stay behind.
		for ri, rd := range in.reads {
			if rd.exist != nil || rd.oi != 0 {
				continue
			}
			res := lookup.CallCancelled(in.h[o.H], rd.q, rd.o.Storage(), 1, 60*time.Second)
			*nreadsDone++
			want := in.rawAnswer(ri)
			switch {
			case res.Stalled:
				*out = append(*out, mismatch{opIdx, ri, want, "[does-not-return] the call has not returned 60 s after its context was cancelled"})
			case res.Panic != "":
				*out = append(*out, mismatch{opIdx, ri, want, "[panic] " + res.Panic})
			case len(res.Keys) == 1 && !strings.Contains(" | "+want+" | ", " | "+res.Keys[0]+" | "):
				*out = append(*out, mismatch{opIdx, ri, want, "[cancelled after one result] " + res.Keys[0]})
			}
		}
		return nil
	}
	for _, ri := range readsOf(o, len(in.reads)) {
		got := doReadWith(in.h[o.H], in.reads[ri], &in.lo)
		want := in.rawAnswer(ri)
		*nreadsDone++
		if got != want {
			*out = append(*out, mismatch{opIdx, ri, want, got})
		}
	}
	return nil
}

// ---- classification of a mismatch ---------------------------------------------------

// truth[content][read] = the answer of a plain memory graph holding that content.
type truthTable [8][]string

func buildTruth(reads []read) truthTable {
	var tt truthTable
	for c := 0; c < 8; c++ {
		st := memory.NewStore()
		g, _ := st.NewGraph(model.Ctx, "?g")
		for i, t := range universe {
			if c&(1<<uint(i)) != 0 {
				g.AddTriples(model.Ctx, []*triple.Triple{t})
			}
		}
		tt[c] = make([]string, len(reads))
		for i, r := range reads {
			tt[c][i] = doRead(g, r)
		}
	}
	return tt
}

type hyp struct{ offsetBlind, perHandle bool }

func (h hyp) String() string {
	var s []string
	if h.offsetBlind {
		s = append(s, "key-without-offset")
	}
	if h.perHandle {
		s = append(s, "per-handle-cache")
	}
	return strings.Join(s, "+")
}

// modKeys interns, per read, its identity with the Offset blanked.
func modKeys(reads []read) []int {
	ids := map[string]int{}
	out := make([]int, len(reads))
	for i, r := range reads {
		k := fmt.Sprintf("E%d", r.qi)
		if r.exist == nil {
			o := r.o
			o.Offset = 0
			k = fmt.Sprintf("%d/%v", r.qi, o)
		}
		if _, ok := ids[k]; !ok {
			ids[k] = len(ids)
		}
		out[i] = ids[k]
	}
	return out
}

// simulate predicts the answer of every read of the trace under a cache model
// with the given defects. Used only to name the shape of an existing failure.
func simulate(ops []op, reads []read, mk []int, tt *truthTable, h hyp, wanted map[[2]int]bool) map[[2]int]string {
	key := func(ri int) int {
		if h.offsetBlind {
			return mk[ri]
		}
		return -1 - ri
	}
	out := map[[2]int]string{}
	var cache [3]map[int]string
	for i := range cache {
		cache[i] = map[int]string{}
	}
	content := 0
	for i, o := range ops {
		if o.isWrite() {
			if o.Kind == "add" {
				content |= 1 << uint(o.T)
			} else {
				content &^= 1 << uint(o.T)
			}
			if h.perHandle {
				cache[o.H] = map[int]string{}
			} else {
				for j := range cache {
					cache[j] = map[int]string{}
				}
			}
			continue
		}
		for _, ri := range readsOf(o, len(reads)) {
			k := key(ri)
			ans, hit := cache[o.H][k]
			if !hit {
				ans = tt[content][ri]
				// the memoizer keeps an Exist answer always, a lookup answer only when non-empty
				if reads[ri].exist != nil || ans != "" {
					cache[o.H][k] = ans
				}
			}
			if wanted[[2]int{i, ri}] {
				out[[2]int{i, ri}] = ans
			}
		}
	}
	return out
}

// classes is the input classifier over the case alone: what in the operation
// list precedes each failing read.
func classes(ops []op, reads []read, mk []int, wanted map[[2]int]bool) map[[2]int]string {
	type entry struct {
		reads      map[int]bool
		otherWrite bool
	}
	var st [3]map[int]*entry
	for i := range st {
		st[i] = map[int]*entry{}
	}
	out := map[[2]int]string{}
	for i, o := range ops {
		if o.isWrite() {
			for h := range st {
				if h == o.H {
					st[h] = map[int]*entry{}
				} else {
					for _, e := range st[h] {
						e.otherWrite = true
					}
				}
			}
			continue
		}
		for _, ri := range readsOf(o, len(reads)) {
			e := st[o.H][mk[ri]]
			if wanted[[2]int{i, ri}] {
				var parts []string
				if e != nil {
					for r2 := range e.reads {
						if r2 != ri {
							parts = append(parts, "same-handle-read-differing-only-in-offset-since-its-last-write")
							break
						}
					}
					if e.otherWrite {
						parts = append(parts, "write-through-another-handle-since-this-handle-read-the-key")
					}
				}
				if len(parts) == 0 {
					parts = []string{"memo-history"}
				}
				out[[2]int{i, ri}] = strings.Join(parts, "+")
			}
			if e == nil {
				e = &entry{reads: map[int]bool{}}
				st[o.H][mk[ri]] = e
			}
			e.reads[ri] = true
		}
	}
	return out
}

// Order matters when more than one defect predicts the same answer: staleness
// between handles first, then the key without Offset, then both together.
var hyps = []hyp{{false, true}, {true, false}, {true, true}}

// analyse gives every mismatch of one replay its class and shape.
func analyse(ops []op, reads []read, mk []int, tt *truthTable, ms []mismatch) (class, shape []string) {
	wanted := map[[2]int]bool{}
	for _, m := range ms {
		wanted[[2]int{m.opIdx, m.readIdx}] = true
	}
	cl := classes(ops, reads, mk, wanted)
	var sims []map[[2]int]string
	for _, h := range hyps {
		sims = append(sims, simulate(ops, reads, mk, tt, h, wanted))
	}
	for _, m := range ms {
		k := [2]int{m.opIdx, m.readIdx}
		class = append(class, cl[k])
		sh := "answer-differs-from-wrapped-store"
		switch {
		case strings.HasPrefix(m.got, "["):
			sh = "malformed-answer"
			if i := strings.Index(m.got, "]"); i > 0 {
				sh = m.got[1:i]
			}
		case strings.HasPrefix(m.got, "panic") || strings.HasPrefix(m.got, "error"):
			sh = "error-or-panic"
		default:
			for j, h := range hyps {
				if sims[j][k] == m.got {
					sh = "answer-equals-cache-model:" + h.String()
					break
				}
			}
		}
		shape = append(shape, sh)
	}
	return
}

// repeatedReads counts, among the reads of ops[from:], those the same handle
// already issued since its own last write, and among these the ones with a
// write through another handle in between.
func repeatedReads(ops []op, nreads, from int) (rep, repStale int) {
	var seen [3]map[int]bool // read -> a foreign write happened since
	for h := range seen {
		seen[h] = map[int]bool{}
	}
	for i, o := range ops {
		if o.isWrite() {
			for h := range seen {
				if h == o.H {
					seen[h] = map[int]bool{}
				} else {
					for k := range seen[h] {
						seen[h][k] = true
					}
				}
			}
			continue
		}
		for _, ri := range readsOf(o, nreads) {
			if stale, ok := seen[o.H][ri]; ok && i >= from {
				rep++
				if stale {
					repStale++
				}
			}
			if _, ok := seen[o.H][ri]; !ok {
				seen[o.H][ri] = false
			}
		}
	}
	return
}

// ---- one replay ---------------------------------------------------------------------

type mcase struct {
	Options int    `json:"option_values"`
	Ops     []op   `json:"ops"`
	FailOp  int    `json:"failing_op"`
	Read    int    `json:"failing_read"`
	ReadStr string `json:"failing_read_text,omitempty"`
}

// replay executes ops on a fresh store, wrapper and handles; mismatches at op
// index >= from are returned.
func replay(reads []read, ops []op, from int) (ms []mismatch, nreads int, fatal string) {
	in, err := newInstance(reads)
	if err != nil {
		return nil, 0, "setup: " + err.Error()
	}
	for i, o := range ops {
		var all []mismatch
		if err := in.exec(o, i, &all, &nreads); err != nil {
			return ms, nreads, fmt.Sprintf("%v: %v", o, err)
		}
		if i >= from {
			ms = append(ms, all...)
		}
	}
	return ms, nreads, ""
}

func main() {
	if os.Getenv("GOGC") == "" {
		debug.SetGCPercent(400)
	}
	r := common.Start("C19", "model_checking")
	r.Replayer("memo", func(raw json.RawMessage) (bool, string) {
		var c mcase
		if err := json.Unmarshal(raw, &c); err != nil {
			return false, err.Error()
		}
		reads := grid(c.Options)
		ms, _, fatal := replay(reads, c.Ops, 0)
		if fatal != "" {
			return false, fatal
		}
		for _, m := range ms {
			if m.opIdx == c.FailOp && m.readIdx == c.Read {
				return false, fmt.Sprintf("ops=%v\n %v through h%d\n wrapped graph: %s\n memoizer     : %s", c.Ops, reads[m.readIdx], c.Ops[m.opIdx].H+1, m.want, m.got)
			}
		}
		return true, fmt.Sprintf("ops=%v: read #%d of op %d equals the wrapped graph's answer", c.Ops, c.Read, c.FailOp)
	})
	r.Replayer("pair", func(raw json.RawMessage) (bool, string) {
		var c pairCase
		if err := json.Unmarshal(raw, &c); err != nil {
			return false, err.Error()
		}
		n, bad := runPair(c, true)
		if len(bad) > 0 {
			return false, fmt.Sprintf("%d of %d reads differ from the wrapped graph; first:\n %s", len(bad), n, bad[0])
		}
		return true, fmt.Sprintf("%d reads equal the wrapped graph's answers", n)
	})
	r.Replayer("store", func(raw json.RawMessage) (bool, string) {
		var c storeCase
		if err := json.Unmarshal(raw, &c); err != nil {
			return false, err.Error()
		}
		n, d := runStoreOps(c.Ops, grid(1))
		if d != "" {
			return false, d
		}
		return true, fmt.Sprintf("%d answers equal the wrapped driver's", n)
	})
	r.Replayer("sched", replayConcurrent) // cases of the concurrent part (cmd/c19c, see concurrent.go)
	r.MaybeReplay()
	conc := startConcurrent(r) // runs next to the sequential search, collected before Finish
	if err := lookup.SelfTest(); err != nil {
		common.Machinery("MODEL-INVALID: %v", err)
	}
	lookup.StartWatchdog(3 * time.Minute)
	stopProfile := lookup.MaybeProfile()
	r.Assume("SEQUENTIAL part (the keys states/transitions/traces/evaluations): one goroutine issues all operations; reads that overlap a write (the second sentence of the property, 'also when reads run concurrently with the write') are explored by the CONCURRENT part on the schedule-enumerating engine (cmd/c19c, key concurrent_part)")
	r.Assume("the oracle is the wrapped memory graph itself (obtained from the same memory store), asked the same call at that moment; its answers are reused until the next write (reads do not write)")
	r.Assume("model states (content, per handle the cache-filling events since its last write; h2/h3 interchangeable) are used only to deduplicate; every state's shortest path is replayed on a fresh store, wrapper and handles")
	r.Assume("answers are compared as sequences of structural keys, error text and channel-closed flag")

	levelStoreOps(r, grid(1))

	nopts := r.Pick(11, 20)
	reads := grid(nopts)
	tt := buildTruth(reads)
	mk := modKeys(reads)
	depth := r.Pick(4, 5)
	if v, err := strconv.Atoi(os.Getenv("VERIF_C19_DEPTH")); err == nil && v > 0 {
		depth = v // development aid; the evidence records the bound actually used
	}
	// priming reads: individual cache fills in an order no sweep produces
	find := func(m lookup.Method, oi int) int {
		for i, rd := range reads {
			if rd.exist == nil && rd.q.M == m && rd.oi == oi && (rd.q.S == nil || rd.q.S == na) && (rd.q.P == nil || rd.q.P == pT1) {
				return i
			}
		}
		common.Machinery("priming read not in grid")
		return -1
	}
	singles := []int{find(lookup.Triples, 2), len(reads) - 4 /* Exist(t0) */}
	if v, err := strconv.Atoi(os.Getenv("VERIF_C19_SINGLES")); err == nil && v >= 0 && v <= len(singles) {
		singles = singles[:v] // development aid
	}
	var alphabet []op
	for h := 0; h < 3; h++ {
		for t := range universe {
			alphabet = append(alphabet, op{Kind: "add", H: h, T: t}, op{Kind: "remove", H: h, T: t})
		}
	}
	for h := 0; h < 3; h++ {
		alphabet = append(alphabet, op{Kind: "sweep", H: h}, op{Kind: "sweep-rev", H: h}, op{Kind: "cancel", H: h})
		for _, s := range singles {
			alphabet = append(alphabet, op{Kind: "read", H: h, R: s})
		}
	}
	// Observation after a transition into a state seen for the first time: a
	// sweep through each of the three handles (forward, reverse, forward grid
	// order; the other direction of each handle is an operation of the alphabet).
	chain := []op{{Kind: "sweep", H: 0}, {Kind: "sweep-rev", H: 1}, {Kind: "sweep", H: 2}}

	type bnode struct {
		m    mstate
		path []op
	}
	type trans struct {
		from  int
		o     op
		isNew bool
	}
	seen := map[string]bool{mstate{}.canon(): true}
	frontier := []bnode{{}}
	states, transitions, traces, evals, maxDepth := 1, 0, 0, 0, 0
	newStateObs, seenStateObs, selfLoops := 0, 0, 0
	repeated, repeatedStale := 0, 0
	var mu sync.Mutex
	capped := false
	levelSizes := []int{1}
	dry := os.Getenv("VERIF_C19_DRY") != "" // development aid: count model states only

	// check runs path+o+obs on a fresh store/wrapper and reports every mismatch
	// from the operation o on (the path itself was checked as a shorter trace).
	check := func(sh *lookup.Shard, path []op, tail []op) {
		ops := append(append([]op{}, path...), tail...)
		ms, n, fatal := replay(reads, ops, len(path))
		rep, repStale := repeatedReads(ops, len(reads), len(path))
		mu.Lock()
		traces++
		evals += n
		repeated += rep
		repeatedStale += repStale
		mu.Unlock()
		if fatal != "" {
			sh.Fail(common.Failure{Check: "memo", Class: "memo-history", Shape: "operation-error", Case: mcase{Options: nopts, Ops: ops}, Detail: fatal})
			return
		}
		if len(ms) == 0 {
			return
		}
		cls, shs := analyse(ops, reads, mk, &tt, ms)
		for j, m := range ms {
			m := m
			sh.FailLazy(cls[j], shs[j], func() common.Failure {
				executed := ops[:m.opIdx+1]
				return common.Failure{Check: "memo",
					Case:   mcase{Options: nopts, Ops: executed, FailOp: m.opIdx, Read: m.readIdx, ReadStr: reads[m.readIdx].String()},
					Detail: fmt.Sprintf("ops=%v\n %v through h%d\n wrapped graph: %s\n memoizer     : %s", executed, reads[m.readIdx], ops[m.opIdx].H+1, m.want, m.got)}
			})
		}
	}
	_ = repeated
	if !dry {
		root := make([]lookup.Shard, 1)
		check(&root[0], nil, chain)
		lookup.Flush(r, root)
	}
	for d := 0; d < depth && len(frontier) > 0; d++ {
		if r.OutOfTime() {
			capped = true
			break
		}
		// 1. expand the level on the model: every operation out of every state
		var ts []trans
		var next []bnode
		for i, nd := range frontier {
			hs := nd.m.handleCanon()
			for _, o := range alphabet {
				if o.H == 2 && hs[1] == hs[2] {
					continue // h2 and h3 are in the same state: the operation through h2 stands for both
				}
				m := nd.m.clone()
				m.apply(o)
				k := m.canon()
				if !o.isWrite() && k == nd.m.canon() {
					// a read that fills nothing new: these very reads are part of the
					// observation sweeps made when this state was first reached
					selfLoops++
					continue
				}
				isNew := !seen[k]
				if isNew {
					seen[k] = true
					next = append(next, bnode{m, append(append([]op{}, nd.path...), o)})
				}
				ts = append(ts, trans{i, o, isNew})
			}
		}
		// 2. replay every transition on the real code
		shards := make([]lookup.Shard, len(ts))
		common.ParallelFor(len(ts), func(i int) {
			if dry || r.OutOfTime() {
				return
			}
			t := ts[i]
			tail := []op{t.o}
			switch {
			case t.isNew:
				tail = append(tail, chain...)
			case t.o.isWrite():
				// the state is known; what this transition adds is that the
				// handle written through must have dropped its cache
				tail = append(tail, op{Kind: "sweep", H: t.o.H})
			}
			check(&shards[i], frontier[t.from].path, tail)
		})
		lookup.Flush(r, shards)
		if r.Capped() {
			capped = true // the level was cut by the deadline: what was found is reported, the level is not counted
			break
		}
		for _, t := range ts {
			if t.isNew {
				newStateObs++
			} else {
				seenStateObs++
			}
		}
		if len(ts) > 0 {
			t := ts[len(ts)/2]
			r.Sample(map[string]interface{}{"depth": d + 1, "target_state_new": t.isNew, "ops": append(append([]op{}, frontier[t.from].path...), t.o), "then": "sweeps (see cmd/c19/main.go)"})
			t = ts[len(ts)-1]
			r.Sample(map[string]interface{}{"depth": d + 1, "target_state_new": t.isNew, "ops": append(append([]op{}, frontier[t.from].path...), t.o), "then": "sweeps (see cmd/c19/main.go)"})
		}
		transitions += len(ts)
		states += len(next)
		levelSizes = append(levelSizes, len(next))
		maxDepth = d + 1
		frontier = next
	}
	stopProfile()
	if capped {
		r.SetCapped()
	}
	levelPairs(r) // after the search: under load the time budget goes to the search first
	r.Set("states", states)
	r.Set("transitions", transitions)
	r.Set("transitions_into_new_states", newStateObs)
	r.Set("transitions_into_known_states", seenStateObs)
	r.Set("read_self_loops_not_replayed", selfLoops)
	r.Set("traces_validated_against_impl", traces)
	r.Set("evaluations", evals)
	r.Set("states_per_depth", levelSizes)
	if dry {
		r.SetCapped()
	}
	r.Set("depth_completed", maxDepth)
	r.Set("depth_bound", depth)
	r.Set("alphabet", len(alphabet))
	r.Set("reads_in_grid", len(reads))
	r.Set("option_values", nopts)
	r.Set("distinct_nontrivial", repeated)
	r.Set("repeated_reads_after_write_through_other_handle", repeatedStale)
	conc.collect(r)
	r.Set("rule", "BFS over (content, per-handle cache-filling events) with ops {add,remove} x 3 triples x 3 handles, sweep / reverse sweep x 3 handles, priming reads x 3 handles; every transition out of every state replayed on a fresh store+wrapper (path + operation), followed by a sweep through every handle when the target state is new, through the written handle otherwise; nontrivial = a checked read that the same handle had already issued since its own last write (the memoizer may answer it from its cache); each is a distinct (trace, position)")
	r.Finish()
}
