#!/bin/bash
# Demonstrates detection for C16: each deliberate property-breaking change is applied to a COPY of
# /repo/bql/lexer/lexer.go, the copy is instrumented and overlaid by build.sh
# (VERIF_LEXER_SRC), the quick tier is run (evidence/replays go to scratch), and the
# repository's bql tests are run under the same (un-instrumented) overlay.
# Usage: cmd/c16/mutants.sh [name...]      (scratch: work/syntax/mut-c16/)
cd "$(dirname "$0")/../.." || exit 2
. ./env.sh
W=work/syntax/mut-c16; mkdir -p "$W/root" work/bin
L=/repo/bql/lexer/lexer.go
ONLY="$*"
mutant() {
  local name="$1" old="$2" new="$3"
  if [ -n "$ONLY" ] && ! echo " $ONLY " | grep -q " $name "; then return; fi
  local out="$PWD/$W/$name.go"
  python3 - "$L" "$out" "$old" "$new" <<'PY' || { echo "$name: MUTANT-DID-NOT-APPLY"; return; }
import sys
src=open(sys.argv[1]).read()
old,new=sys.argv[3],sys.argv[4]
if src.count(old)!=1:
    sys.stderr.write("pattern occurs %d times\n"%src.count(old)); sys.exit(1)
open(sys.argv[2],'w').write(src.replace(old,new))
PY
  echo "{\"Replace\":{\"$L\":\"$out\"}}" > "$W/$name.json"
  if ! VERIF_LEXER_SRC="$out" cmd/c16/build.sh "work/bin/c16-$name" 2> "$W/$name.build"; then
    echo "$name: DOES-NOT-COMPILE ($(head -1 "$W/$name.build"))"; return
  fi
  cp known_findings.json "$W/root/"
  VERIF_ROOT="$PWD/$W/root" "work/bin/c16-$name" quick > "$W/$name.out" 2>&1; rc=$?
  (cd /repo && timeout 300 go test -overlay "$OLDPWD/$W/$name.json" -vet=off -count=1 ./bql/... > "$OLDPWD/$W/$name.tests" 2>&1); trc=$?
  tests="repo bql tests pass"; [ $trc -ne 0 ] && tests="repo bql tests FAIL ($(grep -c '^--- FAIL' "$W/$name.tests") failing)"
  if [ $rc -eq 1 ]; then echo "$name: CAUGHT (exit 1; $(grep -c 'violation class' "$W/$name.out") violation classes; first: $(grep -m1 'violation class' "$W/$name.out" | cut -c1-150)); $tests"
  elif [ $rc -eq 0 ]; then echo "$name: MISSED (exit 0); $tests"
  else echo "$name: MACHINERY exit $rc: $(grep -m1 -i 'hang\|MACHINERY' "$W/$name.out" | cut -c1-200); $tests"; fi
}

# 1. emit does not advance start (EQUIVALENT: every emit is followed by lexSpace, whose ignore() advances start)
mutant emit-no-advance '		Text: l.input[l.start:l.pos],
	}
	l.start = l.pos
	l.lastTokenType = t' '		Text: l.input[l.start:l.pos],
	}
	l.lastTokenType = t'
# 1b. emit slices from the beginning of the input (token texts overlap)
mutant emit-from-zero '	l.tokens <- Token{
		Type: t,
		Text: l.input[l.start:l.pos],
	}' '	l.tokens <- Token{
		Type: t,
		Text: l.input[:l.pos],
	}'
# 2. lexSpace does not drop the whitespace it consumed
mutant space-not-ignored '	l.backup()
	l.ignore()
	return lexToken' '	l.backup()
	return lexToken'
# 3. the producer returns without closing the channel
mutant no-close '	close(l.tokens) // No more tokens will be delivered.' '	// close(l.tokens)'
# 4. an unknown keyword is reported but lexing goes on (tokens after ERROR)
mutant continue-after-error '	l.emitError("found unknown keyword")
	return nil' '	l.emitError("found unknown keyword")
	return lexSpace'
# 5. one keyword compared case-sensitively
mutant keyword-case-sensitive 'strings.EqualFold(input, having)' 'input == having'
# 6. literal type name compared case-sensitively
mutant literal-type-case-sensitive '			literalT = strings.ToLower(literalT)
' ''
# 7. a binding swallows the delimiter that ends it
mutant binding-eats-delimiter '			l.backup()
			l.emit(ItemBinding)' '			l.emit(ItemBinding)'
# 8. lexNode no longer stops at end of input (would spin forever)
mutant node-ignores-eof '		case eof:
			l.emitError("node is not properly terminated; missing final > delimiter")
			return nil
		case lt:' '		case lt:'
# 9. a HAVING timestamp swallows the following semicolon (no clause of LexSpec predicts tokens)
mutant time-eats-semicolon '		if nr == semicolon || nr == rightPar {
			l.backup()
			break
		}' '		if nr == rightPar {
			l.backup()
			break
		}'
# 10. EOF emitted twice
mutant double-eof '	l.emit(ItemEOF) // Useful to make EOF a token.' '	l.emit(ItemEOF) // Useful to make EOF a token.
	l.emit(ItemEOF)'
