#!/bin/bash
# Build step of C16 (called by /verif/vcheck with the output path): instruments a
# copy of the working tree's lexer.go (step counter + producer-exit hook, see
# instrument.py) and builds the check with go build -overlay.
set -e
out="$1"
here="$(cd "$(dirname "$0")/../.." && pwd)"
cd "$here"
. ./env.sh
w="$here/work/syntax/c16-overlay"
mkdir -p "$w"
src="${VERIF_LEXER_SRC:-/repo/bql/lexer/lexer.go}"     # a mutant copy when demonstrating detection
python3 cmd/c16/instrument.py "$src" "$w/lexer.go"
echo "{\"Replace\":{\"/repo/bql/lexer/lexer.go\":\"$w/lexer.go\"}}" > "$w/overlay.json"
go build -overlay "$w/overlay.json" -o "$out" ./cmd/c16
