// C16 — the lexer tokenises every input faithfully.
//
// Bounded-exhaustive enumeration: every string of at most n "letters" over a
// delimiter alphabet (single characters plus a few multi-character letters),
// lexed by the real lexer at channel capacities 0, 1, 2 and 7 and judged by
// LexSpec (structure of the token stream, never a predicted token list), plus
// three metamorphic families: letter case of keywords / literal type names,
// amount of whitespace between two tokens, and printed forms of values.
//
// The binary is built by build.sh against an instrumented copy of lexer.go
// (step counter in next(), exit hook in run()): termination and channel
// closure are decided by a step budget and an exit notification, not a clock.
package main

import (
	"encoding/json"
	"fmt"
	"os"
	"reflect"
	"runtime/debug"
	"sort"
	"strings"
	"sync"
	"sync/atomic"
	"time"
	"unicode"

	"github.com/google/badwolf/bql/lexer"
	"github.com/google/badwolf/triple/literal"
	"github.com/google/badwolf/triple/node"
	"github.com/google/badwolf/triple/predicate"

	"verif/common"
)

// ---- running the lexer ---------------------------------------------------------

type entry struct {
	done  chan struct{}
	ticks int
}

var (
	theRun   *common.Run
	maxRatio int64 // max over lexes of 100*ticks/(len+8)
)

// registry: token channel -> entry, sharded (both the harness and the exit
// hook look the channel up; whoever comes first creates the entry).
type shard struct {
	mu sync.Mutex
	m  map[<-chan lexer.Token]*entry
	_  [40]byte
}

var shards [256]shard

func shardOf(c <-chan lexer.Token) *shard {
	return &shards[(reflect.ValueOf(c).Pointer()>>5)%uintptr(len(shards))]
}

func entryOf(c <-chan lexer.Token) *entry {
	sh := shardOf(c)
	sh.mu.Lock()
	if sh.m == nil {
		sh.m = map[<-chan lexer.Token]*entry{}
	}
	e := sh.m[c]
	if e == nil {
		e = &entry{done: make(chan struct{})}
		sh.m[c] = e
	}
	sh.mu.Unlock()
	return e
}

func forget(c <-chan lexer.Token) {
	sh := shardOf(c)
	sh.mu.Lock()
	delete(sh.m, c)
	sh.mu.Unlock()
}

func budgetFor(input string) int { return lexer.VerifTickBudget * (len(input) + 8) }

func installHooks() {
	lexer.VerifExit = func(c <-chan lexer.Token, ticks int) {
		e := entryOf(c)
		e.ticks = ticks
		close(e.done)
	}
	lexer.VerifTick = func(input string, ticks int) bool {
		if ticks > 8*budgetFor(input)+4096 {
			// end of input is being reported and the lexer still does not stop
			theRun.Fail(common.Failure{Check: "raw", Class: "termination", Shape: "lexer-does-not-stop-at-end-of-input",
				Case: rawCase{Input: input, Caps: []int{0}}, Detail: fmt.Sprintf("input %q: %d calls of next(), still running", input, ticks)})
			theRun.SetCapped()
			theRun.Finish()
		}
		return true
	}
}

type lexRun struct {
	Toks        []lexer.Token
	Closed      bool // the channel was closed
	Ticks       int
	OverBudget  bool
	NeverExited bool
}

// lexOnce lexes input at the given capacity and always drains the channel.
func lexOnce(input string, capacity int) lexRun {
	var r lexRun
	ch := lexer.New(input, capacity)
	e := entryOf(ch)
loop:
	for {
		select {
		case t, ok := <-ch:
			if !ok {
				r.Closed = true
				break loop
			}
			r.Toks = append(r.Toks, t)
		case <-e.done:
			// the producer has returned: whatever it sent is buffered
			for {
				select {
				case t, ok := <-ch:
					if !ok {
						r.Closed = true
						break loop
					}
					r.Toks = append(r.Toks, t)
				default:
					break loop // returned without closing the channel
				}
			}
		}
	}
	<-e.done
	forget(ch)
	r.Ticks = e.ticks
	r.OverBudget = e.ticks > budgetFor(input)
	ratio := int64(100 * e.ticks / (len(input) + 8))
	for {
		old := atomic.LoadInt64(&maxRatio)
		if ratio <= old || atomic.CompareAndSwapInt64(&maxRatio, old, ratio) {
			break
		}
	}
	return r
}

// ---- watchdog: a lexer that is parked forever (the step counter sees loops, not waits) ---------

type slot struct {
	input string
	since time.Time
}

// one entry per unit of work in flight (keyed by the unit's own index: two units never share an entry, so a unit that
// is parked cannot have its entry refreshed by another one)
var (
	slotMu sync.Mutex
	slots  = map[int]*slot{}
)

func watch(i int, input string) {
	slotMu.Lock()
	slots[i] = &slot{input: input, since: time.Now()}
	slotMu.Unlock()
}

func unwatch(i int) {
	slotMu.Lock()
	delete(slots, i)
	slotMu.Unlock()
}

func watchdog() {
	for {
		time.Sleep(time.Second)
		slotMu.Lock()
		var in string
		var since time.Time
		for _, s := range slots {
			if since.IsZero() || s.since.Before(since) {
				in, since = s.input, s.since
			}
		}
		slotMu.Unlock()
		{
			if !since.IsZero() && time.Since(since) > 60*time.Second {
				// no step of the lexer for a minute and no end of the stream: it is parked (for instance on a send nobody
				// can receive): the lexer neither terminates nor closes its channel for this input
				theRun.Fail(common.Failure{Check: "raw", Class: "termination", Shape: "lexer-parked-forever",
					Case: rawCase{Input: in, Caps: capacities}, Detail: fmt.Sprintf("input %q: lexer.New / the token stream has made no progress for 60 s (the step counter is not running: the producer is parked, not looping)", in)})
				theRun.SetCapped()
				theRun.Finish()
			}
		}
	}
}

// ---- LexSpec ---------------------------------------------------------------------

type span struct{ start, end int }

// lexSpec judges the structure of one token stream. spans are the offsets of
// the token texts found by leftmost greedy matching (complete for the question
// "do non-overlapping occurrences in this order exist").
func lexSpec(input string, r lexRun) (ok bool, shape, detail string, spans []span) {
	if r.OverBudget {
		return false, "step-budget-exceeded", fmt.Sprintf("%d calls of next() for %d bytes (budget %d)", r.Ticks, len(input), budgetFor(input)), nil
	}
	if !r.Closed {
		return false, "producer-returns-without-closing-channel", fmt.Sprintf("tokens so far %s", showToks(r.Toks)), nil
	}
	if len(r.Toks) == 0 {
		return false, "no-terminal-token", "channel closed without any token", nil
	}
	for i, t := range r.Toks {
		term := t.Type == lexer.ItemEOF || t.Type == lexer.ItemError
		if i < len(r.Toks)-1 && term {
			return false, "token-after-terminal-token", fmt.Sprintf("token %d of %d is %s: %s", i, len(r.Toks), t.Type, showToks(r.Toks)), nil
		}
		if i == len(r.Toks)-1 && !term {
			return false, "stream-does-not-end-in-EOF-or-ERROR", showToks(r.Toks), nil
		}
		if t.Type != lexer.ItemError && t.ErrorMessage != "" {
			return false, "non-error-token-carries-error-message", showToks(r.Toks), nil
		}
	}
	pos := 0
	for i, t := range r.Toks {
		idx := strings.Index(input[pos:], t.Text)
		if idx < 0 {
			return false, "token-text-not-a-substring-in-order", fmt.Sprintf("token %d text %q does not occur in %q at or after offset %d: %s", i, t.Text, input, pos, showToks(r.Toks)), nil
		}
		spans = append(spans, span{pos + idx, pos + idx + len(t.Text)})
		pos += idx + len(t.Text)
	}
	return true, "", "", spans
}

func showToks(ts []lexer.Token) string {
	var b strings.Builder
	for i, t := range ts {
		if i > 0 {
			b.WriteByte(' ')
		}
		fmt.Fprintf(&b, "%s(%q)", t.Type, t.Text)
	}
	return b.String()
}

func kindsSig(ts []lexer.Token) string {
	var b strings.Builder
	for _, t := range ts {
		b.WriteString(t.Type.String())
		b.WriteByte(' ')
	}
	return b.String()
}

// sameKindsAndTexts: the two streams agree in what the property speaks of (an ERROR token's message may name an
// offset, which moves with the whitespace).
func sameKindsAndTexts(a, b []lexer.Token) bool {
	if len(a) != len(b) {
		return false
	}
	for i := range a {
		if a[i].Type != b[i].Type || strings.TrimSpace(a[i].Text) != strings.TrimSpace(b[i].Text) {
			return false
		}
	}
	return true
}

func sameToks(a, b []lexer.Token) bool {
	if len(a) != len(b) {
		return false
	}
	for i := range a {
		if a[i].Type != b[i].Type || a[i].Text != b[i].Text || a[i].ErrorMessage != b[i].ErrorMessage {
			return false
		}
	}
	return true
}

// ---- sub-check "raw": every string over the alphabet ------------------------------

var timestamp = "2006-01-02T15:04:05Z"

var alphabet = []string{
	"s", "e", "?", "/", "<", ">", `"`, "@", "[", "]", "^", ":", ",", ";", "(", ")", "1", " ", "\n", `\`, "_", "#",
	"select", "before", "filter", `"@[`, `"^^type:`, "int64", timestamp,
	"\ufffd", "\xff", // the replacement character (valid text) and a byte that is not UTF-8: neither is the end of the input
}

var capacities = []int{0, 1, 2, 7}

type rawCase struct {
	Input string `json:"input"`
	Caps  []int  `json:"capacities"`
}

type failure struct {
	check, class, shape, detail string
	c                           interface{}
}

// checkRaw runs LexSpec at every capacity and demands identical streams.
func checkRaw(input string, caps []int) (fs []failure, base lexRun, spans []span) {
	for i, c := range caps {
		r := lexOnce(input, c)
		ok, shape, detail, sp := lexSpec(input, r)
		if !ok {
			fs = append(fs, failure{"raw", "any-string", shape, fmt.Sprintf("input %q capacity %d: %s", input, c, detail), rawCase{input, []int{c}}})
			continue
		}
		if i == 0 {
			base, spans = r, sp
		} else if base.Toks != nil && !sameToks(base.Toks, r.Toks) {
			fs = append(fs, failure{"raw", "any-string", "tokens-depend-on-channel-capacity",
				fmt.Sprintf("input %q: capacity %d gives %s, capacity %d gives %s", input, caps[0], showToks(base.Toks), c, showToks(r.Toks)), rawCase{input, []int{caps[0], c}}})
		}
	}
	return fs, base, spans
}

// ---- sub-check "ws": amount of whitespace between two tokens -----------------------

type wsCase struct {
	Input string `json:"input"`
	Gap   int    `json:"gap_after_token"`
	WS    string `json:"whitespace"`
}

var wsRuns = []string{" ", "  ", "\n", "\t "}

func isSpaceOnly(s string) bool {
	for _, r := range s {
		if !unicode.IsSpace(r) {
			return false
		}
	}
	return true
}

// checkWS replaces the gap after token i (which must be empty or whitespace)
// by ws and compares kinds and trimmed texts.
func checkWS(input string, base []lexer.Token, spans []span, i int, ws string, capacity int) (applicable bool, f *failure, variant string) {
	if i+1 >= len(base)-1 { // the pair must be two non-terminal tokens
		return false, nil, ""
	}
	gap := input[spans[i].end:spans[i+1].start]
	if !isSpaceOnly(gap) || gap == ws {
		return false, nil, ""
	}
	variant = input[:spans[i].end] + ws + input[spans[i+1].start:]
	r := lexOnce(variant, capacity)
	c := wsCase{input, i, ws}
	class := "ws-between:" + base[i].Type.String() + "+" + base[i+1].Type.String()
	if ok, shape, detail, _ := lexSpec(variant, r); !ok {
		return true, &failure{"ws", class, "variant:" + shape, fmt.Sprintf("variant %q: %s", variant, detail), c}, variant
	}
	if kindsSig(r.Toks) != kindsSig(base) {
		shape := "token-kinds-change"
		if len(r.Toks) <= i+2 && r.Toks[len(r.Toks)-1].Type == lexer.ItemError {
			// the variant's stream stops with ERROR at the varied gap
			shape = "token-kinds-change:ERROR-at-the-gap"
		}
		return true, &failure{"ws", class, shape, fmt.Sprintf("%q lexes to %s\nbut with %q between tokens %d and %d, %q lexes to %s", input, showToks(base), ws, i, i+1, variant, showToks(r.Toks)), c}, variant
	}
	for k := range base {
		if strings.TrimSpace(base[k].Text) != strings.TrimSpace(r.Toks[k].Text) {
			return true, &failure{"ws", class, "token-text-changes", fmt.Sprintf("%q lexes to %s\nbut %q lexes to %s", input, showToks(base), variant, showToks(r.Toks)), c}, variant
		}
	}
	return true, nil, variant
}

// ---- sub-check "case": keywords and literal type names ------------------------------

var keywords = []string{"select", "insert", "delete", "create", "construct", "deconstruct", "drop", "graph", "data", "into",
	"from", "where", "optional", "filter", "as", "before", "after", "between", "count", "distinct", "sum", "group", "having",
	"by", "order", "asc", "desc", "limit", "not", "and", "or", "id", "type", "at", "in", "show", "graphs"}

var literalTypes = []string{"bool", "int64", "float64", "text", "blob"}

// contexts a word is placed in; %s is the word.
var keywordContexts = []string{"%s", " %s ", ";%s(", "%s ?a", "select ?a from ?b where { ?s ?p ?o } %s ?a;"}
var typeContexts = []string{`"1"^^type:%s`, `{ "1"^^type:%s }`, `"1"^^type:%s;`, `?o < "1"^^type:%s`}
var markerContexts = []string{`"1"^^%s:int64`, `{ /u<a> "p"@[] "1"^^%s:int64 }`}

type caseCase struct {
	Context string `json:"context"`
	Word    string `json:"word"`
	Variant string `json:"variant"`
}

func caseVariants(w string) []string {
	var idx []int
	for i, r := range w {
		if unicode.IsLetter(r) {
			idx = append(idx, i)
		}
	}
	var out []string
	for m := 1; m < 1<<uint(len(idx)); m++ {
		b := []byte(w)
		for j, i := range idx {
			if m&(1<<uint(j)) != 0 {
				b[i] = byte(unicode.ToUpper(rune(b[i])))
			}
		}
		out = append(out, string(b))
	}
	return out
}

func checkCase(class, context, word, variant string) *failure {
	a := fmt.Sprintf(context, word)
	b := fmt.Sprintf(context, variant)
	ra, rb := lexOnce(a, 0), lexOnce(b, 0)
	c := caseCase{context, word, variant}
	for _, x := range []struct {
		in string
		r  lexRun
	}{{a, ra}, {b, rb}} {
		if ok, shape, detail, _ := lexSpec(x.in, x.r); !ok {
			return &failure{"case", class, shape, fmt.Sprintf("input %q: %s", x.in, detail), c}
		}
	}
	if kindsSig(ra.Toks) != kindsSig(rb.Toks) {
		shape := "token-kinds-change"
		if rb.Toks[len(rb.Toks)-1].Type == lexer.ItemError && ra.Toks[len(ra.Toks)-1].Type != lexer.ItemError {
			shape = "token-kinds-change:becomes-ERROR"
		}
		return &failure{"case", class, shape, fmt.Sprintf("%q lexes to %s\nbut %q lexes to %s", a, showToks(ra.Toks), b, showToks(rb.Toks)), c}
	}
	for k := range ra.Toks {
		if !strings.EqualFold(ra.Toks[k].Text, rb.Toks[k].Text) {
			return &failure{"case", class, "token-text-changes", fmt.Sprintf("%q lexes to %s\nbut %q lexes to %s", a, showToks(ra.Toks), b, showToks(rb.Toks)), c}
		}
	}
	return nil
}

// ---- sub-check "printed": printed forms of values -----------------------------------

type printedCase struct {
	Kind    string `json:"value_kind"` // node | blank | binding | predicate | temporal | bound | text | blob | int64 | float64 | bool
	Arg     string `json:"arg"`
	Context string `json:"context"`
}

// The last three contexts put runes whose lower-case form has another UTF-8
// length (Kelvin sign 3->1 bytes, U+0130 2->1, U+023A 2->3) in FRONT of the
// printed form: any offset computed on a case-folded copy of the input is then
// off by the time the lexer reaches the form.
var printedContexts = []string{"%s", "{ %s }", "%s.", "%s;", "%s,", "(%s)", " %s\n",
	"/t<\u212a> %s", "/t<\u0130\u0130> %s ;", "\"\u023a\u023a\u023a\u023a\u023a\u023a\"@[] %s"}

var idAlphabet = []string{"a", " ", `\`, "<", ">", `"`, "@", "[", "]", "^", ":", ",", "/", "?", ";", "_", "(", ".", "é", "\u212a", "\u0130", "\ufffd", "\xff"}

var (
	t1 = time.Date(2006, 1, 2, 15, 4, 5, 999999999, time.UTC)
	t2 = time.Date(2016, 2, 1, 0, 0, 0, 0, time.FixedZone("", -8*3600))
)

// printedForm builds the value through the real constructors and prints it.
// ok=false: the constructor refuses the argument (not a value) or the case is
// outside the property (embedded double quote).
func printedForm(kind, arg string) (text string, want lexer.TokenType, ok bool) {
	switch kind {
	case "node":
		n, err := node.NewNodeFromStrings("/t", arg)
		if err != nil {
			return "", 0, false
		}
		return n.String(), lexer.ItemNode, true
	case "nodetype":
		n, err := node.NewNodeFromStrings("/"+arg, "a")
		if err != nil {
			return "", 0, false
		}
		return n.String(), lexer.ItemNode, true
	case "blank":
		if !isLabel(arg) {
			return "", 0, false
		}
		return "_:" + arg, lexer.ItemBlankNode, true
	case "binding":
		if !isName(arg) {
			return "", 0, false
		}
		return "?" + arg, lexer.ItemBinding, true
	case "predicate":
		p, err := predicate.NewImmutable(arg)
		if err != nil {
			return "", 0, false
		}
		return p.String(), lexer.ItemPredicate, true
	case "temporal":
		p, err := predicate.NewTemporal(arg, t1)
		if err != nil {
			return "", 0, false
		}
		return p.String(), lexer.ItemPredicate, true
	case "temporal-zone":
		p, err := predicate.NewTemporal(arg, t2)
		if err != nil {
			return "", 0, false
		}
		return p.String(), lexer.ItemPredicate, true
	case "bound", "bound-lower", "bound-upper", "bound-open":
		p, err := predicate.NewImmutable(arg)
		if err != nil {
			return "", 0, false
		}
		s := p.String() // "id"@[]
		lo, hi := t2.Format(time.RFC3339Nano), t1.Format(time.RFC3339Nano)
		switch kind {
		case "bound-lower":
			hi = ""
		case "bound-upper":
			lo = ""
		case "bound-open":
			lo, hi = "", ""
		}
		return s[:len(s)-1] + lo + "," + hi + "]", lexer.ItemPredicateBound, true
	case "text":
		l, err := literal.DefaultBuilder().Build(literal.Text, arg)
		if err != nil {
			return "", 0, false
		}
		return l.String(), lexer.ItemLiteral, true
	case "blob":
		l, err := literal.DefaultBuilder().Build(literal.Blob, []byte(arg))
		if err != nil {
			return "", 0, false
		}
		return l.String(), lexer.ItemLiteral, true
	}
	return "", 0, false
}

func isLabel(s string) bool {
	for i, r := range s {
		if i == 0 && !unicode.IsLetter(r) {
			return false
		}
		if !unicode.IsLetter(r) && !unicode.IsDigit(r) && r != '_' {
			return false
		}
	}
	return s != ""
}

func isName(s string) bool {
	for _, r := range s {
		if !unicode.IsLetter(r) && !unicode.IsDigit(r) && r != '_' {
			return false
		}
	}
	return s != ""
}

// scalar literals built from values, not from strings
func scalarLiterals() []string {
	var out []string
	b := literal.DefaultBuilder()
	for _, v := range []interface{}{true, false, int64(0), int64(-1), int64(9223372036854775807), int64(-9223372036854775808),
		float64(0), float64(-1.5), float64(1e21), float64(1e-7), float64(3.141592653589793)} {
		var l *literal.Literal
		var err error
		switch x := v.(type) {
		case bool:
			l, err = b.Build(literal.Bool, x)
		case int64:
			l, err = b.Build(literal.Int64, x)
		case float64:
			l, err = b.Build(literal.Float64, x)
		}
		if err == nil {
			out = append(out, l.String())
		}
	}
	return out
}

// printedClass is the input classifier of a printed-form case: the kind of
// value plus every delimiter feature of the argument that matters to the lexer.
func printedClass(kind, arg string) string {
	base := strings.SplitN(kind, "-", 2)[0]
	var feats []string
	switch base {
	case "nodetype":
		base = "node"
		if strings.ContainsAny(arg, "<>") {
			feats = append(feats, "type-contains-angle-bracket")
		}
		if strings.HasSuffix(arg, `\`) {
			feats = append(feats, "type-ends-in-backslash")
		}
	case "predicate", "temporal", "bound":
		base = "predicate-like"
		if strings.HasPrefix(arg, "@[") {
			feats = append(feats, "id-starts-with-@[")
		}
		if strings.HasSuffix(arg, `\`) {
			feats = append(feats, "id-ends-in-backslash")
		}
	case "text":
		if strings.HasSuffix(arg, `\`) {
			feats = append(feats, "ends-in-backslash")
		}
	}
	if len(feats) == 0 {
		return base + ":other"
	}
	return base + ":" + strings.Join(feats, "+")
}

// checkPrinted: text placed in context must contain one token with exactly
// that text and the wanted kind, with the context's own tokens around it.
func checkPrinted(kind, arg, text string, want lexer.TokenType, context string) *failure {
	input := fmt.Sprintf(context, text)
	r := lexOnce(input, 0)
	c := printedCase{kind, arg, context}
	class := printedClass(kind, arg)
	if ok, shape, detail, _ := lexSpec(input, r); !ok {
		return &failure{"printed", class, shape, fmt.Sprintf("input %q: %s", input, detail), c}
	}
	// expected stream: tokens of the context with the slot replaced by (want, text)
	ref := contextTokens(context)
	if len(r.Toks) != len(ref) {
		return &failure{"printed", class, printedShape(r.Toks), fmt.Sprintf("printed form %s in %q lexes to %s", text, input, showToks(r.Toks)), c}
	}
	for i := range ref {
		if ref[i].Type == lexer.ItemBinding && ref[i].Text == "?x" {
			if r.Toks[i].Type != want {
				return &failure{"printed", class, printedShape(r.Toks), fmt.Sprintf("printed form %s in %q lexes to %s, want %s", text, input, showToks(r.Toks), want), c}
			}
			if r.Toks[i].Text != text {
				return &failure{"printed", class, printedShape(r.Toks), fmt.Sprintf("printed form %s in %q lexes to %s", text, input, showToks(r.Toks)), c}
			}
			continue
		}
		if r.Toks[i].Type != ref[i].Type {
			return &failure{"printed", class, printedShape(r.Toks), fmt.Sprintf("printed form %s in %q lexes to %s", text, input, showToks(r.Toks)), c}
		}
	}
	return nil
}

// printedShape: how a printed form failed to be one token with that text.
func printedShape(ts []lexer.Token) string {
	if ts[len(ts)-1].Type == lexer.ItemError {
		return "lexes-to-ERROR"
	}
	return "split-or-altered-without-error"
}

var ctxCache sync.Map

// contextTokens lexes the context with the harmless binding ?x in the slot.
func contextTokens(context string) []lexer.Token {
	if v, ok := ctxCache.Load(context); ok {
		return v.([]lexer.Token)
	}
	t := lexOnce(fmt.Sprintf(context, "?x"), 0).Toks
	ctxCache.Store(context, t)
	return t
}

// ---- enumeration helpers --------------------------------------------------------------

func stringsUpTo(letters []string, n int, f func(string)) {
	var rec func(prefix string, left int)
	rec = func(prefix string, left int) {
		f(prefix)
		if left == 0 {
			return
		}
		for _, l := range letters {
			rec(prefix+l, left-1)
		}
	}
	rec("", n)
}

func pow(b, e int) int {
	r := 1
	for i := 0; i < e; i++ {
		r *= b
	}
	return r
}

// nth returns the i-th string (in length-then-lexicographic order) of at most
// n letters, so the space can be split over workers without materialising it.
func nth(letters []string, i int) string {
	k := len(letters)
	length := 0
	for c := 1; i >= c; c *= k {
		i -= c
		length++
	}
	parts := make([]string, length)
	for p := length - 1; p >= 0; p-- {
		parts[p] = letters[i%k]
		i /= k
	}
	return strings.Join(parts, "")
}

func spaceSize(k, n int) int {
	t := 0
	for l := 0; l <= n; l++ {
		t += pow(k, l)
	}
	return t
}

func report(r *common.Run, fs []failure) {
	for _, f := range fs {
		r.Fail(common.Failure{Check: f.check, Class: f.class, Shape: f.shape, Case: f.c, Detail: f.detail})
	}
}

func main() {
	debug.SetGCPercent(800)
	r := common.Start("C16", "model_checking")
	theRun = r
	installHooks()
	go watchdog()

	r.Replayer("raw", func(raw json.RawMessage) (bool, string) {
		var c rawCase
		json.Unmarshal(raw, &c)
		fs, base, _ := checkRaw(c.Input, c.Caps)
		if len(fs) > 0 {
			return false, fs[0].detail
		}
		return true, fmt.Sprintf("%q -> %s", c.Input, showToks(base.Toks))
	})
	r.Replayer("ws", func(raw json.RawMessage) (bool, string) {
		var c wsCase
		json.Unmarshal(raw, &c)
		fs, base, spans := checkRaw(c.Input, []int{0})
		if len(fs) > 0 {
			return false, fs[0].detail
		}
		app, f, variant := checkWS(c.Input, base.Toks, spans, c.Gap, c.WS, 0)
		if !app {
			return true, "gap not applicable any more (tokens changed): " + showToks(base.Toks)
		}
		if f != nil {
			return false, f.detail
		}
		return true, fmt.Sprintf("%q and %q lex alike", c.Input, variant)
	})
	r.Replayer("adjacent", func(raw json.RawMessage) (bool, string) {
		var c struct {
			Keyword string `json:"keyword"`
			Next    string `json:"next_token_text"`
		}
		if err := json.Unmarshal(raw, &c); err != nil {
			return false, err.Error()
		}
		a, b := lexOnce(c.Keyword+" "+c.Next, 0), lexOnce(c.Keyword+c.Next, 0)
		return sameKindsAndTexts(a.Toks, b.Toks), fmt.Sprintf("%q lexes to %s; %q lexes to %s", c.Keyword+" "+c.Next, showToks(a.Toks), c.Keyword+c.Next, showToks(b.Toks))
	})
	r.Replayer("case", func(raw json.RawMessage) (bool, string) {
		var c caseCase
		json.Unmarshal(raw, &c)
		if f := checkCase("replay", c.Context, c.Word, c.Variant); f != nil {
			return false, f.detail
		}
		return true, fmt.Sprintf("%q and %q lex alike", fmt.Sprintf(c.Context, c.Word), fmt.Sprintf(c.Context, c.Variant))
	})
	r.Replayer("printed", func(raw json.RawMessage) (bool, string) {
		var c printedCase
		json.Unmarshal(raw, &c)
		text, want, ok := printedText(c.Kind, c.Arg)
		if !ok {
			return true, "the constructor refuses this argument now"
		}
		if f := checkPrinted(c.Kind, c.Arg, text, want, c.Context); f != nil {
			return false, f.detail
		}
		return true, fmt.Sprintf("%s is one %s token in %q", text, want, fmt.Sprintf(c.Context, text))
	})
	r.MaybeReplay()

	r.Assume("tokens carry no position: 'non-overlapping substrings in left-to-right order' is decided by leftmost greedy matching of the token texts, which is complete for that question")
	r.Assume("termination = at most 64*(len+8) calls of next() per lex, counted by an instrumented copy of lexer.go (go build -overlay); channel closure = the producer's exit notification arrives and the channel is closed; a 60 s watchdog exists only to turn an invisible hang into a machinery error")
	r.Assume("whitespace clause: only gaps between two non-terminal tokens that are empty or pure whitespace are varied (the lexer drops some junk between tokens; such gaps are counted and left alone)")
	r.Assume("printed forms are built with the real constructors (node, predicate, literal) over a delimiter alphabet; arguments containing a double quote are excluded and counted (the property excludes them)")

	n := r.Pick(4, 5)
	if s := os.Getenv("C16_N"); s != "" {
		fmt.Sscanf(s, "%d", &n)
	}
	total := spaceSize(len(alphabet), n)
	r.Set("alphabet", alphabet)
	r.Set("max_letters", n)
	r.Set("capacities", capacities)

	// 1+2: raw strings at every capacity, and the whitespace clause on each.
	var lexes, wsVariants, junkGaps, multiTok, errStreams int64
	allSigs := map[string]int{}
	allKinds := map[lexer.TokenType]bool{}
	const chunk = 512
	nchunks := (total + chunk - 1) / chunk
	var stopped int32
	var done int64
	common.ParallelFor(nchunks, func(ci int) {
		if atomic.LoadInt32(&stopped) != 0 {
			return
		}
		if r.OutOfTime() {
			atomic.StoreInt32(&stopped, 1)
			return
		}
		my, mk := map[string]int{}, map[lexer.TokenType]bool{}
		for i := ci * chunk; i < (ci+1)*chunk && i < total; i++ {
			s := nth(alphabet, i)
			watch(ci, s)
			fs, base, spans := checkRaw(s, capacities)
			atomic.AddInt64(&lexes, int64(len(capacities)))
			if len(fs) > 0 {
				report(r, fs)
			}
			if base.Toks == nil {
				continue
			}
			my[kindsSig(base.Toks)]++
			for _, t := range base.Toks {
				mk[t.Type] = true
			}
			if len(base.Toks) > 2 {
				atomic.AddInt64(&multiTok, 1)
			}
			if base.Toks[len(base.Toks)-1].Type == lexer.ItemError {
				atomic.AddInt64(&errStreams, 1)
			}
			for g := 0; g+1 < len(base.Toks)-1; g++ {
				if !isSpaceOnly(s[spans[g].end:spans[g+1].start]) {
					atomic.AddInt64(&junkGaps, 1)
					continue
				}
				for wi, ws := range wsRuns {
					app, f, _ := checkWS(s, base.Toks, spans, g, ws, capacities[(i+wi)%len(capacities)])
					if app {
						atomic.AddInt64(&wsVariants, 1)
						atomic.AddInt64(&lexes, 1)
					}
					if f != nil {
						report(r, []failure{*f})
					}
				}
			}
			atomic.AddInt64(&done, 1)
		}
		unwatch(ci)
		// merge
		mergeMu.Lock()
		for k, v := range my {
			allSigs[k] += v
		}
		for k := range mk {
			allKinds[k] = true
		}
		mergeMu.Unlock()
	})
	r.Set("raw_strings", int(done))
	r.Set("raw_space", total)
	r.Set("raw_strings_with_2plus_tokens", int(multiTok))
	r.Set("raw_streams_ending_in_ERROR", int(errStreams))
	r.Set("distinct_kind_sequences", len(allSigs))
	r.Set("whitespace_variants", int(wsVariants))
	r.Set("gaps_with_dropped_junk_skipped", int(junkGaps))
	if int(done) < total {
		r.SetCapped()
	}

	// 3: letter case, exhaustively over all case patterns of every keyword / type name.
	caseEvals := 0
	type job struct{ class, ctx, word, variant string }
	var jobs []job
	for _, k := range keywords {
		for _, v := range caseVariants(k) {
			for _, ctx := range keywordContexts {
				jobs = append(jobs, job{"keyword:" + k, ctx, k, v})
			}
		}
	}
	for _, k := range literalTypes {
		for _, v := range caseVariants(k) {
			for _, ctx := range typeContexts {
				jobs = append(jobs, job{"literal-type-name:" + k, ctx, k, v})
			}
		}
	}
	for _, v := range caseVariants("type") {
		for _, ctx := range markerContexts {
			jobs = append(jobs, job{"literal-type-marker", ctx, "type", v})
		}
	}
	common.ParallelFor(len(jobs), func(i int) {
		j := jobs[i]
		watch(i, fmt.Sprintf(j.ctx, j.variant))
		if f := checkCase(j.class, j.ctx, j.word, j.variant); f != nil {
			report(r, []failure{*f})
		}
		unwatch(i)
	})
	caseEvals = len(jobs)
	atomic.AddInt64(&lexes, int64(2*len(jobs)))
	r.Set("case_variants", caseEvals)

	// 3b: a keyword needs no whitespace before a token that does not start with a letter (a keyword is a run of
	// letters): with and without the blank, the two tokens are the same.
	type adjCase struct {
		Keyword string `json:"keyword"`
		Next    string `json:"next_token_text"`
	}
	nexts := []string{timestamp, "?x", "/u<a>", `"p"@[]`, `"1"^^type:int64`, "_:v", "(", ")", "{", "}", ";", ",", ".", "=", "<", ">", "1", "_"}
	var adjEvals int64
	for ki, kw := range keywords {
		for _, word := range []string{kw, strings.ToUpper(kw), strings.ToUpper(kw[:1]) + kw[1:]} {
			for _, nx := range nexts {
				watch(ki, word+nx)
				a, b := lexOnce(word+" "+nx, 0), lexOnce(word+nx, 0)
				adjEvals++
				if !sameKindsAndTexts(a.Toks, b.Toks) {
					report(r, []failure{{"adjacent", "keyword-then:" + nx[:1], "tokens-change-when-the-blank-is-removed",
						fmt.Sprintf("%q lexes to %s\nbut %q lexes to %s", word+" "+nx, showToks(a.Toks), word+nx, showToks(b.Toks)), adjCase{word, nx}}})
				}
			}
		}
		unwatch(ki)
	}
	atomic.AddInt64(&lexes, 2*adjEvals)
	r.Set("keyword_adjacency_pairs", int(adjEvals))

	// 4: printed forms.
	idLen := r.Pick(2, 3)
	var args []string
	stringsUpTo(idAlphabet, idLen, func(s string) {
		if s != "" {
			args = append(args, s)
		}
	})
	type pjob struct {
		kind, arg, text string
		want            lexer.TokenType
	}
	var pjobs []pjob
	quoted := 0
	for _, kind := range []string{"node", "nodetype", "blank", "binding", "predicate", "temporal", "temporal-zone", "bound", "bound-lower", "bound-upper", "bound-open", "text", "blob"} {
		for _, a := range args {
			if strings.Contains(a, `"`) {
				quoted++ // outside the property: "without embedded double quotes"
				continue
			}
			if text, want, ok := printedText(kind, a); ok {
				pjobs = append(pjobs, pjob{kind, a, text, want})
			}
		}
	}
	// text values that span lines (a literal is printed raw): still one token
	for _, a := range []string{"a\nb", "\n", "a\n", "\nb", "a\n\nb", "a\tb", "a\r\nb"} {
		if text, want, ok := printedText("text", a); ok {
			pjobs = append(pjobs, pjob{"text", a, text, want})
		}
	}
	for _, s := range scalarLiterals() {
		pjobs = append(pjobs, pjob{"scalar", s, s, lexer.ItemLiteral})
	}
	var printedEvals int64
	common.ParallelFor(len(pjobs), func(i int) {
		j := pjobs[i]
		for _, ctx := range printedContexts {
			watch(i, fmt.Sprintf(ctx, j.text))
			if f := checkPrinted(j.kind, j.arg, j.text, j.want, ctx); f != nil {
				report(r, []failure{*f})
			}
			atomic.AddInt64(&printedEvals, 1)
		}
		unwatch(i)
	})
	atomic.AddInt64(&lexes, 2*printedEvals)
	r.Set("printed_values", len(pjobs))
	r.Set("printed_arguments_excluded_for_double_quote", quoted)
	r.Set("printed_evaluations", int(printedEvals))
	r.Set("printed_id_alphabet", idAlphabet)
	r.Set("printed_id_max_len", idLen)

	var ks []string
	for k := range allKinds {
		ks = append(ks, k.String())
	}
	sort.Strings(ks)
	r.Set("token_kinds_seen_in_raw_enumeration", len(ks))
	r.Set("max_next_calls_per_100_bytes_plus_8", int(atomic.LoadInt64(&maxRatio)))
	r.Set("states", int(done)+caseEvals+int(printedEvals))
	r.Set("transitions", int(lexes))
	r.Set("traces_validated_against_impl", int(lexes))
	r.Set("evaluations", int(lexes))
	r.Set("distinct_nontrivial", int(multiTok))
	r.Set("rule", fmt.Sprintf("every string of at most %d letters over the %d-letter alphabet x capacities %v (LexSpec + identical streams), every whitespace-only gap between two tokens x %d whitespace runs, every case pattern of every keyword and literal type name in %d contexts, printed forms over all argument strings of at most %d letters in %d contexts; distinct_nontrivial = enumerated strings whose stream has at least two non-terminal tokens",
		n, len(alphabet), capacities, len(wsRuns), len(keywordContexts), idLen, len(printedContexts)))
	r.Sample(map[string]interface{}{"input": "filter s(", "tokens": showToks(lexOnce("filter s(", 0).Toks)})
	r.Sample(map[string]interface{}{"input": `"s"^^type:int64`, "tokens": showToks(lexOnce(`"s"^^type:int64`, 0).Toks)})
	r.Sample(map[string]interface{}{"input": "before1,\n1;", "tokens": showToks(lexOnce("before1,\n1;", 0).Toks)})
	r.Sample(map[string]interface{}{"input": nth(alphabet, total-12345), "tokens": showToks(lexOnce(nth(alphabet, total-12345), 0).Toks)})
	r.Finish()
}

var mergeMu sync.Mutex

// printedText covers printedForm plus the scalar literals (arg is the text).
func printedText(kind, arg string) (string, lexer.TokenType, bool) {
	if kind == "scalar" {
		return arg, lexer.ItemLiteral, true
	}
	return printedForm(kind, arg)
}
