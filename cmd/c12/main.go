// C12 — ORDER BY returns a correctly sorted permutation; LIMIT its first n rows.
//
// Exhaustive enumeration over: result columns of each single kind (int64 with
// negatives, float64 with fractions / negatives / 1e21, anchors in three zones
// and four precisions, text, node, predicate, extracted ids), every key list of
// length <= 2 (+ repeated keys, aliases, aggregate outputs) with ASC/DESC,
// every LIMIT from 0 to N+1, invalid limits, one- and two-clause patterns and
// patterns that drop rows. The oracle never predicts "the" order: it checks
// that the result is a permutation of the specified rows (bqlm.EvalRows),
// that adjacent rows are ordered under the per-kind comparator, and that a
// LIMIT keeps a valid top-n.
package main

import (
	"encoding/json"
	"fmt"
	"sort"
	"strings"
	"sync"
	"sync/atomic"

	"github.com/google/badwolf/triple"
	"github.com/google/badwolf/triple/literal"

	"verif/bqlm"
	"verif/common"
	"verif/model"
)

func bt(n string) bqlm.Term            { return bqlm.Term{Kind: bqlm.Bind, Name: n} }
func pc(id string) bqlm.Term           { return bqlm.Term{Kind: bqlm.Const, P: model.PI(id)} }
func cl(s, p, o bqlm.Term) bqlm.Clause { return bqlm.Clause{S: s, P: p, O: o} }
func pj(b string) bqlm.Proj            { return bqlm.Proj{Binding: b} }
func pja(b, a string) bqlm.Proj        { return bqlm.Proj{Binding: b, Alias: a} }

type base struct {
	name  string
	where []bqlm.Clause
	proj  []bqlm.Proj
	group []string
	keys  []string // candidate ORDER BY keys (output names), single-kind columns
	two   bool     // the data is split over two graphs, both listed in FROM
}

func bases() []base {
	var out []base
	for _, id := range []string{"ki", "kf", "kt", "kn", "kp"} {
		out = append(out, base{name: id, where: []bqlm.Clause{cl(bt("?s"), pc(id), bt("?v"))}, proj: []bqlm.Proj{pj("?s"), pj("?v")}, keys: []string{"?v", "?s"}})
	}
	// anchor binding: the clause has no constant component, so the driver streams the whole graph
	out = append(out, base{name: "time", where: []bqlm.Clause{cl(bt("?s"), bqlm.Term{Kind: bqlm.AnchorBind, ID: "t", Name: "?v"}, bt("?o"))}, proj: []bqlm.Proj{pj("?s"), pj("?v")}, keys: []string{"?v", "?s"}})
	// AT extraction
	out = append(out, base{name: "at", where: []bqlm.Clause{cl(bt("?s"), bqlm.Term{Kind: bqlm.Bind, Name: "?p", AtAlias: "?v"}, bt("?o"))}, proj: []bqlm.Proj{pj("?s"), pj("?v")}, keys: []string{"?v", "?s"}})
	// row dropping extraction over the whole graph: TYPE keeps node objects only; keys are strings
	out = append(out, base{name: "type", where: []bqlm.Clause{cl(bt("?s"), bt("?p"), bqlm.Term{Kind: bqlm.Bind, Name: "?o", TypeAlias: "?ty", IDAlias: "?id"})}, proj: []bqlm.Proj{pj("?s"), pj("?id"), pj("?ty")}, keys: []string{"?id", "?ty", "?s"}})
	// whole graph, ordered by subject and predicate (single kinds)
	out = append(out, base{name: "all", where: []bqlm.Clause{cl(bt("?s"), bt("?p"), bt("?o"))}, proj: []bqlm.Proj{pj("?s"), pj("?p")}, keys: []string{"?s", "?p"}})
	// aliases
	out = append(out, base{name: "alias", where: []bqlm.Clause{cl(bt("?s"), pc("ki"), bt("?v"))}, proj: []bqlm.Proj{pja("?s", "?a"), pja("?v", "?b")}, keys: []string{"?b", "?a"}})
	// two clauses
	out = append(out, base{name: "join", where: []bqlm.Clause{cl(bt("?s"), pc("ki"), bt("?v")), cl(bt("?s"), pc("kf"), bt("?w"))}, proj: []bqlm.Proj{pj("?s"), pj("?v"), pj("?w")}, keys: []string{"?w", "?v"}})
	// the data split over two FROM graphs (disjoint halves: multiplicities are defined)
	out = append(out, base{name: "all-two-graphs", two: true, where: []bqlm.Clause{cl(bt("?s"), bt("?p"), bt("?o"))}, proj: []bqlm.Proj{pj("?s"), pj("?p")}, keys: []string{"?s", "?p"}})
	out = append(out, base{name: "ki-two-graphs", two: true, where: []bqlm.Clause{cl(bt("?s"), pc("ki"), bt("?v"))}, proj: []bqlm.Proj{pj("?s"), pj("?v")}, keys: []string{"?v", "?s"}})
	// aggregate outputs
	out = append(out, base{name: "agg", where: []bqlm.Clause{cl(bt("?s"), pc("kn"), bt("?v"))}, proj: []bqlm.Proj{pj("?v"), {Binding: "?s", Op: "count", Alias: "?c"}}, group: []string{"?v"}, keys: []string{"?c", "?v"}})
	// grouping over a pattern of three plain bindings (the only pattern whose LIMIT may be handed to the driver — not when it groups)
	out = append(out, base{name: "agg-all", where: []bqlm.Clause{cl(bt("?s"), bt("?p"), bt("?o"))}, proj: []bqlm.Proj{pj("?s"), {Binding: "?o", Op: "count", Alias: "?c"}, {Binding: "?p", Op: "count", Distinct: true, Alias: "?d"}}, group: []string{"?s"}, keys: []string{"?s", "?c"}})
	// two grouping keys listed in GROUP BY in another order than in the SELECT list (the text column does not order the
	// subjects the way the int64 column does)
	out = append(out, base{name: "agg2", where: []bqlm.Clause{cl(bt("?s"), pc("ki"), bt("?v")), cl(bt("?s"), pc("kt"), bt("?w"))}, proj: []bqlm.Proj{pj("?v"), pj("?w"), {Binding: "?s", Op: "count", Alias: "?c"}}, group: []string{"?w", "?v"}, keys: []string{"?w", "?v"}})
	out = append(out, base{name: "aggsum", where: []bqlm.Clause{cl(bt("?s"), bt("?p"), bt("?o")), cl(bt("?s"), pc("ki"), bt("?n"))}, proj: []bqlm.Proj{pj("?p"), {Binding: "?n", Op: "sum", Alias: "?sum"}}, group: []string{"?p"}, keys: []string{"?sum"}}) // ?p is not a key here: a group merging one instant written in two zones has no single printed form
	return out
}

func keyLists(ks []string) [][]bqlm.Key {
	var out [][]bqlm.Key
	out = append(out, nil) // no ORDER BY
	for _, d1 := range []int{0, 1, 2} {
		k1 := bqlm.Key{Binding: ks[0], Desc: d1 == 1, Explicit: d1 == 2}
		out = append(out, []bqlm.Key{k1})
		for _, k2n := range ks[1:] {
			for _, d2 := range []bool{false, true} {
				out = append(out, []bqlm.Key{k1, {Binding: k2n, Desc: d2}})
				if d1 != 2 {
					out = append(out, []bqlm.Key{{Binding: k2n, Desc: d2}, k1})
				}
			}
		}
	}
	// repeated keys (consistent direction): meaning = first occurrences in sequence
	if len(ks) > 1 {
		a, b := bqlm.Key{Binding: ks[0]}, bqlm.Key{Binding: ks[1]}
		out = append(out, []bqlm.Key{a, a}, []bqlm.Key{a, b, a}, []bqlm.Key{b, a, b})
		ad := bqlm.Key{Binding: ks[0], Desc: true}
		out = append(out, []bqlm.Key{ad, b, ad})
	}
	return out
}

func lit(n int) string { return fmt.Sprintf("%q^^type:int64", fmt.Sprint(n)) }

type kase struct {
	Text string `json:"statement"`
	Gen  string `json:"gen"`
}

// effective key list: first occurrences in sequence.
func effective(ks []bqlm.Key) []bqlm.Key {
	var out []bqlm.Key
	seen := map[string]bool{}
	for _, k := range ks {
		if !seen[k.Binding] {
			seen[k.Binding] = true
			out = append(out, k)
		}
	}
	return out
}

// cmpRows compares two rows under the key list; ok=false when some key compares
// values of different kinds (the property says nothing then).
func cmpRows(a, b bqlm.ORow, cols []string, ks []bqlm.Key) (int, bool) {
	for _, k := range ks {
		idx := -1
		for i, c := range cols {
			if c == k.Binding {
				idx = i
			}
		}
		if idx < 0 {
			return 0, false
		}
		va, vb := a[idx], b[idx]
		if bqlm.SortKind(va) != bqlm.SortKind(vb) {
			return 0, false
		}
		c := bqlm.CompareVals(va, vb)
		if k.Desc {
			c = -c
		}
		if c != 0 {
			return c, true
		}
	}
	return 0, true
}

func contains(hay, needle []string) bool { // sub-multiset; both sorted
	i := 0
	for _, n := range needle {
		for i < len(hay) && hay[i] < n {
			i++
		}
		if i >= len(hay) || hay[i] != n {
			return false
		}
		i++
	}
	return true
}

type verdict struct {
	ok              bool
	class, shape    string
	detail, outcome string
}

func classify(q *bqlm.Query, limit int, hasLimit bool) string {
	var fs []string
	if len(q.OrderBy) > 0 {
		fs = append(fs, "order-by")
	}
	seen := map[string]bool{}
	for _, k := range q.OrderBy {
		if seen[k.Binding] {
			fs = append(fs, "repeated-key")
			break
		}
		seen[k.Binding] = true
	}
	if hasLimit {
		fs = append(fs, "limit")
		if len(q.Where) == 1 && len(q.GroupBy) == 0 {
			c := q.Where[0]
			if c.S.Kind != bqlm.Const && c.P.Kind != bqlm.Const && c.O.Kind != bqlm.Const {
				fs = append(fs, "single-clause-without-constants")
			}
		}
	}
	return strings.Join(fs, ",")
}

func check(b base, ks []bqlm.Key, limit int, hasLimit bool, data []*triple.Triple, hv *bqlm.Expr) verdict {
	q := &bqlm.Query{From: []string{"?g"}, Where: b.where, Proj: b.proj, GroupBy: b.group, OrderBy: ks}
	if hv != nil {
		q.Having = hv.Render()
	}
	if hasLimit {
		q.Limit = lit(limit)
	}
	v := verdict{class: classify(q, limit, hasLimit)}
	graphs := map[string][]*triple.Triple{"?g": data}
	if b.two {
		q.From = []string{"?g", "?h"}
		var ev, od []*triple.Triple
		for i, t := range data {
			if i%2 == 0 {
				ev = append(ev, t)
			} else {
				od = append(od, t)
			}
		}
		graphs = map[string][]*triple.Triple{"?g": ev, "?h": od}
		v.class = strings.TrimPrefix(v.class+",two-from-graphs", ",")
	}
	full, err := bqlm.EvalRows(q, data)
	if err != nil {
		common.Machinery("reference evaluator: %v on %s", err, q.Render())
	}
	cols := q.OutCols()
	if hv != nil { // HAVING decides which rows qualify; ORDER BY and LIMIT apply to those
		var kept []bqlm.ORow
		for _, r := range full {
			row := map[string]bqlm.Val{}
			for i, c := range cols {
				row[c] = r[i]
			}
			if keep, _ := hv.Eval(row); keep {
				kept = append(kept, r)
			}
		}
		full = kept
		v.class = strings.TrimPrefix(v.class+",having", ",")
	}
	fullKeys := bqlm.KeysOfRows(full, cols)
	res := bqlm.Exec(bqlm.NewStore(graphs), q.Render(), 0, 0, cols)
	text := q.Render()
	if res.Stage != "" {
		v.shape = res.Stage + ":" + short(res.Err)
		if res.Stage == "panic" {
			v.shape = "panic@" + res.Stack
		}
		v.detail = fmt.Sprintf("%s\n %s: %s", text, res.Stage, res.Err)
		v.outcome = res.Stage
		return v
	}
	var got []bqlm.ORow
	for _, cs := range res.Cells {
		got = append(got, bqlm.ORow(cs))
	}
	gotKeys := bqlm.KeysOfRows(got, cols)
	N := len(full)
	want := N
	if hasLimit && limit < N {
		want = limit
	}
	v.outcome = fmt.Sprintf("rows=%d/%d", len(got), N)
	fail := func(shape, why string) verdict {
		v.shape = shape
		var gs []string
		for _, r := range got {
			gs = append(gs, r.Key(cols))
		}
		v.detail = fmt.Sprintf("%s\n %s\n specified rows (%d): %v\n returned in order (%d): %v", text, why, N, fullKeys, len(got), gs)
		return v
	}
	if len(got) != want {
		if len(got) < want {
			return fail("too-few-rows", fmt.Sprintf("expected min(n,N)=%d rows", want))
		}
		return fail("too-many-rows", fmt.Sprintf("expected min(n,N)=%d rows", want))
	}
	if !contains(fullKeys, gotKeys) {
		return fail("rows-not-among-the-qualifying-rows", "the returned rows are not a sub-multiset of the rows the query specifies")
	}
	eks := effective(ks)
	// adjacent rows ordered
	for i := 0; i+1 < len(got); i++ {
		c, ok := cmpRows(got[i], got[i+1], cols, eks)
		if ok && c > 0 {
			return fail("not-sorted:"+kindOfKey(got[i], cols, eks), fmt.Sprintf("rows %d and %d are out of order", i, i+1))
		}
	}
	// a LIMIT under ORDER BY keeps a valid top-n: every omitted row >= the last kept row
	if hasLimit && len(eks) > 0 && len(got) > 0 && len(got) < N {
		last := got[len(got)-1]
		// omitted = full minus got
		used := map[string]int{}
		for _, k := range gotKeys {
			used[k]++
		}
		for _, r := range full {
			k := r.Key(cols)
			if used[k] > 0 {
				used[k]--
				continue
			}
			c, ok := cmpRows(last, r, cols, eks)
			if ok && c > 0 {
				return fail("limit-not-the-first-rows-of-the-order", fmt.Sprintf("omitted row %s sorts before the last kept row", k))
			}
		}
	}
	v.ok = true
	return v
}

// havings: same-kind comparisons of the first key column with its median value (so that each
// of <, >, NOT = keeps a proper, non-empty part of the rows), index 0 = no HAVING.
func havings(b base, data []*triple.Triple) []*bqlm.Expr {
	out := []*bqlm.Expr{nil}
	q := &bqlm.Query{Where: b.where, Proj: b.proj, GroupBy: b.group}
	full, err := bqlm.EvalRows(q, data)
	if err != nil || len(full) == 0 || b.name == "alias" {
		return out
	}
	cols := q.OutCols()
	col := b.keys[0]
	idx := -1
	for i, c := range cols {
		if c == col {
			idx = i
		}
	}
	var vs []bqlm.Val
	for _, r := range full {
		if bqlm.SortKind(r[idx]) != bqlm.SortKind(full[0][idx]) {
			return out
		}
		vs = append(vs, r[idx])
	}
	sort.SliceStable(vs, func(i, j int) bool { return bqlm.CompareVals(vs[i], vs[j]) < 0 })
	m := vs[len(vs)/2]
	var op bqlm.Operand
	switch m.Kind {
	case 'L':
		op = bqlm.Operand{Text: m.L.String(), V: m}
	case 'N':
		op = bqlm.Operand{Text: m.N.String(), V: m}
	case 'P':
		op = bqlm.Operand{Text: m.P.String(), V: m}
	case 'T':
		op = bqlm.Operand{Text: bqlm.FmtTime(m.T), V: m}
	case 'S':
		l := model.L(literal.Text, m.S)
		op = bqlm.Operand{Text: l.String(), V: bqlm.Val{Kind: 'L', L: l}}
	default:
		return out
	}
	cmp := func(o string) *bqlm.Expr { return &bqlm.Expr{Kind: "cmp", Left: col, Op: o, Right: op} }
	out = append(out, &bqlm.Expr{Kind: "not", A: cmp("=")})
	if m.Kind == 'N' || m.Kind == 'P' {
		return append(out, cmp("="))
	}
	return append(out, cmp("<"), cmp(">"))
}

func kindOfKey(r bqlm.ORow, cols []string, ks []bqlm.Key) string {
	var out []string
	for _, k := range ks {
		for i, c := range cols {
			if c == k.Binding {
				out = append(out, bqlm.SortKind(r[i]))
			}
		}
	}
	return strings.Join(out, "+")
}

func short(e string) string {
	for _, cut := range []string{"limit required an int64", "failed to parse limit literal", "limit clause required", "makeslice", "index out of range", "invalid memory address"} {
		if strings.Contains(e, cut) {
			return cut
		}
	}
	if len(e) > 50 {
		e = e[:50]
	}
	return e
}

// invalid limits must be rejected with an error.
func checkInvalidLimits(r *common.Run, data []*triple.Triple, evals *int64) {
	st := bqlm.NewStore(map[string][]*triple.Triple{"?g": data})
	for i, l := range []string{`"-1"^^type:int64`, `"-9223372036854775808"^^type:int64`, `"1.5"^^type:float64`, `"2"^^type:float64`, `"2"^^type:text`, `"true"^^type:bool`, `"1"^^type:INT64`, `"99999999999999999999"^^type:int64`} {
		for j, ob := range []string{"", "\n  ORDER BY ?v"} {
			text := "SELECT ?s, ?v\n  FROM ?g\n  WHERE {\n    ?s \"ki\"@[] ?v\n  }" + ob + "\n  LIMIT " + l + ";"
			res := bqlm.Exec(st, text, 0, 0, nil)
			atomic.AddInt64(evals, 1)
			if res.Stage == "parse" || res.Stage == "plan" || res.Stage == "execute" {
				continue
			}
			shape := "accepted"
			if res.Stage == "panic" {
				shape = "panic@" + res.Stack
			}
			r.Fail(common.Failure{Check: "invalid-limit", Class: "limit-not-a-non-negative-int64:" + l, Shape: shape, Case: kase{text, fmt.Sprintf("inv:%d:%d", i, j)}, Detail: fmt.Sprintf("%s\n a limit that is not a non-negative int64 must be rejected with an error; got stage=%q err=%q rows=%d", text, res.Stage, res.Err, len(res.Rows))})
		}
	}
}

// three data variants: full graph, graph without ties, three subjects only.
func dataVariants(data []*triple.Triple) [][]*triple.Triple {
	var noTies, small []*triple.Triple
	for _, t := range data {
		if t.Subject().ID().String() != "n5" {
			noTies = append(noTies, t)
		}
		if id := t.Subject().ID().String(); id == "n0" || id == "n1" || id == "n5" {
			small = append(small, t)
		}
	}
	return [][]*triple.Triple{data, noTies, small}
}

func main() {
	r := common.Start("C12", "model_checking")
	data := bqlm.KindGraph()
	bs := bases()
	replay := func(raw json.RawMessage) (bool, string) {
		var k kase
		json.Unmarshal(raw, &k)
		var bi, ki, lim, hl, hi int
		gen := k.Gen
		d := data
		if strings.HasPrefix(gen, "variant") {
			var vi int
			fmt.Sscanf(gen, "variant%d:", &vi)
			gen = gen[strings.Index(gen, ":")+1:]
			if vs := dataVariants(data); vi < len(vs) {
				d = vs[vi]
			}
		}
		if n, _ := fmt.Sscanf(gen, "q:%d:%d:%d:%d:%d", &bi, &ki, &lim, &hl, &hi); n < 4 {
			res := bqlm.Exec(bqlm.NewStore(map[string][]*triple.Triple{"?g": data}), k.Text, 0, 0, nil)
			return res.Stage == "parse" || res.Stage == "execute", fmt.Sprintf("stage=%q err=%q", res.Stage, res.Err)
		}
		v := check(bs[bi], keyLists(bs[bi].keys)[ki], lim, hl == 1, d, havings(bs[bi], d)[hi])
		return v.ok, v.detail
	}
	r.Replayer("order", replay)
	r.Replayer("invalid-limit", replay)
	r.MaybeReplay()
	type job struct{ bi, ki, lim, hl, hi int }
	var jobs []job
	nh := 0
	for bi, b := range bs {
		q := &bqlm.Query{Where: b.where, Proj: b.proj, GroupBy: b.group}
		full, err := bqlm.EvalRows(q, data)
		if err != nil {
			common.Machinery("reference evaluator: %v", err)
		}
		for ki := range keyLists(b.keys) {
			jobs = append(jobs, job{bi, ki, 0, 0, 0})
			for n := 0; n <= len(full)+1; n++ {
				jobs = append(jobs, job{bi, ki, n, 1, 0})
			}
		}
		// in combination with HAVING: the rows that qualify are the kept ones; every key list, limits
		// around the number of kept rows
		hs := havings(b, data)
		for hi := 1; hi < len(hs); hi++ {
			nh++
			for ki := range keyLists(b.keys) {
				jobs = append(jobs, job{bi, ki, 0, 0, hi})
				for _, n := range []int{0, 1, 2, len(full) / 2, len(full)} {
					jobs = append(jobs, job{bi, ki, n, 1, hi})
				}
			}
		}
	}
	// the same queries over every "prefix" of the data would multiply the cost; instead
	// three data variants: full graph, graph without ties, first three subjects only.
	variants := dataVariants(data)
	if !r.Thorough() {
		variants = variants[:1]
	}
	var evals, nontrivial int64
	var outcomes sync.Map
	for vi, d := range variants {
		dd := d
		common.ParallelFor(len(jobs), func(i int) {
			if r.OutOfTime() {
				return
			}
			j := jobs[i]
			var hv *bqlm.Expr
			if j.hi > 0 {
				hs := havings(bs[j.bi], dd)
				if j.hi >= len(hs) {
					return // this data variant has no such HAVING (empty or mixed-kind column)
				}
				hv = hs[j.hi]
			}
			v := check(bs[j.bi], keyLists(bs[j.bi].keys)[j.ki], j.lim, j.hl == 1, dd, hv)
			atomic.AddInt64(&evals, 1)
			outcomes.Store(v.outcome, true)
			if v.ok && v.outcome != "rows=0/0" {
				atomic.AddInt64(&nontrivial, 1)
			}
			if !v.ok {
				gen := fmt.Sprintf("q:%d:%d:%d:%d:%d", j.bi, j.ki, j.lim, j.hl, j.hi)
				if vi > 0 {
					gen = fmt.Sprintf("variant%d:", vi) + gen
				}
				q := &bqlm.Query{From: []string{"?g"}, Where: bs[j.bi].where, Proj: bs[j.bi].proj, GroupBy: bs[j.bi].group, OrderBy: keyLists(bs[j.bi].keys)[j.ki]}
				if bs[j.bi].two {
					q.From = []string{"?g", "?h"}
				}
				if j.hl == 1 {
					q.Limit = lit(j.lim)
				}
				if hv != nil {
					q.Having = hv.Render()
				}
				r.Fail(common.Failure{Check: "order", Class: v.class, Shape: v.shape, Case: kase{q.Render(), gen}, Detail: v.detail})
			}
		})
	}
	checkInvalidLimits(r, data, &evals)
	r.Set("evaluations", int(evals))
	r.Set("distinct_nontrivial", int(nontrivial))
	r.Set("queries", len(jobs))
	r.Set("having_variants", nh)
	r.Set("data_variants", len(variants))
	n := 0
	var os []string
	outcomes.Range(func(k, v interface{}) bool { n++; os = append(os, k.(string)); return true })
	sort.Strings(os)
	r.Set("distinct_outcomes", n)
	r.Set("states", len(variants))
	r.Set("transitions", int(evals))
	r.Set("traces_validated_against_impl", int(evals))
	r.Set("rule", "every (base query, optional HAVING comparison, ORDER BY key list, LIMIT) over each data variant is one evaluation; non-trivial = accepted and at least one row")
	r.Sample(map[string]interface{}{"statement": (&bqlm.Query{From: []string{"?g"}, Where: bs[5].where, Proj: bs[5].proj, OrderBy: keyLists(bs[5].keys)[7], Limit: lit(3)}).Render()})
	r.Assume("order comparator: int64/float64 numerically, anchors chronologically, every other value by printed form; ties free; keys mixing kinds are not judged")
	r.Assume("a repeated ORDER BY key means its first occurrence; map-iteration nondeterminism inside badwolf is not controlled in this (native) build, see C14 for the scheduled exploration")
	r.Finish()
}
